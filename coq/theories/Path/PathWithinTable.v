(* Dispatch entries (name -> sx wrapper) for Path/Within.v.
   root: 0 srcdir, 1 builddir, 2 absolute.  path: [root comps].  res: [0 root comps] | [1] ValueError | [2] re-parsed. *)
From BFG Require Import Base.Chars Base.Sx Path.Within.
From Coq Require Import String.
Local Open Scope N_scope.

Definition un_root (x : sx) : root :=
  match un_N x with 0 => RSrc | 1 => RBuild | _ => RAbs end.
Definition sx_root (r : root) : sx := A (match r with RSrc => 0 | RBuild => 1 | RAbs => 2 end).
Definition un_path (x : sx) : path := P (un_root (nth_sx 0 x)) (un_strs (nth_sx 1 x)).
Definition sx_res (r : res) : sx :=
  match r with
  | Ok p => L [A 0; sx_root (proot p); sx_list sx_str (pcomps p)]
  | ErrValue => L [A 1]
  | Reparsed => L [A 2]
  end.
Definition sx_emit (r : emit_res) : sx :=
  match r with
  | EOk rules => L [A 0; sx_list (sx_list sx_str) rules]
  | EDup k => L [A 1; sx_str k]
  | EEmpty => L [A 2]
  end.

Definition table : list (string * (sx -> sx)) := [
  (* [fixed d p] *)
  ("within.within", fun a => sx_res (within (un_bool (nth_sx 0 a)) (un_path (nth_sx 1 a)) (un_path (nth_sx 2 a))));
  (* [fixed comps] : the substitution alone *)
  ("within.rwl", fun a => sx_list sx_str (rwl (un_bool (nth_sx 0 a)) (un_strs (nth_sx 1 a))));
  (* [start p] *)
  ("within.relto", fun a => sx_list sx_str (relto (un_strs (nth_sx 0 a)) (un_strs (nth_sx 1 a))));
  (* [basename] *)
  ("within.splitext", fun a => sx_pair sx_str sx_str (splitext (un_str (nth_sx 0 a))));
  (* [path] *)
  ("within.default_name", fun a => sx_res (default_name (un_path (nth_sx 0 a))));
  (* [fixed (opt d) s] *)
  ("within.object_of", fun a => sx_res (object_of (un_bool (nth_sx 0 a)) (un_opt un_path (nth_sx 1 a)) (un_path (nth_sx 2 a))));
  ("within.copy_output", fun a => sx_res (copy_output (un_bool (nth_sx 0 a)) (un_opt un_path (nth_sx 1 a)) (un_path (nth_sx 2 a))));
  (* [strict base abs raw] *)
  ("within.buildpath", fun a => sx_res (buildpath (un_bool (nth_sx 0 a)) (un_strs (nth_sx 1 a)) (un_bool (nth_sx 2 a)) (un_strs (nth_sx 3 a))));
  (* [base abs raw] *)
  ("within.relname", fun a => sx_res (relname (un_strs (nth_sx 0 a)) (un_bool (nth_sx 1 a)) (un_strs (nth_sx 2 a))));
  (* [fixed intermediate base prefix abs name_raw s] *)
  ("within.link_object", fun a => sx_res (link_object (un_bool (nth_sx 0 a)) (un_bool (nth_sx 1 a)) (un_strs (nth_sx 2 a))
                                            (un_str (nth_sx 3 a)) (un_bool (nth_sx 4 a)) (un_strs (nth_sx 5 a)) (un_path (nth_sx 6 a))));
  (* [fixed base hasdir dir_raw s] *)
  ("within.copy_via", fun a => sx_res (copy_via (un_bool (nth_sx 0 a)) (un_strs (nth_sx 1 a)) (un_bool (nth_sx 2 a))
                                        (un_strs (nth_sx 3 a)) (un_path (nth_sx 4 a))));
  (* [path] *)
  ("within.lex_default_name", fun a => sx_res (lex_default_name (un_path (nth_sx 0 a))));
  (* [fixed base hasdir dir_raw s] *)
  ("within.lex_via", fun a => sx_res (lex_via (un_bool (nth_sx 0 a)) (un_strs (nth_sx 1 a)) (un_bool (nth_sx 2 a))
                                       (un_strs (nth_sx 3 a)) (un_path (nth_sx 4 a))));
  (* [make steps] *)
  ("within.emit", fun a => sx_emit (emit (un_bool (nth_sx 0 a)) (map un_strs (un_list (nth_sx 1 a)))))
]%string.
