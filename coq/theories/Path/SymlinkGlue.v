(* tools/copy_file.py Symlink.transform_input (model: PathAlg.symlink_target): the link target handed to `ln -sf` is the input's path RELATIVE TO THE
   DIRECTORY OF THE LINK (input.path.relpath(output.path.parent())), because a relative link target is resolved from
   there and not from the build directory.  For two well-formed paths under one non-absolute root (the build directory:
   a generated file linked somewhere else in the build tree) the target exists, and resolving it from the link's
   directory gives the input back - whatever the two directory names are (near-prefix families such as data / data2
   included).  The only guard is the one of C12_relpath_append: when the link lies in an ancestor directory of the
   input, the first component below it must not look like a drive (finding C12-relpath-drive-like).
   The ValueError branch of transform_input (different roots: a source-tree input is handed over by its absolute
   path) is outside this statement. *)
From Coq Require Import String List NArith Bool Arith Lia.
From BFG Require Import Base.Chars Path.PathAlg Path.PathAlgProofs Path.PathAlgMk Path.PathAlgRt Path.PathAlgNested
                        Path.PathAlgWf Path.PathAlgOps.
Import ListNotations.

Theorem symlink_target_resolves input output :
  wfp input -> wfp output -> p_root input = p_root output -> root_eqb (p_root input) Absolute = false ->
  p_destdir input = p_destdir output ->
  is_nil (suffix_str output) = false -> nodrive [last (p_comps output) []] ->
  (common_len (removelast (p_comps output)) (p_comps input) = length (removelast (p_comps output)) ->
   nodrive (skipn (common_len (removelast (p_comps output)) (p_comps input)) (p_comps input))) ->
  exists d s r, parent output = Some d /\ symlink_target Posix input output = Some s /\
                append d s = Some r /\ path_eqb r input = true.
Proof.
  intros Wi Wo Hr Ha Hdd Hs Hd Hg.
  destruct (parent_append output Wo Hs Hd) as (q & Hq & Wq & _ & Hrq & Hcq & _).
  assert (Hao : root_eqb (p_root output) Absolute = false) by now rewrite <- Hr.
  assert (Hdq : p_destdir q = p_destdir output).
  { assert (Hne : p_comps output <> []).
    { intros E. rewrite (wfp_suffix output Wo), (render_nonnil _ _ (wf_normal output Wo)), E,
        (wfp_slashes_rel output Wo Hao) in Hs. discriminate Hs. }
    destruct (exists_last Hne) as (init & b & Eib).
    rewrite (parent_snoc output init b Wo Eib) in Hq. injection Hq as <-. reflexivity. }
  assert (Hrq' : p_root input = p_root q) by now rewrite Hrq.
  assert (Hdd' : p_destdir input = p_destdir q) by now rewrite Hdq.
  rewrite <- Hcq in Hg.
  destruct (relpath_append_eq Posix input q Wi Wq Hrq' Ha Hdd' Hg) as (s & r & Hs' & Hap & He).
  destruct (relpath_value Posix input q true Wi Wq Hrq' Ha) as [H1 H2].
  rewrite H1 in Hs'. injection Hs' as <-.
  exists q. eexists. exists r. unfold symlink_target. rewrite Hq. split; [reflexivity|]. split; [exact H2|]. auto.
Qed.
