(* W model of the implicit output naming of bfg9000 (property C05).  Mirrors:
     builtins/path.py      within_directory, relpath/relname, buildpath
     tools/cc/compiler.py  CcCompiler.default_name / output_file
     builtins/compile.py   BaseCompile.__init__ (name = default_name, within_directory, output_file)
     builtins/link.py      Link.convert_args (the intermediate directory is passed as directory)
     builtins/copy_file.py CopyFile.convert_args pathfn
     backends/make/syntax.py Makefile.rule/has_rule, backends/ninja/syntax.py NinjaFile.build/has_build
   Paths are (root, list of components); the components of a Path object are non-empty, contain no
   slash and are never . or .. (platforms/basepath.py normalises in the constructor; that algebra
   is modelled in Path/PathAlg.v, here only the operations needed are restated on component lists).

   The regular expression of within_directory exists in two variants selected by [fixed]:
     fixed = false   (^|/)..(?=/|$)       as written before /repo commit 7c2d988 (unescaped dots)
     fixed = true    (^|/)\.\.(?=/|$)     as written since
   Both are modelled as written: the dot does not match a line feed, and $ also matches just before
   a line feed that ends the string. *)
From BFG Require Import Base.Chars.
Local Open Scope N_scope.

Inductive root := RSrc | RBuild | RAbs.
Definition root_eqb (a b : root) : bool :=
  match a, b with RSrc, RSrc | RBuild, RBuild | RAbs, RAbs => true | _, _ => false end.

Record path := P { proot : root; pcomps : list str }.

(* Ok p | ValueError | the string handed to Path.append / Path(...) starts with a component that the
   path parser re-interprets (leading tilde: os.path.expanduser; second character colon:
   ntpath.splitdrive) - the result then depends on the password database and is not modelled *)
Inductive res := Ok (p : path) | ErrValue | Reparsed.

Definition PAR : str := [80; 65; 82].   (* P A R *)
Definition dotdot : str := [c_dot; c_dot].
Definition dot1 : str := [c_dot].
Definition PARnl : str := PAR ++ [c_nl].

(* ---------------------------------------------------------------- posixpath.relpath on components *)
Fixpoint cpl (a b : list str) : nat :=
  match a, b with
  | x :: a', y :: b' => if str_eqb x y then S (cpl a' b') else O
  | _, _ => O
  end.

(* posixpath.relpath(p, start) for normalised relative p, start ([] stands for the string .) *)
Definition relto (start p : list str) : list str :=
  let i := cpl start p in repeat dotdot (length start - i) ++ skipn i p.

(* ---------------------------------------------------------------- the re.sub of within_directory *)
Definition not_nl (c : char) : bool := negb (N.eqb c c_nl).
Definition two_any (c : str) : bool :=
  match c with [x; y] => not_nl x && not_nl y | _ => false end.
Definition one_any (c : str) : bool :=
  match c with [x] => not_nl x | _ => false end.

(* does the two-character body of the pattern match the whole component *)
Definition is_dd (fixed : bool) (c : str) : bool :=
  if fixed then str_eqb c dotdot else two_any c.

(* a component followed by a slash *)
Definition rw_mid (fixed : bool) (c : str) : str := if is_dd fixed c then PAR else c.

(* the last component: $ matches at the end and before a final line feed *)
Definition rw_last (fixed : bool) (c : str) : str :=
  if is_dd fixed c then PAR
  else match c with
       | [x; y; z] => if N.eqb z c_nl && is_dd fixed [x; y] then PARnl else c
       | _ => c
       end.

Definition only_nl (l : list str) : bool :=
  match l with [[z]] => N.eqb z c_nl | _ => false end.

(* the substitution on a slash-joined relative component list.  With the unescaped dots the second
   dot can also match the slash after a one-character component when only a line feed follows. *)
Fixpoint rwl (fixed : bool) (l : list str) : list str :=
  match l with
  | [] => []
  | [c] => [rw_last fixed c]
  | c :: ((_ :: _) as tl) =>
      if negb fixed && one_any c && only_nl tl then [PARnl]
      else rw_mid fixed c :: rwl fixed tl
  end.

(* ---------------------------------------------------------------- re-parsing by Path.append / Path() *)
Definition tilde_head (l : list str) : bool :=
  match l with (x :: _) :: _ => N.eqb x c_tilde | _ => false end.
Definition drive_head (l : list str) : bool :=
  match l with (_ :: y :: _) :: _ => N.eqb y c_colon | _ => false end.
(* drive + absolute rest: C:/x ; every other drive form raises ValueError *)
Definition drive_abs (l : list str) : bool :=
  match l with [_; _] :: _ :: _ => true | _ => false end.

(* base.append(rel) for a relative, already normalised rel without . and .. *)
Definition append_rel (r : root) (base rel : list str) : res :=
  if tilde_head rel then Reparsed
  else if drive_head rel then (if drive_abs rel then Reparsed else ErrValue)
  else Ok (P r (base ++ rel)).

(* ---------------------------------------------------------------- within_directory *)
Definition within (fixed : bool) (d p : path) : res :=
  match pcomps d with
  | [] => ErrValue                                        (* directory.parent(): already at root *)
  | _ =>
    match proot p with
    | RAbs =>                                             (* relpath returns the absolute suffix *)
        match fixed, pcomps p with
        | false, c1 :: rest =>
            (* ^ matches empty, the first dot matches the leading slash *)
            if one_any c1 then append_rel (proot d) (pcomps d) (PAR :: rwl false rest)
            else match c1, rest with
                 | [y; z], [] => if not_nl y && N.eqb z c_nl
                                 then append_rel (proot d) (pcomps d) [PARnl]
                                 else Ok (P RAbs (rwl false (pcomps p)))
                 | _, _ => Ok (P RAbs (rwl false (pcomps p)))
                 end
        | _, _ => Ok (P RAbs (rwl fixed (pcomps p)))
        end
    | _ =>
        if root_eqb (proot p) (proot d)
        then append_rel (proot d) (pcomps d) (rwl fixed (relto (removelast (pcomps d)) (pcomps p)))
        else ErrValue                                     (* source mismatch *)
    end
  end.

(* ---------------------------------------------------------------- posixpath.splitext, stripext, addext *)
Fixpoint split_last_dot (b : str) : option (str * str) :=
  match b with
  | [] => None
  | c :: r => match split_last_dot r with
              | Some (pre, ext) => Some (c :: pre, ext)
              | None => if N.eqb c c_dot then Some ([], c :: r) else None
              end
  end.
Definition all_dots (s : str) : bool := forallb (N.eqb c_dot) s.

(* (stem, extension) of a basename; leading dots do not start an extension *)
Definition splitext (b : str) : str * str :=
  match split_last_dot b with
  | Some (pre, ext) => if all_dots pre then (b, []) else (pre, ext)
  | None => (b, [])
  end.
Definition stem (b : str) : str := fst (splitext b).

Fixpoint map_last (f : str -> str) (l : list str) : list str :=
  match l with
  | [] => []
  | [c] => [f c]
  | c :: r => c :: map_last f r
  end.

Definition stripext (l : list str) : list str := map_last stem l.
Definition addext (ext : str) (l : list str) : list str :=
  match l with [] => [ext] | _ => map_last (fun c => c ++ ext) l end.

(* Path(string): the root is builddir unless the string is absolute; the head is re-parsed *)
Definition name_root (r : root) : root := match r with RAbs => RAbs | _ => RBuild end.
Definition reparse (r : root) (l : list str) : res :=
  match r with RAbs => Ok (P RAbs l) | _ => append_rel RBuild [] l end.

Definition ext_o : str := [c_dot; 111].   (* .o *)

(* CcCompiler.default_name (a string: the root is dropped) ; BaseCompile.__init__ ; output_file *)
Definition default_name (s : path) : res :=
  reparse (name_root (proot s)) (stripext (pcomps s)).

Definition object_of (fixed : bool) (d : option path) (s : path) : res :=
  match default_name s with
  | Ok n =>
      match d with
      | None => reparse (proot n) (addext ext_o (pcomps n))
      | Some d =>
          match within fixed d n with
          | Ok q => reparse (name_root (proot q)) (addext ext_o (pcomps q))
          | e => e
          end
      end
  | e => e
  end.

(* CopyFile.convert_args pathfn with name = None: file.path.reroot(), then within_directory *)
Definition copy_output (fixed : bool) (d : option path) (s : path) : res :=
  let p := P (name_root (proot s)) (pcomps s) in
  match d with None => Ok p | Some d => within fixed d p end.

(* ---------------------------------------------------------------- relpath / relname / buildpath *)
Definition is_skip (c : str) : bool := match c with [] => true | _ => str_eqb c dot1 end.

(* posixpath.normpath on raw components; [st] is the stack, top first *)
Fixpoint norm_go (abs : bool) (st : list str) (l : list str) : list str :=
  match l with
  | [] => rev st
  | c :: r =>
      if is_skip c then norm_go abs st r
      else if str_eqb c dotdot then
        match st with
        | t :: st' => if str_eqb t dotdot then norm_go abs (c :: st) r else norm_go abs st' r
        | [] => if abs then norm_go abs [] r else norm_go abs [c] r
        end
      else norm_go abs (c :: st) r
  end.

Definition escapes (l : list str) : bool :=
  match l with c :: _ => str_eqb c dotdot | [] => false end.

(* Path(raw, base) for a raw string given as its slash-separated pieces; [abs]: it starts with a
   slash.  base is the (normalised) suffix of the directory of the current build.bfg. *)
Definition path_in (r : root) (base : list str) (abs : bool) (raw : list str) : res :=
  if abs then Ok (P RAbs (norm_go true [] raw))
  else let l := norm_go false [] (base ++ raw) in
       if escapes l then ErrValue else Ok (P r l).

(* buildpath(context, raw, strict) *)
Definition buildpath (strict : bool) (base : list str) (abs : bool) (raw : list str) : res :=
  if abs && strict then ErrValue else path_in RBuild base abs raw.

(* Path(relname(context, raw)): relpath gives a srcdir path, only its suffix is kept *)
Definition relname (base : list str) (abs : bool) (raw : list str) : res :=
  match path_in RSrc base abs raw with
  | Ok p => reparse (name_root (proot p)) (pcomps p)
  | e => e
  end.

(* Link.convert_args: the intermediate directory is '{}.int/'.format(cls.__name(name)) with
   __name(name) = os.path.join(head, cls._prefix + tail) for head, tail = os.path.split(name);
   it reaches BaseCompile.convert_args as directory = buildpath(context, intdir, strict=True).
   [name_raw]: the slash-separated pieces of the target name as the script gave it. *)
Definition ext_int : str := [c_dot; 105; 110; 116].   (* .int *)
Definition intdir_raw (prefix : str) (name_raw : list str) : list str :=
  map_last (fun t => prefix ++ t ++ ext_int) name_raw.

Definition link_object (fixed intermediate : bool) (base : list str) (prefix : str)
           (abs : bool) (name_raw : list str) (s : path) : res :=
  if intermediate then
    match buildpath true base abs (intdir_raw prefix name_raw) with
    | Ok d => object_of fixed (Some d) s
    | e => e
    end
  else object_of fixed None s.

(* copy_file(file=..., directory=raw) without a name *)
Definition copy_via (fixed : bool) (base : list str) (hasdir : bool) (dir_raw : list str) (s : path) : res :=
  if hasdir then
    match buildpath true base false dir_raw with
    | Ok d => copy_output fixed (Some d) s
    | e => e
    end
  else copy_output fixed None s.

(* ---------------------------------------------------------------- translated sources (lex) *)
(* LexCompiler.default_name: input.path.stripext('.yy' + ext_of_C).suffix - the WHOLE suffix with the
   extension of its last component replaced (a string: the root is dropped); BaseCompile.__init__ places
   it within the directory; LexCompiler.output_file: SourceFile(Path(name)) *)
Definition ext_yyc : str := [c_dot; 121; 121; c_dot; 99].   (* .yy.c *)
Definition lex_name (l : list str) : list str := map_last (fun c => stem c ++ ext_yyc) l.
Definition lex_default_name (s : path) : res := reparse (name_root (proot s)) (lex_name (pcomps s)).

Definition lex_source_of (fixed : bool) (d : option path) (s : path) : res :=
  match lex_default_name s with
  | Ok n =>
      match d with
      | None => reparse (proot n) (pcomps n)
      | Some d =>
          match within fixed d n with
          | Ok q => reparse (name_root (proot q)) (pcomps q)
          | e => e
          end
      end
  | e => e
  end.

(* generated_source(file=..., directory=raw) without a name *)
Definition lex_via (fixed : bool) (base : list str) (hasdir : bool) (dir_raw : list str) (s : path) : res :=
  if hasdir then
    match buildpath true base false dir_raw with
    | Ok d => lex_source_of fixed (Some d) s
    | e => e
    end
  else lex_source_of fixed None s.

(* ---------------------------------------------------------------- duplicate target detection *)
(* Makefile.rule / NinjaFile.build: the key of a target is its escaped text (_target_str /
   _output_str); [seen] is the set _targets / _build_outputs *)
Inductive emit_res := EOk (rules : list (list str)) | EDup (key : str) | EEmpty.

Definition seen_mem (k : str) (seen : list str) : bool := existsb (str_eqb k) seen.

Fixpoint add_keys (seen ks : list str) : str + list str :=
  match ks with
  | [] => inr seen
  | k :: r => if seen_mem k seen then inl k else add_keys (k :: seen) r
  end.

(* [mk]: Make (a rule without targets is an error); false: Ninja *)
Fixpoint emit_go (mk : bool) (seen : list str) (steps : list (list str)) : emit_res :=
  match steps with
  | [] => EOk []
  | s :: r =>
      match s, mk with
      | [], true => EEmpty
      | _, _ =>
        match add_keys seen s with
        | inl k => EDup k
        | inr seen' => match emit_go mk seen' r with
                       | EOk rules => EOk (s :: rules)
                       | e => e
                       end
        end
      end
  end.
Definition emit (mk : bool) (steps : list (list str)) : emit_res := emit_go mk [] steps.

(* steps given by their output paths, [esc] is the escaping of the backend *)
Definition emit_paths {T} (esc : T -> str) (mk : bool) (steps : list (list T)) : emit_res :=
  emit mk (map (map esc) steps).
