(* Proofs about Path/Within.v (property C05). *)
From BFG Require Import Base.Chars Path.Within.
From Coq Require Import Lia.
Local Open Scope N_scope.

(* ---------------------------------------------------------------- guards *)
(* what the Path constructor guarantees of every component *)
Definition wf_comp (c : str) : Prop := c <> [] /\ c <> dot1 /\ c <> dotdot.
Definition wf_comps (l : list str) : Prop := Forall wf_comp l.
(* the names the implementation reserves: PAR, and PAR followed by a line feed (the $ of the regex) *)
Definition reserved_free (l : list str) : Prop := ~ In PAR l /\ ~ In PARnl l.

Lemma root_eqb_eq a b : root_eqb a b = true -> a = b.
Proof. destruct a, b; cbn; congruence. Qed.

(* ---------------------------------------------------------------- relto *)
Lemma cpl_le_l a b : (cpl a b <= length a)%nat.
Proof.
  revert b; induction a as [|x a IH]; intros [|y b]; cbn; try lia.
  destruct (str_eqb x y); cbn; [specialize (IH b)|]; lia.
Qed.

Lemma cpl_firstn a b : firstn (cpl a b) b = firstn (cpl a b) a.
Proof.
  revert b; induction a as [|x a IH]; intros [|y b]; cbn; try reflexivity.
  destruct (str_eqb x y) eqn:E; cbn; [|reflexivity].
  apply str_eqb_eq in E. subst. now rewrite IH.
Qed.

Lemma repeat_app_inj (x : str) k1 k2 r1 r2 :
  ~ In x r1 -> ~ In x r2 -> repeat x k1 ++ r1 = repeat x k2 ++ r2 -> k1 = k2 /\ r1 = r2.
Proof.
  revert k2; induction k1 as [|k1 IH]; intros [|k2] H1 H2 E; cbn in E.
  - auto.
  - subst r1. exfalso. apply H1. now left.
  - subst r2. exfalso. apply H2. now left.
  - inversion E as [E']. destruct (IH k2 H1 H2 E'). split; congruence.
Qed.

Lemma In_skipn {T} (x : T) n l : In x (skipn n l) -> In x l.
Proof.
  revert l; induction n as [|n IH]; intros [|y l]; cbn; auto.
Qed.

Lemma relto_injective s p1 p2 :
  ~ In dotdot p1 -> ~ In dotdot p2 -> relto s p1 = relto s p2 -> p1 = p2.
Proof.
  unfold relto. intros H1 H2 E.
  apply repeat_app_inj in E.
  - destruct E as [Ek Es].
    pose proof (cpl_le_l s p1). pose proof (cpl_le_l s p2).
    assert (Ei : cpl s p1 = cpl s p2) by lia.
    rewrite <- (firstn_skipn (cpl s p1) p1), <- (firstn_skipn (cpl s p2) p2).
    rewrite Es. f_equal. rewrite !cpl_firstn. now rewrite Ei.
  - intro H. apply H1. eapply In_skipn; eauto.
  - intro H. apply H2. eapply In_skipn; eauto.
Qed.

Lemma In_relto x s p : In x (relto s p) -> x = dotdot \/ In x p.
Proof.
  unfold relto. intros H. apply in_app_or in H. destruct H as [H|H].
  - left. now apply repeat_spec in H.
  - right. eapply In_skipn; eauto.
Qed.

(* ---------------------------------------------------------------- the substitution *)
Lemma is_dd_dotdot fixed : is_dd fixed dotdot = true.
Proof. destruct fixed; reflexivity. Qed.

Lemma rw_mid_cases fixed c :
  (is_dd fixed c = true /\ rw_mid fixed c = PAR) \/ (is_dd fixed c = false /\ rw_mid fixed c = c).
Proof. unfold rw_mid. destruct (is_dd fixed c); auto. Qed.

Lemma rw_last_cases fixed c :
  (is_dd fixed c = true /\ rw_last fixed c = PAR) \/
  (is_dd fixed c = false /\ rw_last fixed c = PARnl /\ exists b, c = b ++ [c_nl] /\ is_dd fixed b = true) \/
  (is_dd fixed c = false /\ rw_last fixed c = c /\ forall b, c = b ++ [c_nl] -> is_dd fixed b = false).
Proof.
  unfold rw_last. destruct (is_dd fixed c) eqn:E; [now left|right].
  assert (D : forall b, is_dd fixed b = true -> exists x y, b = [x; y]).
  { intros b Hb. destruct fixed; cbn in Hb.
    - apply str_eqb_eq in Hb. subst. now exists c_dot, c_dot.
    - destruct b as [|x [|y [|z r]]]; try discriminate. now exists x, y. }
  assert (Other : forall b, length c <> 3%nat -> c = b ++ [c_nl] -> is_dd fixed b = false).
  { intros b Hl -> . destruct (is_dd fixed b) eqn:Eb; [|reflexivity].
    destruct (D b Eb) as (x & y & ->). cbn in Hl. congruence. }
  destruct c as [|x [|y [|z [|w r]]]]; try (right; repeat split; auto; intros b; apply Other; cbn; lia).
  destruct (N.eqb z c_nl) eqn:Ez; cbn [andb].
  - apply N.eqb_eq in Ez. subst z.
    destruct (is_dd fixed [x; y]) eqn:Exy.
    + left. repeat split; auto. now exists [x; y].
    + right. repeat split; auto. intros b Hb.
      change [x; y; c_nl] with ([x; y] ++ [c_nl]) in Hb. apply app_inj_tail in Hb.
      destruct Hb as [<- _]. assumption.
  - right. repeat split; auto. intros b Hb. exfalso.
    change [x; y; z] with ([x; y] ++ [z]) in Hb. apply app_inj_tail in Hb.
    destruct Hb as [_ ->]. rewrite N.eqb_refl in Ez. discriminate.
Qed.

Lemma rwl_cons2 c d r : rwl true (c :: d :: r) = rw_mid true c :: rwl true (d :: r).
Proof. reflexivity. Qed.

Lemma rwl_true_length l : length (rwl true l) = length l.
Proof.
  induction l as [|c [|d r] IH]; try reflexivity.
  rewrite rwl_cons2. cbn [length]. now rewrite IH.
Qed.

Lemma is_dd_true c : is_dd true c = true <-> c = dotdot.
Proof. cbn. apply str_eqb_eq. Qed.

Lemma rw_mid_true_inj c1 c2 :
  c1 <> PAR -> c2 <> PAR -> rw_mid true c1 = rw_mid true c2 -> c1 = c2.
Proof.
  intros H1 H2.
  destruct (rw_mid_cases true c1) as [[A ->]|[A ->]], (rw_mid_cases true c2) as [[B ->]|[B ->]]; intros E.
  - apply is_dd_true in A, B. congruence.
  - congruence.
  - congruence.
  - assumption.
Qed.

Lemma app_nl_inj (a b : str) : a ++ [c_nl] = b ++ [c_nl] -> a = b.
Proof. apply app_inv_tail. Qed.

Lemma rw_last_true_inj c1 c2 :
  c1 <> PAR -> c2 <> PAR -> c1 <> PARnl -> c2 <> PARnl ->
  rw_last true c1 = rw_last true c2 -> c1 = c2.
Proof.
  intros H1 H2 N1 N2.
  destruct (rw_last_cases true c1) as [[A ->]|[(A & -> & b1 & -> & B1)|(A & -> & _)]],
           (rw_last_cases true c2) as [[B ->]|[(B & -> & b2 & -> & B2)|(B & -> & _)]]; intros E;
    try congruence.
  - apply is_dd_true in A, B. congruence.
  - discriminate E.
  - discriminate E.
  - apply is_dd_true in B1, B2. congruence.
Qed.

Lemma rwl_true_injective l1 l2 :
  reserved_free l1 -> reserved_free l2 -> rwl true l1 = rwl true l2 -> l1 = l2.
Proof.
  revert l2; induction l1 as [|c1 [|d1 r1] IH]; intros l2 [P1 Q1] [P2 Q2] E.
  - destruct l2 as [|c2 [|d2 r2]]; [reflexivity|discriminate E|].
    rewrite rwl_cons2 in E. discriminate E.
  - destruct l2 as [|c2 [|d2 r2]]; [discriminate E| |].
    + cbn in E. inversion E as [E']. f_equal. apply rw_last_true_inj; auto; intro; subst; cbn in *; tauto.
    + apply (f_equal (@length _)) in E. rewrite !rwl_true_length in E. discriminate E.
  - destruct l2 as [|c2 [|d2 r2]].
    + rewrite rwl_cons2 in E. discriminate E.
    + apply (f_equal (@length _)) in E. rewrite !rwl_true_length in E. discriminate E.
    + rewrite !rwl_cons2 in E. inversion E as [[Ec Er]].
      f_equal.
      * apply rw_mid_true_inj; auto; intro; subst; cbn in *; tauto.
      * apply IH; auto; split; intro H; [apply P1|apply Q1|apply P2|apply Q2]; now right.
Qed.

(* every component the substitution leaves behind *)
Lemma rwl_elems fixed l x :
  In x (rwl fixed l) -> x = PAR \/ x = PARnl \/ (In x l /\ is_dd fixed x = false).
Proof.
  induction l as [|c [|d r] IH]; intros H.
  - destruct H.
  - cbn in H. destruct H as [<-|[]].
    destruct (rw_last_cases fixed c) as [[A ->]|[(A & -> & _)|(A & -> & _)]]; auto.
    right; right. split; [now left|assumption].
  - cbn [rwl] in H.
    destruct (negb fixed && one_any c && only_nl (d :: r)).
    + destruct H as [<-|[]]. auto.
    + destruct H as [<-|H].
      * destruct (rw_mid_cases fixed c) as [[A ->]|[A ->]]; auto.
        right; right. split; [now left|assumption].
      * destruct (IH H) as [->|[->|[Hi Hd]]]; auto.
        right; right. split; [now right|assumption].
Qed.

(* ---------------------------------------------------------------- append_rel / reparse *)
Lemma append_rel_ok r b t q : append_rel r b t = Ok q -> q = P r (b ++ t).
Proof.
  unfold append_rel. destruct (tilde_head t); [discriminate|].
  destruct (drive_head t); [destruct (drive_abs t); discriminate|].
  congruence.
Qed.

Lemma name_root_idem r : name_root (name_root r) = name_root r.
Proof. now destruct r. Qed.

Lemma reparse_ok r l q : reparse r l = Ok q -> q = P (name_root r) l.
Proof.
  destruct r; cbn; intros H; try (apply append_rel_ok in H; cbn in H); congruence.
Qed.

(* ---------------------------------------------------------------- within_directory *)
Lemma within_true_shape d p q :
  within true d p = Ok q ->
  pcomps d <> [] /\
  ((proot p = RAbs /\ q = P RAbs (rwl true (pcomps p))) \/
   (proot p <> RAbs /\ proot p = proot d /\
    q = P (proot d) (pcomps d ++ rwl true (relto (removelast (pcomps d)) (pcomps p))))).
Proof.
  unfold within. destruct (pcomps d) as [|d0 dr] eqn:Ed; [discriminate|].
  intros H. split; [discriminate|].
  destruct (proot p) eqn:Er.
  - right. destruct (root_eqb RSrc (proot d)) eqn:Eq; [|discriminate].
    apply root_eqb_eq in Eq. apply append_rel_ok in H. repeat split; congruence.
  - right. destruct (root_eqb RBuild (proot d)) eqn:Eq; [|discriminate].
    apply root_eqb_eq in Eq. apply append_rel_ok in H. repeat split; congruence.
  - left. split; [reflexivity|]. destruct (pcomps p); congruence.
Qed.

Theorem within_injective d p1 p2 q :
  wf_comps (pcomps p1) -> wf_comps (pcomps p2) ->
  reserved_free (pcomps p1) -> reserved_free (pcomps p2) ->
  within true d p1 = Ok q -> within true d p2 = Ok q -> p1 = p2.
Proof.
  intros W1 W2 F1 F2 H1 H2.
  assert (ND : forall p, wf_comps (pcomps p) -> ~ In dotdot (pcomps p)).
  { intros p W H. unfold wf_comps in W. rewrite Forall_forall in W. apply W in H. destruct H as (_ & _ & H). now apply H. }
  assert (RF : forall s p, wf_comps (pcomps p) -> reserved_free (pcomps p) -> reserved_free (relto s (pcomps p))).
  { intros s p W [A B]. split; intro H; apply In_relto in H; destruct H as [H|H]; try discriminate H; auto. }
  apply within_true_shape in H1, H2.
  destruct H1 as [Hd [[R1 Q1]|(R1 & S1 & Q1)]], H2 as [_ [[R2 Q2]|(R2 & S2 & Q2)]].
  - rewrite Q1 in Q2. inversion Q2 as [E]. apply rwl_true_injective in E; auto.
    destruct p1, p2; cbn in *; congruence.
  - exfalso. rewrite Q1 in Q2. inversion Q2 as [[E1 E2]]. congruence.
  - exfalso. rewrite Q1 in Q2. inversion Q2 as [[E1 E2]]. congruence.
  - rewrite Q1 in Q2. inversion Q2 as [E]. apply app_inv_head in E.
    apply rwl_true_injective in E; auto.
    apply relto_injective in E; auto.
    destruct p1, p2; cbn in *; congruence.
Qed.

(* components that can be appended without further normalisation *)
Lemma rwl_relto_wf fixed s p x :
  wf_comps p -> In x (rwl fixed (relto s p)) -> wf_comp x.
Proof.
  intros W H. apply rwl_elems in H. destruct H as [->|[->|[Hi Hd]]].
  - repeat split; discriminate.
  - repeat split; discriminate.
  - apply In_relto in Hi. destruct Hi as [->|Hi].
    + rewrite is_dd_dotdot in Hd. discriminate.
    + unfold wf_comps in W. rewrite Forall_forall in W. auto.
Qed.

Theorem within_inside d p q :
  proot p <> RAbs -> wf_comps (pcomps p) -> within true d p = Ok q ->
  proot q = proot d /\ exists t, pcomps q = pcomps d ++ t /\ wf_comps t.
Proof.
  intros NA W H. apply within_true_shape in H. destruct H as [_ [[R _]|(_ & _ & ->)]]; [congruence|].
  split; [reflexivity|]. eexists. split; [reflexivity|].
  apply Forall_forall. intros x Hx. eapply rwl_relto_wf; eauto.
Qed.

(* ---------------------------------------------------------------- stems and extensions *)
Lemma split_last_dot_app b pre ext : split_last_dot b = Some (pre, ext) -> b = pre ++ ext /\ ext <> [].
Proof.
  revert pre ext; induction b as [|c r IH]; intros pre ext H; cbn in H; [discriminate|].
  destruct (split_last_dot r) as [[p e]|].
  - inversion H; subst. destruct (IH p ext eq_refl) as [-> Hn]. now split.
  - destruct (N.eqb c c_dot); inversion H; subst. split; [reflexivity|discriminate].
Qed.

Lemma all_dots_false_wf pre : all_dots pre = false -> wf_comp pre.
Proof.
  intros H. repeat split; intro; subst; discriminate H.
Qed.

Lemma stem_wf c : wf_comp c -> wf_comp (stem c).
Proof.
  intros W. unfold stem, splitext. destruct (split_last_dot c) as [[pre ext]|]; [|exact W].
  destruct (all_dots pre) eqn:E; [exact W|]. cbn. now apply all_dots_false_wf.
Qed.

Lemma map_last_split f l : l <> [] -> map_last f l = removelast l ++ [f (last l [])].
Proof.
  induction l as [|c [|d r] IH]; intros H; [congruence|reflexivity|].
  change (map_last f (c :: d :: r)) with (c :: map_last f (d :: r)).
  rewrite IH by discriminate. reflexivity.
Qed.

Lemma map_last_Forall (Q : str -> Prop) f l :
  (forall c, Q c -> Q (f c)) -> Forall Q l -> Forall Q (map_last f l).
Proof.
  intros Hf. induction l as [|c [|d r] IH]; intros H; [constructor| |].
  - inversion H; subst. constructor; auto.
  - inversion H; subst. change (map_last f (c :: d :: r)) with (c :: map_last f (d :: r)).
    constructor; auto.
Qed.

Lemma stripext_wf l : wf_comps l -> wf_comps (stripext l).
Proof. apply map_last_Forall. exact stem_wf. Qed.

Lemma wf_addext_comp c : wf_comp c -> wf_comp (c ++ ext_o).
Proof.
  intros (H & _ & _). destruct c as [|x [|y [|z r]]]; [congruence| | |]; repeat split; discriminate.
Qed.

Lemma addext_wf l : wf_comps l -> wf_comps (addext ext_o l).
Proof.
  intros W. destruct l as [|c r].
  - cbn. constructor; [|constructor]. repeat split; discriminate.
  - unfold addext. apply map_last_Forall; auto. exact wf_addext_comp.
Qed.

Lemma map_last_inj f l1 l2 :
  (forall a b, f a = f b -> a = b) -> map_last f l1 = map_last f l2 -> l1 = l2.
Proof.
  intros Hf. revert l2; induction l1 as [|c1 [|d1 r1] IH]; intros [|c2 [|d2 r2]] E; try reflexivity; try discriminate E.
  - cbn in E. inversion E. f_equal. auto.
  - change (map_last f (c2 :: d2 :: r2)) with (c2 :: map_last f (d2 :: r2)) in E.
    cbn in E. inversion E as [[E1 E2]]. destruct r2; discriminate E2.
  - change (map_last f (c1 :: d1 :: r1)) with (c1 :: map_last f (d1 :: r1)) in E.
    cbn in E. inversion E as [[E1 E2]]. destruct r1; discriminate E2.
  - change (map_last f (c1 :: d1 :: r1)) with (c1 :: map_last f (d1 :: r1)) in E.
    change (map_last f (c2 :: d2 :: r2)) with (c2 :: map_last f (d2 :: r2)) in E.
    inversion E as [[E1 E2]]. f_equal. now apply IH.
Qed.

Lemma addext_inj l1 l2 : wf_comps l1 -> wf_comps l2 -> addext ext_o l1 = addext ext_o l2 -> l1 = l2.
Proof.
  intros W1 W2 E.
  assert (NE : forall c r, wf_comps (c :: r) -> [ext_o] = map_last (fun c => c ++ ext_o) (c :: r) -> False).
  { intros c r W H. destruct r as [|d r].
    - cbn in H. inversion H as [H']. inversion W as [|? ? (Hc & _) _]; subst.
      apply Hc. apply (app_inv_tail ext_o). cbn. congruence.
    - change (map_last (fun c => c ++ ext_o) (c :: d :: r)) with (c :: map_last (fun c => c ++ ext_o) (d :: r)) in H.
      inversion H as [[H1 H2]]. destruct r; discriminate H2. }
  destruct l1 as [|c1 r1], l2 as [|c2 r2]; [reflexivity| | |].
  - exfalso. eapply NE; eauto.
  - exfalso. eapply NE; eauto.
  - unfold addext in E. eapply map_last_inj; [|exact E]. intros a b. apply app_inv_tail.
Qed.

(* ---------------------------------------------------------------- objects *)
Definition src_name (s : path) : root * list str := (name_root (proot s), stripext (pcomps s)).

(* sources differ in a directory component or in the stem of the file name *)
Definition differ_in_dir_or_stem (s1 s2 : path) : Prop :=
  removelast (pcomps s1) <> removelast (pcomps s2) \/
  stem (last (pcomps s1) []) <> stem (last (pcomps s2) []).

Lemma differ_stripext s1 s2 :
  pcomps s1 <> [] -> pcomps s2 <> [] -> differ_in_dir_or_stem s1 s2 ->
  stripext (pcomps s1) <> stripext (pcomps s2).
Proof.
  intros N1 N2 D E. unfold stripext in E. rewrite !map_last_split in E by assumption.
  apply app_inj_tail in E. destruct E as [E1 E2]. destruct D as [D|D]; congruence.
Qed.

Theorem objects_distinct d s1 s2 o1 o2 :
  (match d with Some d => wf_comps (pcomps d) | None => True end) ->
  wf_comps (pcomps s1) -> wf_comps (pcomps s2) ->
  reserved_free (stripext (pcomps s1)) -> reserved_free (stripext (pcomps s2)) ->
  src_name s1 <> src_name s2 ->
  object_of true d s1 = Ok o1 -> object_of true d s2 = Ok o2 -> o1 <> o2.
Proof.
  intros Wd W1 W2 F1 F2 NE H1 H2 EQ. subst o2. apply NE. clear NE.
  unfold object_of in H1, H2.
  destruct (default_name s1) as [n1| |] eqn:D1; try discriminate.
  destruct (default_name s2) as [n2| |] eqn:D2; try discriminate.
  apply reparse_ok in D1, D2. subst n1 n2. cbn [proot pcomps] in *. rewrite !name_root_idem in *.
  pose proof (stripext_wf _ W1) as V1. pose proof (stripext_wf _ W2) as V2.
  destruct d as [d|].
  - destruct (within true d _) as [q1| |] eqn:Q1 in H1; try discriminate.
    destruct (within true d _) as [q2| |] eqn:Q2 in H2; try discriminate.
    apply reparse_ok in H1, H2. rewrite H1 in H2. inversion H2 as [[ER EC]].
    assert (WQ : forall n q, wf_comps (pcomps n) -> within true d n = Ok q -> wf_comps (pcomps q)).
    { intros n q Wn Hq. apply within_true_shape in Hq. destruct Hq as [_ [[_ ->]|(_ & _ & ->)]]; cbn.
      - apply Forall_forall. intros x Hx. apply rwl_elems in Hx. destruct Hx as [->|[->|[Hi _]]].
        + repeat split; discriminate.
        + repeat split; discriminate.
        + unfold wf_comps in Wn. rewrite Forall_forall in Wn. auto.
      - apply Forall_app. split; [exact Wd|].
        apply Forall_forall. intros x Hx. eapply rwl_relto_wf; eauto. }
    apply addext_inj in EC; [|eapply WQ; [|exact Q1]; exact V1|eapply WQ; [|exact Q2]; exact V2].
    assert (q1 = q2).
    { pose proof Q1 as S1. pose proof Q2 as S2. apply within_true_shape in S1, S2.
      destruct S1 as [_ [[_ A]|(NA1 & SA1 & A)]], S2 as [_ [[_ B]|(NA2 & SA2 & B)]];
        rewrite A, B in *; cbn in *; try congruence.
      - exfalso. rewrite <- SA2 in ER. rewrite !name_root_idem in ER.
        destruct (name_root (proot s2)); cbn in *; congruence.
      - exfalso. rewrite <- SA1 in ER. rewrite !name_root_idem in ER.
        destruct (name_root (proot s1)); cbn in *; congruence. }
    subst q2.
    assert (E := within_injective d (P (name_root (proot s1)) (stripext (pcomps s1)))
                                    (P (name_root (proot s2)) (stripext (pcomps s2))) q1 V1 V2 F1 F2 Q1 Q2).
    unfold src_name. inversion E. congruence.
  - apply reparse_ok in H1, H2. rewrite H1 in H2. inversion H2 as [[ER EC]].
    apply addext_inj in EC; auto. rewrite !name_root_idem in ER. unfold src_name. congruence.
Qed.

Theorem objects_in_builddir d s o :
  (match d with Some d => proot d = RBuild /\ wf_comps (pcomps d) | None => True end) ->
  proot s <> RAbs -> wf_comps (pcomps s) ->
  object_of true d s = Ok o -> proot o = RBuild /\ wf_comps (pcomps o).
Proof.
  intros Wd NA W H. unfold object_of in H.
  destruct (default_name s) as [n| |] eqn:D; try discriminate.
  apply reparse_ok in D. subst n. cbn [proot pcomps] in *. rewrite !name_root_idem in *.
  assert (NR : name_root (proot s) = RBuild) by (destruct (proot s); cbn; congruence).
  rewrite NR in *.
  pose proof (stripext_wf _ W) as V.
  destruct d as [d|].
  - destruct Wd as [Rd Wd].
    destruct (within true d _) as [q| |] eqn:Q in H; try discriminate.
    apply reparse_ok in H. subst o. cbn.
    apply within_inside in Q; cbn; [|discriminate|exact V].
    destruct Q as [Rq (t & -> & Wt)]. rewrite Rq, Rd. split; [reflexivity|].
    apply addext_wf. apply Forall_app. now split.
  - apply reparse_ok in H. subst o. cbn. split; [reflexivity|]. now apply addext_wf.
Qed.

(* ---------------------------------------------------------------- duplicate detection *)
Lemma seen_mem_In k seen : seen_mem k seen = true <-> In k seen.
Proof.
  unfold seen_mem. rewrite existsb_exists. split.
  - intros (x & Hx & E). apply str_eqb_eq in E. now subst.
  - intros H. exists k. split; [assumption|apply str_eqb_refl].
Qed.

Lemma add_keys_ok seen ks seen' :
  add_keys seen ks = inr seen' ->
  NoDup ks /\ (forall k, In k ks -> ~ In k seen) /\ (forall k, In k seen' <-> In k ks \/ In k seen).
Proof.
  revert seen; induction ks as [|k r IH]; intros seen H; cbn in H.
  - inversion H; subst. split; [constructor|]. split; [intros k []|]. intros k. cbn. tauto.
  - destruct (seen_mem k seen) eqn:M; [discriminate|].
    assert (Hk : ~ In k seen) by (rewrite <- seen_mem_In, M; discriminate).
    destruct (IH _ H) as (ND & Fresh & Iff). split; [|split].
    + constructor; [|assumption]. intro Hin. apply (Fresh k Hin). now left.
    + intros x [<-|Hx]; [assumption|]. intro Hs. apply (Fresh x Hx). now right.
    + intros x. rewrite Iff. cbn. tauto.
Qed.

Lemma NoDup_app_intro {T} (a b : list T) :
  NoDup a -> NoDup b -> (forall x, In x a -> ~ In x b) -> NoDup (a ++ b).
Proof.
  induction a as [|x a IH]; intros Ha Hb D; [assumption|].
  inversion Ha; subst. cbn. constructor.
  - intro H. apply in_app_or in H. destruct H; [contradiction|]. apply (D x); [now left|assumption].
  - apply IH; auto. intros y Hy. apply D. now right.
Qed.

Lemma nodup_app_r {T} (a b : list T) : NoDup (a ++ b) -> NoDup b.
Proof. induction a as [|x a IH]; cbn; intros H; [assumption|]. inversion H; auto. Qed.

Lemma nodup_app_l {T} (a b : list T) : NoDup (a ++ b) -> NoDup a.
Proof.
  induction a as [|x a IH]; cbn; intros H; [constructor|]. inversion H; subst. constructor; auto.
  intro Hx. apply H2. apply in_or_app. now left.
Qed.

Lemma NoDup_app_disjoint {T} (a b : list T) x : NoDup (a ++ b) -> In x a -> In x b -> False.
Proof.
  induction a as [|y a IH]; intros H Ha Hb; [destruct Ha|].
  cbn in H. inversion H; subst. destruct Ha as [->|Ha].
  - apply H2. apply in_or_app. now right.
  - now apply IH.
Qed.

Lemma emit_go_ok mk seen steps rules :
  emit_go mk seen steps = EOk rules ->
  rules = steps /\ NoDup (concat steps) /\ (forall k, In k (concat steps) -> ~ In k seen) /\
  (mk = true -> Forall (fun s => s <> []) steps).
Proof.
  revert seen rules; induction steps as [|s r IH]; intros seen rules H; cbn in H.
  - inversion H; subst. repeat split; try constructor. intros k [].
  - assert (H' : match add_keys seen s with
                 | inl k => EDup k
                 | inr seen' => match emit_go mk seen' r with EOk rules => EOk (s :: rules) | e => e end
                 end = EOk rules /\ (mk = true -> s <> [])).
    { destruct s; destruct mk; try discriminate H; split; auto; discriminate. }
    clear H. destruct H' as [H Hne].
    destruct (add_keys seen s) as [k|seen'] eqn:A; [discriminate|].
    destruct (emit_go mk seen' r) as [rules'| |] eqn:G; try discriminate.
    inversion H; subst rules. clear H.
    apply add_keys_ok in A. destruct A as (ND & Fresh & Iff).
    destruct (IH _ _ G) as (-> & NDr & Fr & Fne). cbn [concat].
    split; [reflexivity|]. split; [|split].
    + apply NoDup_app_intro; auto. intros x Hx Hr. apply (Fr x Hr). apply Iff. now left.
    + intros k Hk. apply in_app_or in Hk. destruct Hk as [Hk|Hk]; [now apply Fresh|].
      intro Hs. apply (Fr k Hk). apply Iff. now right.
    + intros M. constructor; auto.
Qed.

Theorem emit_ok_nodup mk steps rules :
  emit mk steps = EOk rules -> rules = steps /\ NoDup (concat steps).
Proof. intros H. apply emit_go_ok in H. tauto. Qed.

(* two steps name the same output (or one step names it twice): never a list of rules *)
Theorem emit_same_output_rejected {T} (esc : T -> str) mk (steps a b c : list (list T)) s1 s2 o :
  steps = a ++ s1 :: b ++ s2 :: c -> In o s1 -> In o s2 ->
  (exists k, emit_paths esc mk steps = EDup k) \/ emit_paths esc mk steps = EEmpty.
Proof.
  intros -> H1 H2. destruct (emit_paths esc mk _) as [rules|k|] eqn:E; [exfalso|eauto|auto].
  unfold emit_paths in E. apply emit_ok_nodup in E. destruct E as [_ ND].
  rewrite map_app in ND. cbn [map] in ND. rewrite map_app in ND. cbn [map] in ND.
  rewrite concat_app in ND. cbn [concat] in ND.
  apply nodup_app_r in ND.
  rewrite concat_app in ND. cbn [concat] in ND.
  apply (NoDup_app_disjoint _ _ (esc o)) in ND; [assumption|now apply in_map|].
  apply in_or_app. right. apply in_or_app. left. now apply in_map.
Qed.

Theorem emit_twice_in_one_step_rejected {T} (esc : T -> str) mk (steps a c : list (list T)) s :
  steps = a ++ s :: c -> ~ NoDup s -> forall rules, emit_paths esc mk steps <> EOk rules.
Proof.
  intros -> H rules E. unfold emit_paths in E. apply emit_ok_nodup in E. destruct E as [_ ND].
  rewrite map_app in ND. cbn [map] in ND. rewrite concat_app in ND. cbn [concat] in ND.
  apply nodup_app_r, nodup_app_l in ND. apply H. eapply NoDup_map_inv; eauto.
Qed.

(* what was emitted has pairwise distinct outputs, every step exactly once, in order *)
Theorem emit_ok_distinct {T} (esc : T -> str) mk (steps : list (list T)) rules :
  emit_paths esc mk steps = EOk rules -> rules = map (map esc) steps /\ NoDup (concat steps).
Proof.
  intros E. unfold emit_paths in E. apply emit_ok_nodup in E. destruct E as [-> ND]. split; [reflexivity|].
  rewrite <- concat_map in ND. eapply NoDup_map_inv; eauto.
Qed.

(* no false rejection when the escaping is injective (hypothesis; property C04) *)
Lemma add_keys_complete seen ks :
  NoDup ks -> (forall k, In k ks -> ~ In k seen) -> exists seen', add_keys seen ks = inr seen'.
Proof.
  revert seen; induction ks as [|k r IH]; intros seen ND Fr; cbn; [eauto|].
  inversion ND; subst.
  destruct (seen_mem k seen) eqn:M.
  - exfalso. apply seen_mem_In in M. apply (Fr k); [now left|assumption].
  - apply IH; auto. intros x Hx [<-|Hs]; [contradiction|]. apply (Fr x); [now right|assumption].
Qed.

Lemma emit_go_complete mk seen steps :
  NoDup (concat steps) -> (forall k, In k (concat steps) -> ~ In k seen) ->
  Forall (fun s => s <> []) steps -> emit_go mk seen steps = EOk steps.
Proof.
  revert seen; induction steps as [|s r IH]; intros seen ND Fr NE; [reflexivity|].
  cbn [concat] in *. inversion NE; subst.
  assert (NDs : NoDup s) by (eapply nodup_app_l; eauto).
  assert (NDr : NoDup (concat r)) by (eapply nodup_app_r; eauto).
  destruct (add_keys_complete seen s NDs) as [seen' A].
  { intros k Hk. apply Fr. apply in_or_app. now left. }
  cbn [emit_go]. destruct s as [|k0 s0]; [congruence|].
  rewrite A. destruct mk.
  - rewrite IH; auto. intros k Hk Hs. apply add_keys_ok in A. destruct A as (_ & _ & Iff).
    apply Iff in Hs. destruct Hs as [Hs|Hs].
    + eapply NoDup_app_disjoint; eauto.
    + apply (Fr k); [apply in_or_app; now right|assumption].
  - rewrite IH; auto. intros k Hk Hs. apply add_keys_ok in A. destruct A as (_ & _ & Iff).
    apply Iff in Hs. destruct Hs as [Hs|Hs].
    + eapply NoDup_app_disjoint; eauto.
    + apply (Fr k); [apply in_or_app; now right|assumption].
Qed.

Lemma nodup_map_inj {T U} (f : T -> U) l :
  (forall x y, f x = f y -> x = y) -> NoDup l -> NoDup (map f l).
Proof.
  intros Inj. induction l as [|x l IH]; intros H; cbn; [constructor|].
  inversion H; subst. constructor; auto.
  intro Hx. apply in_map_iff in Hx. destruct Hx as (y & E & Hy). apply Inj in E. now subst.
Qed.

Theorem emit_distinct_accepted {T} (esc : T -> str) mk (steps : list (list T)) :
  (forall x y, esc x = esc y -> x = y) ->
  NoDup (concat steps) -> Forall (fun s => s <> []) steps ->
  emit_paths esc mk steps = EOk (map (map esc) steps).
Proof.
  intros Inj ND NE. unfold emit_paths, emit. apply emit_go_complete.
  - rewrite <- concat_map. apply nodup_map_inj; assumption.
  - intros k _ [].
  - apply Forall_forall. intros s Hs. apply in_map_iff in Hs. destruct Hs as (s0 & <- & Hs0).
    rewrite Forall_forall in NE. specialize (NE _ Hs0). destruct s0; [congruence|discriminate].
Qed.

(* ---------------------------------------------------------------- buildpath stays below the root *)
(* the stack of norm_go (top first) is a run of plain components followed by parent references *)
Definition plain (c : str) : Prop := wf_comp c.
Definition stack_ok (st : list str) : Prop :=
  exists pl k, st = pl ++ repeat dotdot k /\ Forall plain pl.

Lemma norm_go_shape abs st l :
  stack_ok st -> (abs = true -> Forall plain st) ->
  exists k pl, norm_go abs st l = repeat dotdot k ++ pl /\ Forall plain pl /\ (abs = true -> k = O).
Proof.
  revert st; induction l as [|c r IH]; intros st (pl & k & -> & Hpl) Habs.
  - cbn. exists k, (rev pl). rewrite rev_app_distr. split; [|split].
    + f_equal. clear. induction k as [|k IH]; [reflexivity|]. cbn. rewrite IH. clear.
      induction k as [|k IH]; [reflexivity|]. cbn. now rewrite <- IH.
    + now apply Forall_rev.
    + intros A. specialize (Habs A). destruct k as [|k]; [reflexivity|exfalso].
      apply Forall_app in Habs. destruct Habs as [_ Hd]. inversion Hd as [|? ? (_ & _ & X) _]. now apply X.
  - cbn [norm_go]. destruct (is_skip c) eqn:Sk.
    + apply IH; [exists pl, k; auto|assumption].
    + assert (Cne : c <> [] /\ c <> dot1).
      { unfold is_skip in Sk. destruct c; [discriminate|]. split; [discriminate|].
        intro E. rewrite E in Sk. discriminate Sk. }
      destruct (str_eqb c dotdot) eqn:Dd.
      * apply str_eqb_eq in Dd. subst c.
        destruct pl as [|t pl'].
        -- cbn [app]. destruct k as [|k']; cbn [repeat].
           ++ destruct abs.
              ** apply IH; [exists [], O; split; [reflexivity|constructor]|intros; constructor].
              ** apply IH; [exists [], 1%nat; split; [reflexivity|constructor]|discriminate].
           ++ rewrite str_eqb_refl.
              apply IH; [exists [], (Datatypes.S (Datatypes.S k')); split; [reflexivity|constructor]|].
              intros A. specialize (Habs A). inversion Habs as [|? ? (_ & _ & X) _]. exfalso. now apply X.
        -- cbn [app]. inversion Hpl as [|? ? Ht Hpl']; subst.
           destruct (str_eqb t dotdot) eqn:Td.
           ++ apply str_eqb_eq in Td. destruct Ht as (_ & _ & X). exfalso. now apply X.
           ++ apply IH; [exists pl', k; auto|].
              intros A. specialize (Habs A). cbn in Habs. now inversion Habs.
      * assert (Pc : plain c).
        { destruct Cne. repeat split; auto. intro E. subst. rewrite str_eqb_refl in Dd. discriminate. }
        destruct k as [|k'].
        -- apply IH; [exists (c :: pl), O; split; [reflexivity|now constructor]|].
           intros A. specialize (Habs A). rewrite app_nil_r in *. cbn. now constructor.
        -- (* a plain component on top of parent references: only when pl is empty can this be reached
              with the invariant kept; otherwise the plain run grows *)
           apply IH; [exists (c :: pl), (Datatypes.S k'); split; [reflexivity|now constructor]|].
           intros A. specialize (Habs A). exfalso.
           apply Forall_app in Habs. destruct Habs as [_ Hd]. inversion Hd as [|? ? (_ & _ & X) _]. now apply X.
Qed.

Lemma norm_rel_shape l q r :
  (let n := norm_go false [] l in if escapes n then ErrValue else Ok (P r n)) = Ok q ->
  q = P r (norm_go false [] l) /\ wf_comps (norm_go false [] l).
Proof.
  cbn zeta. destruct (norm_go_shape false [] l) as (k & pl & E & Hpl & _).
  - exists [], O. split; [reflexivity|constructor].
  - discriminate.
  - rewrite E. destruct k as [|k]; cbn [repeat app].
    + destruct (escapes pl); [discriminate|]. intros H. inversion H. split; [reflexivity|exact Hpl].
    + cbn. discriminate.
Qed.

(* buildpath / relname with a relative name: inside the build root, normalised, no parent reference left;
   a name that would leave the root is an error *)
Theorem buildpath_inside strict base raw q :
  buildpath strict base false raw = Ok q -> proot q = RBuild /\ wf_comps (pcomps q).
Proof.
  unfold buildpath, path_in. cbn [andb]. intros H. apply norm_rel_shape in H. destruct H as [-> W]. now split.
Qed.

Theorem relname_inside base raw q :
  relname base false raw = Ok q -> proot q = RBuild /\ wf_comps (pcomps q).
Proof.
  unfold relname, path_in. intros H.
  destruct (let n := norm_go false [] (base ++ raw) in if escapes n then ErrValue else Ok (P RSrc n)) as [p| |] eqn:E;
    try discriminate.
  apply norm_rel_shape in E. destruct E as [-> W]. apply reparse_ok in H. subst q. now split.
Qed.

Lemma norm_go_plain abs st l : Forall plain l -> norm_go abs st l = rev st ++ l.
Proof.
  revert st; induction l as [|c r IH]; intros st H; cbn [norm_go]; [now rewrite app_nil_r|].
  inversion H as [|? ? (A & B & C) Hr]; subst.
  assert (is_skip c = false) as ->.
  { unfold is_skip. destruct c; [congruence|]. destruct (str_eqb _ dot1) eqn:E; [|reflexivity].
    apply str_eqb_eq in E. congruence. }
  assert (str_eqb c dotdot = false) as ->.
  { destruct (str_eqb c dotdot) eqn:E; [|reflexivity]. apply str_eqb_eq in E. congruence. }
  rewrite IH by assumption. cbn. now rewrite <- app_assoc.
Qed.

(* at submodule depth n the output named by a plain relative name is builddir/d1/../dn/name *)
Theorem buildpath_submodule strict base name :
  wf_comps base -> wf_comps name -> buildpath strict base false name = Ok (P RBuild (base ++ name)).
Proof.
  intros Wb Wn. unfold buildpath, path_in. cbn [andb].
  rewrite norm_go_plain by (apply Forall_app; now split). cbn [rev app].
  assert (escapes (base ++ name) = false) as ->; [|reflexivity].
  assert (W : wf_comps (base ++ name)) by (apply Forall_app; now split).
  destruct (base ++ name) as [|c r]; [reflexivity|]. cbn.
  inversion W as [|? ? (_ & _ & C) _]; subst.
  destruct (str_eqb c dotdot) eqn:E; [|reflexivity]. apply str_eqb_eq in E. congruence.
Qed.

(* ---------------------------------------------------------------- translated sources (lex) *)
Lemma wf_lex_comp c : wf_comp (stem c ++ ext_yyc).
Proof.
  repeat split; intros H.
  - destruct (stem c); discriminate H.
  - destruct (stem c) as [|x [|y r]]; discriminate H.
  - destruct (stem c) as [|x [|y [|z r]]]; discriminate H.
Qed.

Lemma lex_name_wf l : wf_comps l -> wf_comps (lex_name l).
Proof.
  intros W. unfold lex_name. apply map_last_Forall; [|exact W]. intros c _. apply wf_lex_comp.
Qed.

Lemma lex_name_stripext l1 l2 :
  l1 <> [] -> l2 <> [] -> lex_name l1 = lex_name l2 -> stripext l1 = stripext l2.
Proof.
  intros N1 N2 E. unfold lex_name, stripext in *. rewrite !map_last_split in * by assumption.
  apply app_inj_tail in E. destruct E as [E1 E2]. apply app_inv_tail in E2. congruence.
Qed.

(* lex sources with different (absoluteness, directory components, stem) get different generated
   sources, with (d = Some directory) and without (d = None) a directory *)
Theorem lex_sources_distinct d s1 s2 o1 o2 :
  (match d with Some d => wf_comps (pcomps d) | None => True end) ->
  wf_comps (pcomps s1) -> wf_comps (pcomps s2) -> pcomps s1 <> [] -> pcomps s2 <> [] ->
  reserved_free (lex_name (pcomps s1)) -> reserved_free (lex_name (pcomps s2)) ->
  src_name s1 <> src_name s2 ->
  lex_source_of true d s1 = Ok o1 -> lex_source_of true d s2 = Ok o2 -> o1 <> o2.
Proof.
  intros Wd W1 W2 N1 N2 F1 F2 NE H1 H2 EQ. subst o2. apply NE. clear NE.
  unfold lex_source_of, lex_default_name in H1, H2.
  destruct (reparse (name_root (proot s1)) _) as [n1| |] eqn:D1 in H1; try discriminate.
  destruct (reparse (name_root (proot s2)) _) as [n2| |] eqn:D2 in H2; try discriminate.
  apply reparse_ok in D1, D2. subst n1 n2. cbn [proot pcomps] in *. rewrite !name_root_idem in *.
  pose proof (lex_name_wf _ W1) as V1. pose proof (lex_name_wf _ W2) as V2.
  assert (K : P (name_root (proot s1)) (lex_name (pcomps s1)) = P (name_root (proot s2)) (lex_name (pcomps s2)) ->
              src_name s1 = src_name s2).
  { intros E. inversion E as [[ER EC]]. unfold src_name. rewrite ER. f_equal. now apply lex_name_stripext. }
  destruct d as [d|].
  - destruct (within true d _) as [q1| |] eqn:Q1 in H1; try discriminate.
    destruct (within true d _) as [q2| |] eqn:Q2 in H2; try discriminate.
    apply reparse_ok in H1, H2. rewrite H1 in H2. inversion H2 as [[ER EC]].
    assert (q1 = q2).
    { pose proof Q1 as S1. pose proof Q2 as S2. apply within_true_shape in S1, S2.
      destruct S1 as [_ [[_ A]|(NA1 & SA1 & A)]], S2 as [_ [[_ B]|(NA2 & SA2 & B)]];
        rewrite A, B in *; cbn in *; try congruence.
      - exfalso. rewrite <- SA2 in ER. rewrite !name_root_idem in ER.
        destruct (name_root (proot s2)); cbn in *; congruence.
      - exfalso. rewrite <- SA1 in ER. rewrite !name_root_idem in ER.
        destruct (name_root (proot s1)); cbn in *; congruence. }
    subst q2. apply K.
    exact (within_injective d (P (name_root (proot s1)) (lex_name (pcomps s1)))
                            (P (name_root (proot s2)) (lex_name (pcomps s2))) q1 V1 V2 F1 F2 Q1 Q2).
  - apply reparse_ok in H1, H2. rewrite H1 in H2. inversion H2 as [[ER EC]]. apply K.
    rewrite !name_root_idem in ER. congruence.
Qed.
