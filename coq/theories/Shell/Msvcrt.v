(* R model (trusted, no Windows in this sandbox): how the Microsoft C runtime turns the command
   line text after the program name into argv, per the documented rules
   (Microsoft Learn, Parsing C command-line arguments) and the loop of parse_cmdline in the CRT:
     - arguments are separated by blanks (space or tab) outside quotes;
     - 2n backslashes followed by a double quote give n backslashes and the quote toggles the
       in-quotes mode; 2n+1 backslashes followed by a double quote give n backslashes and a
       literal double quote; backslashes not followed by a double quote are literal;
     - inside a quoted part a pair of double quotes is one literal double quote:
         DDpost2008: and the quoted part continues (msvcr90 and later, UCRT),
         DDpre2008 : and the quoted part ends (older msvcrt),
         DDnone    : rule absent (the two quotes close and reopen the quoted part).
   The theorems about bfg9000 hold for all three variants: its writer never produces a
   double quote directly after an even backslash run inside a quoted part, except the closing
   quote, which is followed by a blank or the end of the line.
   The program name (argv[0]) is parsed by a different, simpler rule and is not modelled here. *)
From BFG Require Import Base.Chars.
Local Open Scope N_scope.

Inductive ddrule := DDnone | DDpost2008 | DDpre2008.

Definition mblank (c : char) : bool := (c =? c_sp) || (c =? c_tab).
Definition getcur (cur : option str) : str := match cur with Some w => w | None => [] end.
Definition starts_dq (r : str) : bool := match r with c :: _ => c =? c_dq | [] => false end.
Definition dd_fires (dd : ddrule) (inq : bool) (r : str) : bool :=
  match dd with DDnone => false | _ => inq && starts_dq r end.

(* state: inq = inside quotes, n = length of the pending backslash run, cur = the argument
   being built (None between arguments) *)
Fixpoint mparse (dd : ddrule) (inq : bool) (n : nat) (cur : option str) (s : str) : list str :=
  match s with
  | [] => match cur with None => [] | Some w => [w ++ repeat c_bs n] end
  | c :: r =>
      if c =? c_bs then mparse dd inq (S n) (Some (getcur cur)) r
      else if c =? c_dq then
        let w := getcur cur ++ repeat c_bs (Nat.div2 n) in
        if Nat.even n then
          if dd_fires dd inq r then
            match r with
            | _ :: r' => mparse dd (match dd with DDpre2008 => false | _ => true end) 0 (Some (w ++ [c_dq])) r'
            | [] => [w]
            end
          else mparse dd (negb inq) 0 (Some w) r
        else mparse dd inq 0 (Some (w ++ [c_dq])) r
      else if mblank c && negb inq then
        match cur with
        | None => mparse dd false 0 None r
        | Some w => (w ++ repeat c_bs n) :: mparse dd false 0 None r
        end
      else mparse dd inq 0 (Some (getcur cur ++ repeat c_bs n ++ [c])) r
  end.

Definition msvcrt_parse (dd : ddrule) (s : str) : list str := mparse dd false 0 None s.
