(* W model of the environment half of bfg9000/shell/posix.py: escape_line, join_lines, local_env, global_env.
   A command line is a list of items; an item is what safe_str makes of one word: a list of bits (plain str or
   shell_literal), i.e. the bits of a jbos, a single str, or a single shell_literal.  jbos drops empty str bits
   (safe_str.jbos.__canonicalize, filter(None, ...)), so an empty name or value leaves no bit. *)
From BFG Require Import Base.Chars Shell.PosixQuote.
From Coq Require Import String.
Local Open Scope N_scope.

Definition item := list bit.

(* a line handed to escape_line: an iterable of words (kept as it is) or one raw string (already escaped) *)
Inductive line := LWords (ws : list item) | LRaw (s : str).

Definition str_bits (s : str) : list bit := match s with [] => [] | _ => [BStr s] end.

(* jbos(safe_str(name), shell_literal('='), safe_str(value)) *)
Definition env_item (nv : str * str) : item := str_bits (fst nv) ++ BLit [c_eq] :: str_bits (snd nv).

Definition word_item (w : str) : item := [BStr w].
Definition words_line (ws : list str) : line := LWords (map word_item ws).

(* escape_line(line, listify=True) on a non-Windows host *)
Definition escape_line (l : line) : list item :=
  match l with LWords ws => ws | LRaw s => [[BLit s]] end.

Definition and_item : item := [BLit [c_amp; c_amp]].

(* join_lines: the lines with shell_literal('&&') between them *)
Fixpoint join_lines (ls : list line) : list item :=
  match ls with
  | [] => []
  | [l] => escape_line l
  | l :: r => escape_line l ++ and_item :: join_lines r
  end.

(* local_env(env, line): NAME=value ... words *)
Definition local_env (env : list (str * str)) (l : line) : list item := map env_item env ++ escape_line l.

(* global_env(env, lines): export NAME=value && ... && lines *)
Definition export_line (nv : str * str) : line := LWords [word_item (STR "export"); env_item nv].
Definition global_env (env : list (str * str)) (ls : list line) : list item :=
  join_lines (map export_line env ++ ls).

(* the text of a command line at the level of sh: every item quoted (quote on a str, a shell_literal or a jbos),
   joined with blanks; this is what Make hands to sh for the recipe line written by write_shell *)
Section Text.
Variable uw : char -> bool.
Definition item_text (it : item) : str := List.concat (map (fun b => fst (quote_bit uw b)) it).
Definition sh_text (items : list item) : str := join_sp (map item_text items).
End Text.
