(* Environment channel: the text written by global_env / local_env (W: PosixEnv.v, PosixQuote.v) is run by the sh
   model with quote marks, tilde expansion, export and the && list (R: Sh.v, second layer) into exactly the declared
   environment and words. *)
From BFG Require Import Base.Chars Shell.PosixQuote Shell.Sh Shell.PosixQuoteProofs Shell.PosixEnv.
Local Open Scope N_scope.

(* unquoted characters as word items *)
Definition uq (s : str) : list witem := map (fun c => WC c false) s.
(* the items of a quoted region body: a single quote inside is written close-quote, backslash quote, open-quote *)
Definition dq (s : str) : list witem :=
  flat_map (fun c => if N.eqb c c_sq then [WQ; WC c true; WQ] else [WC c true]) s.
Definition allq (w : list witem) : bool := forallb (fun i => match i with WC _ q => q | WQ => true end) w.

Lemma erase_w_app a b : erase_w (a ++ b) = erase_w a ++ erase_w b.
Proof. unfold erase_w. apply flat_map_app. Qed.

Lemma erase_uq s : erase_w (uq s) = fl false s.
Proof. unfold uq, fl, erase_w. induction s as [|c s IH]; [reflexivity|]. cbn. f_equal. exact IH. Qed.

Lemma erase_dq s : erase_w (dq s) = fl true s.
Proof.
  induction s as [|c s IH]; [reflexivity|].
  cbn [dq flat_map]. rewrite erase_w_app. fold (dq s). rewrite IH.
  destruct (N.eqb c c_sq) eqn:E; [apply N.eqb_eq in E; subst c|]; reflexivity.
Qed.

Lemma allq_app a b : allq (a ++ b) = allq a && allq b.
Proof. apply forallb_app. Qed.

Lemma allq_dq s : allq (dq s) = true.
Proof.
  induction s as [|c s IH]; [reflexivity|].
  cbn [dq flat_map]. rewrite allq_app. fold (dq s). rewrite IH.
  destruct (N.eqb c c_sq); reflexivity.
Qed.

Lemma dq_app a b : dq (a ++ b) = dq a ++ dq b.
Proof. unfold dq. apply flat_map_app. Qed.

Section LexQ.
Variable uw : char -> bool.
Notation bad := (posix_bad uw).
Notation lexq := (Sh.lexq uw).

Lemma lexq_plain_char c inw cur r :
  bad c = false -> lexq false inw cur (c :: r) = lexq false true (cur ++ [WC c false]) r.
Proof.
  intros H. cbn [Sh.lexq].
  rewrite (notbad_neq uw c c_sq H (bad_sq uw)), (notbad_neq uw c c_bs H (bad_bs uw)), (notbad_blank uw c H),
    (notbad_neq uw c c_amp H (bad_amp uw)), H. reflexivity.
Qed.

Lemma lexq_plain s : forall inw cur rest, s <> [] -> existsb bad s = false ->
  lexq false inw cur (s ++ rest) = lexq false true (cur ++ uq s) rest.
Proof.
  induction s as [|c s IH]; intros inw cur rest Hne H; [congruence|].
  cbn [existsb] in H. apply orb_false_iff in H as [Hc Hs].
  cbn [app]. rewrite lexq_plain_char by assumption.
  destruct s as [|d s'].
  - cbn. reflexivity.
  - rewrite IH by (congruence || assumption). cbn [uq map]. rewrite <- app_assoc. reflexivity.
Qed.

Lemma escq_inq s : forall cur rest,
  lexq true true cur (esc s ++ c_sq :: rest) = lexq false true (cur ++ dq s ++ [WQ]) rest.
Proof.
  induction s as [|c s IH]; intros cur rest.
  - cbn. reflexivity.
  - cbn [esc]. destruct (N.eqb c c_sq) eqn:E.
    + apply N.eqb_eq in E; subst c.
      change (lexq true true cur ((c_sq :: c_bs :: c_sq :: c_sq :: esc s) ++ c_sq :: rest))
        with (lexq true true (((cur ++ [WQ]) ++ [WC c_sq true]) ++ [WQ]) (esc s ++ c_sq :: rest)).
      rewrite IH. cbn [dq flat_map]. change (N.eqb c_sq c_sq) with true. cbn iota. fold (dq s).
      rewrite <- !app_assoc. reflexivity.
    + cbn [app Sh.lexq]. rewrite E, IH. cbn [dq flat_map]. rewrite E. fold (dq s). now rewrite <- !app_assoc.
Qed.

Lemma openq_quote inw cur r : lexq false inw cur (c_sq :: r) = lexq true true (cur ++ [WQ]) r.
Proof. reflexivity. Qed.

Lemma naiveq s inw cur rest :
  lexq false inw cur ((c_sq :: esc s ++ [c_sq]) ++ rest) = lexq false true (cur ++ WQ :: dq s ++ [WQ]) rest.
Proof.
  cbn [app]. rewrite openq_quote, <- app_assoc. cbn [app]. rewrite escq_inq.
  rewrite <- app_assoc. reflexivity.
Qed.

Lemma escq_inq_trunc s cur rest :
  lexq true true cur ((esc s ++ [c_sq; c_bs; c_sq]) ++ rest) = lexq false true (cur ++ dq s ++ [WQ; WC c_sq true]) rest.
Proof.
  rewrite <- app_assoc. change ([c_sq; c_bs; c_sq] ++ rest) with (c_sq :: (c_bs :: c_sq :: rest)).
  rewrite escq_inq. cbn [Sh.lexq]. change (N.eqb c_bs c_sq) with false. change (N.eqb c_bs c_bs) with true.
  change (N.eqb c_sq c_nl) with false. cbn iota. rewrite <- !app_assoc. reflexivity.
Qed.

Lemma leadq_dropped inw cur r :
  lexq false inw cur (c_bs :: c_sq :: c_sq :: r) = lexq true true (cur ++ [WC c_sq true; WQ]) r.
Proof. cbn. rewrite <- app_assoc. reflexivity. Qed.

(* the image of a string that is written quoted: some decoration of the quoted characters with quote marks *)
Definition qspec (s : str) (w : list witem) : Prop := erase_w w = fl true s /\ allq w = true /\ w <> [].

Theorem wrapq_ok s : exists w, qspec s w /\
  forall inw cur rest, lexq false inw cur (wrap_quotes (esc s) ++ rest) = lexq false true (cur ++ w) rest.
Proof.
  assert (Naive : exists w, qspec s w /\ forall inw cur rest,
            lexq false inw cur ((c_sq :: esc s ++ [c_sq]) ++ rest) = lexq false true (cur ++ w) rest).
  { exists (WQ :: dq s ++ [WQ]). split; [|intros; apply naiveq].
    split; [|split; [|discriminate]].
    - change (WQ :: dq s ++ [WQ]) with ([WQ] ++ dq s ++ [WQ]). rewrite !erase_w_app, erase_dq. cbn. now rewrite app_nil_r.
    - change (WQ :: dq s ++ [WQ]) with ([WQ] ++ dq s ++ [WQ]). now rewrite !allq_app, allq_dq. }
  unfold wrap_quotes.
  destruct (Nat.ltb (length (esc s)) 3) eqn:L; [exact Naive|].
  rewrite starts_esc, ends_esc.
  destruct (starts_q s) eqn:S0; destruct (ends_q s) eqn:E0.
  - (* both *)
    apply starts_q_inv in S0 as [s1 ->].
    destruct s1 as [|c s1'] eqn:Es1.
    + exists [WC c_sq true]. split; [repeat split; discriminate|]. intros. cbn. reflexivity.
    + rewrite <- Es1 in *.
      assert (ends_q s1 = true) as E1.
      { subst s1. unfold ends_q in *. cbn [rev] in *.
        destruct (rev s1' ++ [c]) eqn:R; [destruct (rev s1'); discriminate|].
        cbn in E0 |- *. exact E0. }
      apply ends_q_inv in E1 as [s2 ->].
      exists ([WC c_sq true; WQ] ++ dq s2 ++ [WQ; WC c_sq true]). split.
      * split; [|split; [|discriminate]].
        -- change (c_sq :: s2 ++ [c_sq]) with ([c_sq] ++ s2 ++ [c_sq]).
           rewrite !erase_w_app, erase_dq, !fl_app. reflexivity.
        -- now rewrite !allq_app, allq_dq.
      * intros inw cur rest.
        change (esc (c_sq :: s2 ++ [c_sq])) with (c_sq :: c_bs :: c_sq :: c_sq :: esc (s2 ++ [c_sq])).
        cbn [tl]. rewrite esc_app. cbn [esc]. rewrite N.eqb_refl.
        change [c_sq; c_bs; c_sq; c_sq] with ([c_sq; c_bs; c_sq] ++ [c_sq]).
        replace (c_bs :: c_sq :: c_sq :: esc s2 ++ [c_sq; c_bs; c_sq] ++ [c_sq])
          with ((c_bs :: c_sq :: c_sq :: esc s2 ++ [c_sq; c_bs; c_sq]) ++ [c_sq])
          by (cbn [app]; now rewrite <- app_assoc).
        rewrite removelast_last, app_nil_r. cbn [app].
        rewrite leadq_dropped, escq_inq_trunc. rewrite <- !app_assoc. reflexivity.
  - (* starts only *)
    apply starts_q_inv in S0 as [s1 ->].
    exists ([WC c_sq true; WQ] ++ dq s1 ++ [WQ]). split.
    + split; [|split; [|discriminate]].
      * rewrite !erase_w_app, erase_dq. cbn. now rewrite app_nil_r.
      * now rewrite !allq_app, allq_dq.
    + intros inw cur rest.
      change (esc (c_sq :: s1)) with (c_sq :: c_bs :: c_sq :: c_sq :: esc s1). cbn [tl app].
      rewrite leadq_dropped, <- app_assoc. cbn [app]. rewrite escq_inq. rewrite <- !app_assoc. reflexivity.
  - (* ends only *)
    apply ends_q_inv in E0 as [s2 ->].
    exists ([WQ] ++ dq s2 ++ [WQ; WC c_sq true]). split.
    + split; [|split; [|discriminate]].
      * rewrite !erase_w_app, erase_dq, !fl_app. reflexivity.
      * now rewrite !allq_app, allq_dq.
    + intros inw cur rest.
      rewrite esc_app. cbn [esc]. rewrite N.eqb_refl.
      change [c_sq; c_bs; c_sq; c_sq] with ([c_sq; c_bs; c_sq] ++ [c_sq]).
      replace (esc s2 ++ [c_sq; c_bs; c_sq] ++ [c_sq]) with ((esc s2 ++ [c_sq; c_bs; c_sq]) ++ [c_sq])
        by (now rewrite <- app_assoc).
      rewrite removelast_last. cbn [app]. rewrite app_nil_r, openq_quote.
      rewrite escq_inq_trunc. rewrite <- !app_assoc. reflexivity.
  - exact Naive.
Qed.
End LexQ.

(* ---------- images of written words ---------- *)
From Coq Require Import ZArith Lia ZifyBool.

Lemma name_char_not_bad uw c : is_name_char c = true -> posix_bad uw c = false.
Proof.
  intros H. unfold posix_bad.
  assert (A : is_ascii_word c = true).
  { unfold is_name_char, is_name_start in H. unfold is_ascii_word.
    destruct (is_digit c), (is_upper c), (is_lower c), (N.eqb c c_us); cbn in *; congruence. }
  assert (L : (c <? 128) = true).
  { unfold is_ascii_word, is_digit, is_upper, is_lower, c_us in A. lia. }
  rewrite L, A. reflexivity.
Qed.

Lemma name_start_char c : is_name_start c = true -> is_name_char c = true.
Proof. intros H. unfold is_name_char. now rewrite H. Qed.

Lemma ident_chars n : is_ident n = true -> forallb is_name_char n = true /\ n <> [].
Proof.
  destruct n as [|c r]; [discriminate|]. cbn [is_ident forallb]. intros H.
  apply andb_true_iff in H as [H1 H2]. rewrite (name_start_char c H1), H2. split; [reflexivity|discriminate].
Qed.

Lemma name_chars_plain uw n : forallb is_name_char n = true -> existsb (posix_bad uw) n = false.
Proof.
  induction n as [|c r IH]; [reflexivity|]. cbn [forallb existsb]. intros H.
  apply andb_true_iff in H as [H1 H2]. now rewrite (name_char_not_bad uw c H1), IH.
Qed.

Section Img.
Variable uw : char -> bool.
Notation bad := (posix_bad uw).
Notation lexq := (Sh.lexq uw).
Notation nq := (needs_quote uw).

(* the image of a word written by quote *)
Definition wimg (s : str) (w : list witem) : Prop :=
  if nq s then qspec s w else w = uq s /\ s <> [].

Lemma wimg_erase s w : wimg s w -> erase_w w = fl (nq s) s.
Proof.
  unfold wimg. destruct (nq s).
  - now intros [H _].
  - intros [-> _]. apply erase_uq.
Qed.

Lemma wimg_ne s w : wimg s w -> w <> [].
Proof.
  unfold wimg. destruct (nq s).
  - now intros [_ [_ H]].
  - intros [-> H]. destruct s; [congruence|discriminate].
Qed.

Lemma quoteq_img s : exists w, wimg s w /\
  forall inw cur rest, lexq false inw cur (quote uw s ++ rest) = lexq false true (cur ++ w) rest.
Proof.
  unfold wimg, quote, quote_bit, needs_quote, inner_quote_info.
  destruct s as [|c s].
  - cbn [fst snd]. exact (wrapq_ok uw []).
  - destruct (existsb bad (c :: s)) eqn:B; cbn [fst snd].
    + apply wrapq_ok.
    + exists (uq (c :: s)). split; [split; [reflexivity|discriminate]|].
      intros. apply lexq_plain; [discriminate|assumption].
Qed.

Lemma nq_false_plain s : nq s = false -> existsb bad s = false /\ s <> [].
Proof.
  unfold needs_quote, inner_quote_info. destruct s as [|c s]; [discriminate|].
  destruct (existsb bad (c :: s)); [discriminate|]. intros _. split; [reflexivity|discriminate].
Qed.

Lemma quote_plain s : s <> [] -> existsb bad s = false -> quote uw s = s.
Proof.
  intros Hne H. unfold quote, quote_bit, inner_quote_info. destruct s as [|c s]; [congruence|]. now rewrite H.
Qed.

(* the value part of NAME=value: nothing at all for the empty value *)
Lemma value_img v : exists wv, erase_w wv = fl (nq v) v /\
  forall cur rest, lexq false true cur (item_text uw (str_bits v) ++ rest) = lexq false true (cur ++ wv) rest.
Proof.
  destruct v as [|c v].
  - exists []. split; [reflexivity|]. intros. cbn. now rewrite app_nil_r.
  - destruct (quoteq_img (c :: v)) as [w [Hw Hl]]. exists w. split; [now apply wimg_erase|].
    intros. cbn [str_bits item_text map List.concat]. rewrite app_nil_r. apply Hl.
Qed.

Definition eq_item : witem := WC c_eq false.

(* NAME=value with NAME an identifier *)
Lemma env_item_img n v : is_ident n = true -> exists wv, erase_w wv = fl (nq v) v /\
  forall inw cur rest, lexq false inw cur (item_text uw (env_item (n, v)) ++ rest)
                       = lexq false true (cur ++ uq n ++ eq_item :: wv) rest.
Proof.
  intros Hn. destruct (ident_chars n Hn) as [Hc Hne]. pose proof (name_chars_plain uw n Hc) as Hp.
  destruct (value_img v) as [wv [He Hl]]. exists wv. split; [exact He|].
  intros inw cur rest. unfold env_item. cbn [fst snd].
  destruct n as [|c0 n0]; [congruence|]. cbn [str_bits].
  change (item_text uw ([BStr (c0 :: n0)] ++ BLit [c_eq] :: str_bits v))
    with (quote uw (c0 :: n0) ++ [c_eq] ++ item_text uw (str_bits v)).
  rewrite quote_plain by assumption. rewrite <- !app_assoc.
  rewrite lexq_plain by assumption. cbn [app].
  rewrite lexq_plain_char by reflexivity. rewrite Hl. rewrite <- !app_assoc. reflexivity.
Qed.

(* ---------- from items to tokens ---------- *)
Inductive ilex : item -> xtoken -> Prop :=
| ilex_w it w :
    (forall inw cur rest, lexq false inw cur (item_text uw it ++ rest) = lexq false true (cur ++ w) rest) ->
    ilex it (XW w)
| ilex_and : ilex and_item XAnd.

Lemma lexq_sep cur rest :
  lexq false true cur (c_sp :: rest) = option_map (cons (XW cur)) (lexq false false [] rest).
Proof. reflexivity. Qed.

Lemma items_lex items toks : Forall2 ilex items toks -> sh_lexq uw (sh_text uw items) = Some toks.
Proof.
  unfold sh_lexq, sh_text. induction 1 as [|it tok items toks H HF IH]; [reflexivity|].
  cbn [map join_sp]. destruct items as [|it2 items'].
  - inversion HF; subst. cbn [map]. inversion H; subst.
    + rewrite <- (app_nil_r (item_text uw it)). rewrite H0. reflexivity.
    + reflexivity.
  - cbn [map] in *. inversion H; subst.
    + rewrite H0, lexq_sep, IH. reflexivity.
    + change (item_text uw and_item) with [c_amp; c_amp]. cbn [app].
      change (lexq false false [] (c_amp :: c_amp :: c_sp :: join_sp (item_text uw it2 :: map (item_text uw) items')))
        with (option_map (cons XAnd) (lexq false false [] (join_sp (item_text uw it2 :: map (item_text uw) items')))).
      rewrite IH. reflexivity.
Qed.

(* simple commands separated by && *)
Fixpoint toks_of (scmds : list (list (list witem))) : list xtoken :=
  match scmds with
  | [] => []
  | [c] => map XW c
  | c :: r => map XW c ++ XAnd :: toks_of r
  end.

Definition ilexw (it : item) (w : list witem) : Prop := ilex it (XW w).

Lemma ilexw_map its ws : Forall2 ilexw its ws -> Forall2 ilex its (map XW ws).
Proof. induction 1; constructor; assumption. Qed.

Lemma join_lines_lex ils wls :
  Forall2 (Forall2 ilexw) ils wls -> Forall2 ilex (join_lines (map LWords ils)) (toks_of wls).
Proof.
  induction 1 as [|il wl ils wls H HF IH]; [constructor|].
  cbn [map join_lines toks_of]. destruct ils as [|il2 ils'].
  - inversion HF; subst. cbn [map escape_line]. now apply ilexw_map.
  - inversion HF; subst. cbn [map escape_line] in *.
    apply Forall2_app; [now apply ilexw_map|]. constructor; [constructor|]. exact IH.
Qed.

Lemma xsplit_and_words ws : forall cur rest, xsplit_and cur (map XW ws ++ rest) = xsplit_and (cur ++ ws) rest.
Proof.
  induction ws as [|w ws IH]; intros cur rest.
  - cbn. now rewrite app_nil_r.
  - cbn [map app xsplit_and]. rewrite IH, <- app_assoc. reflexivity.
Qed.

Lemma xsplit_and_toks r : forall c cur, xsplit_and cur (toks_of (c :: r)) = (cur ++ c) :: r.
Proof.
  induction r as [|c2 r IH]; intros c cur.
  - cbn [toks_of]. rewrite <- (app_nil_r (map XW c)), xsplit_and_words. reflexivity.
  - change (toks_of (c :: c2 :: r)) with (map XW c ++ XAnd :: toks_of (c2 :: r)).
    rewrite xsplit_and_words. cbn [xsplit_and]. rewrite IH. reflexivity.
Qed.
End Img.

(* ---------- expansion: the identity on a word without an unquoted tilde ---------- *)
Definition no_utq (e : list qchar) : bool :=
  forallb (fun p : qchar => snd p || negb (N.eqb (fst p) c_tilde)) e.

Lemma texp_id home vt w : forall se ap, no_utq (erase_w w) = true -> texp home vt se ap w = Some (erase_w w).
Proof.
  induction w as [|i w IH]; intros se ap H; [reflexivity|].
  destruct i as [c q|].
  - change (erase_w (WC c q :: w)) with ((c, q) :: erase_w w) in *.
    cbn [no_utq forallb fst snd] in H. apply andb_true_iff in H as [Hc Hw].
    cbn [texp].
    assert (E : ap && negb q && N.eqb c c_tilde = false).
    { destruct q; cbn in Hc |- *; [now rewrite andb_false_r|]. apply negb_true_iff in Hc. rewrite Hc. apply andb_false_r. }
    rewrite E, (IH _ _ Hw). reflexivity.
  - change (erase_w (WQ :: w)) with (erase_w w) in *. cbn [texp]. now apply IH.
Qed.

Lemma no_utq_app a b : no_utq (a ++ b) = no_utq a && no_utq b.
Proof. apply forallb_app. Qed.

Lemma no_utq_quoted s : no_utq (fl true s) = true.
Proof. induction s as [|c s IH]; [reflexivity|]. cbn. exact IH. Qed.

Lemma bad_tilde uw : posix_bad uw c_tilde = true.
Proof. reflexivity. Qed.

Lemma no_utq_plain uw b s : existsb (posix_bad uw) s = false -> no_utq (fl b s) = true.
Proof.
  induction s as [|c s IH]; [reflexivity|]. cbn [existsb]. intros H. apply orb_false_iff in H as [Hc Hs].
  cbn [fl map no_utq forallb fst snd]. fold (fl b s). fold (no_utq (fl b s)). rewrite (IH Hs).
  rewrite (notbad_neq uw c c_tilde Hc (bad_tilde uw)). now rewrite orb_true_r.
Qed.

Lemma no_utq_fl uw s : no_utq (fl (needs_quote uw s) s) = true.
Proof.
  destruct (needs_quote uw s) eqn:E; [apply no_utq_quoted|].
  apply (no_utq_plain uw). now apply nq_false_plain.
Qed.

Lemma allq_has_unq w : allq w = true -> has_unq w = false.
Proof.
  induction w as [|i w IH]; [reflexivity|]. cbn [allq forallb has_unq existsb]. intros H.
  apply andb_true_iff in H as [Hi Hw]. fold (has_unq w). rewrite (IH Hw).
  destruct i as [c q|]; [cbn in Hi; subst q|]; reflexivity.
Qed.

Lemma word_str_app a b : word_str (a ++ b) = word_str a ++ word_str b.
Proof. apply map_app. Qed.

(* ---------- shell variables ---------- *)
Definition declare (env : list (str * str)) (st : shvars) : shvars :=
  fold_left (fun (st : shvars) (nv : str * str) => sv_set st (fst nv) (snd nv) true) env st.

(* the binding of a name in a list of declarations, the last one winning *)
Fixpoint assoc_last (env : list (str * str)) (n : str) : option str :=
  match env with
  | [] => None
  | (m, v) :: r =>
    match assoc_last r n with
    | Some x => Some x
    | None => if str_eqb m n then Some v else None
    end
  end.

Lemma str_eqb_true a b : str_eqb a b = true -> a = b.
Proof. apply str_eqb_eq. Qed.

Lemma sv_set_env st m v n :
  env_get (sv_env (sv_set st m v true)) n = if str_eqb m n then Some v else env_get (sv_env st) n.
Proof.
  induction st as [|[k [x e]] r IH].
  - cbn. destruct (str_eqb m n); reflexivity.
  - cbn [sv_set]. destruct (str_eqb k m) eqn:K.
    + apply str_eqb_true in K. subst k. cbn [snd]. rewrite orb_true_r.
      change (sv_env ((m, (v, true)) :: r)) with ((m, v) :: sv_env r).
      cbn [env_get]. destruct (str_eqb m n) eqn:M; [reflexivity|].
      unfold sv_env. cbn [flat_map snd fst]. destruct e; cbn [app env_get]; [rewrite M|]; reflexivity.
    + unfold sv_env in *. cbn [flat_map snd fst]. destruct e; cbn [app env_get].
      * rewrite IH. destruct (str_eqb k n) eqn:KN; [|reflexivity].
        destruct (str_eqb m n) eqn:MN; [|reflexivity].
        apply str_eqb_true in KN, MN. subst. rewrite str_eqb_refl in K. discriminate.
      * exact IH.
Qed.

Lemma declared_env env : forall st n,
  env_get (sv_env (declare env st)) n =
  match assoc_last env n with Some v => Some v | None => env_get (sv_env st) n end.
Proof.
  induction env as [|[m v] r IH]; intros st n; [reflexivity|].
  change (declare ((m, v) :: r) st) with (declare r (sv_set st m v true)).
  rewrite IH, sv_set_env. cbn [assoc_last]. destruct (assoc_last r n); [reflexivity|].
  destruct (str_eqb m n); reflexivity.
Qed.

Lemma init_env env0 n : env_get (sv_env (sv_init env0)) n = assoc_last env0 n.
Proof.
  change (sv_init env0) with (declare env0 []). rewrite declared_env. destruct (assoc_last env0 n); reflexivity.
Qed.

(* ---------- running the written commands ---------- *)
From Coq Require Import String.

Definition name_ok (n : str) : bool := is_ident n && negb (special_var n).

Definition is_some {T} (o : option T) : bool := match o with Some _ => true | None => false end.

(* the command word: it must not read as an assignment (an unquoted NAME=...), and it must be a program, not
   a builtin of the shell *)
Definition cmdword_ok (uw : char -> bool) (w : str) : bool :=
  (needs_quote uw w || negb (is_some (xsplit_assign [] (uq w)))) && negb (is_builtin w).
Definition cmd_ok (uw : char -> bool) (cmd : list str) : bool :=
  match cmd with w :: _ => cmdword_ok uw w | [] => false end.

Lemma name_char_not_eq c : is_name_char c = true -> N.eqb c c_eq = false.
Proof. unfold is_name_char, is_name_start, is_upper, is_lower, is_digit, c_us, c_eq. lia. Qed.

Lemma name_start_not_dash c : is_name_start c = true -> N.eqb c c_dash = false.
Proof. unfold is_name_start, is_upper, is_lower, c_us, c_dash. lia. Qed.

Lemma xsplit_uq n : forall acc rest,
  forallb is_name_char n = true ->
  (acc <> [] \/ match n with c :: _ => is_name_start c = true | [] => False end) ->
  xsplit_assign acc (uq n ++ eq_item :: rest) = Some (acc ++ n).
Proof.
  induction n as [|c r IH]; intros acc rest Hc Hs.
  - cbn. destruct Hs as [Hs|[]]. destruct acc; [congruence|]. now rewrite app_nil_r.
  - cbn [forallb] in Hc. apply andb_true_iff in Hc as [Hc Hr].
    cbn [uq map app xsplit_assign]. rewrite (name_char_not_eq c Hc).
    assert (T : (match acc with [] => is_name_start c | _ => is_name_char c end) = true).
    { destruct acc; [destruct Hs as [Hs|Hs]; [congruence|exact Hs]|exact Hc]. }
    rewrite T. fold (uq r). rewrite IH; [now rewrite <- app_assoc|assumption|].
    left. destruct acc; discriminate.
Qed.

Lemma xsplit_ident n rest : is_ident n = true -> xsplit_assign [] (uq n ++ eq_item :: rest) = Some n.
Proof.
  intros H. destruct (ident_chars n H) as [Hc Hne]. rewrite xsplit_uq; [reflexivity|assumption|].
  right. destruct n as [|c r]; [congruence|]. cbn in H. now apply andb_true_iff in H as [H _].
Qed.

Lemma split_eq_name n v : forallb is_name_char n = true -> split_eq (n ++ c_eq :: v) = Some (n, v).
Proof.
  induction n as [|c r IH]; intros H.
  - reflexivity.
  - cbn [forallb] in H. apply andb_true_iff in H as [Hc Hr].
    cbn [app split_eq]. rewrite (name_char_not_eq c Hc), (IH Hr). reflexivity.
Qed.

Section Run.
Variable uw : char -> bool.
Notation nq := (needs_quote uw).

(* image of NAME=value *)
Definition envimg (nv : str * str) (ev : list witem) : Prop :=
  exists wv, ev = uq (fst nv) ++ eq_item :: wv /\ erase_w wv = fl (nq (snd nv)) (snd nv).

Lemma expand_word_img home s w : wimg uw s w -> expand_word home w = Some (Some s).
Proof.
  intros H. unfold expand_word. rewrite texp_id by (rewrite (wimg_erase uw s w H); apply no_utq_fl).
  rewrite (wimg_erase uw s w H). destruct s as [|c s].
  - cbn. unfold wimg in H. change (nq []) with true in H. cbn iota in H. destruct H as [_ [Ha _]].
    now rewrite (allq_has_unq w Ha).
  - cbn [fl map]. fold (fl (nq (c :: s)) s). cbn [word_str map fst]. fold (word_str (fl (nq (c :: s)) s)).
    now rewrite word_str_fl.
Qed.

Lemma expand_args_img home args wws : Forall2 (wimg uw) args wws -> expand_args home wws = Some args.
Proof.
  induction 1 as [|a w args wws H HF IH]; [reflexivity|].
  cbn [expand_args]. rewrite (expand_word_img home a w H), IH. reflexivity.
Qed.

Lemma expand_assign_img home n v ev : is_ident n = true -> envimg (n, v) ev ->
  expand_assign home ev = Some (n ++ c_eq :: v).
Proof.
  intros Hn [wv [-> He]]. cbn [fst snd] in *. destruct (ident_chars n Hn) as [Hc _].
  unfold expand_assign.
  assert (E : erase_w (uq n ++ eq_item :: wv) = fl false n ++ (c_eq, false) :: fl (nq v) v).
  { rewrite erase_w_app, erase_uq. change (eq_item :: wv) with ([eq_item] ++ wv). rewrite erase_w_app, He. reflexivity. }
  rewrite texp_id.
  - rewrite E. cbn [option_map]. rewrite word_str_app, word_str_fl.
    change ((c_eq, false) :: fl (nq v) v) with ([(c_eq, false)] ++ fl (nq v) v). rewrite word_str_app, word_str_fl. reflexivity.
  - rewrite E, no_utq_app, (no_utq_plain uw false n (name_chars_plain uw n Hc)).
    change ((c_eq, false) :: fl (nq v) v) with ([(c_eq, false)] ++ fl (nq v) v). rewrite no_utq_app, no_utq_fl. reflexivity.
Qed.

Lemma envimg_assign n v ev : is_ident n = true -> envimg (n, v) ev -> xsplit_assign [] ev = Some n.
Proof. intros Hn [wv [-> _]]. now apply xsplit_ident. Qed.

Lemma name_ok_inv n : name_ok n = true -> is_ident n = true /\ special_var n = false.
Proof. unfold name_ok. intros H. apply andb_true_iff in H as [H1 H2]. apply negb_true_iff in H2. now split. Qed.

Lemma do_assigns_img ex env evs : Forall2 envimg env evs -> forallb name_ok (map fst env) = true ->
  forall st, do_assigns st ex evs =
    Some (fold_left (fun (st : shvars) (nv : str * str) => sv_set st (fst nv) (snd nv) ex) env st).
Proof.
  induction 1 as [|[n v] ev env evs H HF IH]; intros Hn st; [reflexivity|].
  cbn [map forallb fst] in Hn. apply andb_true_iff in Hn as [Hn Hr].
  destruct (name_ok_inv n Hn) as [Hi Hs]. destruct (ident_chars n Hi) as [Hc _].
  cbn [do_assigns]. rewrite (expand_assign_img _ n v ev Hi H), (split_eq_name n v Hc), Hs.
  cbn [fold_left fst snd]. now apply IH.
Qed.

Lemma xtake_assigns_img env evs rest : Forall2 envimg env evs -> forallb name_ok (map fst env) = true ->
  xtake_assigns (evs ++ rest) = let (a, r) := xtake_assigns rest in (evs ++ a, r).
Proof.
  induction 1 as [|[n v] ev env evs H HF IH]; intros Hn.
  - cbn [app]. destruct (xtake_assigns rest); reflexivity.
  - cbn [map forallb fst] in Hn. apply andb_true_iff in Hn as [Hn Hr].
    destruct (name_ok_inv n Hn) as [Hi _].
    cbn [app xtake_assigns]. rewrite (envimg_assign n v ev Hi H), (IH Hr).
    destruct (xtake_assigns rest); reflexivity.
Qed.

Lemma head_not_assign s w : wimg uw s w -> nq s || negb (is_some (xsplit_assign [] (uq s))) = true ->
  xsplit_assign [] w = None.
Proof.
  unfold wimg. destruct (nq s); cbn [orb].
  - intros [_ [Ha Hne]] _. destruct w as [|[c q|] w']; [congruence| |reflexivity].
    cbn in Ha. apply andb_true_iff in Ha as [Hq _]. subst q. reflexivity.
  - intros [-> _] H. destruct (xsplit_assign [] (uq s)); [discriminate|reflexivity].
Qed.

Lemma not_builtin_not_export w : is_builtin w = false -> str_eqb w (STR "export") = false.
Proof.
  intros H. destruct (str_eqb w (STR "export")) eqn:E; [|reflexivity].
  apply str_eqb_true in E. subst w. discriminate.
Qed.

(* a command of plain words after NAME=value prefixes *)
Lemma run_command st env evs cmd cw :
  Forall2 envimg env evs -> forallb name_ok (map fst env) = true ->
  Forall2 (wimg uw) cmd cw -> cmd_ok uw cmd = true ->
  run_simple st (evs ++ cw) = Some (ROk st [{| p_env := sv_env (declare env st); p_argv := cmd |}]).
Proof.
  intros He Hn Hc Hok. unfold run_simple.
  destruct Hc as [|w0 ww0 args wargs H0 Hargs]; [discriminate|].
  cbn [cmd_ok] in Hok. unfold cmdword_ok in Hok. apply andb_true_iff in Hok as [Hna Hnb]. apply negb_true_iff in Hnb.
  rewrite (xtake_assigns_img env evs _ He Hn). cbn [xtake_assigns]. rewrite (head_not_assign w0 ww0 H0 Hna).
  rewrite app_nil_r.
  rewrite (expand_word_img _ w0 ww0 H0), (not_builtin_not_export w0 Hnb), Hnb.
  rewrite (expand_args_img _ args wargs Hargs), (do_assigns_img true env evs He Hn). reflexivity.
Qed.

Definition export_cmd (ev : list witem) : list (list witem) := [uq (STR "export"); ev].

Lemma run_export st n v ev : name_ok n = true -> envimg (n, v) ev ->
  run_simple st (export_cmd ev) = Some (ROk (sv_set st n v true) []).
Proof.
  intros Hn He. destruct (name_ok_inv n Hn) as [Hi Hs]. destruct (ident_chars n Hi) as [Hc Hne].
  unfold run_simple, export_cmd. cbn [xtake_assigns].
  change (xsplit_assign [] (uq (STR "export"))) with (@None str). cbn iota.
  assert (W : wimg uw (STR "export") (uq (STR "export"))).
  { unfold wimg. change (nq (STR "export")) with false. cbn iota. split; [reflexivity|discriminate]. }
  rewrite (expand_word_img _ _ _ W). change (str_eqb (STR "export") (STR "export")) with true. cbn iota.
  cbn [expand_export_args]. rewrite (envimg_assign n v ev Hi He), (expand_assign_img _ n v ev Hi He).
  cbn [option_map do_exports].
  destruct n as [|c0 n0]; [congruence|]. cbn [app].
  assert (Hst : is_name_start c0 = true) by (cbn in Hi; now apply andb_true_iff in Hi as [Hi _]).
  rewrite (name_start_not_dash c0 Hst).
  change (c0 :: n0 ++ c_eq :: v) with ((c0 :: n0) ++ c_eq :: v). rewrite (split_eq_name _ v Hc), Hi, Hs. reflexivity.
Qed.

Lemma run_exports env evs : Forall2 envimg env evs -> forallb name_ok (map fst env) = true ->
  forall st tail, run_list st (map export_cmd evs ++ tail) = run_list (declare env st) tail.
Proof.
  induction 1 as [|[n v] ev env evs H HF IH]; intros Hn st tail; [reflexivity|].
  cbn [map forallb fst] in Hn. apply andb_true_iff in Hn as [Hn Hr].
  cbn [map app run_list]. rewrite (run_export st n v ev Hn H), (IH Hr).
  change (declare ((n, v) :: env) st) with (declare env (sv_set st n v true)).
  destruct (run_list (declare env (sv_set st n v true)) tail) as [[l ok]|]; reflexivity.
Qed.

Lemma run_commands cmds cws : Forall2 (Forall2 (wimg uw)) cmds cws -> forallb (cmd_ok uw) cmds = true ->
  forall st, run_list st cws = Some (map (fun c => {| p_env := sv_env st; p_argv := c |}) cmds, true).
Proof.
  induction 1 as [|cmd cw cmds cws H HF IH]; intros Hok st; [reflexivity|].
  cbn [forallb] in Hok. apply andb_true_iff in Hok as [Hc Hr].
  cbn [run_list map].
  pose proof (run_command st [] [] cmd cw (Forall2_nil _) eq_refl H Hc) as R. cbn [app] in R.
  rewrite R, (IH Hr). reflexivity.
Qed.

(* ---------- the lexical images of the written lines ---------- *)
Lemma words_img ws : exists wws, Forall2 (wimg uw) ws wws /\ Forall2 (ilexw uw) (map word_item ws) wws.
Proof.
  induction ws as [|w ws [wws [H1 H2]]]; [exists []; split; constructor|].
  destruct (quoteq_img uw w) as [ww [Hw Hl]]. exists (ww :: wws). split; constructor; try assumption.
  constructor. intros. cbn [word_item item_text map List.concat]. rewrite app_nil_r. apply Hl.
Qed.

Lemma cmds_img cmds : exists cws, Forall2 (Forall2 (wimg uw)) cmds cws /\
  Forall2 (Forall2 (ilexw uw)) (map (map word_item) cmds) cws.
Proof.
  induction cmds as [|c cmds [cws [H1 H2]]]; [exists []; split; constructor|].
  destruct (words_img c) as [cw [Hc Hl]]. exists (cw :: cws). split; constructor; assumption.
Qed.

Lemma env_img env : forallb name_ok (map fst env) = true ->
  exists evs, Forall2 envimg env evs /\ Forall2 (ilexw uw) (map env_item env) evs.
Proof.
  induction env as [|[n v] env IH]; intros Hn; [exists []; split; constructor|].
  cbn [map forallb fst] in Hn. apply andb_true_iff in Hn as [Hn Hr].
  destruct (IH Hr) as [evs [H1 H2]]. destruct (name_ok_inv n Hn) as [Hi _].
  destruct (env_item_img uw n v Hi) as [wv [He Hl]].
  exists ((uq n ++ eq_item :: wv) :: evs). split; constructor; try assumption.
  - exists wv. split; [reflexivity|exact He].
  - constructor. exact Hl.
Qed.

Lemma export_word_lex : ilexw uw (word_item (STR "export")) (uq (STR "export")).
Proof.
  constructor. intros. cbn [word_item item_text map List.concat]. rewrite app_nil_r.
  change (quote uw (STR "export")) with (STR "export"). apply lexq_plain; [discriminate|reflexivity].
Qed.

Lemma map_words_line cmds : map words_line cmds = map LWords (map (map word_item) cmds).
Proof. unfold words_line. now rewrite map_map. Qed.

(* ---------- the two theorems ---------- *)
Theorem env_global_run env0 env cmds :
  forallb name_ok (map fst env) = true -> forallb (cmd_ok uw) cmds = true -> cmds <> [] ->
  sh_run uw env0 (sh_text uw (global_env env (map words_line cmds))) =
  Some (map (fun c => {| p_env := sv_env (declare env (sv_init env0)); p_argv := c |}) cmds, true).
Proof.
  intros Hn Hok Hne.
  destruct (env_img env Hn) as [evs [He Hle]]. destruct (cmds_img cmds) as [cws [Hc Hlc]].
  unfold sh_run, global_env.
  assert (L : map export_line env ++ map words_line cmds =
              map LWords (map (fun nv => [word_item (STR "export"); env_item nv]) env ++ map (map word_item) cmds)).
  { rewrite map_app, map_map, map_words_line. reflexivity. }
  rewrite L.
  assert (F : Forall2 (Forall2 (ilexw uw))
                (map (fun nv => [word_item (STR "export"); env_item nv]) env ++ map (map word_item) cmds)
                (map export_cmd evs ++ cws)).
  { apply Forall2_app; [|exact Hlc]. clear -Hle. remember (map env_item env) as its eqn:Ei.
    revert env Ei. induction Hle as [|it ev its evs H HF IH]; intros env Ei.
    - destruct env; [constructor|discriminate].
    - destruct env as [|nv env]; [discriminate|]. cbn [map] in Ei. inversion Ei; subst.
      cbn [map]. constructor; [|now apply IH]. unfold export_cmd.
      apply Forall2_cons; [apply export_word_lex|]. apply Forall2_cons; [exact H|apply Forall2_nil]. }
  rewrite (items_lex uw _ _ (join_lines_lex uw _ _ F)).
  destruct cmds as [|c0 cmds']; [congruence|]. inversion Hc as [|? cw0 ? cws' Hc0 Hc' E1 E2]; subst.
  destruct evs as [|ev evs'].
  - cbn [map app]. rewrite xsplit_and_toks. cbn [app].
    inversion He; subst. cbn [declare fold_left].
    apply (run_commands (c0 :: cmds') (cw0 :: cws')); assumption.
  - cbn [map app]. rewrite xsplit_and_toks. cbn [app].
    change (export_cmd ev :: map export_cmd evs' ++ cw0 :: cws') with (map export_cmd (ev :: evs') ++ cw0 :: cws').
    rewrite (run_exports env (ev :: evs') He Hn).
    apply (run_commands (c0 :: cmds') (cw0 :: cws')); assumption.
Qed.

Theorem env_local_run env0 env cmd :
  forallb name_ok (map fst env) = true -> cmd_ok uw cmd = true ->
  sh_run uw env0 (sh_text uw (local_env env (words_line cmd))) =
  Some ([{| p_env := sv_env (declare env (sv_init env0)); p_argv := cmd |}], true).
Proof.
  intros Hn Hok.
  destruct (env_img env Hn) as [evs [He Hle]]. destruct (words_img cmd) as [cw [Hc Hlc]].
  unfold sh_run, local_env. cbn [words_line escape_line].
  assert (F : Forall2 (ilex uw) (map env_item env ++ map word_item cmd) (toks_of [evs ++ cw])).
  { cbn [toks_of]. rewrite map_app. apply Forall2_app; now apply ilexw_map. }
  rewrite (items_lex uw _ _ F). rewrite xsplit_and_toks. cbn [app run_list].
  rewrite (run_command _ env evs cmd cw He Hn Hc Hok). reflexivity.
Qed.
End Run.

(* the environment of the processes, as a map: the declared value for a declared name (the last declaration of a name
   wins, as in a dict), the inherited value for every other name *)
Lemma delivered_env env0 env n :
  env_get (sv_env (declare env (sv_init env0))) n =
  match assoc_last env n with Some v => Some v | None => assoc_last env0 n end.
Proof. rewrite declared_env, init_env. reflexivity. Qed.

(* tilde expansion does nothing to a written word *)
Lemma texp_written uw home vt se ap s w : wimg uw s w -> texp home vt se ap w = Some (fl (needs_quote uw s) s).
Proof.
  intros H. rewrite texp_id; [now rewrite (wimg_erase uw s w H)|].
  rewrite (wimg_erase uw s w H). apply no_utq_fl.
Qed.

(* at least one command, and every command word acceptable *)
Definition cmds_ok (uw : char -> bool) (cmds : list (list str)) : bool :=
  match cmds with [] => false | _ => forallb (cmd_ok uw) cmds end.

Lemma cmds_ok_inv uw cmds : cmds_ok uw cmds = true -> forallb (cmd_ok uw) cmds = true /\ cmds <> [].
Proof. destruct cmds; [discriminate|]. intros H. split; [exact H|discriminate]. Qed.

Definition mkprocs (penv : list (str * str)) (cmds : list (list str)) : list proc :=
  map (fun c => {| p_env := penv; p_argv := c |}) cmds.

Theorem env_global uw env0 env cmds :
  forallb name_ok (map fst env) = true -> cmds_ok uw cmds = true ->
  exists penv,
    sh_run uw env0 (sh_text uw (global_env env (map words_line cmds))) = Some (mkprocs penv cmds, true) /\
    forall n, env_get penv n = match assoc_last env n with Some v => Some v | None => assoc_last env0 n end.
Proof.
  intros Hn Hc. destruct (cmds_ok_inv uw cmds Hc) as [Hok Hne].
  exists (sv_env (declare env (sv_init env0))). split; [now apply env_global_run|apply delivered_env].
Qed.

Theorem env_local uw env0 env cmd :
  forallb name_ok (map fst env) = true -> cmd_ok uw cmd = true ->
  exists penv,
    sh_run uw env0 (sh_text uw (local_env env (words_line cmd))) = Some (mkprocs penv [cmd], true) /\
    forall n, env_get penv n = match assoc_last env n with Some v => Some v | None => assoc_last env0 n end.
Proof.
  intros Hn Hc.
  exists (sv_env (declare env (sv_init env0))). split; [now apply env_local_run|apply delivered_env].
Qed.
