(* W model of bfg9000/shell/posix.py (quoting half) and of the part of safe_str.py
   it dispatches on.  Mirrors: _bad_chars, inner_quote_info, wrap_quotes, quote_info,
   quote, force_quote, join. *)
From BFG Require Import Base.Chars.
Local Open Scope N_scope.

(* Python: re.compile(r'[^\w@%+=:,./-]').  \w is Unicode aware; the classification of
   code points >= 128 is a parameter [uw] (theorems hold for every [uw]). *)
Definition ok_punct : list char := [64; 37; 43; 61; 58; 44; 46; 47; 45]. (* @ % + = : , . / - *)
Definition posix_bad (uw : char -> bool) (c : char) : bool :=
  if c <? 128 then negb (is_ascii_word c || mem_char c ok_punct) else negb (uw c).

Section Quote.
Variable uw : char -> bool.
Notation bad := (posix_bad uw).

(* s.replace("'", r"'\''") *)
Fixpoint esc (s : str) : str :=
  match s with
  | [] => []
  | c :: r => if N.eqb c c_sq then c_sq :: c_bs :: c_sq :: c_sq :: esc r else c :: esc r
  end.

(* inner_quote_info on a plain str *)
Definition inner_quote_info (s : str) : str * bool :=
  match s with
  | [] => ([], true)
  | _ => if existsb bad s then (esc s, true) else (s, false)
  end.

Definition starts_q (s : str) := match s with c :: _ => N.eqb c c_sq | [] => false end.
Definition ends_q (s : str) := starts_q (rev s).

(* wrap_quotes, with Python's slicing s[start:end] *)
Definition wrap_quotes (s : str) : str :=
  if Nat.ltb (length s) 3 then c_sq :: s ++ [c_sq]
  else
    let body1 := if starts_q s then tl s else s in
    let body := if ends_q s then removelast body1 else body1 in
    (if starts_q s then [] else [c_sq]) ++ body ++ (if ends_q s then [] else [c_sq]).

(* safe_str bits that reach the POSIX quoter: plain str or shell_literal *)
Inductive bit := BStr (s : str) | BLit (s : str).

Definition quote_bit (b : bit) : str * bool :=
  match b with
  | BLit s => (s, false)
  | BStr s => let (r, e) := inner_quote_info s in if e then (wrap_quotes r, true) else (r, false)
  end.

(* quote_info on a jbos: concatenation of the bits' quotings *)
Definition quote_info (bits : list bit) : str * bool :=
  fold_left (fun acc b => let (r, e) := quote_bit b in (fst acc ++ r, snd acc || e)) bits ([], false).

Definition quote (s : str) : str := fst (quote_bit (BStr s)).
Definition quote_jbos (bits : list bit) : str := fst (quote_info bits).
Definition force_quote (s : str) : str := wrap_quotes (fst (inner_quote_info s)).

Fixpoint join_sp (ws : list str) : str :=
  match ws with
  | [] => []
  | [w] => w
  | w :: r => w ++ c_sp :: join_sp r
  end.

(* posix.join *)
Definition join (args : list str) : str := join_sp (map quote args).
End Quote.
