From BFG Require Import Base.Chars Shell.PosixQuote Shell.Sh.
Local Open Scope N_scope.

Definition fl (b : bool) (s : str) : list qchar := map (fun c => (c, b)) s.

Lemma fl_app b x y : fl b (x ++ y) = fl b x ++ fl b y.
Proof. apply map_app. Qed.

Lemma word_str_fl b s : word_str (fl b s) = s.
Proof. unfold word_str, fl. rewrite map_map. cbn. apply map_id. Qed.

Section Proofs.
Variable uw : char -> bool.
Notation bad := (posix_bad uw).
Notation lex := (lex uw).

Lemma bad_sq : bad c_sq = true. Proof. reflexivity. Qed.
Lemma bad_bs : bad c_bs = true. Proof. reflexivity. Qed.
Lemma bad_sp : bad c_sp = true. Proof. reflexivity. Qed.
Lemma bad_tab : bad c_tab = true. Proof. reflexivity. Qed.
Lemma bad_amp : bad c_amp = true. Proof. reflexivity. Qed.

Lemma notbad_neq c d : bad c = false -> bad d = true -> N.eqb c d = false.
Proof. intros Hc Hd. destruct (N.eqb c d) eqn:E; [|reflexivity]. apply N.eqb_eq in E. congruence. Qed.

Lemma notbad_blank c : bad c = false -> is_blank c = false.
Proof.
  intros H. unfold is_blank. rewrite (notbad_neq c c_sp H bad_sp), (notbad_neq c c_tab H bad_tab). reflexivity.
Qed.

(* one ordinary (non-bad) character *)
Lemma lex_plain_char c inw cur r :
  bad c = false -> lex false inw cur (c :: r) = lex false true (cur ++ [(c, false)]) r.
Proof.
  intros H. cbn [Sh.lex].
  rewrite (notbad_neq c c_sq H bad_sq), (notbad_neq c c_bs H bad_bs), (notbad_blank c H),
    (notbad_neq c c_amp H bad_amp), H. reflexivity.
Qed.

Lemma lex_plain s : forall inw cur rest, s <> [] -> existsb bad s = false ->
  lex false inw cur (s ++ rest) = lex false true (cur ++ fl false s) rest.
Proof.
  induction s as [|c s IH]; intros inw cur rest Hne H; [congruence|].
  cbn [existsb] in H. apply orb_false_iff in H as [Hc Hs].
  cbn [app]. rewrite lex_plain_char by assumption.
  destruct s as [|d s'].
  - cbn. reflexivity.
  - rewrite IH by (congruence || assumption). cbn [fl map]. rewrite <- app_assoc. reflexivity.
Qed.

(* inside quotes: esc s followed by the closing quote *)
Lemma esc_inq s : forall cur rest,
  lex true true cur (esc s ++ c_sq :: rest) = lex false true (cur ++ fl true s) rest.
Proof.
  induction s as [|c s IH]; intros cur rest.
  - cbn. now rewrite app_nil_r.
  - cbn [esc]. destruct (N.eqb c c_sq) eqn:E.
    + apply N.eqb_eq in E; subst c.
      change (lex true true cur ((c_sq :: c_bs :: c_sq :: c_sq :: esc s) ++ c_sq :: rest))
        with (lex true true (cur ++ [(c_sq, true)]) (esc s ++ c_sq :: rest)).
      rewrite IH. cbn [fl map]. now rewrite <- app_assoc.
    + cbn [app Sh.lex]. rewrite E, IH. cbn [fl map]. now rewrite <- app_assoc.
Qed.

Lemma open_quote inw cur r : lex false inw cur (c_sq :: r) = lex true true cur r.
Proof. reflexivity. Qed.

Lemma naive s inw cur rest :
  lex false inw cur ((c_sq :: esc s ++ [c_sq]) ++ rest) = lex false true (cur ++ fl true s) rest.
Proof.
  cbn [app]. rewrite open_quote, <- app_assoc. cbn [app]. apply esc_inq.
Qed.

Lemma esc_app a b : esc (a ++ b) = esc a ++ esc b.
Proof.
  induction a as [|c a IH]; cbn [esc app]; [reflexivity|].
  destruct (N.eqb c c_sq); rewrite IH; reflexivity.
Qed.

Lemma starts_esc s : starts_q (esc s) = starts_q s.
Proof. destruct s as [|c s]; [reflexivity|]. cbn [esc]. destruct (N.eqb c c_sq) eqn:E; cbn [starts_q]; rewrite ?E; reflexivity. Qed.

Lemma starts_q_inv s : starts_q s = true -> exists s', s = c_sq :: s'.
Proof. destruct s as [|c s]; cbn; [discriminate|]. intros E. apply N.eqb_eq in E. subst. eauto. Qed.

Lemma ends_q_inv s : ends_q s = true -> exists s', s = s' ++ [c_sq].
Proof.
  intros H. unfold ends_q in H. apply starts_q_inv in H as [r Hr].
  exists (rev r). rewrite <- (rev_involutive s), Hr. reflexivity.
Qed.

Lemma ends_q_app a c : ends_q (a ++ [c]) = N.eqb c c_sq.
Proof. unfold ends_q. rewrite rev_app_distr. reflexivity. Qed.

Lemma ends_esc s : ends_q (esc s) = ends_q s.
Proof.
  destruct (rev s) as [|c r] eqn:E.
  - assert (s = []) by (rewrite <- (rev_involutive s), E; reflexivity). subst. reflexivity.
  - assert (s = rev r ++ [c]) as -> by (rewrite <- (rev_involutive s), E; reflexivity).
    rewrite esc_app, ends_q_app. cbn [esc]. destruct (N.eqb c c_sq) eqn:Ec.
    + change [c_sq; c_bs; c_sq; c_sq] with ([c_sq; c_bs; c_sq] ++ [c_sq]). rewrite app_assoc, ends_q_app. reflexivity.
    + rewrite ends_q_app. exact Ec.
Qed.

(* esc s followed by the truncated tail  ' \ '  (closing quote de-duplicated away) *)
Lemma esc_inq_trunc s cur rest :
  lex true true cur ((esc s ++ [c_sq; c_bs; c_sq]) ++ rest) = lex false true (cur ++ fl true (s ++ [c_sq])) rest.
Proof.
  rewrite <- app_assoc. change ([c_sq; c_bs; c_sq] ++ rest) with (c_sq :: (c_bs :: c_sq :: rest)).
  rewrite esc_inq. cbn [Sh.lex]. change (N.eqb c_bs c_sq) with false. change (N.eqb c_bs c_bs) with true.
  change (N.eqb c_sq c_nl) with false. cbn iota. rewrite fl_app, app_assoc. reflexivity.
Qed.

(* after the leading quote of s was dropped: the text starts with  \ ' '  *)
Lemma lead_dropped inw cur r :
  lex false inw cur (c_bs :: c_sq :: c_sq :: r) = lex true true (cur ++ [(c_sq, true)]) r.
Proof. reflexivity. Qed.

Theorem wrap_ok s inw cur rest :
  lex false inw cur (wrap_quotes (esc s) ++ rest) = lex false true (cur ++ fl true s) rest.
Proof.
  unfold wrap_quotes.
  destruct (Nat.ltb (length (esc s)) 3) eqn:L; [apply naive|].
  rewrite starts_esc, ends_esc.
  destruct (starts_q s) eqn:S0; destruct (ends_q s) eqn:E0.
  - (* both *)
    apply starts_q_inv in S0 as [s1 ->].
    destruct s1 as [|c s1'] eqn:Es1.
    + cbn. reflexivity.
    + rewrite <- Es1 in *.
      assert (ends_q s1 = true) as E1.
      { subst s1. unfold ends_q in *. cbn [rev] in *.
        destruct (rev s1' ++ [c]) eqn:R; [destruct (rev s1'); discriminate|].
        cbn in E0 |- *. exact E0. }
      apply ends_q_inv in E1 as [s2 ->].
      change (esc (c_sq :: s2 ++ [c_sq])) with (c_sq :: c_bs :: c_sq :: c_sq :: esc (s2 ++ [c_sq])).
      cbn [tl]. rewrite esc_app. cbn [esc]. rewrite N.eqb_refl.
      change [c_sq; c_bs; c_sq; c_sq] with ([c_sq; c_bs; c_sq] ++ [c_sq]).
      replace (c_bs :: c_sq :: c_sq :: esc s2 ++ [c_sq; c_bs; c_sq] ++ [c_sq])
        with ((c_bs :: c_sq :: c_sq :: esc s2 ++ [c_sq; c_bs; c_sq]) ++ [c_sq])
        by (cbn [app]; now rewrite <- app_assoc).
      rewrite removelast_last, app_nil_r. cbn [app].
      rewrite lead_dropped, esc_inq_trunc. cbn [fl map]. rewrite <- app_assoc. reflexivity.
  - (* starts only *)
    apply starts_q_inv in S0 as [s1 ->].
    change (esc (c_sq :: s1)) with (c_sq :: c_bs :: c_sq :: c_sq :: esc s1). cbn [tl app].
    rewrite lead_dropped, <- app_assoc. cbn [app]. rewrite esc_inq. cbn [fl map]. now rewrite <- app_assoc.
  - (* ends only *)
    apply ends_q_inv in E0 as [s2 ->].
    rewrite esc_app. cbn [esc]. rewrite N.eqb_refl.
    change [c_sq; c_bs; c_sq; c_sq] with ([c_sq; c_bs; c_sq] ++ [c_sq]).
    replace (esc s2 ++ [c_sq; c_bs; c_sq] ++ [c_sq]) with ((esc s2 ++ [c_sq; c_bs; c_sq]) ++ [c_sq])
      by (now rewrite <- app_assoc).
    rewrite removelast_last. cbn [app]. rewrite app_nil_r, open_quote.
    apply esc_inq_trunc.
  - apply naive.
Qed.

(* whether a plain string gets quoted *)
Definition needs_quote (s : str) : bool := snd (inner_quote_info uw s).

(* the word image of one quoted plain string *)
Theorem quote_img s inw cur rest :
  lex false inw cur (quote uw s ++ rest) = lex false true (cur ++ fl (needs_quote s) s) rest.
Proof.
  unfold quote, quote_bit, needs_quote, inner_quote_info.
  destruct s as [|c s]; [cbn; now rewrite app_nil_r|].
  destruct (existsb bad (c :: s)) eqn:B; cbn [fst snd].
  - apply wrap_ok.
  - apply lex_plain; [discriminate|assumption].
Qed.

Lemma lex_sep cur rest :
  lex false true cur (c_sp :: rest) = option_map (cons (TW cur)) (lex false false [] rest).
Proof. reflexivity. Qed.

Theorem join_lex args :
  sh_lex uw (join uw args) = Some (map (fun a => TW (fl (needs_quote a) a)) args).
Proof.
  unfold sh_lex, join.
  induction args as [|a args IH]; [reflexivity|].
  cbn [map join_sp]. destruct args as [|b args'].
  - cbn [map]. rewrite <- (app_nil_r (quote uw a)), quote_img. reflexivity.
  - cbn [map] in *. rewrite quote_img, lex_sep, IH. reflexivity.
Qed.

Theorem join_words args : sh_words uw (join uw args) = Some args.
Proof.
  unfold sh_words. rewrite join_lex.
  induction args as [|a args IH]; [reflexivity|].
  cbn [map words_only]. rewrite IH, word_str_fl. reflexivity.
Qed.

Theorem quote_word s : sh_words uw (quote uw s) = Some [s].
Proof. exact (join_words [s]). Qed.
End Proofs.

(* ---- concatenating joined word lists with a blank (flag variables referring to other flag variables) ---- *)
Section Concat.
Variable uw : char -> bool.
Notation lex := (Sh.lex uw).

Definition wtok (a : str) : token := TW (fl (needs_quote uw a) a).

Lemma lex_leading_blank rest : lex false false [] (c_sp :: rest) = lex false false [] rest.
Proof. reflexivity. Qed.

Lemma lex_join_then a : forall rest,
  lex false false [] (join uw a ++ c_sp :: rest) = option_map (app (map wtok a)) (lex false false [] rest).
Proof.
  unfold join. induction a as [|x a IH]; intros rest.
  - cbn [map join_sp app]. rewrite lex_leading_blank. destruct (lex false false [] rest); reflexivity.
  - cbn [map join_sp]. destruct a as [|y a'].
    + cbn [map]. rewrite quote_img, lex_sep. cbn [app]. destruct (lex false false [] rest); reflexivity.
    + cbn [map] in *. rewrite <- app_assoc. cbn [app]. rewrite quote_img, lex_sep. rewrite IH.
      destruct (lex false false [] rest); reflexivity.
Qed.

Lemma words_only_wtok a : words_only (map wtok a) = Some a.
Proof.
  induction a as [|x a IH]; [reflexivity|]. cbn [map words_only]. unfold wtok at 1. rewrite IH. cbn.
  now rewrite word_str_fl.
Qed.

Lemma words_only_app t1 t2 a b : words_only t1 = Some a -> words_only t2 = Some b -> words_only (t1 ++ t2) = Some (a ++ b).
Proof.
  revert a; induction t1 as [|t t1 IH]; intros a H1 H2.
  - cbn in H1. inversion H1. exact H2.
  - destruct t as [w|]; [|discriminate]. cbn [app words_only] in *.
    destruct (words_only t1) as [a'|] eqn:E; [|discriminate]. cbn in H1. inversion H1; subst a.
    rewrite (IH a' eq_refl H2). reflexivity.
Qed.

(* the text  <joined a> <blank> <joined b>  is split by sh into a ++ b (either list may be empty) *)
Theorem join_concat_words a b : sh_words uw (join uw a ++ c_sp :: join uw b) = Some (a ++ b).
Proof.
  unfold sh_words, sh_lex. rewrite lex_join_then.
  pose proof (join_lex uw b) as Hb. unfold sh_lex in Hb. rewrite Hb. cbn [option_map].
  apply words_only_app; apply words_only_wtok.
Qed.
End Concat.
