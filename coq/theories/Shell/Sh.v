(* R model: POSIX sh word splitting on the fragment of the language bfg9000 emits.
   Words keep, per character, whether it was quoted (needed to decide whether a word is an
   assignment).  Any unquoted character outside the fragment makes the parse [None]. *)
From BFG Require Import Base.Chars Shell.PosixQuote.
Local Open Scope N_scope.

Definition qchar := (char * bool)%type.      (* (code point, was quoted) *)
Inductive token := TW (w : list qchar) | TAnd.

Definition is_blank (c : char) : bool := N.eqb c c_sp || N.eqb c c_tab.

Section Sh.
Variable uw : char -> bool.
Notation bad := (posix_bad uw).

(* [inq]: inside single quotes; [inw]: a word has been started; [cur]: the word so far. *)
Fixpoint lex (inq inw : bool) (cur : list qchar) (s : str) : option (list token) :=
  match s with
  | [] => if inq then None else Some (if inw then [TW cur] else [])
  | c :: r =>
    if inq then
      if N.eqb c c_sq then lex false true cur r
      else lex true true (cur ++ [(c, true)]) r
    else if N.eqb c c_sq then lex true true cur r
    else if N.eqb c c_bs then
      match r with
      | d :: r' => if N.eqb d c_nl then None else lex false true (cur ++ [(d, true)]) r'
      | [] => None
      end
    else if is_blank c then
      if inw then option_map (cons (TW cur)) (lex false false [] r) else lex false false [] r
    else if N.eqb c c_amp then
      match r with
      | d :: r' =>
        if N.eqb d c_amp then
          let rest := option_map (cons TAnd) (lex false false [] r') in
          if inw then option_map (cons (TW cur)) rest else rest
        else None
      | [] => None
      end
    else if bad c then None
    else lex false true (cur ++ [(c, false)]) r
  end.

Definition sh_lex (s : str) : option (list token) := lex false false [] s.

Definition word_str (w : list qchar) : str := map fst w.

(* argv of a line that consists of words only *)
Fixpoint words_only (ts : list token) : option (list str) :=
  match ts with
  | [] => Some []
  | TW w :: r => option_map (cons (word_str w)) (words_only r)
  | TAnd :: _ => None
  end.

Definition sh_words (s : str) : option (list str) :=
  match sh_lex s with Some ts => words_only ts | None => None end.

(* --- simple commands --- *)
Definition is_name_start (c : char) : bool := is_upper c || is_lower c || N.eqb c c_us.
Definition is_name_char (c : char) : bool := is_name_start c || is_digit c.

(* An assignment word: NAME= with NAME and = all unquoted. Returns (name, value). *)
Fixpoint split_assign (name : str) (w : list qchar) : option (str * str) :=
  match w with
  | [] => None
  | (c, qd) :: r =>
    if qd then None
    else if N.eqb c c_eq then
      match name with [] => None | _ => Some (name, word_str r) end
    else if (match name with [] => is_name_start c | _ => is_name_char c end)
      then split_assign (name ++ [c]) r
    else None
  end.

Record simple := { s_env : list (str * str); s_argv : list str }.

Fixpoint take_assigns (ws : list (list qchar)) : list (str * str) * list (list qchar) :=
  match ws with
  | [] => ([], [])
  | w :: r =>
    match split_assign [] w with
    | Some a => let (e, rest) := take_assigns r in (a :: e, rest)
    | None => ([], ws)
    end
  end.

Definition mk_simple (ws : list (list qchar)) : simple :=
  let (e, rest) := take_assigns ws in {| s_env := e; s_argv := map word_str rest |}.

(* split a token list at && *)
Fixpoint split_and (cur : list (list qchar)) (ts : list token) : list (list (list qchar)) :=
  match ts with
  | [] => [cur]
  | TW w :: r => split_and (cur ++ [w]) r
  | TAnd :: r => cur :: split_and [] r
  end.

Definition sh_commands (s : str) : option (list simple) :=
  match sh_lex s with
  | Some ts => Some (map mk_simple (split_and [] ts))
  | None => None
  end.
End Sh.
