(* R model: POSIX sh word splitting on the fragment of the language bfg9000 emits.
   Words keep, per character, whether it was quoted (needed to decide whether a word is an
   assignment).  Any unquoted character outside the fragment makes the parse [None]. *)
From BFG Require Import Base.Chars Shell.PosixQuote.
Local Open Scope N_scope.

Definition qchar := (char * bool)%type.      (* (code point, was quoted) *)
Inductive token := TW (w : list qchar) | TAnd.

Definition is_blank (c : char) : bool := N.eqb c c_sp || N.eqb c c_tab.

Section Sh.
Variable uw : char -> bool.
Notation bad := (posix_bad uw).

(* [inq]: inside single quotes; [inw]: a word has been started; [cur]: the word so far. *)
Fixpoint lex (inq inw : bool) (cur : list qchar) (s : str) : option (list token) :=
  match s with
  | [] => if inq then None else Some (if inw then [TW cur] else [])
  | c :: r =>
    if inq then
      if N.eqb c c_sq then lex false true cur r
      else lex true true (cur ++ [(c, true)]) r
    else if N.eqb c c_sq then lex true true cur r
    else if N.eqb c c_bs then
      match r with
      | d :: r' => if N.eqb d c_nl then None else lex false true (cur ++ [(d, true)]) r'
      | [] => None
      end
    else if is_blank c then
      if inw then option_map (cons (TW cur)) (lex false false [] r) else lex false false [] r
    else if N.eqb c c_amp then
      match r with
      | d :: r' =>
        if N.eqb d c_amp then
          let rest := option_map (cons TAnd) (lex false false [] r') in
          if inw then option_map (cons (TW cur)) rest else rest
        else None
      | [] => None
      end
    else if bad c then None
    else lex false true (cur ++ [(c, false)]) r
  end.

Definition sh_lex (s : str) : option (list token) := lex false false [] s.

Definition word_str (w : list qchar) : str := map fst w.

(* argv of a line that consists of words only *)
Fixpoint words_only (ts : list token) : option (list str) :=
  match ts with
  | [] => Some []
  | TW w :: r => option_map (cons (word_str w)) (words_only r)
  | TAnd :: _ => None
  end.

Definition sh_words (s : str) : option (list str) :=
  match sh_lex s with Some ts => words_only ts | None => None end.

(* --- simple commands --- *)
Definition is_name_start (c : char) : bool := is_upper c || is_lower c || N.eqb c c_us.
Definition is_name_char (c : char) : bool := is_name_start c || is_digit c.

(* An assignment word: NAME= with NAME and = all unquoted. Returns (name, value). *)
Fixpoint split_assign (name : str) (w : list qchar) : option (str * str) :=
  match w with
  | [] => None
  | (c, qd) :: r =>
    if qd then None
    else if N.eqb c c_eq then
      match name with [] => None | _ => Some (name, word_str r) end
    else if (match name with [] => is_name_start c | _ => is_name_char c end)
      then split_assign (name ++ [c]) r
    else None
  end.

Record simple := { s_env : list (str * str); s_argv : list str }.

Fixpoint take_assigns (ws : list (list qchar)) : list (str * str) * list (list qchar) :=
  match ws with
  | [] => ([], [])
  | w :: r =>
    match split_assign [] w with
    | Some a => let (e, rest) := take_assigns r in (a :: e, rest)
    | None => ([], ws)
    end
  end.

Definition mk_simple (ws : list (list qchar)) : simple :=
  let (e, rest) := take_assigns ws in {| s_env := e; s_argv := map word_str rest |}.

(* split a token list at && *)
Fixpoint split_and (cur : list (list qchar)) (ts : list token) : list (list (list qchar)) :=
  match ts with
  | [] => [cur]
  | TW w :: r => split_and (cur ++ [w]) r
  | TAnd :: r => cur :: split_and [] r
  end.

Definition sh_commands (s : str) : option (list simple) :=
  match sh_lex s with
  | Some ts => Some (map mk_simple (split_and [] ts))
  | None => None
  end.
End Sh.

(* ====================================================================================================
   Second layer (environment channel): assignment words, the export builtin, tilde expansion and the
   environment carried along an && list, as dash 0.5.12 does it.  Everything above is unchanged.

   Words now also record the quote marks (dash: CTLQUOTEMARK), because dash gives up a tilde prefix as soon
   as it meets a quote mark or a quoted character, and an empty pair of quotes is otherwise invisible.
   The lexer [lexq] is [lex] with quote marks kept and with the unquoted tilde accepted.

   What dash does (observed on the real /bin/sh, validated on every run by harness/c01.py stage R:sh_run):
   - a word is an assignment word when it starts with an unquoted identifier followed by an unquoted = ,
     with no quote mark inside that prefix (decided on the raw word, before expansion);
   - prefix assignments NAME=word of a command: tilde expansion right after the = and after every unquoted
     colon, not at the start of the word; performed left to right, each seeing the previous ones (HOME=/x
     Y=~ cmd gives Y=/x); the argument words of the command are expanded before them (with the old HOME);
   - export (dash treats it as an assignment builtin): an argument that is an assignment word is expanded
     like a prefix assignment (export X=a:~/b gives a:$HOME/b), any other argument like an ordinary word
     (tilde at the start only); all arguments are expanded before any variable is set; a name that is not
     an identifier makes the shell exit with an error (nothing after it runs);
   - ordinary words: tilde expansion at the start of the word only;
   - a tilde prefix runs up to the first unquoted slash (or colon, in assignments) or the end of the word;
     a quote mark or quoted character before that: no expansion; empty login name: the value of HOME (when
     HOME is unset: no expansion; when empty: the empty string, and a word that thereby becomes empty and
     has no quoted part disappears); a non-empty login name is a lookup in the user database: outside the
     fragment ([None]);
   - assigning a non-number to OPTIND is an error: OPTIND is outside the fragment; shell builtins as the
     command word are not processes: outside the fragment, except export;
   - a process started in an && list is assumed to exit with status 0 (the next command runs). *)
From Coq Require Import String.

Inductive witem := WC (c : char) (q : bool) | WQ.
Inductive xtoken := XW (w : list witem) | XAnd.

Definition erase_i (i : witem) : list qchar := match i with WC c q => [(c, q)] | WQ => [] end.
Definition erase_w (w : list witem) : list qchar := flat_map erase_i w.
Definition erase_t (t : xtoken) : token := match t with XW w => TW (erase_w w) | XAnd => TAnd end.

Section ShX.
Variable uw : char -> bool.
Notation bad := (posix_bad uw).

Fixpoint lexq (inq inw : bool) (cur : list witem) (s : str) : option (list xtoken) :=
  match s with
  | [] => if inq then None else Some (if inw then [XW cur] else [])
  | c :: r =>
    if inq then
      if N.eqb c c_sq then lexq false true (cur ++ [WQ]) r
      else lexq true true (cur ++ [WC c true]) r
    else if N.eqb c c_sq then lexq true true (cur ++ [WQ]) r
    else if N.eqb c c_bs then
      match r with
      | d :: r' => if N.eqb d c_nl then None else lexq false true (cur ++ [WC d true]) r'
      | [] => None
      end
    else if is_blank c then
      if inw then option_map (cons (XW cur)) (lexq false false [] r) else lexq false false [] r
    else if N.eqb c c_amp then
      match r with
      | d :: r' =>
        if N.eqb d c_amp then
          let rest := option_map (cons XAnd) (lexq false false [] r') in
          if inw then option_map (cons (XW cur)) rest else rest
        else None
      | [] => None
      end
    else if bad c && negb (N.eqb c c_tilde) then None
    else lexq false true (cur ++ [WC c false]) r
  end.

Definition sh_lexq (s : str) : option (list xtoken) := lexq false false [] s.
End ShX.

(* ---- tilde expansion ---- *)
Definition is_tterm (vt : bool) (c : char) : bool := N.eqb c c_slash || (vt && N.eqb c c_colon).

Inductive tkind := TKHome | TKLit | TKUser.

(* after at least one character of a login name *)
Fixpoint user_scan (vt : bool) (w : list witem) : tkind :=
  match w with
  | [] => TKUser
  | WC c false :: r => if is_tterm vt c then TKUser else user_scan vt r
  | _ => TKLit
  end.

(* what the text after an unquoted tilde makes of it *)
Definition tilde_kind (vt : bool) (w : list witem) : tkind :=
  match w with
  | [] => TKHome
  | WC c false :: r => if is_tterm vt c then TKHome else user_scan vt r
  | _ => TKLit
  end.

Definition qd (s : str) : list qchar := map (fun c => (c, true)) s.

(* [vt]: assignment context (tilde after the first unquoted = and after unquoted colons; colon ends a
   prefix); [se]: the first = has been seen; [ap]: a tilde at this position is a tilde prefix.
   The text that replaces a tilde prefix is marked quoted: it is not looked at again. *)
Fixpoint texp (home : option str) (vt se ap : bool) (w : list witem) : option (list qchar) :=
  match w with
  | [] => Some []
  | WQ :: r => texp home vt se false r
  | WC c q :: r =>
    if ap && negb q && N.eqb c c_tilde then
      match tilde_kind vt r with
      | TKUser => None
      | TKLit => option_map (cons (c, false)) (texp home vt se false r)
      | TKHome =>
        match home with
        | Some h => option_map (app (qd h)) (texp home vt se false r)
        | None => option_map (cons (c, false)) (texp home vt se false r)
        end
      end
    else
      let trig := negb q && vt && (N.eqb c c_colon || (N.eqb c c_eq && negb se)) in
      let se' := se || (negb q && N.eqb c c_eq) in
      option_map (cons (c, q)) (texp home vt se' trig r)
  end.

Definition has_unq (w : list witem) : bool :=
  existsb (fun i => match i with WC _ false => true | _ => false end) w.

(* an ordinary word; [Some None]: the word disappears *)
Definition expand_word (home : option str) (w : list witem) : option (option str) :=
  match texp home false false true w with
  | None => None
  | Some e => Some (match e with [] => if has_unq w then None else Some [] | _ => Some (word_str e) end)
  end.

(* the raw word is NAME=... : the name *)
Fixpoint xsplit_assign (name : str) (w : list witem) : option str :=
  match w with
  | WC c false :: r =>
    if N.eqb c c_eq then match name with [] => None | _ => Some name end
    else if (match name with [] => is_name_start c | _ => is_name_char c end) then xsplit_assign (name ++ [c]) r
    else None
  | _ => None
  end.

(* an assignment word after expansion *)
Definition expand_assign (home : option str) (w : list witem) : option str :=
  option_map word_str (texp home true false false w).

(* text up to / after the first = *)
Fixpoint split_eq (s : str) : option (str * str) :=
  match s with
  | [] => None
  | c :: r => if N.eqb c c_eq then Some ([], r)
              else match split_eq r with Some (n, v) => Some (c :: n, v) | None => None end
  end.

Definition is_ident (n : str) : bool :=
  match n with c :: r => is_name_start c && forallb is_name_char r | [] => false end.

(* ---- shell variables ---- *)
Definition shvars := list (str * (str * bool)).       (* name, value, exported *)

Fixpoint sv_get (st : shvars) (n : str) : option (str * bool) :=
  match st with
  | [] => None
  | (m, x) :: r => if str_eqb m n then Some x else sv_get r n
  end.

(* assignment keeps the export attribute; [ex] adds it *)
Fixpoint sv_set (st : shvars) (n v : str) (ex : bool) : shvars :=
  match st with
  | [] => [(n, (v, ex))]
  | (m, x) :: r => if str_eqb m n then (m, (v, snd x || ex)) :: r else (m, x) :: sv_set r n v ex
  end.

Definition sv_home (st : shvars) : option str := option_map fst (sv_get st (STR "HOME")).

Definition sv_env (st : shvars) : list (str * str) :=
  flat_map (fun e : str * (str * bool) => if snd (snd e) then [(fst e, fst (snd e))] else []) st.

Definition sv_init (env0 : list (str * str)) : shvars :=
  fold_left (fun (st : shvars) (nv : str * str) => sv_set st (fst nv) (snd nv) true) env0 [].

Fixpoint env_get (e : list (str * str)) (n : str) : option str :=
  match e with
  | [] => None
  | (m, v) :: r => if str_eqb m n then Some v else env_get r n
  end.

(* ---- commands ---- *)
Definition sh_builtins : list str :=
  [STR "."; STR ":"; STR "["; STR "alias"; STR "bg"; STR "break"; STR "cd"; STR "chdir"; STR "command"; STR "continue";
   STR "echo"; STR "eval"; STR "exec"; STR "exit"; STR "export"; STR "false"; STR "fg"; STR "getopts"; STR "hash";
   STR "jobs"; STR "kill"; STR "local"; STR "printf"; STR "pwd"; STR "read"; STR "readonly"; STR "return"; STR "set";
   STR "shift"; STR "test"; STR "times"; STR "trap"; STR "true"; STR "type"; STR "ulimit"; STR "umask"; STR "unalias";
   STR "unset"; STR "wait"].
Definition is_builtin (w : str) : bool := existsb (str_eqb w) sh_builtins.
Definition special_var (n : str) : bool := str_eqb n (STR "OPTIND").

Record proc := { p_env : list (str * str); p_argv : list str }.

(* leading assignment words of a simple command *)
Fixpoint xtake_assigns (ws : list (list witem)) : list (list witem) * list (list witem) :=
  match ws with
  | [] => ([], [])
  | w :: r =>
    match xsplit_assign [] w with
    | Some _ => let (a, rest) := xtake_assigns r in (w :: a, rest)
    | None => ([], ws)
    end
  end.

(* NAME=word ... applied left to right; [ex]: mark exported (the environment of one command) *)
Fixpoint do_assigns (st : shvars) (ex : bool) (asg : list (list witem)) : option shvars :=
  match asg with
  | [] => Some st
  | w :: r =>
    match expand_assign (sv_home st) w with
    | None => None
    | Some s =>
      match split_eq s with
      | Some (n, v) => if special_var n then None else do_assigns (sv_set st n v ex) ex r
      | None => None
      end
    end
  end.

(* the words of a command after the command word; disappearing words are dropped *)
Fixpoint expand_args (home : option str) (ws : list (list witem)) : option (list str) :=
  match ws with
  | [] => Some []
  | w :: r =>
    match expand_word home w, expand_args home r with
    | Some (Some a), Some l => Some (a :: l)
    | Some None, Some l => Some l
    | _, _ => None
    end
  end.

(* the arguments of export, all expanded with the HOME in force before export runs *)
Fixpoint expand_export_args (home : option str) (ws : list (list witem)) : option (list str) :=
  match ws with
  | [] => Some []
  | w :: r =>
    match (match xsplit_assign [] w with
           | Some _ => option_map Some (expand_assign home w)
           | None => expand_word home w
           end), expand_export_args home r with
    | Some (Some a), Some l => Some (a :: l)
    | Some None, Some l => Some l
    | _, _ => None
    end
  end.

Inductive sres := RErr | ROk (st : shvars) (ps : list proc).

Fixpoint do_exports (st : shvars) (args : list str) : option sres :=
  match args with
  | [] => Some (ROk st [])
  | a :: r =>
    match a with
    | c :: _ => if N.eqb c c_dash then None else
      match split_eq a with
      | Some (n, v) =>
        if is_ident n then (if special_var n then None else do_exports (sv_set st n v true) r) else Some RErr
      | None =>
        if is_ident a then
          match sv_get st a with
          | Some (v, _) => do_exports (sv_set st a v true) r
          | None => None
          end
        else Some RErr
      end
    | [] => Some RErr
    end
  end.

Definition run_simple (st : shvars) (ws : list (list witem)) : option sres :=
  let (asg, rest) := xtake_assigns ws in
  match rest with
  | [] => match asg with
          | [] => None                                           (* empty command: syntax error *)
          | _ => option_map (fun st' => ROk st' []) (do_assigns st false asg)
          end
  | w0 :: rargs =>
    match expand_word (sv_home st) w0 with
    | Some (Some a0) =>
      if str_eqb a0 (STR "export") then
        match asg, rargs with
        | [], _ :: _ => match expand_export_args (sv_home st) rargs with
                        | Some args => do_exports st args
                        | None => None
                        end
        | _, _ => None
        end
      else if is_builtin a0 then None
      else
        match expand_args (sv_home st) rargs, do_assigns st true asg with
        | Some args, Some st_t => Some (ROk st [{| p_env := sv_env st_t; p_argv := a0 :: args |}])
        | _, _ => None
        end
    | _ => None
    end
  end.

Fixpoint xsplit_and (cur : list (list witem)) (ts : list xtoken) : list (list (list witem)) :=
  match ts with
  | [] => [cur]
  | XW w :: r => xsplit_and (cur ++ [w]) r
  | XAnd :: r => cur :: xsplit_and [] r
  end.

(* the processes started, in order, and whether the whole list ran *)
Fixpoint run_list (st : shvars) (cmds : list (list (list witem))) : option (list proc * bool) :=
  match cmds with
  | [] => Some ([], true)
  | c :: r =>
    match run_simple st c with
    | None => None
    | Some RErr => Some ([], false)
    | Some (ROk st' ps) =>
      match run_list st' r with
      | Some (l, ok) => Some (ps ++ l, ok)
      | None => None
      end
    end
  end.

Definition sh_run (uw : char -> bool) (env0 : list (str * str)) (s : str) : option (list proc * bool) :=
  match sh_lexq uw s with
  | Some ts => run_list (sv_init env0) (xsplit_and [] ts)
  | None => None
  end.
