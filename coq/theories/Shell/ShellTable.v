(* Dispatch entries (name -> sx wrapper) for the Shell models. *)
From BFG Require Import Base.Chars Base.Sx Shell.PosixQuote Shell.Sh.
From Coq Require Import String.
Local Open Scope N_scope.

(* classification of code points >= 128 as word characters, supplied by the harness *)
Definition uw_of (x : sx) : char -> bool := fun c => mem_char c (un_str x).

Definition un_bit (x : sx) : bit :=
  if N.eqb (un_N (nth_sx 0 x)) 0 then BStr (un_str (nth_sx 1 x)) else BLit (un_str (nth_sx 1 x)).

Definition sx_qchar (qc : qchar) : sx := L [A (fst qc); sx_bool (snd qc)].
Definition sx_token (t : token) : sx :=
  match t with TW w => L [A 0; sx_list sx_qchar w] | TAnd => L [A 1] end.
Definition sx_simple (c : simple) : sx :=
  L [sx_list (sx_pair sx_str sx_str) (s_env c); sx_list sx_str (s_argv c)].

Definition table : list (string * (sx -> sx)) := [
  ("posix.quote", fun a => sx_str (quote (uw_of (nth_sx 0 a)) (un_str (nth_sx 1 a))));
  ("posix.inner_quote_info", fun a =>
      sx_pair sx_str sx_bool (inner_quote_info (uw_of (nth_sx 0 a)) (un_str (nth_sx 1 a))));
  ("posix.wrap_quotes", fun a => sx_str (wrap_quotes (un_str (nth_sx 0 a))));
  ("posix.quote_info", fun a =>
      sx_pair sx_str sx_bool (quote_info (uw_of (nth_sx 0 a)) (map un_bit (un_list (nth_sx 1 a)))));
  ("posix.join", fun a => sx_str (join (uw_of (nth_sx 0 a)) (un_strs (nth_sx 1 a))));
  ("sh.lex", fun a => sx_opt (sx_list sx_token) (sh_lex (uw_of (nth_sx 0 a)) (un_str (nth_sx 1 a))));
  ("sh.words", fun a => sx_opt (sx_list sx_str) (sh_words (uw_of (nth_sx 0 a)) (un_str (nth_sx 1 a))));
  ("sh.commands", fun a => sx_opt (sx_list sx_simple) (sh_commands (uw_of (nth_sx 0 a)) (un_str (nth_sx 1 a))))
]%string.
