(* Dispatch entries (name -> sx wrapper) for the Shell models. *)
From BFG Require Import Base.Chars Base.Sx Shell.PosixQuote Shell.Sh Shell.PosixEnv.
From Coq Require Import String.
Local Open Scope N_scope.

(* classification of code points >= 128 as word characters, supplied by the harness *)
Definition uw_of (x : sx) : char -> bool := fun c => mem_char c (un_str x).

Definition un_bit (x : sx) : bit :=
  if N.eqb (un_N (nth_sx 0 x)) 0 then BStr (un_str (nth_sx 1 x)) else BLit (un_str (nth_sx 1 x)).

Definition sx_qchar (qc : qchar) : sx := L [A (fst qc); sx_bool (snd qc)].
Definition sx_token (t : token) : sx :=
  match t with TW w => L [A 0; sx_list sx_qchar w] | TAnd => L [A 1] end.
Definition sx_simple (c : simple) : sx :=
  L [sx_list (sx_pair sx_str sx_str) (s_env c); sx_list sx_str (s_argv c)].

(* environment channel: items are lists of bits (kind 0 = str, 1 = shell_literal); a line is [0; items] (an iterable
   of words) or [1; text] (a raw string) *)
Definition sx_bit (b : bit) : sx := match b with BStr s => L [A 0; sx_str s] | BLit s => L [A 1; sx_str s] end.
Definition sx_item (it : item) : sx := sx_list sx_bit it.
Definition un_item (x : sx) : item := map un_bit (un_list x).
Definition un_line (x : sx) : line :=
  if N.eqb (un_N (nth_sx 0 x)) 0 then LWords (map un_item (un_list (nth_sx 1 x))) else LRaw (un_str (nth_sx 1 x)).
Definition un_pairs (x : sx) : list (str * str) := map (fun p => (un_str (nth_sx 0 p), un_str (nth_sx 1 p))) (un_list x).
Definition sx_proc (p : proc) : sx := L [sx_list (sx_pair sx_str sx_str) (p_env p); sx_list sx_str (p_argv p)].

Definition table : list (string * (sx -> sx)) := [
  ("posix.quote", fun a => sx_str (quote (uw_of (nth_sx 0 a)) (un_str (nth_sx 1 a))));
  ("posix.inner_quote_info", fun a =>
      sx_pair sx_str sx_bool (inner_quote_info (uw_of (nth_sx 0 a)) (un_str (nth_sx 1 a))));
  ("posix.wrap_quotes", fun a => sx_str (wrap_quotes (un_str (nth_sx 0 a))));
  ("posix.quote_info", fun a =>
      sx_pair sx_str sx_bool (quote_info (uw_of (nth_sx 0 a)) (map un_bit (un_list (nth_sx 1 a)))));
  ("posix.join", fun a => sx_str (join (uw_of (nth_sx 0 a)) (un_strs (nth_sx 1 a))));
  ("sh.lex", fun a => sx_opt (sx_list sx_token) (sh_lex (uw_of (nth_sx 0 a)) (un_str (nth_sx 1 a))));
  ("sh.words", fun a => sx_opt (sx_list sx_str) (sh_words (uw_of (nth_sx 0 a)) (un_str (nth_sx 1 a))));
  ("sh.commands", fun a => sx_opt (sx_list sx_simple) (sh_commands (uw_of (nth_sx 0 a)) (un_str (nth_sx 1 a))));
  ("posix.join_lines", fun a => sx_list sx_item (join_lines (map un_line (un_list (nth_sx 0 a)))));
  ("posix.local_env", fun a => sx_list sx_item (local_env (un_pairs (nth_sx 0 a)) (un_line (nth_sx 1 a))));
  ("posix.global_env", fun a => sx_list sx_item (global_env (un_pairs (nth_sx 0 a)) (map un_line (un_list (nth_sx 1 a)))));
  ("posix.sh_text", fun a => sx_str (sh_text (uw_of (nth_sx 0 a)) (map un_item (un_list (nth_sx 1 a)))));
  ("sh.run", fun a => sx_opt (sx_pair (sx_list sx_proc) sx_bool)
      (sh_run (uw_of (nth_sx 0 a)) (un_pairs (nth_sx 1 a)) (un_str (nth_sx 2 a))))
]%string.
