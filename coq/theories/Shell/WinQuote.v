(* W model of bfg9000/shell/windows.py: _bad_chars, _replace-based inner_quote_info,
   wrap_quotes, quote_info (str / shell_literal / jbos), quote, join, _tokenize, split. *)
From BFG Require Import Base.Chars.
Local Open Scope N_scope.

(* Python 3 str pattern \s below 128: \t \n \v \f \r, \x1c-\x1f and space *)
Definition ascii_space (c : char) : bool :=
  ((9 <=? c) && (c <=? 13)) || ((28 <=? c) && (c <=? 32)).
Definition win_special : list char := [34; 38; 60; 62; 124].   (* dq & < > | *)

(* one character of the first two alternatives of _bad_chars (whitespace class, or one of
   dq & < > |); [us] classifies code points >= 128 as Unicode whitespace *)
Definition bad_char (us : char -> bool) (c : char) : bool :=
  (if c <? 128 then ascii_space c else us c) || mem_char c win_special.

(* regex $ without MULTILINE: at the end, or just before a final newline *)
Definition at_end (r : str) : bool :=
  match r with [] => true | [c] => c =? c_nl | _ => false end.

Definition is_nil (r : str) : bool := match r with [] => true | _ => false end.

Definition wblank (c : char) : bool := (c =? c_sp) || (c =? c_tab).

Section Quote.
Variable us : char -> bool.

(* _bad_chars.search(s): the three alternatives tried at every position; the third one is
   a backslash followed by the regex end-of-string anchor *)
Fixpoint has_bad (s : str) : bool :=
  match s with
  | [] => false
  | c :: r => bad_char us c || ((c =? c_bs) && at_end r) || has_bad r
  end.

(* _replace.sub(repl, s), where _replace matches a maximal backslash run (group 1) followed by
   a double quote or the end anchor (group 2), as a left-to-right scanner; [p] is the length of
   the backslash run read so far.  The replacement writes group 1 twice, then backslash + quote
   when group 2 is a quote.  Runs followed by anything else are copied. *)
Fixpoint wesc (p : nat) (s : str) : str :=
  match s with
  | [] => repeat c_bs p ++ repeat c_bs p
  | c :: r =>
      if c =? c_bs then wesc (S p) r
      else if c =? c_dq then repeat c_bs p ++ repeat c_bs p ++ c_bs :: c_dq :: wesc 0 r
      else if (c =? c_nl) && is_nil r then repeat c_bs p ++ repeat c_bs p ++ [c_nl]
      else repeat c_bs p ++ c :: wesc 0 r
  end.

(* s.replace('%', '%%') *)
Fixpoint pct_double (s : str) : str :=
  match s with
  | [] => []
  | c :: r => if c =? c_pct then c_pct :: c_pct :: pct_double r else c :: pct_double r
  end.

(* inner_quote_info on a plain str *)
Definition inner_quote_info (ep : bool) (s : str) : str * bool :=
  match s with
  | [] => ([], true)
  | _ => let s' := if ep then pct_double s else s in
         if has_bad s' then (wesc 0 s', true) else (s', false)
  end.

Definition wrap_quotes (s : str) : str := c_dq :: s ++ [c_dq].

(* safe_str values that can reach the quoter: str, shell_literal, anything else (TypeError) *)
Inductive bit := BStr (s : str) | BLit (s : str) | BOther.

(* inner_quote_info on a bit; None = TypeError *)
Definition inner_bit (ep : bool) (b : bit) : option (str * bool) :=
  match b with
  | BLit s => Some (s, false)
  | BStr s => Some (inner_quote_info ep s)
  | BOther => None
  end.

(* quote_info on a non-jbos value *)
Definition quote_bit (ep : bool) (b : bit) : option (str * bool) :=
  match inner_bit ep b with
  | None => None
  | Some (r, q) => Some (if q then (wrap_quotes r, true) else (r, false))
  end.

(* the jbos loop of quote_info: the recursive call drops escape_percent, as written *)
Fixpoint quote_bits (bits : list bit) (acc : str * bool) : option (str * bool) :=
  match bits with
  | [] => Some acc
  | b :: r => match quote_bit false b with
              | None => None
              | Some (t, e) => quote_bits r (fst acc ++ t, snd acc || e)
              end
  end.

Inductive sarg := SBit (b : bit) | SJbos (bits : list bit).

Definition quote_info (ep : bool) (x : sarg) : option (str * bool) :=
  match x with
  | SJbos bits => quote_bits bits ([], false)
  | SBit b => quote_bit ep b
  end.

(* quote on a plain str (total) *)
Definition quote (ep : bool) (s : str) : str :=
  let (r, q) := inner_quote_info ep s in if q then wrap_quotes r else r.

Fixpoint join_sp (ws : list str) : str :=
  match ws with
  | [] => []
  | [w] => w
  | w :: r => w ++ c_sp :: join_sp r
  end.

(* windows.join on a list of plain strings *)
Definition join (args : list str) : str := join_sp (map (quote false) args).

(* windows.join on a list of safe_str values (str, shell_literal, jbos, other): quote(i) for every
   element, None = TypeError *)
Fixpoint quote_all (xs : list sarg) : option (list str) :=
  match xs with
  | [] => Some []
  | x :: r => match quote_info false x with
              | None => None
              | Some (t, _) => match quote_all r with None => None | Some ts => Some (t :: ts) end
              end
  end.
Definition join_sargs (xs : list sarg) : option str :=
  match quote_all xs with None => None | Some ts => Some (join_sp ts) end.
End Quote.

(* ---- _tokenize / split (no regex, no Unicode dependence) ---- *)
Inductive token := TChar (c : char) | TQuote | TSpace (c : char).

(* [e] = escapes; a trailing backslash run is never flushed, as written *)
Fixpoint tokenize (e : nat) (s : str) : list token :=
  match s with
  | [] => []
  | c :: r =>
      if c =? c_bs then tokenize (S e) r
      else if c =? c_dq then
        repeat (TChar c_bs) (Nat.div2 e) ++ (if Nat.odd e then TChar c_dq else TQuote) :: tokenize 0 r
      else repeat (TChar c_bs) e ++ (if wblank c then TSpace c else TChar c) :: tokenize 0 r
  end.

Inductive sstate := Between | Word | Quoted.

(* args[-1] += value ; the list is never empty in states Word and Quoted *)
Fixpoint add_last (args : list str) (c : char) : list str :=
  match args with
  | [] => []
  | [w] => [w ++ [c]]
  | w :: r => w :: add_last r c
  end.

Fixpoint split_go (st : sstate) (args : list str) (toks : list token) : list str :=
  match toks with
  | [] => args
  | t :: r =>
      match st, t with
      | Between, TChar c => split_go Word (args ++ [[c]]) r
      | Between, TQuote => split_go Quoted (args ++ [[]]) r
      | Between, TSpace _ => split_go Between args r
      | Word, TQuote => split_go Quoted args r
      | Word, TChar c => split_go Word (add_last args c) r
      | Word, TSpace _ => split_go Between args r
      | Quoted, TQuote => split_go Word args r
      | Quoted, TChar c => split_go Quoted (add_last args c) r
      | Quoted, TSpace c => split_go Quoted (add_last args c) r
      end
  end.

Definition split (s : str) : list str := split_go Between [] (tokenize 0 s).

(* ---- backends/ninja/syntax.py write_shell(can_wrap=True) on Windows: the shell list is written
   between the shell_literal prefix  cmd /s /c dq  and the suffix  dq  ---- *)
(* c m d space / s space / c space dq *)
Definition cmd_prefix : str := [99; 109; 100; 32; 47; 115; 32; 47; 99; 32; 34].
Definition cmd_wrap (line : str) : str := cmd_prefix ++ line ++ [c_dq].

(* R, documented behaviour of cmd /s /c: the text after /c has its first and its last
   double quote removed verbatim, everything between is kept *)
Definition cmd_s_strip (x : str) : option str :=
  match x with
  | c :: r => if c =? c_dq then
                match rev r with
                | d :: m => if d =? c_dq then Some (rev m) else None
                | [] => None
                end
              else None
  | [] => None
  end.
