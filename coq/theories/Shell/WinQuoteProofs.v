(* Proofs about the Windows quoting model: what windows.join writes is read back by the
   Microsoft C runtime rules (Msvcrt.v, all three double-double-quote variants) and by
   windows.split as exactly the arguments.  Technique: pending backslash-run counter,
   induction on the argument with the counter generalised. *)
From Coq Require Import Arith.
From BFG Require Import Base.Chars Shell.WinQuote Shell.Msvcrt.
Local Open Scope N_scope.

(* ---- the domain guard ----
   The regex end anchor also matches before a final newline, so a backslash run directly before
   a final newline is doubled although the newline follows; such arguments do not round-trip.
   [win_ok s] excludes exactly them (pb = the previous character was a backslash).  Every string
   without newline satisfies it. *)
Fixpoint wok (pb : bool) (s : str) : bool :=
  match s with
  | [] => true
  | c :: r => if (c =? c_nl) && is_nil r && pb then false else wok (c =? c_bs) r
  end.
Definition win_ok (s : str) : bool := wok false s.

Lemma wok_no_nl s : forall pb, ~ In c_nl s -> wok pb s = true.
Proof.
  induction s as [|c r IH]; intros pb H; [reflexivity|].
  cbn [wok]. destruct (c =? c_nl) eqn:E.
  - apply N.eqb_eq in E. subst. exfalso. apply H. now left.
  - cbn [andb]. apply IH. intros Hin. apply H. now right.
Qed.

Lemma win_ok_no_nl s : ~ In c_nl s -> win_ok s = true.
Proof. apply wok_no_nl. Qed.

(* ---- small facts ---- *)
Lemma repeat_mid {T} (x : T) p r : repeat x (S p) ++ r = repeat x p ++ x :: r.
Proof. induction p as [|p IH]; [reflexivity|]. cbn [repeat app] in *. now rewrite IH. Qed.

Lemma even_double p : Nat.even (p + p) = true.
Proof. induction p as [|p IH]; [reflexivity|]. rewrite Nat.add_succ_r. cbn [Nat.add Nat.even]. exact IH. Qed.

Lemma odd_double p : Nat.odd (p + p) = false.
Proof. unfold Nat.odd. now rewrite even_double. Qed.

Lemma div2_double p : Nat.div2 (p + p) = p.
Proof. induction p as [|p IH]; [reflexivity|]. rewrite Nat.add_succ_r. cbn [Nat.add Nat.div2]. now rewrite IH. Qed.

Lemma even_sdouble p : Nat.even (S (p + p)) = false.
Proof. induction p as [|p IH]; [reflexivity|]. rewrite Nat.add_succ_r. cbn [Nat.add Nat.even] in *. exact IH. Qed.

Lemma odd_sdouble p : Nat.odd (S (p + p)) = true.
Proof. unfold Nat.odd. now rewrite even_sdouble. Qed.

Lemma div2_sdouble p : Nat.div2 (S (p + p)) = p.
Proof. induction p as [|p IH]; [reflexivity|]. rewrite Nat.add_succ_r. cbn [Nat.add Nat.div2] in *. now rewrite IH. Qed.

Lemma neq_of_eqb (c d : char) : (c =? d) = false -> c <> d.
Proof. intros H E. subst. now rewrite N.eqb_refl in H. Qed.

(* ---- single steps of the C runtime parser ---- *)
Lemma mp_bs dd inq n cur r :
  mparse dd inq n cur (c_bs :: r) = mparse dd inq (S n) (Some (getcur cur)) r.
Proof. reflexivity. Qed.

Lemma mp_dq_odd dd inq n cur r : Nat.even n = false ->
  mparse dd inq n cur (c_dq :: r) = mparse dd inq 0 (Some ((getcur cur ++ repeat c_bs (Nat.div2 n)) ++ [c_dq])) r.
Proof. intros H. cbn [mparse]. change (c_dq =? c_bs) with false. change (c_dq =? c_dq) with true. cbv iota. now rewrite H. Qed.

Lemma mp_dq_even dd inq n cur r : Nat.even n = true -> dd_fires dd inq r = false ->
  mparse dd inq n cur (c_dq :: r) = mparse dd (negb inq) 0 (Some (getcur cur ++ repeat c_bs (Nat.div2 n))) r.
Proof.
  intros H F. cbn [mparse]. change (c_dq =? c_bs) with false. change (c_dq =? c_dq) with true. cbv iota.
  now rewrite H, F.
Qed.

Lemma mp_other dd inq n cur c r : (c =? c_bs) = false -> (c =? c_dq) = false -> mblank c && negb inq = false ->
  mparse dd inq n cur (c :: r) = mparse dd inq 0 (Some (getcur cur ++ repeat c_bs n ++ [c])) r.
Proof. intros H1 H2 H3. cbn [mparse]. now rewrite H1, H2, H3. Qed.

Lemma mblank_inv c : mblank c = true -> c = c_sp \/ c = c_tab.
Proof. unfold mblank. rewrite orb_true_iff, !N.eqb_eq. tauto. Qed.

Lemma mp_blank_some dd n w c r : mblank c = true ->
  mparse dd false n (Some w) (c :: r) = (w ++ repeat c_bs n) :: mparse dd false 0 None r.
Proof. intros H. destruct (mblank_inv c H); subst; reflexivity. Qed.

Lemma mp_blank_none dd c r : mblank c = true -> mparse dd false 0 None (c :: r) = mparse dd false 0 None r.
Proof. intros H. destruct (mblank_inv c H); subst; reflexivity. Qed.

Lemma mp_none_some dd inq n c r : mblank c = false ->
  mparse dd inq n None (c :: r) = mparse dd inq n (Some []) (c :: r).
Proof. intros H. cbn [mparse]. rewrite H. reflexivity. Qed.

Lemma mp_bs_run dd inq k : forall n w x,
  mparse dd inq n (Some w) (repeat c_bs k ++ x) = mparse dd inq (n + k) (Some w) x.
Proof.
  induction k as [|k IH]; intros n w x.
  - now rewrite Nat.add_0_r.
  - cbn [repeat app]. rewrite mp_bs. cbn [getcur]. rewrite IH. f_equal. lia.
Qed.

Lemma dd_fires_outside dd r : dd_fires dd false r = false.
Proof. now destruct dd. Qed.

Lemma dd_fires_nodq dd inq r : starts_dq r = false -> dd_fires dd inq r = false.
Proof. intros H. unfold dd_fires. rewrite H. destruct dd; [reflexivity| |]; apply andb_false_r. Qed.

(* ---- the quoted form: wesc p s followed by the closing quote ---- *)
Lemma mparse_wesc dd : forall s p w rest,
  wok (negb (Nat.eqb p 0)) s = true -> starts_dq rest = false ->
  mparse dd true 0 (Some w) (wesc p s ++ c_dq :: rest) = mparse dd false 0 (Some (w ++ repeat c_bs p ++ s)) rest.
Proof.
  induction s as [|c r IH]; intros p w rest Hok Hr.
  - cbn [wesc]. rewrite <- app_assoc, !mp_bs_run. cbn [Nat.add].
    rewrite mp_dq_even by (apply even_double || now apply dd_fires_nodq).
    cbn [getcur negb]. now rewrite div2_double, app_nil_r.
  - cbn [wesc]. cbn [wok] in Hok. destruct (c =? c_bs) eqn:Ebs.
    + apply N.eqb_eq in Ebs. subst c. change (c_bs =? c_nl) with false in Hok. cbn [andb] in Hok.
      rewrite IH by assumption. now rewrite repeat_mid.
    + destruct (c =? c_dq) eqn:Edq.
      * apply N.eqb_eq in Edq. subst c. change (c_dq =? c_nl) with false in Hok. cbn [andb] in Hok.
        rewrite <- !app_assoc. rewrite <- !app_comm_cons. rewrite !mp_bs_run, mp_bs. cbn [Nat.add getcur].
        rewrite mp_dq_odd by apply even_sdouble. cbn [getcur]. rewrite div2_sdouble.
        rewrite IH by assumption. cbn [repeat app]. now rewrite <- !app_assoc.
      * destruct ((c =? c_nl) && is_nil r) eqn:Enl.
        -- apply andb_true_iff in Enl as [Ec Er]. apply N.eqb_eq in Ec. subst c.
           destruct r; [|discriminate]. destruct p; [|discriminate].
           cbn [repeat app]. rewrite mp_other by reflexivity.
           rewrite mp_dq_even by (reflexivity || now apply dd_fires_nodq).
           cbn [getcur repeat Nat.div2 app negb]. now rewrite app_nil_r.
        -- cbn [andb] in Hok. rewrite <- app_assoc, <- app_comm_cons, mp_bs_run. cbn [Nat.add].
           rewrite mp_other by (assumption || apply andb_false_r). cbn [getcur].
           rewrite IH by assumption. cbn [repeat app]. now rewrite <- !app_assoc.
Qed.

Section WithUs.
Variable us : char -> bool.
Notation has_bad := (has_bad us).
Notation quote := (quote us false).

Lemma bad_dq : bad_char us c_dq = true. Proof. reflexivity. Qed.
Lemma bad_sp : bad_char us c_sp = true. Proof. reflexivity. Qed.
Lemma bad_tab : bad_char us c_tab = true. Proof. reflexivity. Qed.

Lemma notbad_dq c : bad_char us c = false -> (c =? c_dq) = false.
Proof. intros H. destruct (c =? c_dq) eqn:E; [|reflexivity]. apply N.eqb_eq in E. subst. now rewrite bad_dq in H. Qed.

Lemma notbad_blank c : bad_char us c = false -> mblank c = false.
Proof.
  intros H. destruct (mblank c) eqn:E; [|reflexivity].
  destruct (mblank_inv c E); subst; [now rewrite bad_sp in H|now rewrite bad_tab in H].
Qed.

Lemma has_bad_cons c r : has_bad (c :: r) = false ->
  bad_char us c = false /\ ((c =? c_bs) && at_end r) = false /\ has_bad r = false.
Proof. cbn [WinQuote.has_bad]. rewrite !orb_false_iff. tauto. Qed.

Lemma at_end_nonnil r : at_end r = false -> r <> [].
Proof. destruct r; [discriminate|congruence]. Qed.

(* ---- the unquoted form: no blank, no quote, no final backslash ---- *)
Lemma mparse_plain dd : forall s n w rest, has_bad s = false -> (s <> [] \/ n = 0%nat) ->
  mparse dd false n (Some w) (s ++ rest) = mparse dd false 0 (Some (w ++ repeat c_bs n ++ s)) rest.
Proof.
  induction s as [|c r IH]; intros n w rest Hb Hn.
  - destruct Hn as [Hn|Hn]; [congruence|]. subst n. cbn [app repeat]. now rewrite app_nil_r.
  - apply has_bad_cons in Hb as (Hc & He & Hr). cbn [app]. destruct (c =? c_bs) eqn:Ebs.
    + apply N.eqb_eq in Ebs. subst c. cbn [andb] in He. rewrite mp_bs. cbn [getcur].
      rewrite IH by (assumption || left; now apply at_end_nonnil). now rewrite repeat_mid.
    + rewrite mp_other by (assumption || now apply notbad_dq || (rewrite notbad_blank by assumption; reflexivity)).
      cbn [getcur]. rewrite IH by (assumption || now right). cbn [repeat app]. now rewrite <- !app_assoc.
Qed.

Lemma mparse_plain_cur dd s cur rest : has_bad s = false -> s <> [] ->
  mparse dd false 0 cur (s ++ rest) = mparse dd false 0 (Some (getcur cur ++ s)) rest.
Proof.
  intros Hb Hs. destruct cur as [w|].
  - now rewrite mparse_plain by (assumption || now left).
  - destruct s as [|c r]; [congruence|]. cbn [app]. rewrite mp_none_some.
    + change (c :: r ++ rest) with ((c :: r) ++ rest). now rewrite mparse_plain by (assumption || now left).
    + apply has_bad_cons in Hb as (Hc & _). destruct (c =? c_bs) eqn:E.
      * apply N.eqb_eq in E. now subst.
      * now apply notbad_blank.
Qed.

(* ---- one quoted word in any context ---- *)
Lemma mparse_quote dd s cur rest : win_ok s = true -> starts_dq rest = false ->
  mparse dd false 0 cur (quote s ++ rest) = mparse dd false 0 (Some (getcur cur ++ s)) rest.
Proof.
  intros Hok Hr. unfold WinQuote.quote, inner_quote_info. destruct s as [|c r].
  - unfold wrap_quotes. cbn [app].
    rewrite mp_dq_even by (reflexivity || apply dd_fires_outside). cbn [getcur negb Nat.div2 repeat].
    rewrite mp_dq_even by (reflexivity || now apply dd_fires_nodq). cbn [getcur negb Nat.div2 repeat].
    now rewrite !app_nil_r.
  - destruct (has_bad (c :: r)) eqn:B.
    + unfold wrap_quotes. rewrite <- app_comm_cons, <- app_assoc. cbn [app].
      rewrite mp_dq_even by (reflexivity || apply dd_fires_outside). cbn [negb Nat.div2 repeat].
      rewrite app_nil_r. now rewrite mparse_wesc by assumption.
    + apply mparse_plain_cur; [assumption|congruence].
Qed.

Lemma join_sp_cons2 x y l : join_sp (x :: y :: l) = x ++ c_sp :: join_sp (y :: l).
Proof. reflexivity. Qed.

Theorem msvcrt_join dd args : Forall (fun s => win_ok s = true) args ->
  msvcrt_parse dd (join us args) = args.
Proof.
  unfold msvcrt_parse, join. induction args as [|a l IH]; intros H; [reflexivity|].
  inversion H as [|? ? Ha Hl]; subst. destruct l as [|b l].
  - cbn [map join_sp]. rewrite <- (app_nil_r (quote a)). rewrite mparse_quote by (assumption || reflexivity).
    cbn [getcur app mparse repeat]. now rewrite app_nil_r.
  - cbn [map]. rewrite join_sp_cons2. rewrite mparse_quote by (assumption || reflexivity).
    rewrite mp_blank_some by reflexivity. cbn [getcur app repeat]. rewrite app_nil_r. f_equal.
    apply IH. assumption.
Qed.

Theorem msvcrt_join_no_newline dd args : Forall (fun s => ~ In c_nl s) args ->
  msvcrt_parse dd (join us args) = args.
Proof. intros H. apply msvcrt_join. eapply Forall_impl; [|exact H]. exact win_ok_no_nl. Qed.

(* ---- jbos: quoting alternating plain / literal bits ---- *)
Definition lit_char_ok (c : char) : bool := negb (mblank c || (c =? c_dq) || (c =? c_bs)).
Definition lit_ok (l : str) : bool := forallb lit_char_ok l.

(* canonical jbos shape (no two adjacent str bits), str bits in the domain, shell_literal bits non-empty
   and free of blank, double quote and backslash *)
Fixpoint jbos_ok (prev_str : bool) (bits : list bit) : bool :=
  match bits with
  | [] => true
  | BStr s :: r => negb prev_str && win_ok s && jbos_ok true r
  | BLit l :: r => negb (is_nil l) && lit_ok l && jbos_ok false r
  | BOther :: _ => false
  end.

Definition bit_denotes (b : bit) : str := match b with BStr s => s | BLit l => l | BOther => [] end.
Definition jbos_denotes (bits : list bit) : str := concat (map bit_denotes bits).

Fixpoint jtext (bits : list bit) : str :=
  match bits with
  | [] => []
  | BStr s :: r => quote s ++ jtext r
  | BLit l :: r => l ++ jtext r
  | BOther :: r => jtext r
  end.

Lemma quote_bit_str s : quote_bit us false (BStr s) = Some (quote s, snd (inner_quote_info us false s)).
Proof. unfold quote_bit, inner_bit, WinQuote.quote. now destruct (inner_quote_info us false s) as [t []]. Qed.

Lemma quote_bits_text : forall bits pb acc, jbos_ok pb bits = true ->
  exists e, quote_bits us bits acc = Some (fst acc ++ jtext bits, e).
Proof.
  induction bits as [|b r IH]; intros pb acc H.
  - exists (snd acc). cbn. rewrite app_nil_r. now destruct acc.
  - destruct b as [s|l|]; cbn [jbos_ok] in H; [| |discriminate].
    + apply andb_true_iff in H as [_ H]. cbn [quote_bits]. rewrite quote_bit_str.
      destruct (IH true (fst acc ++ quote s, snd acc || snd (inner_quote_info us false s)) H) as [e He].
      exists e. rewrite He. cbn [fst jtext]. now rewrite app_assoc.
    + apply andb_true_iff in H as [_ H]. cbn [quote_bits quote_bit inner_bit].
      destruct (IH false (fst acc ++ l, snd acc || false) H) as [e He].
      exists e. rewrite He. cbn [fst jtext]. now rewrite app_assoc.
Qed.

Lemma mparse_lit dd : forall l w rest, lit_ok l = true ->
  mparse dd false 0 (Some w) (l ++ rest) = mparse dd false 0 (Some (w ++ l)) rest.
Proof.
  induction l as [|c l IH]; intros w rest H.
  - cbn [app]. now rewrite app_nil_r.
  - cbn [lit_ok forallb] in H. apply andb_true_iff in H as [Hc Hl]. unfold lit_char_ok in Hc.
    apply negb_true_iff in Hc. apply orb_false_iff in Hc as [Hc Hbs]. apply orb_false_iff in Hc as [Hbl Hdq].
    cbn [app]. rewrite mp_other by (assumption || now rewrite Hbl). cbn [getcur repeat app].
    rewrite IH by assumption. now rewrite <- app_assoc.
Qed.

Lemma mparse_lit_cur dd l cur rest : lit_ok l = true -> l <> [] ->
  mparse dd false 0 cur (l ++ rest) = mparse dd false 0 (Some (getcur cur ++ l)) rest.
Proof.
  intros H Hl. destruct cur as [w|]; [now apply mparse_lit|].
  destruct l as [|c l]; [congruence|]. cbn [app]. rewrite mp_none_some.
  - change (c :: l ++ rest) with ((c :: l) ++ rest). now rewrite mparse_lit.
  - cbn [lit_ok forallb] in H. apply andb_true_iff in H as [Hc _]. unfold lit_char_ok in Hc.
    apply negb_true_iff in Hc. apply orb_false_iff in Hc as [Hc _]. now apply orb_false_iff in Hc as [Hc _].
Qed.

Lemma jtext_next_not_dq bits rest : jbos_ok true bits = true -> starts_dq rest = false ->
  starts_dq (jtext bits ++ rest) = false.
Proof.
  destruct bits as [|[s|l|] r]; intros H Hr; [assumption|discriminate| |discriminate].
  cbn [jbos_ok] in H. apply andb_true_iff in H as [H _]. apply andb_true_iff in H as [Hn Hl].
  destruct l as [|c l]; [discriminate|]. cbn [lit_ok forallb] in Hl. apply andb_true_iff in Hl as [Hc _].
  unfold lit_char_ok in Hc. apply negb_true_iff in Hc. apply orb_false_iff in Hc as [Hc _].
  apply orb_false_iff in Hc as [_ Hc]. exact Hc.
Qed.

Lemma mparse_jtext dd : forall bits pb cur rest, bits <> [] -> jbos_ok pb bits = true -> starts_dq rest = false ->
  mparse dd false 0 cur (jtext bits ++ rest) = mparse dd false 0 (Some (getcur cur ++ jbos_denotes bits)) rest.
Proof.
  induction bits as [|b r IH]; intros pb cur rest Hne H Hr; [congruence|].
  destruct b as [s|l|]; cbn [jbos_ok] in H; [| |discriminate].
  - apply andb_true_iff in H as [H Hj]. apply andb_true_iff in H as [_ Hs].
    cbn [jtext]. rewrite <- app_assoc. rewrite mparse_quote by (assumption || now apply jtext_next_not_dq).
    destruct r as [|b' r'].
    + cbn. now rewrite app_nil_r.
    + rewrite (IH true) by (congruence || assumption). cbn [getcur]. unfold jbos_denotes. cbn [map concat bit_denotes].
      now rewrite <- !app_assoc.
  - apply andb_true_iff in H as [H Hj]. apply andb_true_iff in H as [Hn Hl].
    cbn [jtext]. rewrite <- app_assoc. rewrite mparse_lit_cur by (assumption || (destruct l; [discriminate|congruence])).
    destruct r as [|b' r'].
    + cbn. now rewrite app_nil_r.
    + rewrite (IH false) by (congruence || assumption). cbn [getcur]. unfold jbos_denotes. cbn [map concat bit_denotes].
      now rewrite <- !app_assoc.
Qed.

Theorem msvcrt_jbos dd ep bits : bits <> [] -> jbos_ok false bits = true ->
  exists t e, quote_info us ep (SJbos bits) = Some (t, e) /\
    (forall cur rest, starts_dq rest = false ->
       mparse dd false 0 cur (t ++ rest) = mparse dd false 0 (Some (getcur cur ++ jbos_denotes bits)) rest) /\
    msvcrt_parse dd t = [jbos_denotes bits].
Proof.
  intros Hne H. destruct (quote_bits_text bits false ([], false) H) as [e He].
  exists (jtext bits), e. split; [exact He|]. split.
  - intros cur rest Hr. now apply (mparse_jtext dd bits false).
  - unfold msvcrt_parse. rewrite <- (app_nil_r (jtext bits)).
    rewrite (mparse_jtext dd bits false) by (assumption || reflexivity).
    cbn [getcur app mparse repeat]. now rewrite app_nil_r.
Qed.
End WithUs.

(* ======================= windows.split is a left inverse of windows.join ======================= *)

(* ---- single steps of the tokenizer ---- *)
Lemma tok_bs e r : tokenize e (c_bs :: r) = tokenize (S e) r.
Proof. reflexivity. Qed.

Lemma tok_bs_run k : forall e x, tokenize e (repeat c_bs k ++ x) = tokenize (e + k) x.
Proof.
  induction k as [|k IH]; intros e x.
  - now rewrite Nat.add_0_r.
  - cbn [repeat app]. rewrite tok_bs, IH. f_equal. lia.
Qed.

Lemma tok_dq e r : tokenize e (c_dq :: r) =
  repeat (TChar c_bs) (Nat.div2 e) ++ (if Nat.odd e then TChar c_dq else TQuote) :: tokenize 0 r.
Proof. reflexivity. Qed.

Lemma tok_other e c r : (c =? c_bs) = false -> (c =? c_dq) = false ->
  tokenize e (c :: r) = repeat (TChar c_bs) e ++ (if wblank c then TSpace c else TChar c) :: tokenize 0 r.
Proof. intros H1 H2. cbn [tokenize]. now rewrite H1, H2. Qed.

(* ---- single steps of the splitter ---- *)
Lemma add_last_snoc a w c : add_last (a ++ [w]) c = a ++ [w ++ [c]].
Proof.
  induction a as [|x a IH]; [reflexivity|].
  destruct a as [|y a].
  - reflexivity.
  - change (add_last ((x :: y :: a) ++ [w]) c) with (x :: add_last ((y :: a) ++ [w]) c).
    rewrite IH. reflexivity.
Qed.

Lemma sg_bs_run_q k : forall a w t,
  split_go Quoted (a ++ [w]) (repeat (TChar c_bs) k ++ t) = split_go Quoted (a ++ [w ++ repeat c_bs k]) t.
Proof.
  induction k as [|k IH]; intros a w t.
  - cbn [repeat app]. now rewrite app_nil_r.
  - cbn [repeat app split_go]. rewrite add_last_snoc, IH. now rewrite <- app_assoc.
Qed.

Lemma sg_bs_run_w k : forall a w t,
  split_go Word (a ++ [w]) (repeat (TChar c_bs) k ++ t) = split_go Word (a ++ [w ++ repeat c_bs k]) t.
Proof.
  induction k as [|k IH]; intros a w t.
  - cbn [repeat app]. now rewrite app_nil_r.
  - cbn [repeat app split_go]. rewrite add_last_snoc, IH. now rewrite <- app_assoc.
Qed.

Lemma sg_q_any c a w t :
  split_go Quoted (a ++ [w]) ((if wblank c then TSpace c else TChar c) :: t) = split_go Quoted (a ++ [w ++ [c]]) t.
Proof. destruct (wblank c); cbn [split_go]; now rewrite add_last_snoc. Qed.

(* ---- the quoted form ---- *)
Lemma split_wesc : forall s p a w rest, wok (negb (Nat.eqb p 0)) s = true ->
  split_go Quoted (a ++ [w]) (tokenize 0 (wesc p s ++ c_dq :: rest)) =
  split_go Word (a ++ [w ++ repeat c_bs p ++ s]) (tokenize 0 rest).
Proof.
  induction s as [|c r IH]; intros p a w rest Hok.
  - cbn [wesc]. rewrite <- app_assoc, !tok_bs_run. cbn [Nat.add]. rewrite tok_dq, odd_double, div2_double.
    rewrite sg_bs_run_q. cbn [split_go]. now rewrite app_nil_r.
  - cbn [wesc]. cbn [wok] in Hok. destruct (c =? c_bs) eqn:Ebs.
    + apply N.eqb_eq in Ebs. subst c. change (c_bs =? c_nl) with false in Hok. cbn [andb] in Hok.
      rewrite IH by assumption. now rewrite repeat_mid.
    + destruct (c =? c_dq) eqn:Edq.
      * apply N.eqb_eq in Edq. subst c. change (c_dq =? c_nl) with false in Hok. cbn [andb] in Hok.
        rewrite <- !app_assoc. rewrite <- !app_comm_cons. rewrite !tok_bs_run, tok_bs. cbn [Nat.add].
        rewrite tok_dq, odd_sdouble, div2_sdouble. rewrite sg_bs_run_q. cbn [split_go]. rewrite add_last_snoc.
        rewrite IH by assumption. cbn [repeat app]. now rewrite <- !app_assoc.
      * destruct ((c =? c_nl) && is_nil r) eqn:Enl.
        -- apply andb_true_iff in Enl as [Ec Er]. apply N.eqb_eq in Ec. subst c.
           destruct r; [|discriminate]. destruct p; [|discriminate].
           cbn [repeat app]. rewrite tok_other by reflexivity. change (wblank c_nl) with false. cbv iota.
           cbn [repeat app split_go]. rewrite add_last_snoc. rewrite tok_dq.
           cbn [Nat.odd Nat.even negb Nat.div2 repeat app split_go]. reflexivity.
        -- cbn [andb] in Hok. rewrite <- app_assoc, <- app_comm_cons, tok_bs_run. cbn [Nat.add].
           rewrite tok_other by assumption. rewrite sg_bs_run_q, sg_q_any.
           rewrite IH by assumption. cbn [repeat app]. now rewrite <- !app_assoc.
Qed.

Section SplitWithUs.
Variable us : char -> bool.
Notation has_bad := (has_bad us).
Notation quote := (quote us false).

Lemma notbad_wblank c : bad_char us c = false -> wblank c = false.
Proof. exact (notbad_blank us c). Qed.

(* ---- the unquoted form ---- *)
Lemma split_plain : forall s e a w rest, has_bad s = false -> (s <> [] \/ e = 0%nat) ->
  split_go Word (a ++ [w]) (tokenize e (s ++ rest)) = split_go Word (a ++ [w ++ repeat c_bs e ++ s]) (tokenize 0 rest).
Proof.
  induction s as [|c r IH]; intros e a w rest Hb He.
  - destruct He as [He|He]; [congruence|]. subst e. cbn [app repeat]. now rewrite app_nil_r.
  - apply has_bad_cons in Hb as (Hc & Hend & Hr). cbn [app]. destruct (c =? c_bs) eqn:Ebs.
    + apply N.eqb_eq in Ebs. subst c. cbn [andb] in Hend. rewrite tok_bs.
      rewrite IH by (assumption || left; now apply at_end_nonnil). now rewrite repeat_mid.
    + rewrite tok_other by (assumption || now apply (notbad_dq us)). rewrite (notbad_wblank c Hc).
      rewrite sg_bs_run_w. cbn [split_go]. rewrite add_last_snoc.
      rewrite IH by (assumption || now right). cbn [repeat app]. now rewrite <- !app_assoc.
Qed.

Lemma sg_between_run e : forall a c t,
  split_go Between a (repeat (TChar c_bs) e ++ TChar c :: t) = split_go Word (a ++ [repeat c_bs e ++ [c]]) t.
Proof.
  destruct e as [|e]; intros a c t; [reflexivity|].
  cbn [repeat app split_go]. rewrite sg_bs_run_w. cbn [split_go]. now rewrite add_last_snoc.
Qed.

Lemma split_plain_between : forall s e a rest, has_bad s = false -> s <> [] ->
  split_go Between a (tokenize e (s ++ rest)) = split_go Word (a ++ [repeat c_bs e ++ s]) (tokenize 0 rest).
Proof.
  induction s as [|c r IH]; intros e a rest Hb Hne; [congruence|].
  apply has_bad_cons in Hb as (Hc & Hend & Hr). cbn [app]. destruct (c =? c_bs) eqn:Ebs.
  - apply N.eqb_eq in Ebs. subst c. cbn [andb] in Hend. rewrite tok_bs.
    rewrite IH by (assumption || now apply at_end_nonnil). now rewrite repeat_mid.
  - rewrite tok_other by (assumption || now apply (notbad_dq us)). rewrite (notbad_wblank c Hc).
    rewrite sg_between_run. rewrite split_plain by (assumption || now right).
    cbn [repeat app]. now rewrite <- !app_assoc.
Qed.

(* ---- one quoted word, any following text ---- *)
Lemma split_quote s a rest : win_ok s = true ->
  split_go Between a (tokenize 0 (quote s ++ rest)) = split_go Word (a ++ [s]) (tokenize 0 rest).
Proof.
  intros Hok. unfold WinQuote.quote, inner_quote_info. destruct s as [|c r].
  - reflexivity.
  - destruct (has_bad (c :: r)) eqn:B.
    + unfold wrap_quotes. rewrite <- app_comm_cons, <- app_assoc. cbn [app].
      rewrite tok_dq. cbn [Nat.odd Nat.even negb Nat.div2 repeat app split_go].
      now rewrite split_wesc by assumption.
    + rewrite split_plain_between by (assumption || congruence). reflexivity.
Qed.

Lemma split_join_gen : forall args a, Forall (fun s => win_ok s = true) args ->
  split_go Between a (tokenize 0 (join us args)) = a ++ args.
Proof.
  unfold join. induction args as [|x l IH]; intros a H.
  - cbn. now rewrite app_nil_r.
  - inversion H as [|? ? Hx Hl]; subst. destruct l as [|y l].
    + cbn [map join_sp]. rewrite <- (app_nil_r (quote x)). rewrite split_quote by assumption. reflexivity.
    + cbn [map]. rewrite join_sp_cons2. rewrite split_quote by assumption.
      rewrite tok_other by reflexivity. change (wblank c_sp) with true. cbv iota. cbn [repeat app split_go].
      rewrite IH by assumption. now rewrite <- app_assoc.
Qed.

Theorem split_join args : Forall (fun s => win_ok s = true) args -> split (join us args) = args.
Proof. intros H. unfold split. now rewrite split_join_gen. Qed.

Theorem split_join_no_newline args : Forall (fun s => ~ In c_nl s) args -> split (join us args) = args.
Proof. intros H. apply split_join. eapply Forall_impl; [|exact H]. exact win_ok_no_nl. Qed.
End SplitWithUs.
