(* The domain on which windows.split (WinQuote.split) reads a command line exactly as the Microsoft C
   runtime argument rules (Msvcrt.msvcrt_parse) do, as executable boolean guards on the LINE.
   windows.split is also applied to text that bfg9000 did not write (flag variables such as CFLAGS, command
   strings of build scripts, the output of pkg-config); on such text it deviates from the C runtime in exactly
   two ways (found by an exhaustive comparison of the real code with the C runtime loop on all lines of length
   up to 8 over a, space, tab, double quote, backslash; see harness/c20.py stage R/W:split-vs-crt):
     1. a backslash run that ENDS the line is dropped by _tokenize (the escape counter is never flushed),
        the C runtime keeps it:                         [no_tail_bs]
     2. inside a quoted region a double quote directly followed by another double quote: the C runtime
        variants with the doubled-quote rule read a literal quote there, windows.split (like the variant
        without the rule) closes and reopens the region:  [no_dd]
   Both guards are exact on the swept lines: outside them the readers always differ. *)
From BFG Require Import Base.Chars Shell.WinQuote Shell.Msvcrt.
Local Open Scope N_scope.

(* the line does not end in a backslash ([pb] = the previous character was a backslash) *)
Fixpoint tail_ok (pb : bool) (s : str) : bool :=
  match s with
  | [] => negb pb
  | c :: r => tail_ok (c =? c_bs) r
  end.
Definition no_tail_bs (line : str) : bool := tail_ok false line.

(* the doubled-quote rule of the C runtime never fires: no double quote that follows an even backslash run
   inside a quoted region is directly followed by a double quote.  State as in Msvcrt.mparse: [inq] inside
   quotes, [n] length of the pending backslash run (the state evolves as in the variant without the rule) *)
Fixpoint no_dd (inq : bool) (n : nat) (s : str) : bool :=
  match s with
  | [] => true
  | c :: r =>
      if c =? c_bs then no_dd inq (S n) r
      else if c =? c_dq then
        if Nat.even n then negb (inq && starts_dq r) && no_dd (negb inq) 0 r
        else no_dd inq 0 r
      else no_dd inq 0 r
  end.
Definition no_dd_pair (line : str) : bool := no_dd false 0 line.

(* the guard of C20_split_is_crt *)
Definition split_dom (line : str) : bool := no_tail_bs line && no_dd_pair line.

(* the line without its final backslash run: what _tokenize actually reads *)
Fixpoint strip_tbs (s : str) : str :=
  match s with
  | [] => []
  | c :: r => let r' := strip_tbs r in if (c =? c_bs) && is_nil r' then [] else c :: r'
  end.
