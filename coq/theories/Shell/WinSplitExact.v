From Coq Require Import Arith.
From BFG Require Import Base.Chars Shell.WinQuote Shell.Msvcrt Shell.WinQuoteProofs Shell.WinSplit Shell.WinSplitProofs.
Local Open Scope N_scope.

(* ======================= the guard is exact =======================
   Outside split_dom the readers differ on EVERY line.  Technique: two lexical measures of a line that every
   reader must reproduce - the number of backslashes and the number of double quotes in the arguments it returns. *)

(* occurrences of x in a word / in all words of an argument list *)
Definition cnt (x : char) (w : str) : nat := length (filter (N.eqb x) w).
Definition cntl (x : char) (l : list str) : nat := cnt x (concat l).

Lemma cnt_nil x : cnt x [] = 0%nat.
Proof. reflexivity. Qed.

Lemma cnt_app x a b : cnt x (a ++ b) = (cnt x a + cnt x b)%nat.
Proof. unfold cnt. now rewrite filter_app, app_length. Qed.

Lemma cnt_repeat_same x k : cnt x (repeat x k) = k.
Proof. induction k as [|k IH]; [reflexivity|]. unfold cnt in *. cbn [repeat filter]. rewrite N.eqb_refl. cbn [length]. now rewrite IH. Qed.

Lemma cnt_repeat_other x y k : (x =? y) = false -> cnt x (repeat y k) = 0%nat.
Proof. intros H. induction k as [|k IH]; [reflexivity|]. unfold cnt in *. cbn [repeat filter]. now rewrite H. Qed.

Lemma cnt_single x y : cnt x [y] = if x =? y then 1%nat else 0%nat.
Proof. unfold cnt. cbn [filter]. now destruct (x =? y). Qed.

Lemma cntl_cons x w l : cntl x (w :: l) = (cnt x w + cntl x l)%nat.
Proof. unfold cntl. cbn [concat]. apply cnt_app. Qed.

Lemma cntl_one x w : cntl x [w] = cnt x w.
Proof. rewrite cntl_cons. unfold cntl. cbn. lia. Qed.

(* ---- backslashes: a run before a double quote is halved, every other run is kept, also the final one ---- *)
Fixpoint flex (n : nat) (s : str) : nat :=
  match s with
  | [] => n
  | c :: r => if c =? c_bs then flex (S n) r
              else if c =? c_dq then (Nat.div2 n + flex 0 r)%nat
              else (n + flex 0 r)%nat
  end.

Lemma eqb_sym_false (a b : char) : (a =? b) = false -> (b =? a) = false.
Proof. now rewrite N.eqb_sym. Qed.

Lemma starts_dq_inv r : starts_dq r = true -> exists r', r = c_dq :: r'.
Proof. destruct r as [|d r']; [discriminate|]. cbn [starts_dq]. intros H. apply N.eqb_eq in H. subst. now exists r'. Qed.

Lemma flex_dq n r : flex n (c_dq :: r) = (Nat.div2 n + flex 0 r)%nat.
Proof. reflexivity. Qed.

(* the doubled-quote rule consumes the second quote as if it were a quote after one backslash *)
Lemma mp_dd_as_odd dd inq w r' : mparse dd inq 0 (Some (w ++ [c_dq])) r' = mparse dd inq 1 (Some w) (c_dq :: r').
Proof. rewrite mp_dq_odd by reflexivity. cbn [getcur Nat.div2 repeat]. now rewrite app_nil_r. Qed.

Lemma bs_count_mparse dd : forall s inq n cur, (cur = None -> n = 0%nat) ->
  cntl c_bs (mparse dd inq n cur s) = (cnt c_bs (getcur cur) + flex n s)%nat.
Proof.
  induction s as [|c r IH]; intros inq n cur Hn.
  - cbn [mparse flex]. destruct cur as [w|].
    + rewrite cntl_one, cnt_app, cnt_repeat_same. reflexivity.
    + rewrite Hn by reflexivity. reflexivity.
  - cbn [mparse flex]. destruct (c =? c_bs) eqn:Ebs.
    { rewrite IH by discriminate. reflexivity. }
    destruct (c =? c_dq) eqn:Edq.
    { destruct (Nat.even n).
      - destruct (dd_fires dd inq r) eqn:F.
        + assert (Hs : starts_dq r = true).
          { destruct dd; [discriminate| |]; cbn [dd_fires] in F; now apply andb_true_iff in F as [_ F]. }
          destruct (starts_dq_inv r Hs) as [r' ->]. cbv iota. rewrite mp_dd_as_odd.
          rewrite IH by discriminate. cbn [getcur]. rewrite !flex_dq, cnt_app, cnt_repeat_same. cbn [Nat.div2]. lia.
        + rewrite IH by discriminate. cbn [getcur]. rewrite cnt_app, cnt_repeat_same. lia.
      - rewrite IH by discriminate. cbn [getcur]. rewrite !cnt_app, cnt_repeat_same, cnt_single.
        change (c_bs =? c_dq) with false. cbv iota. lia. }
    destruct (mblank c && negb inq).
    + destruct cur as [w|].
      * rewrite cntl_cons, cnt_app, cnt_repeat_same. rewrite IH by reflexivity. cbn [getcur]. rewrite cnt_nil. lia.
      * rewrite Hn by reflexivity. rewrite IH by reflexivity. reflexivity.
    + rewrite IH by discriminate. cbn [getcur]. rewrite !cnt_app, cnt_repeat_same, cnt_single.
      rewrite (eqb_sym_false _ _ Ebs). lia.
Qed.

Lemma strip_decomp : forall s, exists k, s = strip_tbs s ++ repeat c_bs k.
Proof.
  induction s as [|c r [k Hk]]; [now exists 0%nat|].
  cbn [strip_tbs]. destruct (c =? c_bs) eqn:Ebs.
  - apply N.eqb_eq in Ebs. subst c. cbn [andb]. destruct (strip_tbs r) as [|d r'] eqn:Es; cbn [is_nil].
    + exists (S k). cbn [app repeat]. now rewrite Hk at 1.
    + exists k. cbn [app]. now rewrite Hk at 1.
  - cbn [andb]. exists k. cbn [app]. now rewrite Hk at 1.
Qed.

Lemma flex_strip : forall s n, (flex n s + length (strip_tbs s) = flex n (strip_tbs s) + length s)%nat.
Proof.
  induction s as [|c r IH]; intros n; [reflexivity|].
  cbn [strip_tbs]. destruct (c =? c_bs) eqn:Ebs.
  - cbn [andb]. specialize (IH (S n)). destruct (strip_tbs r) as [|d r'] eqn:Es; cbn [is_nil].
    + cbn [flex length] in *. rewrite Ebs. lia.
    + cbn [flex length] in *. rewrite Ebs. cbn [flex length]. lia.
  - cbn [andb flex length]. rewrite Ebs. specialize (IH 0%nat). destruct (c =? c_dq); lia.
Qed.

Theorem split_tail_bs_differs dd line : no_tail_bs line = false -> split line <> msvcrt_parse dd line.
Proof.
  intros Ht E. apply (f_equal (cntl c_bs)) in E. rewrite split_stripped in E. unfold msvcrt_parse in E.
  rewrite !bs_count_mparse in E by reflexivity. cbn [getcur cnt filter length Nat.add] in E.
  pose proof (flex_strip line 0%nat) as F. destruct (strip_decomp line) as [k Hk].
  assert (Hl : length line = (length (strip_tbs line) + k)%nat).
  { rewrite Hk at 1. now rewrite app_length, repeat_length. }
  assert (k = 0%nat) by lia. subst k. cbn [repeat] in Hk. rewrite app_nil_r in Hk.
  unfold no_tail_bs in Ht. rewrite Hk, tail_ok_strip in Ht. now destruct (is_nil (strip_tbs line)).
Qed.

(* ---- double quotes: only a quote after an odd backslash run is literal - unless the doubled-quote rule fires ---- *)
Fixpoint qodd (n : nat) (s : str) : nat :=
  match s with
  | [] => 0
  | c :: r => if c =? c_bs then qodd (S n) r
              else if c =? c_dq then ((if Nat.even n then 0 else 1) + qodd 0 r)%nat
              else qodd 0 r
  end.

Lemma qodd_dq n r : qodd n (c_dq :: r) = ((if Nat.even n then 0 else 1) + qodd 0 r)%nat.
Proof. reflexivity. Qed.

Lemma dq_count_nodd : forall s inq n cur,
  cntl c_dq (mparse DDnone inq n cur s) = (cnt c_dq (getcur cur) + qodd n s)%nat.
Proof.
  induction s as [|c r IH]; intros inq n cur.
  - cbn [mparse qodd]. destruct cur as [w|]; [|reflexivity].
    rewrite cntl_one, cnt_app, cnt_repeat_other by reflexivity. reflexivity.
  - cbn [mparse qodd]. destruct (c =? c_bs) eqn:Ebs; [now rewrite IH|].
    destruct (c =? c_dq) eqn:Edq.
    { cbn [dd_fires]. destruct (Nat.even n); rewrite IH; cbn [getcur];
        rewrite ?cnt_app, ?cnt_single, cnt_repeat_other by reflexivity; change (c_dq =? c_dq) with true; cbv iota; lia. }
    destruct (mblank c && negb inq).
    + destruct cur as [w|].
      * rewrite cntl_cons, cnt_app, cnt_repeat_other by reflexivity. rewrite IH. cbn [getcur]. rewrite cnt_nil. lia.
      * now rewrite IH.
    + rewrite IH. cbn [getcur]. rewrite !cnt_app, cnt_single, cnt_repeat_other by reflexivity.
      rewrite (eqb_sym_false _ _ Edq). lia.
Qed.

Lemma dq_count_ge dd : forall s inq n cur,
  (cnt c_dq (getcur cur) + qodd n s <= cntl c_dq (mparse dd inq n cur s))%nat.
Proof.
  induction s as [|c r IH]; intros inq n cur.
  - cbn [mparse qodd]. destruct cur as [w|]; [|cbn; lia].
    rewrite cntl_one, cnt_app. cbn [getcur]. lia.
  - cbn [mparse qodd]. destruct (c =? c_bs) eqn:Ebs; [exact (IH inq (S n) (Some (getcur cur)))|].
    destruct (c =? c_dq) eqn:Edq.
    { destruct (Nat.even n).
      - destruct (dd_fires dd inq r) eqn:F.
        + assert (Hs : starts_dq r = true).
          { destruct dd; [discriminate| |]; cbn [dd_fires] in F; now apply andb_true_iff in F as [_ F]. }
          destruct (starts_dq_inv r Hs) as [r' ->]. cbv iota. rewrite mp_dd_as_odd.
          match goal with |- (_ <= cntl _ (mparse dd ?i 1 ?cu _))%nat => pose proof (IH i 1%nat cu) as G end.
          cbn [getcur] in G. rewrite qodd_dq in G. rewrite cnt_app in G. rewrite cnt_repeat_other in G by reflexivity.
          rewrite qodd_dq. cbn [Nat.even] in *. lia.
        + match goal with |- (_ <= cntl _ (mparse dd ?i 0 ?cu r))%nat => pose proof (IH i 0%nat cu) as G end.
          cbn [getcur] in G. rewrite cnt_app in G. rewrite cnt_repeat_other in G by reflexivity. lia.
      - match goal with |- (_ <= cntl _ (mparse dd ?i 0 ?cu r))%nat => pose proof (IH i 0%nat cu) as G end.
        cbn [getcur] in G. rewrite !cnt_app, cnt_single in G. rewrite cnt_repeat_other in G by reflexivity.
        change (c_dq =? c_dq) with true in G. cbv iota in G. lia. }
    destruct (mblank c && negb inq).
    + destruct cur as [w|].
      * rewrite cntl_cons, cnt_app. pose proof (IH false 0%nat None) as G. cbn [getcur] in G. rewrite cnt_nil in G.
        cbn [getcur]. lia.
      * apply (IH false 0%nat None).
    + match goal with |- (_ <= cntl _ (mparse dd ?i 0 ?cu r))%nat => pose proof (IH i 0%nat cu) as G end.
      cbn [getcur] in G. rewrite !cnt_app in G. lia.
Qed.

Lemma dq_count_gt dd : dd <> DDnone -> forall s inq n cur, no_dd inq n s = false ->
  (cnt c_dq (getcur cur) + qodd n s < cntl c_dq (mparse dd inq n cur s))%nat.
Proof.
  intros Hdd. induction s as [|c r IH]; intros inq n cur H; [discriminate|].
  cbn [mparse qodd no_dd] in *. destruct (c =? c_bs) eqn:Ebs; [exact (IH inq (S n) (Some (getcur cur)) H)|].
  destruct (c =? c_dq) eqn:Edq.
  { destruct (Nat.even n).
    - assert (Ef : dd_fires dd inq r = inq && starts_dq r) by (destruct dd; [congruence|reflexivity|reflexivity]).
      rewrite Ef. destruct (inq && starts_dq r) eqn:F.
      + apply andb_true_iff in F as [_ Hs]. destruct (starts_dq_inv r Hs) as [r' ->]. cbv iota.
        rewrite qodd_dq. cbn [Nat.even].
        match goal with |- (_ < cntl _ (mparse dd ?i 0 ?cu r'))%nat => pose proof (dq_count_ge dd r' i 0%nat cu) as G end.
        cbn [getcur] in G. rewrite !cnt_app, cnt_single in G. rewrite cnt_repeat_other in G by reflexivity.
        change (c_dq =? c_dq) with true in G. cbv iota in G. lia.
      + cbn [negb andb] in H.
        match goal with |- (_ < cntl _ (mparse dd ?i 0 ?cu r))%nat => pose proof (IH i 0%nat cu H) as G end.
        cbn [getcur] in G. rewrite cnt_app in G. rewrite cnt_repeat_other in G by reflexivity. lia.
    - match goal with |- (_ < cntl _ (mparse dd ?i 0 ?cu r))%nat => pose proof (IH i 0%nat cu H) as G end.
      cbn [getcur] in G. rewrite !cnt_app, cnt_single in G. rewrite cnt_repeat_other in G by reflexivity.
      change (c_dq =? c_dq) with true in G. cbv iota in G. lia. }
  destruct (mblank c && negb inq) eqn:Eb.
  + apply andb_true_iff in Eb as [_ Ei]. apply negb_true_iff in Ei. subst inq. destruct cur as [w|].
    * rewrite cntl_cons, cnt_app. pose proof (IH false 0%nat None H) as G. cbn [getcur] in G. rewrite cnt_nil in G.
      cbn [getcur]. lia.
    * now apply (IH false 0%nat None).
  + match goal with |- (_ < cntl _ (mparse dd ?i 0 ?cu r))%nat => pose proof (IH i 0%nat cu H) as G end.
    cbn [getcur] in G. rewrite !cnt_app in G. lia.
Qed.

Theorem split_dd_differs dd line : dd <> DDnone -> no_tail_bs line = true -> no_dd_pair line = false ->
  split line <> msvcrt_parse dd line.
Proof.
  intros Hdd Ht Hd E. rewrite split_is_crt_nodd in E by assumption. apply (f_equal (cntl c_dq)) in E.
  unfold msvcrt_parse in E. rewrite dq_count_nodd in E.
  pose proof (dq_count_gt dd Hdd line false 0%nat None Hd) as G. lia.
Qed.

(* outside the guard at least one variant of the C runtime reads the line differently: split_dom is exactly the
   set of lines on which windows.split agrees with all three variants *)
Theorem split_dom_exact line : split_dom line = false -> exists dd, split line <> msvcrt_parse dd line.
Proof.
  unfold split_dom. intros H. destruct (no_tail_bs line) eqn:Ht.
  - cbn [andb] in H. exists DDpost2008. apply split_dd_differs; [discriminate|assumption|assumption].
  - exists DDnone. now apply split_tail_bs_differs.
Qed.

Theorem split_dom_iff line : split_dom line = true <-> forall dd, split line = msvcrt_parse dd line.
Proof.
  split.
  - intros H dd. now apply split_is_crt.
  - intros H. destruct (split_dom line) eqn:E; [reflexivity|].
    destruct (split_dom_exact line E) as [dd Hd]. now elim Hd.
Qed.
