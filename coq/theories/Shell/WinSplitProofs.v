(* windows.split against the Microsoft C runtime argument rules on ARBITRARY lines (not only on what
   windows.join writes).  Technique: a step-by-step simulation between the two state machines
   (tokenizer escape counter + splitter state  ~  C runtime in-quotes flag + pending backslash run +
   current argument), by induction on the line with all three splitter states generalised. *)
From Coq Require Import Arith.
From BFG Require Import Base.Chars Shell.WinQuote Shell.Msvcrt Shell.WinQuoteProofs Shell.WinSplit.
Local Open Scope N_scope.

(* what the C runtime holds as current argument when the splitter is between arguments with e pending
   backslashes: nothing, or an argument that so far consists of the pending run only *)
Definition bcur (e : nat) : option str := match e with O => None | S _ => Some [] end.

Lemma getcur_bcur e : getcur (bcur e) = [].
Proof. now destruct e. Qed.

Lemma sg_between_bs k a t :
  split_go Between a (repeat (TChar c_bs) (S k) ++ t) = split_go Word (a ++ [repeat c_bs (S k)]) t.
Proof. cbn [repeat app split_go]. now rewrite sg_bs_run_w. Qed.

Lemma wblank_mblank c : wblank c = mblank c.
Proof. reflexivity. Qed.

Lemma nz_S e : negb (Nat.eqb (S e) 0) = true.
Proof. reflexivity. Qed.

Lemma odd_of_even e b : Nat.even e = b -> Nat.odd e = negb b.
Proof. intros H. unfold Nat.odd. now rewrite H. Qed.

Lemma split_sim : forall s,
  (forall e a w, tail_ok (negb (Nat.eqb e 0)) s = true ->
     split_go Word (a ++ [w]) (tokenize e s) = a ++ mparse DDnone false e (Some w) s) /\
  (forall e a w, tail_ok (negb (Nat.eqb e 0)) s = true ->
     split_go Quoted (a ++ [w]) (tokenize e s) = a ++ mparse DDnone true e (Some w) s) /\
  (forall e a, tail_ok (negb (Nat.eqb e 0)) s = true ->
     split_go Between a (tokenize e s) = a ++ mparse DDnone false e (bcur e) s).
Proof.
  induction s as [|c r (IHw & IHq & IHb)].
  - repeat split; intros e; intros; cbn [tail_ok] in H; apply negb_true_iff, negb_false_iff, Nat.eqb_eq in H; subst e;
      cbn [tokenize split_go mparse bcur repeat]; now rewrite ?app_nil_r.
  - destruct (c =? c_bs) eqn:Ebs.
    { apply N.eqb_eq in Ebs. subst c. repeat split; intros e; intros; cbn [tail_ok] in H;
        change (c_bs =? c_bs) with true in H; rewrite tok_bs, mp_bs.
      - apply IHw. now rewrite nz_S.
      - apply IHq. now rewrite nz_S.
      - rewrite getcur_bcur. apply (IHb (S e)). now rewrite nz_S. }
    destruct (c =? c_dq) eqn:Edq.
    { apply N.eqb_eq in Edq. subst c. repeat split; intros e; intros; cbn [tail_ok] in H;
        change (c_dq =? c_bs) with false in H; rewrite tok_dq; destruct (Nat.even e) eqn:Ev;
        rewrite (odd_of_even e _ Ev); cbn [negb].
      - rewrite mp_dq_even by (assumption || reflexivity). rewrite sg_bs_run_w. cbn [split_go getcur negb].
        now apply IHq.
      - rewrite mp_dq_odd by assumption. rewrite sg_bs_run_w. cbn [split_go getcur]. rewrite add_last_snoc.
        now apply IHw.
      - rewrite mp_dq_even by (assumption || reflexivity). rewrite sg_bs_run_q. cbn [split_go getcur negb].
        now apply IHw.
      - rewrite mp_dq_odd by assumption. rewrite sg_bs_run_q. cbn [split_go getcur]. rewrite add_last_snoc.
        now apply IHq.
      - rewrite mp_dq_even by (assumption || reflexivity). rewrite getcur_bcur. cbn [negb app].
        destruct (Nat.div2 e) as [|k].
        + cbn [repeat app split_go]. now apply IHq.
        + rewrite sg_between_bs. cbn [split_go]. now apply IHq.
      - rewrite mp_dq_odd by assumption. rewrite getcur_bcur. cbn [app].
        destruct (Nat.div2 e) as [|k].
        + cbn [repeat app split_go]. now apply IHw.
        + rewrite sg_between_bs. cbn [split_go]. rewrite add_last_snoc. now apply IHw. }
    repeat split; intros e; intros; cbn [tail_ok] in H; rewrite Ebs in H; rewrite tok_other by assumption.
    + rewrite sg_bs_run_w. rewrite wblank_mblank. destruct (mblank c) eqn:Eb.
      * cbn [split_go]. rewrite mp_blank_some by assumption. rewrite (IHb 0%nat) by assumption.
        cbn [bcur]. now rewrite <- app_assoc.
      * cbn [split_go]. rewrite add_last_snoc. rewrite mp_other by (assumption || now rewrite Eb).
        cbn [getcur]. rewrite (IHw 0%nat) by assumption. now rewrite <- app_assoc.
    + rewrite sg_bs_run_q, sg_q_any. rewrite mp_other by (assumption || apply andb_false_r).
      cbn [getcur]. rewrite (IHq 0%nat) by assumption. now rewrite <- app_assoc.
    + rewrite wblank_mblank. destruct (mblank c) eqn:Eb.
      * destruct e as [|k].
        -- cbn [repeat app split_go bcur]. rewrite mp_blank_none by assumption. now apply (IHb 0%nat).
        -- rewrite sg_between_bs. cbn [split_go bcur]. rewrite mp_blank_some by assumption.
           rewrite (IHb 0%nat) by assumption. cbn [bcur app]. now rewrite <- app_assoc.
      * rewrite sg_between_run. rewrite mp_other by (assumption || now rewrite Eb).
        rewrite getcur_bcur. cbn [app]. now apply (IHw 0%nat).
Qed.

(* windows.split = the C runtime without the doubled-quote rule, on every line that does not end in a backslash *)
Theorem split_is_crt_nodd line : no_tail_bs line = true -> split line = msvcrt_parse DDnone line.
Proof.
  intros H. unfold split, msvcrt_parse. destruct (split_sim line) as (_ & _ & Hb).
  now rewrite (Hb 0%nat []) by exact H.
Qed.

(* the three variants of the C runtime agree wherever the doubled-quote rule never fires *)
Lemma mparse_nodd dd : forall s inq n cur, no_dd inq n s = true ->
  mparse dd inq n cur s = mparse DDnone inq n cur s.
Proof.
  induction s as [|c r IH]; intros inq n cur H; [reflexivity|].
  cbn [mparse no_dd] in *. destruct (c =? c_bs); [now apply IH|].
  destruct (c =? c_dq).
  - destruct (Nat.even n); [|now apply IH].
    apply andb_true_iff in H as [Hf Hr]. apply negb_true_iff in Hf.
    replace (dd_fires dd inq r) with false by (destruct dd; [reflexivity|now rewrite <- Hf|now rewrite <- Hf]).
    cbn [dd_fires]. now apply IH.
  - destruct (mblank c && negb inq) eqn:Eb.
    + apply andb_true_iff in Eb as [_ Ei]. apply negb_true_iff in Ei. subst inq.
      destruct cur; [f_equal|]; now apply IH.
    + now apply IH.
Qed.

Theorem crt_variants_agree dd line : no_dd_pair line = true -> msvcrt_parse dd line = msvcrt_parse DDnone line.
Proof. intros H. now apply mparse_nodd. Qed.

Theorem split_is_crt dd line : split_dom line = true -> split line = msvcrt_parse dd line.
Proof.
  unfold split_dom. intros H. apply andb_true_iff in H as [Ht Hd].
  rewrite crt_variants_agree by assumption. now apply split_is_crt_nodd.
Qed.

(* ---- without any guard: windows.split reads a line as the C runtime (no doubled-quote rule) reads the line
   without its final backslash run ---- *)
Lemma tokenize_strip : forall s e, tokenize e (strip_tbs s) = tokenize e s.
Proof.
  induction s as [|c r IH]; intros e; [reflexivity|].
  cbn [strip_tbs]. destruct (c =? c_bs) eqn:Ebs.
  - apply N.eqb_eq in Ebs. subst c. cbn [andb]. rewrite tok_bs, <- IH.
    destruct (strip_tbs r) as [|d r'] eqn:Es; cbn [is_nil]; [reflexivity|]. now rewrite tok_bs.
  - cbn [andb tokenize]. rewrite Ebs. destruct (c =? c_dq); now rewrite IH.
Qed.

Lemma tail_ok_strip : forall s pb, tail_ok pb (strip_tbs s) = if is_nil (strip_tbs s) then negb pb else true.
Proof.
  induction s as [|c r IH]; intros pb; [reflexivity|].
  cbn [strip_tbs]. destruct (c =? c_bs) eqn:Ebs.
  - cbn [andb]. destruct (strip_tbs r) as [|d r'] eqn:Es; cbn [is_nil]; [reflexivity|].
    cbn [tail_ok]. specialize (IH true). cbn [is_nil tail_ok] in IH. exact IH.
  - cbn [andb is_nil tail_ok]. rewrite Ebs, IH. now destruct (is_nil (strip_tbs r)).
Qed.

Theorem split_stripped line : split line = msvcrt_parse DDnone (strip_tbs line).
Proof.
  transitivity (split (strip_tbs line)).
  - unfold split. now rewrite tokenize_strip.
  - apply split_is_crt_nodd. unfold no_tail_bs. rewrite tail_ok_strip. now destruct (is_nil (strip_tbs line)).
Qed.

(* ======================= the lines windows.join writes lie in the domain ======================= *)

(* ---- single steps of the doubled-quote scan ---- *)
Lemma nd_bs inq n r : no_dd inq n (c_bs :: r) = no_dd inq (S n) r.
Proof. reflexivity. Qed.

Lemma nd_bs_run inq k : forall n x, no_dd inq n (repeat c_bs k ++ x) = no_dd inq (n + k) x.
Proof.
  induction k as [|k IH]; intros n x.
  - now rewrite Nat.add_0_r.
  - cbn [repeat app]. rewrite nd_bs, IH. f_equal. lia.
Qed.

Lemma nd_dq_even inq n r : Nat.even n = true ->
  no_dd inq n (c_dq :: r) = negb (inq && starts_dq r) && no_dd (negb inq) 0 r.
Proof. intros H. cbn [no_dd]. change (c_dq =? c_bs) with false. change (c_dq =? c_dq) with true. cbv iota. now rewrite H. Qed.

Lemma nd_dq_odd inq n r : Nat.even n = false -> no_dd inq n (c_dq :: r) = no_dd inq 0 r.
Proof. intros H. cbn [no_dd]. change (c_dq =? c_bs) with false. change (c_dq =? c_dq) with true. cbv iota. now rewrite H. Qed.

Lemma nd_other inq n c r : (c =? c_bs) = false -> (c =? c_dq) = false -> no_dd inq n (c :: r) = no_dd inq 0 r.
Proof. intros H1 H2. cbn [no_dd]. now rewrite H1, H2. Qed.

(* the quoted form: every double quote inside follows an odd backslash run, the closing one an even run *)
Lemma nd_wesc : forall s p rest, starts_dq rest = false ->
  no_dd true 0 (wesc p s ++ c_dq :: rest) = no_dd false 0 rest.
Proof.
  induction s as [|c r IH]; intros p rest Hr.
  - cbn [wesc]. rewrite <- app_assoc, !nd_bs_run. cbn [Nat.add].
    rewrite nd_dq_even by apply even_double. now rewrite Hr.
  - cbn [wesc]. destruct (c =? c_bs) eqn:Ebs; [now apply IH|].
    destruct (c =? c_dq) eqn:Edq.
    + rewrite <- !app_assoc. rewrite <- !app_comm_cons. rewrite !nd_bs_run, nd_bs. cbn [Nat.add].
      rewrite nd_dq_odd by apply even_sdouble. now apply IH.
    + destruct ((c =? c_nl) && is_nil r) eqn:Enl.
      * rewrite <- !app_assoc. rewrite !nd_bs_run. cbn [app]. rewrite nd_other by reflexivity.
        rewrite nd_dq_even by reflexivity. now rewrite Hr.
      * rewrite <- app_assoc, <- app_comm_cons, nd_bs_run. rewrite nd_other by assumption. now apply IH.
Qed.

(* ---- the line does not end in a backslash ---- *)
Definition tailP (t : str) : Prop := forall pb, tail_ok pb t = true.

Lemma tail_ok_app a : forall pb c r, tail_ok pb (a ++ c :: r) = tail_ok (c =? c_bs) r.
Proof. induction a as [|x a IH]; intros pb c r; [reflexivity|]. cbn [app tail_ok]. apply IH. Qed.

Lemma tailP_app a b : tailP b -> tailP (a ++ b).
Proof.
  intros H pb. destruct b as [|c r].
  - specialize (H true). discriminate.
  - rewrite tail_ok_app. exact (H false).
Qed.

Lemma tailP_wrap x : tailP (wrap_quotes x).
Proof. intros pb. unfold wrap_quotes. cbn [tail_ok]. now rewrite tail_ok_app. Qed.

Lemma tailP_lit : forall l, lit_ok l = true -> l <> [] -> tailP l.
Proof.
  induction l as [|c l IH]; intros H Hne pb; [congruence|].
  cbn [lit_ok forallb] in H. apply andb_true_iff in H as [Hc Hl]. unfold lit_char_ok in Hc.
  apply negb_true_iff in Hc. apply orb_false_iff in Hc as [_ Hbs].
  cbn [tail_ok]. rewrite Hbs. destruct l as [|d l]; [reflexivity|]. apply IH; [exact Hl|congruence].
Qed.

Section JoinInDomain.
Variable us : char -> bool.
Notation has_bad := (has_bad us).
Notation quote := (quote us false).
Notation jtext := (jtext us).

Lemma nd_plain : forall s n rest, has_bad s = false -> (s <> [] \/ n = 0%nat) ->
  no_dd false n (s ++ rest) = no_dd false 0 rest.
Proof.
  induction s as [|c r IH]; intros n rest Hb Hn.
  - destruct Hn as [Hn|Hn]; [congruence|]. now subst n.
  - apply has_bad_cons in Hb as (Hc & He & Hr). cbn [app]. destruct (c =? c_bs) eqn:Ebs.
    + apply N.eqb_eq in Ebs. subst c. cbn [andb] in He. rewrite nd_bs.
      apply IH; [assumption|left; now apply at_end_nonnil].
    + rewrite nd_other by (assumption || now apply (notbad_dq us)). apply IH; [assumption|now right].
Qed.

Lemma nd_quote s rest : starts_dq rest = false -> no_dd false 0 (quote s ++ rest) = no_dd false 0 rest.
Proof.
  intros Hr. unfold WinQuote.quote, inner_quote_info. destruct s as [|c r].
  - unfold wrap_quotes. cbn [app]. rewrite nd_dq_even by reflexivity. cbn [andb negb].
    rewrite nd_dq_even by reflexivity. now rewrite Hr.
  - destruct (has_bad (c :: r)) eqn:B.
    + unfold wrap_quotes. rewrite <- app_comm_cons, <- app_assoc. cbn [app].
      rewrite nd_dq_even by reflexivity. cbn [andb negb]. now apply nd_wesc.
    + apply nd_plain; [assumption|left; congruence].
Qed.

Lemma nd_lit : forall l rest, lit_ok l = true -> no_dd false 0 (l ++ rest) = no_dd false 0 rest.
Proof.
  induction l as [|c l IH]; intros rest H; [reflexivity|].
  cbn [lit_ok forallb] in H. apply andb_true_iff in H as [Hc Hl]. unfold lit_char_ok in Hc.
  apply negb_true_iff in Hc. apply orb_false_iff in Hc as [Hc Hbs]. apply orb_false_iff in Hc as [_ Hdq].
  cbn [app]. rewrite nd_other by assumption. now apply IH.
Qed.

Lemma nd_jtext : forall bits pb rest, jbos_ok pb bits = true -> starts_dq rest = false ->
  no_dd false 0 (jtext bits ++ rest) = no_dd false 0 rest.
Proof.
  induction bits as [|b r IH]; intros pb rest H Hr; [reflexivity|].
  destruct b as [s|l|]; cbn [jbos_ok] in H; [| |discriminate].
  - apply andb_true_iff in H as [H Hj]. cbn [WinQuoteProofs.jtext]. rewrite <- app_assoc.
    rewrite nd_quote by (now apply jtext_next_not_dq). now apply (IH true).
  - apply andb_true_iff in H as [H Hj]. apply andb_true_iff in H as [_ Hl].
    cbn [WinQuoteProofs.jtext]. rewrite <- app_assoc. rewrite nd_lit by assumption. now apply (IH false).
Qed.

Lemma tailP_plain : forall s, has_bad s = false -> s <> [] -> tailP s.
Proof.
  induction s as [|c r IH]; intros Hb Hne pb; [congruence|].
  apply has_bad_cons in Hb as (_ & He & Hr). cbn [tail_ok]. destruct r as [|d r].
  - cbn [at_end] in He. rewrite andb_true_r in He. now rewrite He.
  - apply IH; [exact Hr|congruence].
Qed.

Lemma tailP_quote s : tailP (quote s).
Proof.
  unfold WinQuote.quote, inner_quote_info. destruct s as [|c r]; [apply tailP_wrap|].
  destruct (has_bad (c :: r)) eqn:B; [apply tailP_wrap|]. apply tailP_plain; [assumption|congruence].
Qed.

Lemma tailP_jtext : forall bits pb, bits <> [] -> jbos_ok pb bits = true -> tailP (jtext bits).
Proof.
  induction bits as [|b r IH]; intros pb Hne H; [congruence|].
  destruct b as [s|l|]; cbn [jbos_ok] in H; [| |discriminate].
  - apply andb_true_iff in H as [_ Hj]. cbn [WinQuoteProofs.jtext]. destruct r as [|b' r'].
    + cbn [WinQuoteProofs.jtext]. rewrite app_nil_r. apply tailP_quote.
    + apply tailP_app. apply (IH true); [congruence|assumption].
  - apply andb_true_iff in H as [H Hj]. apply andb_true_iff in H as [Hn Hl].
    cbn [WinQuoteProofs.jtext]. destruct r as [|b' r'].
    + cbn [WinQuoteProofs.jtext]. rewrite app_nil_r. apply tailP_lit; [assumption|]. destruct l; [discriminate|congruence].
    + apply tailP_app. apply (IH false); [congruence|assumption].
Qed.

(* an argument made of several pieces: a non-empty canonical jbos of quoted strings and shell literals *)
Definition pieces_ok (bits : list bit) : Prop := bits <> [] /\ jbos_ok false bits = true.

Lemma quote_all_pieces : forall args, Forall pieces_ok args ->
  quote_all us (map SJbos args) = Some (map jtext args).
Proof.
  induction args as [|bits l IH]; intros H; [reflexivity|].
  inversion H as [|? ? [_ Hb] Hl]; subst. cbn [map quote_all quote_info].
  destruct (quote_bits_text us bits false ([], false) Hb) as [e He]. rewrite He. cbn [fst app].
  now rewrite IH.
Qed.

Lemma join_pieces_tail : forall args, Forall pieces_ok args -> no_tail_bs (join_sp (map jtext args)) = true.
Proof.
  unfold no_tail_bs. induction args as [|bits l IH]; intros H; [reflexivity|].
  inversion H as [|? ? [Hne Hb] Hl]; subst. destruct l as [|b2 l].
  - cbn [map join_sp]. now apply (tailP_jtext bits false).
  - cbn [map]. rewrite join_sp_cons2, tail_ok_app. change (c_sp =? c_bs) with false. now apply IH.
Qed.

Lemma join_pieces_nodd : forall args, Forall pieces_ok args -> no_dd_pair (join_sp (map jtext args)) = true.
Proof.
  unfold no_dd_pair. induction args as [|bits l IH]; intros H; [reflexivity|].
  inversion H as [|? ? [Hne Hb] Hl]; subst. destruct l as [|b2 l].
  - cbn [map join_sp]. rewrite <- (app_nil_r (jtext bits)). now rewrite (nd_jtext bits false).
  - cbn [map]. rewrite join_sp_cons2. rewrite (nd_jtext bits false) by (assumption || reflexivity).
    rewrite nd_other by reflexivity. now apply IH.
Qed.

Lemma mparse_join_pieces dd : forall args, Forall pieces_ok args ->
  mparse dd false 0 None (join_sp (map jtext args)) = map jbos_denotes args.
Proof.
  induction args as [|bits l IH]; intros H; [reflexivity|].
  inversion H as [|? ? [Hne Hb] Hl]; subst. destruct l as [|b2 l].
  - cbn [map join_sp]. rewrite <- (app_nil_r (jtext bits)).
    rewrite (mparse_jtext us dd bits false) by (assumption || reflexivity).
    cbn [getcur app mparse repeat map]. now rewrite app_nil_r.
  - cbn [map]. rewrite join_sp_cons2. rewrite (mparse_jtext us dd bits false) by (assumption || reflexivity).
    rewrite mp_blank_some by reflexivity. cbn [getcur app repeat]. rewrite app_nil_r. f_equal.
    now apply IH.
Qed.

(* the line windows.join writes for arguments made of several pieces lies in the domain of split_is_crt, and
   windows.split (as every variant of the C runtime) reads it back as the concatenations of the pieces *)
Theorem split_join_pieces args : Forall pieces_ok args ->
  exists line, join_sargs us (map SJbos args) = Some line /\ split_dom line = true /\
    split line = map jbos_denotes args /\ forall dd, msvcrt_parse dd line = map jbos_denotes args.
Proof.
  intros H. exists (join_sp (map jtext args)). unfold join_sargs. rewrite quote_all_pieces by assumption.
  split; [reflexivity|].
  assert (Hd : split_dom (join_sp (map jtext args)) = true).
  { unfold split_dom. now rewrite join_pieces_tail, join_pieces_nodd. }
  split; [exact Hd|]. split.
  - rewrite (split_is_crt DDnone) by exact Hd. now apply mparse_join_pieces.
  - intros dd. now apply mparse_join_pieces.
Qed.

(* plain argument lists: what windows.join writes lies in the domain *)
Lemma pieces_of_str s : win_ok s = true -> pieces_ok [BStr s].
Proof. intros H. split; [congruence|]. cbn [jbos_ok negb andb]. now rewrite H. Qed.

Lemma jtext_single s : jtext [BStr s] = quote s.
Proof. cbn [WinQuoteProofs.jtext]. apply app_nil_r. Qed.

Theorem join_in_split_dom args : Forall (fun s => win_ok s = true) args -> split_dom (join us args) = true.
Proof.
  intros H. unfold join.
  replace (map quote args) with (map jtext (map (fun s => [BStr s]) args)).
  - unfold split_dom. rewrite join_pieces_tail, join_pieces_nodd; [reflexivity| |];
      (apply Forall_map; eapply Forall_impl; [|exact H]; exact pieces_of_str).
  - rewrite map_map. apply map_ext. exact jtext_single.
Qed.
End JoinInDomain.
