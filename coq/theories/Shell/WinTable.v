(* Dispatch entries (name -> sx wrapper) for the Windows shell models (C20). *)
From BFG Require Import Base.Chars Base.Sx Shell.WinQuote Shell.Msvcrt Shell.WinSplit.
From Coq Require Import String.
Local Open Scope N_scope.

(* classification of code points >= 128 as Unicode whitespace, supplied by the harness *)
Definition us_of (x : sx) : char -> bool := fun c => mem_char c (un_str x).

Definition un_wbit (x : sx) : bit :=
  let k := un_N (nth_sx 0 x) in
  if k =? 0 then BStr (un_str (nth_sx 1 x))
  else if k =? 1 then BLit (un_str (nth_sx 1 x))
  else BOther.

Definition un_sarg (x : sx) : sarg :=
  if un_N (nth_sx 0 x) =? 0 then SBit (un_wbit (nth_sx 1 x))
  else SJbos (map un_wbit (un_list (nth_sx 1 x))).

Definition un_dd (x : sx) : ddrule :=
  let k := un_N x in if k =? 0 then DDnone else if k =? 1 then DDpost2008 else DDpre2008.

Definition sx_wtoken (t : token) : sx :=
  match t with TChar c => L [A 0; A c] | TQuote => L [A 1] | TSpace c => L [A 2; A c] end.

Definition table : list (string * (sx -> sx)) := [
  ("win.has_bad", fun a => sx_bool (has_bad (us_of (nth_sx 0 a)) (un_str (nth_sx 1 a))));
  ("win.inner_quote_info", fun a =>
      sx_pair sx_str sx_bool (inner_quote_info (us_of (nth_sx 0 a)) (un_bool (nth_sx 1 a)) (un_str (nth_sx 2 a))));
  ("win.quote", fun a => sx_str (quote (us_of (nth_sx 0 a)) (un_bool (nth_sx 1 a)) (un_str (nth_sx 2 a))));
  ("win.quote_info", fun a =>
      sx_opt (sx_pair sx_str sx_bool) (quote_info (us_of (nth_sx 0 a)) (un_bool (nth_sx 1 a)) (un_sarg (nth_sx 2 a))));
  ("win.join", fun a => sx_str (join (us_of (nth_sx 0 a)) (un_strs (nth_sx 1 a))));
  ("win.tokenize", fun a => sx_list sx_wtoken (tokenize 0 (un_str (nth_sx 0 a))));
  ("win.split", fun a => sx_list sx_str (split (un_str (nth_sx 0 a))));
  ("win.join_sargs", fun a => sx_opt sx_str (join_sargs (us_of (nth_sx 0 a)) (map un_sarg (un_list (nth_sx 1 a)))));
  ("win.split_dom", fun a => let line := un_str (nth_sx 0 a) in
      L [sx_bool (split_dom line); sx_bool (no_tail_bs line); sx_bool (no_dd_pair line)]);
  ("win.strip_tbs", fun a => sx_str (strip_tbs (un_str (nth_sx 0 a))));
  ("win.cmd_wrap", fun a => sx_str (cmd_wrap (un_str (nth_sx 0 a))));
  ("win.cmd_s_strip", fun a => sx_opt sx_str (cmd_s_strip (un_str (nth_sx 0 a))));
  ("msvcrt.parse", fun a => sx_list sx_str (msvcrt_parse (un_dd (nth_sx 0 a)) (un_str (nth_sx 1 a))))
]%string.
