(* C10 - crash model of configure / regenerate.

   A run of bfg9000 configure / regenerate is the list of atomic file-system mutations it performs, in the
   order of the code (driver.py configure/regenerate, builtins/file_types.py make_immediate_file,
   builtins/find.py make_find_dirs, backends/make/writer.py write, backends/compdb/writer.py write):

     .bfg_environ (open, close)                       Environment.save, before the script runs
     per immediate file k: makedirs, open, close      during the script (pkg_config .pc files)
     .bfg_find_deps (open, close)                     post_rules_hook make_find_dirs, when find_files was used
       or, since the repair F2 (write_depfile):       .bfg_find_deps.tmp (open, close), rename onto .bfg_find_deps
     .bfg_find_cache (open, close) or remove          the same hook: FindCacheFile.save
     build file (open = truncate, close)              after all hooks
     compile_commands.json (open, close)              when enabled

   Contents are abstracted by generation tags (Old = the project as configured before the edit, New = the
   edited project); modification times are abstract epochs:
     0 absent, 1 untouched sources, 2 the old configure, 3 the edit, 4 the crashed run, 5.. follow-ups.

   The follow-up is what a user does next: run make.  make_attempt models GNU Make's decision to run the
   regenerate rule (mtimes of the rule target against build.bfg and the directories listed in the included
   .bfg_find_deps) and then bfg9000 regenerate --lazy with find_check_cache's skip decision as written.

   A variant record selects the code that is modelled (v_old = bfg9000 before the two repairs of builtins/find.py,
   v_repaired = after them):
     adeps (F2, write_depfile)     .bfg_find_deps is written to .bfg_find_deps.tmp and renamed into place (atomic): a
                                   crash between the close of the temporary file and the rename leaves a stray complete
                                   .tmp and the OLD depfile intact
     dnc   (F1, find_check_cache)  distrust_newer_cache: a lazy regeneration skips only when
                                   mtime(.bfg_find_cache) <= mtime(build file); a cache strictly newer than the build file
                                   was saved by a run that died before it completed the build file
     cal   (cache_after_buildfile) hypothetical alternative repair: the find cache is saved after the build file
   Time: every run (the old configure, the crashed run, each follow-up) happens at one epoch and the epochs of
   successive runs are strictly increasing.  Within one run the cache and the build file therefore carry EQUAL
   timestamps in the model (in reality cache <= build file, the cache being written first); F1 uses a strict
   comparison, so an uninterrupted run leaves a cache that is trusted.  A cache saved by the crashed run (epoch 4) is
   strictly newer than the build file of the old configure (epoch 2): this is where strictness of the clock across
   runs matters (a crashed run within the timestamp granularity of the previous configure is outside the model).
   The model is executable; proofs are in CrashProofs.v. *)
From Coq Require Import List Bool Arith.
Import ListNotations.

Inductive gen := Old | New.
Inductive content := Absent | Empty | Full (g : gen).
Record fstate := mkF { cont : content; mt : nat }.

Inductive file := FEnv | FImm (k : nat) | FDeps | FCache | FBuild | FStamp | FCompdb | FDepsTmp.
Inductive dir := DBuild | DImm.
Inductive fsop := Open (f : file) | WriteClose (f : file) | Remove (f : file) | Utime (f : file) | Mkdir (d : dir)
               | Rename (a b : file).     (* os.replace a b: b gets a's content and mtime, a disappears *)
(* an exception raised by the script or by a rule-emission hook cuts the run *)
Inductive ev := Op (o : fsop) | Raise.

Record fs := mkFs { f_env : fstate; f_deps : fstate; f_cache : fstate; f_build : fstate; f_stamp : fstate;
                    f_compdb : fstate; f_imm : list fstate; f_tmp : fstate }.

Definition absent := mkF Absent 0.

Fixpoint upd (k : nat) (v : fstate) (l : list fstate) : list fstate :=
  match l, k with
  | [], _ => []
  | _ :: r, 0 => v :: r
  | x :: r, S k' => x :: upd k' v r
  end.

Definition get (s : fs) (f : file) : fstate :=
  match f with
  | FEnv => f_env s | FDeps => f_deps s | FCache => f_cache s | FBuild => f_build s
  | FStamp => f_stamp s | FCompdb => f_compdb s | FImm k => nth k (f_imm s) absent | FDepsTmp => f_tmp s
  end.

Definition set (s : fs) (f : file) (v : fstate) : fs :=
  match f with
  | FEnv => mkFs v (f_deps s) (f_cache s) (f_build s) (f_stamp s) (f_compdb s) (f_imm s) (f_tmp s)
  | FDeps => mkFs (f_env s) v (f_cache s) (f_build s) (f_stamp s) (f_compdb s) (f_imm s) (f_tmp s)
  | FCache => mkFs (f_env s) (f_deps s) v (f_build s) (f_stamp s) (f_compdb s) (f_imm s) (f_tmp s)
  | FBuild => mkFs (f_env s) (f_deps s) (f_cache s) v (f_stamp s) (f_compdb s) (f_imm s) (f_tmp s)
  | FStamp => mkFs (f_env s) (f_deps s) (f_cache s) (f_build s) v (f_compdb s) (f_imm s) (f_tmp s)
  | FCompdb => mkFs (f_env s) (f_deps s) (f_cache s) (f_build s) (f_stamp s) v (f_imm s) (f_tmp s)
  | FImm k => mkFs (f_env s) (f_deps s) (f_cache s) (f_build s) (f_stamp s) (f_compdb s) (upd k v (f_imm s)) (f_tmp s)
  | FDepsTmp => mkFs (f_env s) (f_deps s) (f_cache s) (f_build s) (f_stamp s) (f_compdb s) (f_imm s) v
  end.

(* os.utime on an existing file; the code only touches files that exist *)
Definition touch (t : nat) (x : fstate) : fstate :=
  match cont x with Absent => x | _ => mkF (cont x) t end.

(* one mutation at time t.  open(f, 'w') creates / truncates; the content reaches the file at the close *)
Definition apply_op (t : nat) (s : fs) (o : fsop) : fs :=
  match o with
  | Open f => set s f (mkF Empty t)
  | WriteClose f => set s f (mkF (Full New) t)
  | Remove f => set s f absent
  | Utime f => set s f (touch t (get s f))
  | Mkdir _ => s
  | Rename a b => set (set s b (get s a)) a absent
  end.

Definition apply_ops (t : nat) (l : list fsop) (s : fs) : fs := fold_left (apply_op t) l s.

(* crash after the first n mutations: an Open without its WriteClose leaves the file empty *)
Definition crash (t n : nat) (l : list fsop) (s : fs) : fs := apply_ops t (firstn n l) s.

(* ---- the abstract project ---- *)
Record proj := mkP { uses_find : bool; n_imm : nat; has_compdb : bool }.

(* ---- which code is modelled ---- *)
Record variant := mkV { cal : bool; adeps : bool; dnc : bool }.
Definition v_old := mkV false false false.        (* before the repairs F1 and F2 *)
Definition v_repaired := mkV false true true.     (* builtins/find.py with F1 and F2 *)
Definition v_cal := mkV true false false.         (* hypothetical: cache saved after the build file *)

Definition env_ops := [Open FEnv; WriteClose FEnv].
Fixpoint imm_from (k n : nat) : list fsop :=
  match n with
  | 0 => []
  | S n' => Mkdir DImm :: Open (FImm k) :: WriteClose (FImm k) :: imm_from (S k) n'
  end.
(* write_depfile: in place, or (F2) through .bfg_find_deps.tmp and os.replace.  The Rename always follows the
   WriteClose of its source in these lists, so its source exists (os.replace of a missing file would raise) *)
Definition deps_ops (v : variant) (p : proj) :=
  if uses_find p then
    if adeps v then [Open FDepsTmp; WriteClose FDepsTmp; Rename FDepsTmp FDeps] else [Open FDeps; WriteClose FDeps]
  else [].
Definition cache_ops (p : proj) := if uses_find p then [Open FCache; WriteClose FCache] else [Remove FCache].
Definition build_ops := [Open FBuild; WriteClose FBuild].
Definition compdb_ops (p : proj) := if has_compdb p then [Open FCompdb; WriteClose FCompdb] else [].

(* everything that happens before the build file is opened, as written *)
Definition pre_ops (v : variant) (p : proj) := env_ops ++ imm_from 0 (n_imm p) ++ deps_ops v p ++ cache_ops p.

(* cal = false: the code as written (cache saved by a post-rules hook, before the build file is written) *)
Definition run_ops (v : variant) (p : proj) : list fsop :=
  if cal v then env_ops ++ imm_from 0 (n_imm p) ++ deps_ops v p ++ build_ops ++ cache_ops p ++ compdb_ops p
  else pre_ops v p ++ build_ops ++ compdb_ops p.

(* bfg9000 configure-into additionally creates the build directory first *)
Definition configure_ops (v : variant) (p : proj) := Mkdir DBuild :: run_ops v p.

(* a lazy regeneration that decides to skip: environment saved, outputs touched, AbortConfigure *)
Fixpoint utimes_from (k n : nat) : list fsop :=
  match n with 0 => [] | S n' => Utime (FImm k) :: utimes_from (S k) n' end.
Definition skip_ops (p : proj) := env_ops ++ Utime FBuild :: utimes_from 0 (n_imm p).

(* a run whose script / hook raises after j mutations (j within pre_ops: the script and all hooks run
   before the build file is opened) *)
Fixpoint insert_raise (j : nat) (l : list fsop) : list ev :=
  match j, l with
  | 0, _ => Raise :: map Op l
  | S j', o :: r => Op o :: insert_raise j' r
  | S _, [] => [Raise]
  end.
Fixpoint until_raise (l : list ev) : list fsop :=
  match l with
  | [] => []
  | Raise :: _ => []
  | Op o :: r => o :: until_raise r
  end.
Definition run_events (v : variant) (p : proj) (j : nat) : list ev :=
  insert_raise j (run_ops (mkV false (adeps v) (dnc v)) p).

(* ---- the state before the crashed run: configured and built from the old project at epoch 2 ---- *)
Definition oldf := mkF (Full Old) 2.
Definition fs_old (p : proj) : fs :=
  mkFs oldf (if uses_find p then oldf else absent) (if uses_find p then oldf else absent) oldf
       (if 0 <? n_imm p then oldf else absent) (if has_compdb p then oldf else absent) (repeat oldf (n_imm p)) absent.

(* ---- the edit (epoch 3) ---- *)
(* input_mt is the newest time stamp of the explicit inputs of the regeneration step: build.bfg, the submodule and option
   scripts, and the toolchain file of configure --toolchain FILE (builtins/regenerate.py _inputs).  The model uses this ONE
   list twice: as the prerequisites of the regeneration rule in the build file (make_attempt: does make start bfg9000) and
   as the inputs persisted in .bfg_find_cache (lazy_decision: does regenerate --lazy see something newer).  That the two
   lists are the same set is checked on every recorded project (harness/c10.py oracle:regen_inputs); the edit kind
   toolchain (only that file is rewritten) is an e_script edit. *)
Record edit := mkE { e_script : bool;   (* build.bfg / a script / the toolchain file edited: an explicit input is newer than the outputs *)
                     e_dir : bool;      (* a file matched by find_files was added: results differ, directory newer *)
                     e_touch : bool }.  (* a watched directory changed without changing any find result *)
Definition input_mt (e : edit) := if e_script e then 3 else 1.
Definition dir_mt (e : edit) := if e_dir e || e_touch e then 3 else 1.
Definition changed (e : edit) := e_script e || e_dir e.

(* ---- regenerate --lazy: find_check_cache as written ---- *)
Inductive decision := DRun | DSkip | DFail.

Definition min_out (s : fs) : nat := fold_right (fun x a => Nat.min (mt x) a) (mt (f_build s)) (f_imm s).

(* F1: getmtime_ns(.bfg_find_cache) > getmtime_ns(regen_files.outputs[0]), strictly *)
Definition cache_newer (s : fs) : bool := mt (f_build s) <? mt (f_cache s).

Definition lazy_decision (v : variant) (e : edit) (s : fs) : decision :=
  match cont (f_cache s) with
  | Absent => DRun                                      (* FileNotFoundError: return, run the script *)
  | Empty => DFail                                      (* json.load fails: unable to reload environment, exit 1 *)
  | Full g =>
      if dnc v && cache_newer s then DRun               (* F1: the cache does not describe this build file *)
      else if min_out s <? input_mt e then DRun         (* max(inputs) > min(outputs) *)
      else match g with
           | Old => if e_dir e then DRun else DSkip     (* cached results differ from the tree / are the same *)
           | New => DSkip                               (* the cache already describes the edited tree *)
           end
  end.

Definition is_full (x : fstate) := match cont x with Full _ => true | _ => false end.
Definition is_absent (x : fstate) := match cont x with Absent => true | _ => false end.
Definition is_new (x : fstate) := match cont x with Full New => true | _ => false end.

(* bfg9000 regenerate [--lazy] at time t: (exit status 0?, resulting state) *)
Definition regenerate (lazy : bool) (v : variant) (p : proj) (e : edit) (t : nat) (s : fs) : bool * fs :=
  if is_full (f_env s) then
    match (if lazy then lazy_decision v e s else DRun) with
    | DFail => (false, apply_ops t env_ops s)
    | DSkip => (true, apply_ops t (skip_ops p) s)
    | DRun => (true, apply_ops t (run_ops v p) s)
    end
  else (false, s).                                       (* Environment.load fails *)

(* make at time t: (exit status 0?, resulting state, was bfg9000 regenerate started?) *)
Definition make_attempt (v : variant) (p : proj) (e : edit) (t : nat) (s : fs) : bool * fs * bool :=
  if is_full (f_build s) then
    if uses_find p && is_absent (f_deps s) then (false, s, false)     (* include of a missing file *)
    else
      let multi := 0 <? n_imm p in
      let tgt := if multi then f_stamp s else f_build s in
      let trig := is_absent tgt || (mt tgt <? input_mt e)
                  || (uses_find p && is_full (f_deps s) && (mt tgt <? dir_mt e)) in
      if trig then
        let r := regenerate true v p e t s in
        if fst r then
          let s' := if multi then set (snd r) FStamp (mkF (Full New) t) else snd r in
          (is_full (f_build s'), s', true)
        else (false, snd r, true)
      else (true, s, false)
  else (false, s, false).                                 (* empty or missing Makefile: No targets *)

Fixpoint attempts (v : variant) (p : proj) (e : edit) (t k : nat) (s : fs) : list (bool * fs * bool) :=
  match k with
  | 0 => []
  | S k' => let r := make_attempt v p e t s in r :: attempts v p e (S t) k' (snd (fst r))
  end.

(* the build file and every declared output of the regeneration step describe the edited project *)
Definition describes_new (s : fs) : bool := is_new (f_build s) && forallb is_new (f_imm s).
Definition compdb_new (p : proj) (s : fs) : bool := negb (has_compdb p) || is_new (f_compdb s).

(* a follow-up is acceptable: it fails visibly or leaves files describing the edited project *)
Definition ok_result (r : bool * fs * bool) : bool := negb (fst (fst r)) || describes_new (snd (fst r)).
(* the same, counting compile_commands.json (not a declared output of the regeneration step) as well *)
Definition ok_result_all (p : proj) (r : bool * fs * bool) : bool :=
  negb (fst (fst r)) || (describes_new (snd (fst r)) && compdb_new p (snd (fst r))).

(* the property for one crash point and k follow-ups *)
Definition safe_at (v : variant) (p : proj) (e : edit) (n k : nat) : bool :=
  forallb ok_result (attempts v p e 5 k (crash 4 n (run_ops v p) (fs_old p))).
Definition safe_all_at (v : variant) (p : proj) (e : edit) (n k : nat) : bool :=
  forallb (ok_result_all p) (attempts v p e 5 k (crash 4 n (run_ops v p) (fs_old p))).

(* the two crash points after which a follow-up can succeed on stale files *)
Definition deps_pt (p : proj) := 2 + 3 * n_imm p + 1.      (* .bfg_find_deps opened in place, not yet written *)
(* .bfg_find_cache saved, build file not yet opened *)
Definition window_pt (v : variant) (p : proj) := 2 + 3 * n_imm p + (if adeps v then 5 else 4).
(* the build file is complete, compile_commands.json is not: crash points n with compdb_lo <= n < compdb_hi *)
Definition compdb_lo (v : variant) (p : proj) := length (run_ops v p) - length (compdb_ops p) - (if cal v then length (cache_ops p) else 0).
Definition compdb_hi (v : variant) (p : proj) := length (run_ops v p).
Definition compdb_window (v : variant) (p : proj) (n : nat) : bool :=
  has_compdb p && (compdb_lo v p <=? n) && (n <? compdb_hi v p).

(* the edit is visible to the project: build.bfg changed, or a find_files result changed *)
Definition valid (p : proj) (e : edit) : bool := e_script e || (uses_find p && e_dir e).

(* crash points after which a follow-up succeeds on stale files (only when build.bfg itself was not edited):
   the depfile truncated in place (closed by F2), the cache saved before the build file (closed by F1 or by cal) *)
Definition bad_point (v : variant) (p : proj) (e : edit) (n : nat) : bool :=
  uses_find p && negb (e_script e) &&
  ((negb (adeps v) && (n =? deps_pt p)) || (negb (cal v) && negb (dnc v) && (n =? window_pt v p))).

(* ---- re-configure of an existing build directory with OTHER options (history `options` of harness/c10.py) ----
   Nothing in the tree is edited (e_none): generation New now means written with the new options, and the new options
   reach .bfg_environ first (env_ops), everything else follows in the order of run_ops.  The next regeneration attempt
   is the backend's own command, bfg9000 regenerate --lazy, run by hand (GNU Make would not start it: no prerequisite
   of the regenerate rule changed).  Crash points n >= 2 only: before that .bfg_environ still holds the old options
   (n = 0) or is truncated (n = 1). *)
Definition e_none := mkE false false false.
Definition reconf_followup (v : variant) (p : proj) (n : nat) : bool * fs :=
  regenerate true v p e_none 5 (crash 4 n (run_ops v p) (fs_old p)).
Definition reconf_ok (v : variant) (p : proj) (n : nat) : bool :=
  let r := reconf_followup v p n in negb (fst r) || describes_new (snd r).
(* the two kinds of crash points after which the by-hand lazy regeneration exits 0 on stale files although the code has
   F1 (dnc): the new options are saved and this run has not opened .bfg_find_cache yet (the old cache is trusted);
   the build file is opened = truncated and not yet written (an empty file that is not older than the cache).
   window_pt = number of mutations up to and including the save of the cache: there the marker F1 relies on exists *)
Definition reconf_bad (v : variant) (p : proj) (n : nat) : bool :=
  (n + 2 <=? window_pt v p) || (n =? window_pt v p + 1).
