(* Proofs about the crash model State/Crash.v (property C10). *)
From Coq Require Import List Bool Arith Lia.
From BFG Require Import State.Crash.
Import ListNotations.

Definition newf (t : nat) := mkF (Full New) t.
Definition with_imm (s : fs) (l : list fstate) : fs :=
  mkFs (f_env s) (f_deps s) (f_cache s) (f_build s) (f_stamp s) (f_compdb s) l (f_tmp s).
Definition stamp0 (p : proj) := if 0 <? n_imm p then oldf else absent.

(* ---------------------------------------------------------------- basics *)
Lemma apply_ops_app : forall t l1 l2 s, apply_ops t (l1 ++ l2) s = apply_ops t l2 (apply_ops t l1 s).
Proof. intros. unfold apply_ops. apply fold_left_app. Qed.

Lemma upd_app : forall pre x l v, upd (length pre) v (pre ++ x :: l) = pre ++ v :: l.
Proof. induction pre; intros; simpl; [reflexivity | now rewrite IHpre]. Qed.

Lemma upd_length : forall l k v, length (upd k v l) = length l.
Proof. induction l; intros; destruct k; simpl; auto. Qed.

Lemma upd_Forall : forall (P : fstate -> Prop) l k v, P v -> Forall P l -> Forall P (upd k v l).
Proof.
  induction l; intros k v Hv H; destruct k; simpl; auto; inversion H; subst; constructor; auto.
Qed.

Lemma with_imm_id : forall s, with_imm s (f_imm s) = s.
Proof. destruct s; reflexivity. Qed.

Lemma Forall_firstn : forall (A : Type) (P : A -> Prop) l n, Forall P l -> Forall P (firstn n l).
Proof.
  induction l; intros n H; destruct n; simpl; auto. inversion H; subst. constructor; auto.
Qed.

(* ---------------------------------------------------------------- the immediate files *)
Lemma imm_from_full : forall t n k s pre l,
  f_imm s = pre ++ l -> length pre = k -> length l = n ->
  apply_ops t (imm_from k n) s = with_imm s (pre ++ repeat (newf t) n).
Proof.
  induction n; intros k s pre l Hs Hk Hl.
  - destruct l; [|discriminate]. simpl. rewrite app_nil_r in *. rewrite <- Hs. now rewrite with_imm_id.
  - destruct l as [|x l']; [discriminate|]. simpl in Hl. injection Hl as Hl.
    cbn [imm_from apply_ops fold_left apply_op].
    change (fold_left (apply_op t) (imm_from (S k) n) ?a) with (apply_ops t (imm_from (S k) n) a).
    erewrite (IHn (S k) _ (pre ++ [newf t]) l').
    + unfold with_imm, set. simpl. rewrite <- app_assoc. reflexivity.
    + unfold set. simpl. rewrite Hs, <- Hk, upd_app, upd_app, <- app_assoc. reflexivity.
    + rewrite app_length. simpl. lia.
    + exact Hl.
Qed.

Lemma utimes_from_full : forall t n k s pre l,
  f_imm s = pre ++ l -> length pre = k -> length l = n ->
  apply_ops t (utimes_from k n) s = with_imm s (pre ++ map (touch t) l).
Proof.
  induction n; intros k s pre l Hs Hk Hl.
  - destruct l; [|discriminate]. simpl. rewrite app_nil_r in *. rewrite <- Hs. now rewrite with_imm_id.
  - destruct l as [|x l']; [discriminate|]. simpl in Hl. injection Hl as Hl.
    cbn [utimes_from apply_ops fold_left apply_op].
    change (fold_left (apply_op t) (utimes_from (S k) n) ?a) with (apply_ops t (utimes_from (S k) n) a).
    erewrite (IHn (S k) _ (pre ++ [touch t x]) l').
    + unfold with_imm, set. simpl. rewrite <- app_assoc. reflexivity.
    + unfold set, get. simpl. rewrite Hs, <- Hk, nth_middle, upd_app, <- app_assoc. reflexivity.
    + rewrite app_length. simpl. lia.
    + exact Hl.
Qed.

(* the state after an uninterrupted run, from any state *)
Lemma run_result : forall v p t s, length (f_imm s) = n_imm p ->
  apply_ops t (run_ops v p) s =
  mkFs (newf t) (if uses_find p then newf t else f_deps s) (if uses_find p then newf t else absent) (newf t)
       (f_stamp s) (if has_compdb p then newf t else f_compdb s) (repeat (newf t) (n_imm p))
       (if uses_find p && adeps v then absent else f_tmp s).
Proof.
  intros [c a d] p t s Hl. unfold run_ops, pre_ops. cbn [cal].
  destruct c; repeat rewrite apply_ops_app;
  (rewrite (imm_from_full t (n_imm p) 0 _ [] (f_imm s)); [| reflexivity | reflexivity | exact Hl]);
  unfold deps_ops, cache_ops, compdb_ops; cbn [adeps]; destruct (uses_find p), (has_compdb p), a; reflexivity.
Qed.

Lemma skip_result : forall p t s, length (f_imm s) = n_imm p ->
  apply_ops t (skip_ops p) s =
  mkFs (newf t) (f_deps s) (f_cache s) (touch t (f_build s)) (f_stamp s) (f_compdb s) (map (touch t) (f_imm s)) (f_tmp s).
Proof.
  intros p t s Hl. unfold skip_ops. rewrite apply_ops_app.
  change (Utime FBuild :: utimes_from 0 (n_imm p)) with ([Utime FBuild] ++ utimes_from 0 (n_imm p)).
  rewrite apply_ops_app.
  rewrite (utimes_from_full t (n_imm p) 0 _ [] (f_imm s)); [| reflexivity | reflexivity | exact Hl].
  reflexivity.
Qed.

(* ---------------------------------------------------------------- facts about lists of file states *)
Lemma min_out_ge : forall m s, m <= mt (f_build s) -> Forall (fun x => m <= mt x) (f_imm s) -> m <= min_out s.
Proof.
  intros m s Hb H. unfold min_out. induction H; simpl; [exact Hb|]. apply Nat.min_glb; auto.
Qed.

Lemma min_out_le : forall s, min_out s <= mt (f_build s).
Proof.
  intros s. unfold min_out. induction (f_imm s); simpl; [lia|]. etransitivity; [apply Nat.le_min_r | exact IHl].
Qed.

Lemma Forall_repeat : forall (P : fstate -> Prop) x n, P x -> Forall P (repeat x n).
Proof. induction n; simpl; auto. Qed.

Lemma forallb_new_repeat : forall t n, forallb is_new (repeat (newf t) n) = true.
Proof. induction n; simpl; auto. Qed.

Lemma is_new_touch : forall t x, is_new (touch t x) = is_new x.
Proof. intros t [c m]. destruct c as [| |g]; reflexivity. Qed.

Lemma forallb_new_touch : forall t l, forallb is_new (map (touch t) l) = forallb is_new l.
Proof. induction l; simpl; auto. now rewrite is_new_touch, IHl. Qed.

Lemma touch_mt_new : forall t x, is_new x = true -> mt (touch t x) = t.
Proof. intros t [c m]. destruct c as [| |[|]]; simpl; try discriminate. reflexivity. Qed.

Lemma Forall_touch_mt : forall t l, forallb is_new l = true -> Forall (fun x => t <= mt x) (map (touch t) l).
Proof.
  induction l; simpl; intros H; constructor; apply andb_prop in H; destruct H as [Ha Hl].
  - rewrite touch_mt_new; auto.
  - auto.
Qed.

Lemma is_new_full : forall x, is_new x = true -> is_full x = true.
Proof. intros [c m]. destruct c as [| |[|]]; simpl; auto. Qed.

(* ---------------------------------------------------------------- a raise before the build file is opened *)
Definition nobuild (o : fsop) : Prop :=
  match o with
  | Open FBuild | WriteClose FBuild | Remove FBuild | Utime FBuild | Rename FBuild _ | Rename _ FBuild => False
  | _ => True
  end.

Lemma nobuild_frame : forall t l s, Forall nobuild l -> f_build (apply_ops t l s) = f_build s.
Proof.
  induction l; intros s H; simpl; [reflexivity|]. inversion H; subst.
  change (fold_left (apply_op t) l ?a) with (apply_ops t l a). rewrite IHl by assumption.
  destruct a as [f|f|f|f|d|f g]; try reflexivity; destruct f; try destruct g; simpl in *; try reflexivity; contradiction.
Qed.

Lemma nobuild_imm : forall n k, Forall nobuild (imm_from k n).
Proof. induction n; intros; simpl; repeat constructor; auto. Qed.

Lemma nobuild_pre : forall v p, Forall nobuild (pre_ops v p).
Proof.
  intros v p. unfold pre_ops, deps_ops, cache_ops.
  apply Forall_app; split; [repeat constructor|].
  apply Forall_app; split; [apply nobuild_imm|].
  apply Forall_app; split; destruct (uses_find p); try destruct (adeps v); repeat constructor.
Qed.

Lemma until_insert : forall l j, until_raise (insert_raise j l) = firstn j l.
Proof.
  induction l; intros j; destruct j; simpl; auto. now rewrite IHl.
Qed.

Lemma raise_untouched : forall v p j t s, j <= length (pre_ops v p) ->
  f_build (apply_ops t (until_raise (run_events v p j)) s) = f_build s.
Proof.
  intros v p j t s Hj. unfold run_events, run_ops. cbn [cal].
  change (pre_ops (mkV false (adeps v) (dnc v)) p) with (pre_ops v p).
  rewrite until_insert, firstn_app.
  replace (j - length (pre_ops v p)) with 0 by lia. rewrite firstn_O, app_nil_r.
  apply nobuild_frame, Forall_firstn, nobuild_pre.
Qed.

(* the mutations performed before the exception never name the build file *)
Lemma raise_ops_nobuild : forall v p j, j <= length (pre_ops v p) -> Forall nobuild (until_raise (run_events v p j)).
Proof.
  intros v p j Hj. unfold run_events, run_ops. cbn [cal].
  change (pre_ops (mkV false (adeps v) (dnc v)) p) with (pre_ops v p).
  rewrite until_insert, firstn_app.
  replace (j - length (pre_ops v p)) with 0 by lia. rewrite firstn_O, app_nil_r.
  apply Forall_firstn, nobuild_pre.
Qed.

(* ---------------------------------------------------------------- empty / missing build file *)
Lemma truncated_detected : forall v p e t s, is_full (f_build s) = false ->
  make_attempt v p e t s = (false, s, false).
Proof. intros. unfold make_attempt. now rewrite H. Qed.
