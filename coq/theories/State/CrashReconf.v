(* C10: the history `options` - an existing build directory is configured again with other options, that run is cut
   after n mutations, and the next regeneration attempt is bfg9000 regenerate --lazy run by hand (Crash.reconf_followup).
   For projects with a cached find_files call and the code with F1 (dnc) the crash points after which that attempt exits 0
   on stale files are exactly Crash.reconf_bad (for all n >= 2 and all numbers of immediate files); the marker F1 relies
   on - .bfg_find_cache rewritten, hence strictly newer than the old build file - is necessary: without F1 (or when the
   cache file is not rewritten) the point right after the cache save is unsafe. *)
From Coq Require Import List Bool Arith Lia.
From BFG Require Import State.Crash State.CrashProofs State.CrashSafe.
Import ListNotations.

Definition immop (o : fsop) : Prop :=
  match o with Open (FImm _) | WriteClose (FImm _) | Mkdir _ => True | _ => False end.

Lemma immop_keep_env : forall t l s, Forall immop l -> f_env (apply_ops t l s) = f_env s.
Proof.
  induction l; intros s H; [reflexivity|]. inversion H; subst. simpl.
  change (fold_left (apply_op t) l ?a) with (apply_ops t l a). rewrite IHl by assumption.
  destruct a as [f|f|f|f|d|f g]; try contradiction; try reflexivity; destruct f; try contradiction; reflexivity.
Qed.

Lemma immop_imm : forall n k, Forall immop (imm_from k n).
Proof. induction n; intros; simpl; repeat constructor; auto. Qed.

Lemma env_after_prefix : forall p n, 2 <= n ->
  f_env (apply_ops 4 (firstn n (L1 p)) (fs_old p)) = newf 4.
Proof.
  intros p n Hn. unfold L1. rewrite firstn_app.
  destruct n as [|[|n]]; try lia. cbn [env_ops firstn length Nat.sub]. rewrite firstn_nil.
  rewrite apply_ops_app, immop_keep_env; [reflexivity|]. apply Forall_firstn, immop_imm.
Qed.

(* regenerate --lazy by hand when nothing in the tree was edited: only the state of the cache file decides *)
Lemma regen_lazy_eval : forall v p s, is_full (f_env s) = true -> 1 <= mt (f_build s) ->
  Forall (fun x => 1 <= mt x) (f_imm s) ->
  regenerate true v p e_none 5 s =
  match cont (f_cache s) with
  | Absent => (true, apply_ops 5 (run_ops v p) s)
  | Empty => (false, apply_ops 5 env_ops s)
  | Full _ => if dnc v && cache_newer s then (true, apply_ops 5 (run_ops v p) s)
              else (true, apply_ops 5 (skip_ops p) s)
  end.
Proof.
  intros v p s He Hb Hi. unfold regenerate, lazy_decision. rewrite He.
  assert (Hm : (min_out s <? input_mt e_none) = false).
  { apply Nat.ltb_ge. change (input_mt e_none) with 1. apply min_out_ge; assumption. }
  rewrite Hm. destruct (cont (f_cache s)) as [| |g]; try reflexivity.
  destruct (dnc v && cache_newer s); [reflexivity|]. destruct g; reflexivity.
Qed.

Lemma descr_skip : forall p s, length (f_imm s) = n_imm p ->
  describes_new (apply_ops 5 (skip_ops p) s) = is_new (f_build s) && forallb is_new (f_imm s).
Proof.
  intros p s Hl. rewrite skip_result by exact Hl. unfold describes_new. cbn [f_build f_imm].
  rewrite is_new_touch, forallb_new_touch. reflexivity.
Qed.

Lemma descr_run : forall v p s, length (f_imm s) = n_imm p -> describes_new (apply_ops 5 (run_ops v p) s) = true.
Proof.
  intros v p s Hl. rewrite run_result by exact Hl. unfold describes_new. cbn [f_build f_imm].
  rewrite forallb_new_repeat. reflexivity.
Qed.

Lemma Forall_mt_repeat4 : forall k, Forall (fun x => 1 <= mt x) (repeat (newf 4) k).
Proof. intros. apply Forall_repeat. simpl. lia. Qed.

Lemma reconf_bad_tail : forall v p j,
  reconf_bad v p (length (L1 p) + j) = ((j + 2 <=? (if adeps v then 5 else 4)) || (j =? (if adeps v then 5 else 4) + 1)).
Proof.
  intros v p j. rewrite L1_length. unfold reconf_bad, window_pt.
  set (w := if adeps v then 5 else 4).
  destruct (Nat.leb_spec (2 + 3 * n_imm p + j + 2) (2 + 3 * n_imm p + w)), (Nat.leb_spec (j + 2) w),
           (Nat.eqb_spec (2 + 3 * n_imm p + j) (2 + 3 * n_imm p + w + 1)), (Nat.eqb_spec j (w + 1));
    simpl; try reflexivity; lia.
Qed.

(* the state in which the follow-up runs, for a cut in the tail of the run (after the immediate files) *)
Lemma crash_tail : forall v p j,
  crash 4 (length (L1 p) + j) (run_ops v p) (fs_old p) =
  apply_ops 4 (firstn j (R v p))
    (mkFs (newf 4) (if uses_find p then oldf else absent) (if uses_find p then oldf else absent) oldf (stamp0 p)
          (if has_compdb p then oldf else absent) (repeat (newf 4) (n_imm p)) absent).
Proof. intros. unfold crash. rewrite run_split, firstn_app_2, apply_ops_app, S1_state. reflexivity. Qed.

Ltac eval_followup :=
  rewrite regen_lazy_eval;
  [ cbn [cont f_cache dnc cache_newer f_build mt oldf newf absent Nat.ltb Nat.leb andb fst snd negb orb];
    first [ rewrite descr_skip by (cbn [f_imm]; apply repeat_length)
          | rewrite descr_run by (cbn [f_imm]; apply repeat_length)
          | idtac ];
    cbn [f_build f_imm is_new cont oldf newf]; try rewrite forallb_new_repeat; reflexivity
  | reflexivity
  | cbn [f_build mt oldf newf]; lia
  | cbn [f_imm]; apply Forall_mt_repeat4 ].

Theorem reconf_classified : forall v p n, uses_find p = true -> cal v = false -> dnc v = true -> 2 <= n ->
  reconf_ok v p n = negb (reconf_bad v p n).
Proof.
  intros [vc va vd] p n Hf Hc Hd Hn. cbn [cal dnc] in Hc, Hd. subst vc vd.
  destruct (le_lt_dec n (length (L1 p))) as [Hle|Hgt].
  - (* the new options are saved, the cut comes while the immediate files are written *)
    assert (Hb : reconf_bad (mkV false va true) p n = true).
    { unfold reconf_bad, window_pt. rewrite L1_length in Hle. apply orb_true_intro. left. apply Nat.leb_le.
      cbn [adeps]. destruct va; lia. }
    rewrite Hb. unfold reconf_ok, reconf_followup, crash. rewrite run_split, firstn_app.
    replace (n - length (L1 p)) with 0 by lia. rewrite firstn_O, app_nil_r.
    destruct (benign_inv 4 (firstn n (L1 p)) (fs_old p)) as (A & B & C & D & E & F);
      [lia | apply Forall_firstn, benign_L1 |].
    pose proof (env_after_prefix p n Hn) as Henv.
    set (s := apply_ops 4 (firstn n (L1 p)) (fs_old p)) in *.
    assert (Hl : length (f_imm s) = n_imm p). { rewrite E. simpl. apply repeat_length. }
    assert (Hi : Forall (fun x => 1 <= mt x) (f_imm s)).
    { eapply Forall_impl; [|apply F; simpl; apply Forall_repeat; simpl; lia]. simpl. intros; lia. }
    rewrite regen_lazy_eval; [| rewrite Henv; reflexivity | rewrite C; simpl; lia | exact Hi].
    rewrite B. simpl f_cache. rewrite Hf. cbn [cont oldf]. unfold cache_newer. rewrite B, C. simpl f_cache. rewrite Hf.
    change (f_build (fs_old p)) with oldf.
    cbn [mt oldf dnc Nat.ltb Nat.leb andb fst snd negb]. rewrite descr_skip by exact Hl. rewrite C. reflexivity.
  - replace n with (length (L1 p) + (n - length (L1 p))) by lia.
    remember (n - length (L1 p)) as j eqn:Ej. assert (Hj : 1 <= j) by lia. clear Ej Hgt Hn.
    rewrite reconf_bad_tail. unfold reconf_ok, reconf_followup. rewrite crash_tail.
    unfold R, deps_ops, cache_ops, compdb_ops, build_ops. cbn [cal adeps]. rewrite Hf.
    destruct va; destruct (has_compdb p) eqn:Hcd; do 10 (try destruct j as [|j]); try lia;
      cbn [firstn app apply_ops fold_left apply_op set get f_env f_deps f_cache f_build f_stamp f_compdb f_imm f_tmp
           Nat.add Nat.leb Nat.eqb orb negb];
      eval_followup.
Qed.

(* the marker is necessary: the code without F1 - or any change that leaves .bfg_find_cache not newer than the old build
   file after the cache hook ran, e.g. a save that skips rewriting an unchanged cache - trusts the cache right after the
   cache hook of the cut run, and the follow-up exits 0 on the old build file *)
Theorem reconf_marker_needed : forall p va, uses_find p = true ->
  reconf_ok (mkV false va false) p (window_pt (mkV false va false) p) = false.
Proof.
  intros p va Hf.
  replace (window_pt (mkV false va false) p) with (length (L1 p) + (if va then 5 else 4))
    by (rewrite L1_length; unfold window_pt; cbn [adeps]; destruct va; lia).
  unfold reconf_ok, reconf_followup. rewrite crash_tail.
  unfold R, deps_ops, cache_ops, compdb_ops, build_ops. cbn [cal adeps]. rewrite Hf.
  destruct va; destruct (has_compdb p);
    cbn [firstn app apply_ops fold_left apply_op set get f_env f_deps f_cache f_build f_stamp f_compdb f_imm f_tmp];
    eval_followup.
Qed.

(* with F1 the same point is safe (instance of reconf_classified) *)
Corollary reconf_marker : forall p va, uses_find p = true ->
  reconf_ok (mkV false va true) p (window_pt (mkV false va true) p) = true.
Proof.
  intros p va Hf. rewrite reconf_classified; [| exact Hf | reflexivity | reflexivity | unfold window_pt; lia].
  unfold reconf_bad.
  destruct (Nat.leb_spec (window_pt (mkV false va true) p + 2) (window_pt (mkV false va true) p)); [lia|].
  destruct (Nat.eqb_spec (window_pt (mkV false va true) p) (window_pt (mkV false va true) p + 1)); [lia|]. reflexivity.
Qed.

(* without a cached find_files call there is no cache file to trust: every by-hand lazy regeneration runs the scripts *)
Theorem reconf_nofind_safe : forall v p n, uses_find p = false -> cal v = false -> 2 <= n -> reconf_ok v p n = true.
Proof.
  intros [vc va vd] p n Hf Hc Hn. cbn [cal] in Hc. subst vc.
  destruct (le_lt_dec n (length (L1 p))) as [Hle|Hgt].
  - unfold reconf_ok, reconf_followup, crash. rewrite run_split, firstn_app.
    replace (n - length (L1 p)) with 0 by lia. rewrite firstn_O, app_nil_r.
    destruct (benign_inv 4 (firstn n (L1 p)) (fs_old p)) as (A & B & C & D & E & F);
      [lia | apply Forall_firstn, benign_L1 |].
    pose proof (env_after_prefix p n Hn) as Henv.
    set (s := apply_ops 4 (firstn n (L1 p)) (fs_old p)) in *.
    assert (Hl : length (f_imm s) = n_imm p). { rewrite E. simpl. apply repeat_length. }
    assert (Hi : Forall (fun x => 1 <= mt x) (f_imm s)).
    { eapply Forall_impl; [|apply F; simpl; apply Forall_repeat; simpl; lia]. simpl. intros; lia. }
    rewrite regen_lazy_eval; [| rewrite Henv; reflexivity | rewrite C; simpl; lia | exact Hi].
    rewrite B. simpl f_cache. rewrite Hf. cbn [cont absent fst snd negb orb]. apply descr_run. exact Hl.
  - replace n with (length (L1 p) + (n - length (L1 p))) by lia.
    remember (n - length (L1 p)) as j eqn:Ej. assert (Hj : 1 <= j) by lia. clear Ej Hgt Hn.
    unfold reconf_ok, reconf_followup. rewrite crash_tail.
    unfold R, deps_ops, cache_ops, compdb_ops, build_ops. cbn [cal adeps]. rewrite Hf.
    destruct (has_compdb p) eqn:Hcd; do 7 (try destruct j as [|j]); try lia;
      cbn [firstn app apply_ops fold_left apply_op set get f_env f_deps f_cache f_build f_stamp f_compdb f_imm f_tmp absent];
      eval_followup.
Qed.
