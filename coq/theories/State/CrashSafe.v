(* C10: the follow-up analysis.  Good is a set of states closed under make_attempt in which every attempt
   either fails visibly or leaves files describing the edited project; every crash state outside the
   bad points is in Good (for all n and all numbers of immediate files). *)
From Coq Require Import List Bool Arith Lia.
From BFG Require Import State.Crash State.CrashProofs.
Import ListNotations.

Definition PreB (p : proj) (s : fs) : Prop :=
  f_build s = oldf /\ f_stamp s = stamp0 p /\ Forall (fun x => 2 <= mt x) (f_imm s) /\ length (f_imm s) = n_imm p.

(* .bfg_environ truncated: every regeneration fails to load the environment *)
Definition K1 (p : proj) (s : fs) : Prop :=
  PreB p s /\ is_full (f_env s) = false /\ (uses_find p = true -> is_full (f_deps s) = true).
(* .bfg_find_cache truncated: find_check_cache fails *)
Definition K2 (p : proj) (s : fs) : Prop :=
  PreB p s /\ is_full (f_env s) = true /\ uses_find p = true /\ is_full (f_deps s) = true /\ cont (f_cache s) = Empty.
(* build file empty *)
Definition K3 (s : fs) : Prop := is_full (f_build s) = false.
(* old build file, and the next lazy regeneration decides to run *)
Definition K4 (p : proj) (e : edit) (s : fs) : Prop :=
  PreB p s /\ is_full (f_env s) = true /\ (uses_find p = true -> is_absent (f_deps s) = false) /\
  ((e_script e = true /\ cont (f_cache s) <> Empty) \/
   (e_script e = false /\ is_full (f_deps s) = true /\ cont (f_cache s) = Full Old)).
(* build file and outputs already new *)
Definition K5 (p : proj) (s : fs) : Prop :=
  describes_new s = true /\ is_full (f_env s) = true /\ length (f_imm s) = n_imm p /\ 4 <= mt (f_build s) /\
  Forall (fun x => 4 <= mt x) (f_imm s) /\ (uses_find p = true -> is_absent (f_deps s) = false).

Definition Good (p : proj) (e : edit) (s : fs) : Prop := K1 p s \/ K2 p s \/ K3 s \/ K4 p e s \/ K5 p s.

Lemma full_not_absent : forall x, is_full x = true -> is_absent x = false.
Proof. intros [c m]; destruct c; simpl; auto; discriminate. Qed.

Lemma preb_tgt : forall p s, PreB p s -> (if 0 <? n_imm p then f_stamp s else f_build s) = oldf.
Proof.
  intros p s (Hb & Hs & _). unfold stamp0 in Hs. destruct (0 <? n_imm p); congruence.
Qed.

Lemma preb_min : forall p s, PreB p s -> min_out s = 2.
Proof.
  intros p s (Hb & _ & Hf & _). apply Nat.le_antisymm.
  - etransitivity; [apply min_out_le|]. rewrite Hb. simpl. lia.
  - apply min_out_ge; [rewrite Hb; simpl; lia | exact Hf].
Qed.

Lemma trig_true : forall p e s, valid p e = true ->
  (uses_find p = true -> e_script e = false -> is_full (f_deps s) = true) ->
  (2 <? input_mt e) || (uses_find p && is_full (f_deps s) && (2 <? dir_mt e)) = true.
Proof.
  intros p e s Hv Hd. unfold valid in Hv. unfold input_mt, dir_mt.
  destruct (e_script e); simpl in *; [reflexivity|].
  apply andb_prop in Hv. destruct Hv as [Hf He]. rewrite Hf, He, (Hd Hf eq_refl). reflexivity.
Qed.

Lemma input_mt_le : forall e, input_mt e <= 3.
Proof. intros e. unfold input_mt. destruct (e_script e); lia. Qed.

(* the state after a full run (plus the stamp touched by make) is in K5 *)
Lemma run_in_K5 : forall cal p t s, 4 <= t -> length (f_imm s) = n_imm p ->
  let s1 := apply_ops t (run_ops cal p) s in
  let s2 := if 0 <? n_imm p then set s1 FStamp (mkF (Full New) t) else s1 in
  is_full (f_build s2) = true /\ describes_new s2 = true /\ K5 p s2.
Proof.
  intros cal p t s Ht Hl s1 s2. subst s1 s2. rewrite run_result by exact Hl.
  assert (Hd : forall st,
    K5 p (mkFs (newf t) (if uses_find p then newf t else f_deps s) (if uses_find p then newf t else absent)
               (newf t) st (if has_compdb p then newf t else f_compdb s) (repeat (newf t) (n_imm p)))).
  { intros st. unfold K5, describes_new. simpl. rewrite forallb_new_repeat, repeat_length.
    repeat split; auto. - apply Forall_repeat. simpl. exact Ht. - intros Hf. rewrite Hf. reflexivity. }
  destruct (0 <? n_imm p); simpl; (split; [reflexivity|]); (split; [|apply Hd]);
    unfold describes_new; simpl; now rewrite forallb_new_repeat.
Qed.

Lemma skip_in_K5 : forall p t s, 4 <= t -> K5 p s ->
  let s1 := apply_ops t (skip_ops p) s in
  let s2 := if 0 <? n_imm p then set s1 FStamp (mkF (Full New) t) else s1 in
  is_full (f_build s2) = true /\ describes_new s2 = true /\ K5 p s2.
Proof.
  intros p t s Ht (Hd & He & Hl & Hb & Hf & Hdeps) s1 s2. subst s1 s2. rewrite skip_result by exact Hl.
  unfold describes_new in Hd. apply andb_prop in Hd. destruct Hd as [Hnb Hni].
  assert (Hk : forall st, K5 p (mkFs (newf t) (f_deps s) (f_cache s) (touch t (f_build s)) st (f_compdb s)
                                      (map (touch t) (f_imm s)))).
  { intros st. unfold K5, describes_new. simpl. rewrite is_new_touch, Hnb, forallb_new_touch, Hni, map_length.
    repeat split; auto. - rewrite touch_mt_new by exact Hnb. exact Ht.
    - eapply Forall_impl; [|apply Forall_touch_mt; exact Hni]. simpl. intros; lia. }
  assert (Hfull : is_full (touch t (f_build s)) = true).
  { apply is_new_full. now rewrite is_new_touch. }
  destruct (0 <? n_imm p); simpl; (split; [exact Hfull|]); (split; [|apply Hk]);
    unfold describes_new; simpl; now rewrite is_new_touch, Hnb, forallb_new_touch, Hni.
Qed.

Lemma envfail_keeps_K5 : forall p t s, K5 p s -> K5 p (apply_ops t env_ops s).
Proof. intros p t s (Hd & He & Hl & Hb & Hf & Hdeps). unfold K5, describes_new in *. simpl. repeat split; auto. Qed.

Lemma K5_build_full : forall p s, K5 p s -> is_full (f_build s) = true.
Proof.
  intros p s (Hd & _). unfold describes_new in Hd. apply andb_prop in Hd. apply is_new_full. tauto.
Qed.

Theorem attempt_good : forall cal p e t s, valid p e = true -> 4 <= t -> Good p e s ->
  ok_result (make_attempt cal p e t s) = true /\ Good p e (snd (fst (make_attempt cal p e t s))).
Proof.
  intros cal p e t s Hv Ht [H | [H | [H | [H | H]]]].
  - (* K1 *)
    destruct H as (Hp & Henv & Hdeps). pose proof Hp as (Hb & _).
    assert (Hbf : is_full (f_build s) = true) by (rewrite Hb; reflexivity).
    unfold make_attempt. rewrite Hbf.
    assert (Ha : uses_find p && is_absent (f_deps s) = false).
    { destruct (uses_find p); [|reflexivity]. simpl. apply full_not_absent. auto. }
    rewrite Ha, (preb_tgt p s Hp). change (is_absent oldf) with false. change (mt oldf) with 2. rewrite orb_false_l.
    rewrite (trig_true p e s Hv) by (intros; auto).
    unfold regenerate. rewrite Henv. simpl. split; [reflexivity|]. left. repeat split; auto; apply Hp.
  - (* K2 *)
    destruct H as (Hp & Henv & Hf & Hdeps & Hc). pose proof Hp as (Hb & Hst & Him & Hl).
    assert (Hbf : is_full (f_build s) = true) by (rewrite Hb; reflexivity).
    unfold make_attempt. rewrite Hbf.
    assert (Ha : uses_find p && is_absent (f_deps s) = false).
    { rewrite (full_not_absent _ Hdeps). apply andb_false_r. }
    rewrite Ha, (preb_tgt p s Hp). change (is_absent oldf) with false. change (mt oldf) with 2. rewrite orb_false_l.
    rewrite (trig_true p e s Hv) by (intros; auto).
    unfold regenerate, lazy_decision. rewrite Henv, Hc. simpl. split; [reflexivity|].
    right; left. unfold K2, PreB. simpl. repeat split; auto.
  - (* K3 *)
    rewrite truncated_detected by exact H. simpl. split; [reflexivity|]. right; right; left. exact H.
  - (* K4 *)
    destruct H as (Hp & Henv & Hdeps & Hdec). pose proof Hp as (Hb & Hst & Him & Hl).
    assert (Hbf : is_full (f_build s) = true) by (rewrite Hb; reflexivity).
    unfold make_attempt. rewrite Hbf.
    assert (Ha : uses_find p && is_absent (f_deps s) = false).
    { destruct (uses_find p); [|reflexivity]. simpl. auto. }
    rewrite Ha, (preb_tgt p s Hp). change (is_absent oldf) with false. change (mt oldf) with 2. rewrite orb_false_l.
    rewrite (trig_true p e s Hv) by (intros Hf He; destruct Hdec as [[Hs _] | (_ & Hd & _)]; [congruence | exact Hd]).
    assert (Hrun : regenerate true cal p e t s = (true, apply_ops t (run_ops cal p) s)).
    { unfold regenerate, lazy_decision. rewrite Henv, (preb_min p s Hp).
      destruct Hdec as [[Hs Hc] | (Hs & Hd & Hc)].
      - unfold input_mt. rewrite Hs. simpl. destruct (cont (f_cache s)); [reflexivity | congruence | reflexivity].
      - unfold input_mt. rewrite Hs, Hc. simpl.
        unfold valid in Hv. rewrite Hs in Hv. simpl in Hv. apply andb_prop in Hv. destruct Hv as [_ Hd']. now rewrite Hd'. }
    rewrite Hrun. cbn [fst snd].
    destruct (run_in_K5 cal p t s Ht Hl) as (Hfull & Hnew & Hk5).
    rewrite Hfull. cbn [fst snd]. unfold ok_result. cbn [fst snd]. rewrite Hnew. simpl.
    split; [reflexivity|]. right; right; right; right. exact Hk5.
  - (* K5 *)
    pose proof H as (Hd & Henv & Hl & Hb & Hf & Hdeps).
    unfold make_attempt. rewrite (K5_build_full p s H).
    assert (Ha : uses_find p && is_absent (f_deps s) = false).
    { destruct (uses_find p); [|reflexivity]. simpl. auto. }
    rewrite Ha.
    match goal with |- context [if ?c then _ else (true, s, false)] => destruct c end.
    2: { unfold ok_result. cbn [fst snd]. rewrite Hd. simpl. split; [reflexivity|].
         right; right; right; right. exact H. }
    assert (Hcase : regenerate true cal p e t s = (true, apply_ops t (run_ops cal p) s) \/
                    regenerate true cal p e t s = (true, apply_ops t (skip_ops p) s) \/
                    regenerate true cal p e t s = (false, apply_ops t env_ops s)).
    { unfold regenerate, lazy_decision. rewrite Henv.
      destruct (cont (f_cache s)) as [| |g]; auto.
      assert (Hm : min_out s <? input_mt e = false).
      { apply Nat.ltb_ge. pose proof (input_mt_le e). pose proof (min_out_ge 4 s Hb Hf). lia. }
      rewrite Hm. destruct g; [destruct (e_dir e)|]; auto. }
    destruct Hcase as [Hr | [Hr | Hr]]; rewrite Hr; cbn [fst snd].
    + destruct (run_in_K5 cal p t s Ht Hl) as (Hfull & Hnew & Hk5).
      rewrite Hfull. unfold ok_result. cbn [fst snd]. rewrite Hnew. simpl.
      split; [reflexivity|]. right; right; right; right. exact Hk5.
    + destruct (skip_in_K5 p t s Ht H) as (Hfull & Hnew & Hk5).
      rewrite Hfull. unfold ok_result. cbn [fst snd]. rewrite Hnew. simpl.
      split; [reflexivity|]. right; right; right; right. exact Hk5.
    + unfold ok_result. cbn [fst snd]. simpl. split; [reflexivity|].
      right; right; right; right. apply envfail_keeps_K5. exact H.
Qed.

Theorem attempts_good : forall cal p e k t s, valid p e = true -> 4 <= t -> Good p e s ->
  forallb ok_result (attempts cal p e t k s) = true.
Proof.
  induction k; intros t s Hv Ht Hg; simpl; [reflexivity|].
  destruct (attempt_good cal p e t s Hv Ht Hg) as [Hok Hg'].
  rewrite Hok. simpl. apply IHk; auto.
Qed.

(* ---------------------------------------------------------------- every crash state outside the bad points is Good *)
Definition benign (o : fsop) : Prop :=
  match o with Open FEnv | WriteClose FEnv | Open (FImm _) | WriteClose (FImm _) | Mkdir _ => True | _ => False end.

Lemma benign_inv : forall t l s, 2 <= t -> Forall benign l ->
  f_deps (apply_ops t l s) = f_deps s /\ f_cache (apply_ops t l s) = f_cache s /\
  f_build (apply_ops t l s) = f_build s /\ f_stamp (apply_ops t l s) = f_stamp s /\
  length (f_imm (apply_ops t l s)) = length (f_imm s) /\
  (Forall (fun x => 2 <= mt x) (f_imm s) -> Forall (fun x => 2 <= mt x) (f_imm (apply_ops t l s))).
Proof.
  induction l; intros s Ht H; simpl; [repeat split; auto|]. inversion H; subst.
  change (fold_left (apply_op t) l ?a) with (apply_ops t l a).
  destruct (IHl (apply_op t s a) Ht H3) as (A & B & C & D & E & F).
  rewrite A, B, C, D, E.
  destruct a as [f|f|f|f|d]; try contradiction; try (repeat split; auto; fail);
    destruct f; try contradiction; simpl; repeat split; auto; try apply upd_length;
    intros G; apply F; simpl; apply upd_Forall; auto.
Qed.

Lemma benign_imm : forall n k, Forall benign (imm_from k n).
Proof. induction n; intros; simpl; repeat constructor; auto. Qed.

Definition L1 (p : proj) := env_ops ++ imm_from 0 (n_imm p).
Definition R (cal : bool) (p : proj) :=
  if cal then deps_ops p ++ build_ops ++ cache_ops p ++ compdb_ops p
  else deps_ops p ++ cache_ops p ++ build_ops ++ compdb_ops p.

Lemma run_split : forall cal p, run_ops cal p = L1 p ++ R cal p.
Proof. intros. unfold run_ops, pre_ops, L1, R. destruct cal; repeat rewrite <- app_assoc; reflexivity. Qed.

Lemma imm_from_length : forall n k, length (imm_from k n) = 3 * n.
Proof. induction n; intros; simpl; [reflexivity|]. rewrite IHn. lia. Qed.

Lemma L1_length : forall p, length (L1 p) = 2 + 3 * n_imm p.
Proof. intros. unfold L1. rewrite app_length, imm_from_length. reflexivity. Qed.

Lemma benign_L1 : forall p, Forall benign (L1 p).
Proof. intros. unfold L1. apply Forall_app; split; [repeat constructor | apply benign_imm]. Qed.

Lemma S1_state : forall p, apply_ops 4 (L1 p) (fs_old p) =
  mkFs (newf 4) (if uses_find p then oldf else absent) (if uses_find p then oldf else absent) oldf (stamp0 p)
       (if has_compdb p then oldf else absent) (repeat (newf 4) (n_imm p)).
Proof.
  intros. unfold L1. rewrite apply_ops_app.
  rewrite (imm_from_full 4 (n_imm p) 0 _ [] (repeat oldf (n_imm p))); [reflexivity | reflexivity | reflexivity |].
  apply repeat_length.
Qed.

Lemma PreB_S1 : forall p env deps cache cdb,
  PreB p (mkFs env deps cache oldf (stamp0 p) cdb (repeat (newf 4) (n_imm p))).
Proof.
  intros. unfold PreB. simpl. repeat split; auto.
  - apply Forall_repeat. simpl. lia.
  - apply repeat_length.
Qed.

Lemma K5_S1 : forall p env deps cache st cdb, is_full env = true -> (uses_find p = true -> is_absent deps = false) ->
  K5 p (mkFs env deps cache (newf 4) st cdb (repeat (newf 4) (n_imm p))).
Proof.
  intros. unfold K5, describes_new. simpl. rewrite forallb_new_repeat, repeat_length. repeat split; auto.
  apply Forall_repeat. simpl. lia.
Qed.

Theorem crash_good : forall cal p e n, valid p e = true -> bad_point cal p e n = false ->
  Good p e (crash 4 n (run_ops cal p) (fs_old p)).
Proof.
  intros cal p e n Hv Hbad. unfold crash. rewrite run_split.
  destruct (le_lt_dec n (length (L1 p))) as [Hn | Hn].
  - (* inside .bfg_environ / the immediate files *)
    rewrite firstn_app. replace (n - length (L1 p)) with 0 by lia. rewrite firstn_O, app_nil_r.
    destruct (benign_inv 4 (firstn n (L1 p)) (fs_old p)) as (A & B & C & D & E & F);
      [lia | apply Forall_firstn, benign_L1 |].
    set (s := apply_ops 4 (firstn n (L1 p)) (fs_old p)) in *.
    assert (Hp : PreB p s).
    { unfold PreB. rewrite C, D, E. simpl. repeat split; auto.
      - apply F. simpl. apply Forall_repeat. simpl. lia.
      - apply repeat_length. }
    destruct (is_full (f_env s)) eqn:Henv.
    + right; right; right; left. unfold K4. rewrite A, B. simpl.
      split; [exact Hp|]. split; [exact Henv|]. split.
      * intros Hf. rewrite Hf. reflexivity.
      * unfold valid in Hv. destruct (e_script e); [left | right].
        -- split; [reflexivity|]. destruct (uses_find p); simpl; discriminate.
        -- simpl in Hv. apply andb_prop in Hv. destruct Hv as [Hf _]. rewrite Hf. auto.
    + left. unfold K1. rewrite A. simpl. split; [exact Hp|]. split; [exact Henv|].
      intros Hf. rewrite Hf. reflexivity.
  - (* after the immediate files: finitely many positions in the tail *)
    replace n with (length (L1 p) + (n - length (L1 p))) by lia.
    rewrite firstn_app_2, apply_ops_app, S1_state.
    assert (Hj : uses_find p = true -> e_script e = false ->
                 n - length (L1 p) <> 1 /\ (cal = false -> n - length (L1 p) <> 4)).
    { intros Hf He. unfold bad_point, deps_pt, window_pt in Hbad. rewrite Hf, He in Hbad. simpl in Hbad.
      apply orb_false_elim in Hbad. destruct Hbad as [H1 H2]. apply Nat.eqb_neq in H1.
      rewrite L1_length. split; [lia|]. intros Hc. rewrite Hc in H2. simpl in H2. apply Nat.eqb_neq in H2. lia. }
    assert (Hvf : uses_find p = false -> e_script e = true).
    { intros Hf. unfold valid in Hv. rewrite Hf in Hv. simpl in Hv. now rewrite orb_false_r in Hv. }
    remember (n - length (L1 p)) as j eqn:Ej. clear Ej Hn Hbad.
    unfold R, deps_ops, cache_ops, compdb_ops, build_ops.
    destruct (e_script e) eqn:Hes; destruct (uses_find p) eqn:Hf; destruct (has_compdb p) eqn:Hc; destruct cal;
      try (specialize (Hvf eq_refl); discriminate);
      do 9 (try destruct j as [|j]); simpl;
      try (exfalso; destruct (Hj eq_refl eq_refl) as [J1 J2]; first [apply J1; reflexivity | apply J2; reflexivity]);
      first
        [ solve [right; right; left; reflexivity]
        | solve [right; right; right; right; apply K5_S1; [reflexivity | intros; first [reflexivity | congruence]]]
        | solve [right; left; unfold K2; split; [apply PreB_S1|]; repeat split; auto]
        | solve [right; right; right; left; unfold K4; split; [apply PreB_S1|]; split; [reflexivity|];
                 split; [intros; first [reflexivity | congruence]|]; left; split; [assumption || reflexivity | simpl; discriminate]]
        | solve [right; right; right; left; unfold K4; split; [apply PreB_S1|]; split; [reflexivity|];
                 split; [intros; first [reflexivity | congruence]|]; right; repeat split; assumption || reflexivity]
        | idtac ].
Qed.

Theorem safe_partial : forall cal p e n k, valid p e = true -> bad_point cal p e n = false ->
  safe_at cal p e n k = true.
Proof.
  intros. unfold safe_at. apply attempts_good; [assumption | lia | apply crash_good; assumption].
Qed.

(* with the cache saved after the build file, only the truncated depfile remains *)
Theorem safe_cache_last : forall p e n k, valid p e = true -> n <> deps_pt p -> safe_at true p e n k = true.
Proof.
  intros p e n k Hv Hn. apply safe_partial; [exact Hv|]. unfold bad_point. simpl.
  apply Nat.eqb_neq in Hn. rewrite Hn. simpl. apply andb_false_r.
Qed.
