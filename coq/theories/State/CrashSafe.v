(* C10: the follow-up analysis.  Good is a set of states closed under make_attempt in which every attempt
   either fails visibly or leaves files describing the edited project; every crash state outside the
   bad points of the modelled variant is in Good (for all n and all numbers of immediate files).
   The boolean c selects whether compile_commands.json is tracked as well (c = true: ok_result_all). *)
From Coq Require Import List Bool Arith Lia.
From BFG Require Import State.Crash State.CrashProofs.
Import ListNotations.

Definition PreB (p : proj) (s : fs) : Prop :=
  f_build s = oldf /\ f_stamp s = stamp0 p /\ Forall (fun x => 2 <= mt x) (f_imm s) /\ length (f_imm s) = n_imm p.

(* .bfg_environ truncated: every regeneration fails to load the environment *)
Definition K1 (p : proj) (s : fs) : Prop :=
  PreB p s /\ is_full (f_env s) = false /\ (uses_find p = true -> is_full (f_deps s) = true).
(* .bfg_find_cache truncated: find_check_cache fails *)
Definition K2 (p : proj) (s : fs) : Prop :=
  PreB p s /\ is_full (f_env s) = true /\ uses_find p = true /\ is_full (f_deps s) = true /\ cont (f_cache s) = Empty.
(* build file empty *)
Definition K3 (s : fs) : Prop := is_full (f_build s) = false.
(* old build file, and the next lazy regeneration decides to run *)
Definition K4 (v : variant) (p : proj) (e : edit) (s : fs) : Prop :=
  PreB p s /\ is_full (f_env s) = true /\ (uses_find p = true -> is_absent (f_deps s) = false) /\
  ((e_script e = true /\ cont (f_cache s) <> Empty) \/
   (e_script e = false /\ is_full (f_deps s) = true /\ cont (f_cache s) = Full Old) \/
   (* F1: a complete cache strictly newer than the old build file is not trusted *)
   (dnc v = true /\ is_full (f_deps s) = true /\ is_full (f_cache s) = true /\ 2 < mt (f_cache s))).
(* build file and outputs already new; c = true: compile_commands.json as well *)
Definition K5 (c : bool) (p : proj) (s : fs) : Prop :=
  describes_new s = true /\ is_full (f_env s) = true /\ length (f_imm s) = n_imm p /\ 4 <= mt (f_build s) /\
  Forall (fun x => 4 <= mt x) (f_imm s) /\ (uses_find p = true -> is_absent (f_deps s) = false) /\
  (c = true -> compdb_new p s = true).

Definition Good (c : bool) (v : variant) (p : proj) (e : edit) (s : fs) : Prop :=
  K1 p s \/ K2 p s \/ K3 s \/ K4 v p e s \/ K5 c p s.

(* ok_result (c = false) and ok_result_all (c = true) in one definition *)
Definition okc (c : bool) (p : proj) (r : bool * fs * bool) : bool :=
  negb (fst (fst r)) || (describes_new (snd (fst r)) && (negb c || compdb_new p (snd (fst r)))).

Lemma okc_false : forall p r, okc false p r = ok_result r.
Proof. intros. unfold okc, ok_result. simpl. now rewrite andb_true_r. Qed.

Lemma okc_true : forall p r, okc true p r = ok_result_all p r.
Proof. intros. reflexivity. Qed.

Lemma okc_new : forall c p ok s b, describes_new s = true -> (c = true -> compdb_new p s = true) ->
  okc c p (ok, s, b) = true.
Proof.
  intros c p ok s b Hd Hc. unfold okc. cbn [fst snd]. rewrite Hd. destruct c; simpl.
  - rewrite Hc by reflexivity. apply orb_true_r.
  - apply orb_true_r.
Qed.

Lemma full_not_absent : forall x, is_full x = true -> is_absent x = false.
Proof. intros [c m]; destruct c; simpl; auto; discriminate. Qed.

Lemma preb_tgt : forall p s, PreB p s -> (if 0 <? n_imm p then f_stamp s else f_build s) = oldf.
Proof.
  intros p s (Hb & Hs & _). unfold stamp0 in Hs. destruct (0 <? n_imm p); congruence.
Qed.

Lemma preb_min : forall p s, PreB p s -> min_out s = 2.
Proof.
  intros p s (Hb & _ & Hf & _). apply Nat.le_antisymm.
  - etransitivity; [apply min_out_le|]. rewrite Hb. simpl. lia.
  - apply min_out_ge; [rewrite Hb; simpl; lia | exact Hf].
Qed.

Lemma trig_true : forall p e s, valid p e = true ->
  (uses_find p = true -> e_script e = false -> is_full (f_deps s) = true) ->
  (2 <? input_mt e) || (uses_find p && is_full (f_deps s) && (2 <? dir_mt e)) = true.
Proof.
  intros p e s Hv Hd. unfold valid in Hv. unfold input_mt, dir_mt.
  destruct (e_script e); simpl in *; [reflexivity|].
  apply andb_prop in Hv. destruct Hv as [Hf He]. rewrite Hf, He, (Hd Hf eq_refl). reflexivity.
Qed.

Lemma input_mt_le : forall e, input_mt e <= 3.
Proof. intros e. unfold input_mt. destruct (e_script e); lia. Qed.

(* the state after a full run (plus the stamp touched by make) is in K5, compile_commands.json included *)
Lemma run_in_K5 : forall c v p t s, 4 <= t -> length (f_imm s) = n_imm p ->
  let s1 := apply_ops t (run_ops v p) s in
  let s2 := if 0 <? n_imm p then set s1 FStamp (mkF (Full New) t) else s1 in
  is_full (f_build s2) = true /\ describes_new s2 = true /\ K5 c p s2.
Proof.
  intros c v p t s Ht Hl s1 s2. subst s1 s2. rewrite run_result by exact Hl.
  assert (Hd : forall st,
    K5 c p (mkFs (newf t) (if uses_find p then newf t else f_deps s) (if uses_find p then newf t else absent)
                 (newf t) st (if has_compdb p then newf t else f_compdb s) (repeat (newf t) (n_imm p))
                 (if uses_find p && adeps v then absent else f_tmp s))).
  { intros st. unfold K5, describes_new, compdb_new. simpl. rewrite forallb_new_repeat, repeat_length.
    repeat split; auto.
    - apply Forall_repeat. simpl. exact Ht.
    - intros Hf. rewrite Hf. reflexivity.
    - intros _. destruct (has_compdb p); reflexivity. }
  destruct (0 <? n_imm p); simpl; (split; [reflexivity|]); (split; [|apply Hd]);
    unfold describes_new; simpl; now rewrite forallb_new_repeat.
Qed.

Lemma skip_in_K5 : forall c p t s, 4 <= t -> K5 c p s ->
  let s1 := apply_ops t (skip_ops p) s in
  let s2 := if 0 <? n_imm p then set s1 FStamp (mkF (Full New) t) else s1 in
  is_full (f_build s2) = true /\ describes_new s2 = true /\ K5 c p s2.
Proof.
  intros c p t s Ht (Hd & He & Hl & Hb & Hf & Hdeps & Hcd) s1 s2. subst s1 s2. rewrite skip_result by exact Hl.
  unfold describes_new in Hd. apply andb_prop in Hd. destruct Hd as [Hnb Hni].
  assert (Hk : forall st, K5 c p (mkFs (newf t) (f_deps s) (f_cache s) (touch t (f_build s)) st (f_compdb s)
                                        (map (touch t) (f_imm s)) (f_tmp s))).
  { intros st. unfold K5, describes_new. simpl. rewrite is_new_touch, Hnb, forallb_new_touch, Hni, map_length.
    repeat split; auto. - rewrite touch_mt_new by exact Hnb. exact Ht.
    - eapply Forall_impl; [|apply Forall_touch_mt; exact Hni]. simpl. intros; lia. }
  assert (Hfull : is_full (touch t (f_build s)) = true).
  { apply is_new_full. now rewrite is_new_touch. }
  destruct (0 <? n_imm p); simpl; (split; [exact Hfull|]); (split; [|apply Hk]);
    unfold describes_new; simpl; now rewrite is_new_touch, Hnb, forallb_new_touch, Hni.
Qed.

Lemma envfail_keeps_K5 : forall c p t s, K5 c p s -> K5 c p (apply_ops t env_ops s).
Proof.
  intros c p t s (Hd & He & Hl & Hb & Hf & Hdeps & Hcd). unfold K5, describes_new, compdb_new in *. simpl.
  repeat split; auto.
Qed.

Lemma K5_build_full : forall c p s, K5 c p s -> is_full (f_build s) = true.
Proof.
  intros c p s (Hd & _). unfold describes_new in Hd. apply andb_prop in Hd. apply is_new_full. tauto.
Qed.

Lemma K5_okc : forall c p ok s b, K5 c p s -> okc c p (ok, s, b) = true.
Proof. intros c p ok s b (Hd & _ & _ & _ & _ & _ & Hcd). apply okc_new; assumption. Qed.

Theorem attempt_good : forall c v p e t s, valid p e = true -> 4 <= t -> Good c v p e s ->
  okc c p (make_attempt v p e t s) = true /\ Good c v p e (snd (fst (make_attempt v p e t s))).
Proof.
  intros c v p e t s Hv Ht [H | [H | [H | [H | H]]]].
  - (* K1 *)
    destruct H as (Hp & Henv & Hdeps). pose proof Hp as (Hb & _).
    assert (Hbf : is_full (f_build s) = true) by (rewrite Hb; reflexivity).
    unfold make_attempt. rewrite Hbf.
    assert (Ha : uses_find p && is_absent (f_deps s) = false).
    { destruct (uses_find p); [|reflexivity]. simpl. apply full_not_absent. auto. }
    rewrite Ha, (preb_tgt p s Hp). change (is_absent oldf) with false. change (mt oldf) with 2. rewrite orb_false_l.
    rewrite (trig_true p e s Hv) by (intros; auto).
    unfold regenerate. rewrite Henv. simpl. split; [reflexivity|]. left. repeat split; auto; apply Hp.
  - (* K2 *)
    destruct H as (Hp & Henv & Hf & Hdeps & Hc). pose proof Hp as (Hb & Hst & Him & Hl).
    assert (Hbf : is_full (f_build s) = true) by (rewrite Hb; reflexivity).
    unfold make_attempt. rewrite Hbf.
    assert (Ha : uses_find p && is_absent (f_deps s) = false).
    { rewrite (full_not_absent _ Hdeps). apply andb_false_r. }
    rewrite Ha, (preb_tgt p s Hp). change (is_absent oldf) with false. change (mt oldf) with 2. rewrite orb_false_l.
    rewrite (trig_true p e s Hv) by (intros; auto).
    unfold regenerate, lazy_decision. rewrite Henv, Hc. simpl. split; [reflexivity|].
    right; left. unfold K2, PreB. simpl. repeat split; auto.
  - (* K3 *)
    rewrite truncated_detected by exact H. simpl. split; [reflexivity|]. right; right; left. exact H.
  - (* K4 *)
    destruct H as (Hp & Henv & Hdeps & Hdec). pose proof Hp as (Hb & Hst & Him & Hl).
    assert (Hbf : is_full (f_build s) = true) by (rewrite Hb; reflexivity).
    unfold make_attempt. rewrite Hbf.
    assert (Ha : uses_find p && is_absent (f_deps s) = false).
    { destruct (uses_find p); [|reflexivity]. simpl. auto. }
    rewrite Ha, (preb_tgt p s Hp). change (is_absent oldf) with false. change (mt oldf) with 2. rewrite orb_false_l.
    rewrite (trig_true p e s Hv)
      by (intros Hf He; destruct Hdec as [[Hs _] | [(_ & Hd & _) | (_ & Hd & _)]]; [congruence | exact Hd | exact Hd]).
    assert (Hrun : regenerate true v p e t s = (true, apply_ops t (run_ops v p) s)).
    { unfold regenerate, lazy_decision, cache_newer. rewrite Henv, (preb_min p s Hp), Hb. change (mt oldf) with 2.
      destruct Hdec as [[Hs Hc] | [(Hs & Hd & Hc) | (Hn & Hd & Hc & Hm)]].
      - unfold input_mt. rewrite Hs. simpl.
        destruct (cont (f_cache s)); [reflexivity | congruence |].
        destruct (dnc v && (2 <? mt (f_cache s))); reflexivity.
      - unfold input_mt. rewrite Hs, Hc. simpl.
        unfold valid in Hv. rewrite Hs in Hv. simpl in Hv. apply andb_prop in Hv. destruct Hv as [_ Hd']. rewrite Hd'.
        destruct (dnc v && (2 <? mt (f_cache s))); reflexivity.
      - unfold is_full in Hc. destruct (cont (f_cache s)); try discriminate.
        apply Nat.ltb_lt in Hm. rewrite Hn, Hm. reflexivity. }
    rewrite Hrun. cbn [fst snd].
    destruct (run_in_K5 c v p t s Ht Hl) as (Hfull & Hnew & Hk5).
    rewrite Hfull. cbn [fst snd]. split; [apply K5_okc; exact Hk5|]. right; right; right; right. exact Hk5.
  - (* K5 *)
    pose proof H as (Hd & Henv & Hl & Hb & Hf & Hdeps & Hcd).
    unfold make_attempt. rewrite (K5_build_full c p s H).
    assert (Ha : uses_find p && is_absent (f_deps s) = false).
    { destruct (uses_find p); [|reflexivity]. simpl. auto. }
    rewrite Ha.
    match goal with |- context [if ?b then _ else (true, s, false)] => destruct b end.
    2: { cbn [fst snd]. split; [apply K5_okc; exact H|]. right; right; right; right. exact H. }
    assert (Hcase : regenerate true v p e t s = (true, apply_ops t (run_ops v p) s) \/
                    regenerate true v p e t s = (true, apply_ops t (skip_ops p) s) \/
                    regenerate true v p e t s = (false, apply_ops t env_ops s)).
    { unfold regenerate, lazy_decision. rewrite Henv.
      destruct (cont (f_cache s)) as [| |g]; auto.
      destruct (dnc v && cache_newer s); auto.
      assert (Hm : min_out s <? input_mt e = false).
      { apply Nat.ltb_ge. pose proof (input_mt_le e). pose proof (min_out_ge 4 s Hb Hf). lia. }
      rewrite Hm. destruct g; [destruct (e_dir e)|]; auto. }
    destruct Hcase as [Hr | [Hr | Hr]]; rewrite Hr; cbn [fst snd].
    + destruct (run_in_K5 c v p t s Ht Hl) as (Hfull & Hnew & Hk5).
      rewrite Hfull. split; [apply K5_okc; exact Hk5|]. right; right; right; right. exact Hk5.
    + destruct (skip_in_K5 c p t s Ht H) as (Hfull & Hnew & Hk5).
      rewrite Hfull. split; [apply K5_okc; exact Hk5|]. right; right; right; right. exact Hk5.
    + split; [reflexivity|]. right; right; right; right. apply envfail_keeps_K5. exact H.
Qed.

Theorem attempts_good : forall c v p e k t s, valid p e = true -> 4 <= t -> Good c v p e s ->
  forallb (okc c p) (attempts v p e t k s) = true.
Proof.
  induction k; intros t s Hv Ht Hg; simpl; [reflexivity|].
  destruct (attempt_good c v p e t s Hv Ht Hg) as [Hok Hg'].
  rewrite Hok. simpl. apply IHk; auto.
Qed.

(* ---------------------------------------------------------------- every crash state outside the bad points is Good *)
Definition benign (o : fsop) : Prop :=
  match o with Open FEnv | WriteClose FEnv | Open (FImm _) | WriteClose (FImm _) | Mkdir _ => True | _ => False end.

Lemma benign_inv : forall t l s, 2 <= t -> Forall benign l ->
  f_deps (apply_ops t l s) = f_deps s /\ f_cache (apply_ops t l s) = f_cache s /\
  f_build (apply_ops t l s) = f_build s /\ f_stamp (apply_ops t l s) = f_stamp s /\
  length (f_imm (apply_ops t l s)) = length (f_imm s) /\
  (Forall (fun x => 2 <= mt x) (f_imm s) -> Forall (fun x => 2 <= mt x) (f_imm (apply_ops t l s))).
Proof.
  induction l; intros s Ht H; simpl; [repeat split; auto|]. inversion H; subst.
  change (fold_left (apply_op t) l ?a) with (apply_ops t l a).
  destruct (IHl (apply_op t s a) Ht H3) as (A & B & C & D & E & F).
  rewrite A, B, C, D, E.
  destruct a as [f|f|f|f|d|f g]; try contradiction; try (repeat split; auto; fail);
    destruct f; try contradiction; simpl; repeat split; auto; try apply upd_length;
    intros G; apply F; simpl; apply upd_Forall; auto.
Qed.

Lemma benign_imm : forall n k, Forall benign (imm_from k n).
Proof. induction n; intros; simpl; repeat constructor; auto. Qed.

Definition L1 (p : proj) := env_ops ++ imm_from 0 (n_imm p).
Definition R (v : variant) (p : proj) :=
  if cal v then deps_ops v p ++ build_ops ++ cache_ops p ++ compdb_ops p
  else deps_ops v p ++ cache_ops p ++ build_ops ++ compdb_ops p.

Lemma run_split : forall v p, run_ops v p = L1 p ++ R v p.
Proof. intros. unfold run_ops, pre_ops, L1, R. destruct (cal v); repeat rewrite <- app_assoc; reflexivity. Qed.

Lemma imm_from_length : forall n k, length (imm_from k n) = 3 * n.
Proof. induction n; intros; simpl; [reflexivity|]. rewrite IHn. lia. Qed.

Lemma L1_length : forall p, length (L1 p) = 2 + 3 * n_imm p.
Proof. intros. unfold L1. rewrite app_length, imm_from_length. reflexivity. Qed.

Lemma benign_L1 : forall p, Forall benign (L1 p).
Proof. intros. unfold L1. apply Forall_app; split; [repeat constructor | apply benign_imm]. Qed.

Lemma S1_state : forall p, apply_ops 4 (L1 p) (fs_old p) =
  mkFs (newf 4) (if uses_find p then oldf else absent) (if uses_find p then oldf else absent) oldf (stamp0 p)
       (if has_compdb p then oldf else absent) (repeat (newf 4) (n_imm p)) absent.
Proof.
  intros. unfold L1. rewrite apply_ops_app.
  rewrite (imm_from_full 4 (n_imm p) 0 _ [] (repeat oldf (n_imm p))); [reflexivity | reflexivity | reflexivity |].
  apply repeat_length.
Qed.

Lemma PreB_S1 : forall p env deps cache cdb tmp,
  PreB p (mkFs env deps cache oldf (stamp0 p) cdb (repeat (newf 4) (n_imm p)) tmp).
Proof.
  intros. unfold PreB. simpl. repeat split; auto.
  - apply Forall_repeat. simpl. lia.
  - apply repeat_length.
Qed.

Lemma K5_S1 : forall c p env deps cache st cdb tmp, is_full env = true -> (uses_find p = true -> is_absent deps = false) ->
  (c = true -> negb (has_compdb p) || is_new cdb = true) ->
  K5 c p (mkFs env deps cache (newf 4) st cdb (repeat (newf 4) (n_imm p)) tmp).
Proof.
  intros. unfold K5, describes_new, compdb_new. simpl. rewrite forallb_new_repeat, repeat_length. repeat split; auto.
  apply Forall_repeat. simpl. lia.
Qed.

(* the crash state has a complete new build file next to an incomplete compile_commands.json *)
Definition compdb_stale_at (v : variant) (p : proj) (n : nat) : bool :=
  let s := crash 4 n (run_ops v p) (fs_old p) in
  is_new (f_build s) && negb (compdb_new p s).

Theorem crash_good : forall c v p e n, valid p e = true -> bad_point v p e n = false ->
  (c = true -> compdb_stale_at v p n = false) ->
  Good c v p e (crash 4 n (run_ops v p) (fs_old p)).
Proof.
  intros c v p e n Hv Hbad Hcs. unfold compdb_stale_at in Hcs. unfold crash in *. rewrite run_split in *.
  destruct (le_lt_dec n (length (L1 p))) as [Hn | Hn].
  - (* inside .bfg_environ / the immediate files *)
    clear Hcs.
    rewrite firstn_app. replace (n - length (L1 p)) with 0 by lia. rewrite firstn_O, app_nil_r.
    destruct (benign_inv 4 (firstn n (L1 p)) (fs_old p)) as (A & B & C & D & E & F);
      [lia | apply Forall_firstn, benign_L1 |].
    set (s := apply_ops 4 (firstn n (L1 p)) (fs_old p)) in *.
    assert (Hp : PreB p s).
    { unfold PreB. rewrite C, D, E. simpl. repeat split; auto.
      - apply F. simpl. apply Forall_repeat. simpl. lia.
      - apply repeat_length. }
    destruct (is_full (f_env s)) eqn:Henv.
    + right; right; right; left. unfold K4. rewrite A, B. simpl.
      split; [exact Hp|]. split; [exact Henv|]. split.
      * intros Hf. rewrite Hf. reflexivity.
      * unfold valid in Hv. destruct (e_script e); [left | right; left].
        -- split; [reflexivity|]. destruct (uses_find p); simpl; discriminate.
        -- simpl in Hv. apply andb_prop in Hv. destruct Hv as [Hf _]. rewrite Hf. auto.
    + left. unfold K1. rewrite A. simpl. split; [exact Hp|]. split; [exact Henv|].
      intros Hf. rewrite Hf. reflexivity.
  - (* after the immediate files: finitely many positions in the tail *)
    replace n with (length (L1 p) + (n - length (L1 p))) in Hcs |- * by lia.
    rewrite firstn_app_2, apply_ops_app, S1_state in Hcs |- *.
    assert (Hj : uses_find p = true -> e_script e = false ->
                 (adeps v = false -> n - length (L1 p) <> 1) /\
                 (cal v = false -> dnc v = false -> n - length (L1 p) <> (if adeps v then 5 else 4))).
    { intros Hf He. unfold bad_point, deps_pt, window_pt in Hbad. rewrite Hf, He in Hbad. simpl in Hbad.
      apply orb_false_elim in Hbad. destruct Hbad as [H1 H2]. rewrite L1_length. split.
      - intros Ha. rewrite Ha in H1. simpl in H1. apply Nat.eqb_neq in H1. lia.
      - intros Hc Hd. rewrite Hc, Hd in H2. simpl in H2. apply Nat.eqb_neq in H2. destruct (adeps v); lia. }
    assert (Hvf : uses_find p = false -> e_script e = true).
    { intros Hf. unfold valid in Hv. rewrite Hf in Hv. simpl in Hv. now rewrite orb_false_r in Hv. }
    remember (n - length (L1 p)) as j eqn:Ej. clear Ej Hn Hbad.
    destruct v as [vc va vd]. unfold R, deps_ops, cache_ops, compdb_ops, build_ops in *. cbn [cal adeps dnc] in *.
    destruct (e_script e) eqn:Hes; destruct (uses_find p) eqn:Hf; destruct (has_compdb p) eqn:Hc;
      destruct vc; destruct va; destruct vd;
      try (specialize (Hvf eq_refl); discriminate);
      do 10 (try destruct j as [|j]); simpl in Hcs |- *;
      try (exfalso; destruct (Hj eq_refl eq_refl) as [J1 J2];
           first [apply J1; reflexivity | apply J2; reflexivity]);
      first
        [ solve [right; right; left; reflexivity]
        | solve [right; right; right; right; apply K5_S1;
                 [reflexivity | intros; first [reflexivity | congruence]
                 | intros Hct; rewrite Hc;
                   first [reflexivity | specialize (Hcs Hct); unfold compdb_new in Hcs; rewrite Hc in Hcs; discriminate]]]
        | solve [right; left; unfold K2; split; [apply PreB_S1|]; repeat split; auto]
        | solve [right; right; right; left; unfold K4; split; [apply PreB_S1|]; split; [reflexivity|];
                 split; [intros; first [reflexivity | congruence]|]; left; split; [assumption || reflexivity | simpl; discriminate]]
        | solve [right; right; right; left; unfold K4; split; [apply PreB_S1|]; split; [reflexivity|];
                 split; [intros; first [reflexivity | congruence]|]; right; left; repeat split; assumption || reflexivity]
        | solve [right; right; right; left; unfold K4; split; [apply PreB_S1|]; split; [reflexivity|];
                 split; [intros; first [reflexivity | congruence]|]; right; right; repeat split; simpl; auto]
        | idtac ].
Qed.

Lemma forallb_same : forall (A : Type) (f g : A -> bool) l, (forall x, f x = g x) -> forallb f l = forallb g l.
Proof. induction l; intros H; simpl; [reflexivity|]. now rewrite H, IHl. Qed.

Theorem safe_partial : forall v p e n k, valid p e = true -> bad_point v p e n = false ->
  safe_at v p e n k = true.
Proof.
  intros. unfold safe_at.
  rewrite (forallb_same _ ok_result (okc false p)) by (intros; now rewrite okc_false).
  apply attempts_good; [assumption | lia | apply crash_good; [assumption | assumption | discriminate]].
Qed.

(* compile_commands.json included: additionally the crash must not fall between the completion of the build file
   and the completion of compile_commands.json *)
Theorem safe_all_partial : forall v p e n k, valid p e = true -> bad_point v p e n = false ->
  compdb_stale_at v p n = false -> safe_all_at v p e n k = true.
Proof.
  intros. unfold safe_all_at.
  change (ok_result_all p) with (okc true p).
  apply attempts_good; [assumption | lia | apply crash_good; auto].
Qed.

(* with the cache saved after the build file, only the truncated depfile remains *)
Theorem safe_cache_last : forall p e n k, valid p e = true -> n <> deps_pt p -> safe_at v_cal p e n k = true.
Proof.
  intros p e n k Hv Hn. apply safe_partial; [exact Hv|]. unfold bad_point. simpl.
  apply Nat.eqb_neq in Hn. rewrite Hn. simpl. apply andb_false_r.
Qed.

(* the repaired code (F1 + F2): no bad point is left *)
Lemma bad_point_repaired : forall p e n, bad_point v_repaired p e n = false.
Proof. intros. unfold bad_point. simpl. apply andb_false_r. Qed.

Theorem safe_repaired : forall p e n k, valid p e = true -> safe_at v_repaired p e n k = true.
Proof. intros. apply safe_partial; [assumption | apply bad_point_repaired]. Qed.

Theorem safe_all_repaired : forall p e n k, valid p e = true -> compdb_stale_at v_repaired p n = false ->
  safe_all_at v_repaired p e n k = true.
Proof. intros. apply safe_all_partial; [assumption | apply bad_point_repaired | assumption]. Qed.

(* each repair alone closes exactly its own point *)
Theorem safe_F1_only : forall p e n k, valid p e = true -> n <> deps_pt p -> safe_at (mkV false false true) p e n k = true.
Proof.
  intros p e n k Hv Hn. apply safe_partial; [exact Hv|]. unfold bad_point. simpl.
  apply Nat.eqb_neq in Hn. rewrite Hn. simpl. apply andb_false_r.
Qed.

Theorem safe_F2_only : forall p e n k, valid p e = true -> n <> window_pt (mkV false true false) p ->
  safe_at (mkV false true false) p e n k = true.
Proof.
  intros p e n k Hv Hn. apply safe_partial; [exact Hv|]. unfold bad_point. simpl.
  apply Nat.eqb_neq in Hn. rewrite Hn. apply andb_false_r.
Qed.

(* the guard of safe_all_partial as an index interval: the crash points from the completion of the build file up to
   (excluding) the completion of compile_commands.json *)
Theorem compdb_stale_window : forall v p n, compdb_stale_at v p n = compdb_window v p n.
Proof.
  intros v p n. unfold compdb_stale_at, compdb_window, compdb_lo, compdb_hi, crash. rewrite run_split.
  rewrite app_length, L1_length.
  destruct (le_lt_dec n (length (L1 p))) as [Hn | Hn].
  - rewrite firstn_app. replace (n - length (L1 p)) with 0 by lia. rewrite firstn_O, app_nil_r.
    destruct (benign_inv 4 (firstn n (L1 p)) (fs_old p)) as (_ & _ & C & _);
      [lia | apply Forall_firstn, benign_L1 |].
    rewrite C. simpl. rewrite L1_length in Hn.
    destruct v as [vc va vd]. unfold R, deps_ops, cache_ops, compdb_ops, build_ops. cbn [cal adeps dnc].
    destruct (has_compdb p); [|reflexivity]. simpl.
    symmetry. apply andb_false_intro1. apply Nat.leb_gt.
    destruct vc, va, (uses_find p); simpl; lia.
  - assert (Es : forall j, apply_ops 4 (firstn (length (L1 p) + j) (L1 p ++ R v p)) (fs_old p) =
                           apply_ops 4 (firstn j (R v p)) (apply_ops 4 (L1 p) (fs_old p)))
      by (intros; rewrite firstn_app_2, apply_ops_app; reflexivity).
    replace n with (length (L1 p) + (n - length (L1 p))) by lia.
    rewrite Es, S1_state, L1_length.
    remember (n - (2 + 3 * n_imm p)) as j eqn:Ej. clear Ej Hn Es.
    destruct v as [vc va vd]. unfold R, deps_ops, cache_ops, compdb_ops, build_ops, compdb_new. cbn [cal adeps dnc].
    destruct (uses_find p); destruct (has_compdb p); destruct vc; destruct va;
      do 10 (try destruct j as [|j]); simpl;
      repeat match goal with
             | |- context [?a <=? ?b] => destruct (Nat.leb_spec a b)
             | |- context [?a <? ?b] => destruct (Nat.ltb_spec a b)
             end; simpl; try reflexivity; lia.
Qed.
