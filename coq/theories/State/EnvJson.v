(* Model of Environment.save / Environment.load (bfg9000/environment.py) on a JSON tree, field by field,
   including the chain of upgrades for older format versions, and of BasePath.to_json / from_json
   (bfg9000/platforms/basepath.py) on already-normalised suffixes (the path algebra itself is Path/PathAlg.v;
   only what the snapshot needs is modelled here).  Model only; proofs are in EnvJsonProofs.v. *)
From Coq Require Import String.
From BFG Require Import Base.Chars State.EnvStore.
Local Open Scope N_scope.

(* ---------------------------------------------------------------- JSON *)
Inductive json :=
| JNull
| JBool (b : bool)
| JNum (n : N)
| JStr (s : str)
| JArr (l : list json)
| JObj (l : list (str * json)).    (* json.load: keys unique, insertion ordered *)

(* Ok: value; Err: the Python code raises; Outside: the input is outside the modelled domain *)
Inductive res (A : Type) := Ok (a : A) | Err | Outside.
Arguments Ok {A} a.
Arguments Err {A}.
Arguments Outside {A}.

Definition bind {A B} (x : res A) (f : A -> res B) : res B :=
  match x with Ok a => f a | Err => Err | Outside => Outside end.
Notation "'do' x <- e ; k" := (bind e (fun x => k)) (at level 200, x pattern, e at level 100, k at level 200).

Fixpoint mapM {A B} (f : A -> res B) (l : list A) : res (list B) :=
  match l with
  | [] => Ok []
  | x :: r => do y <- f x; do ys <- mapM f r; Ok (y :: ys)
  end.

(* data[k] : KeyError when absent *)
Definition jfield (k : str) (j : json) : res json :=
  match j with
  | JObj l => match dget k l with Some v => Ok v | None => Err end
  | _ => Outside
  end.
Definition as_str (j : json) : res str := match j with JStr s => Ok s | _ => Outside end.
Definition as_bool (j : json) : res bool := match j with JBool b => Ok b | _ => Outside end.
Definition as_arr (j : json) : res (list json) := match j with JArr l => Ok l | _ => Outside end.
Definition as_obj (j : json) : res (list (str * json)) := match j with JObj l => Ok l | _ => Outside end.

(* ---------------------------------------------------------------- paths *)
Inductive iroot := IPrefix | IExecPrefix | IBindir | ILibdir | IIncludedir | IDatadir | IMandir.
Inductive root := RSrcdir | RBuilddir | RAbsolute | RInstall (i : iroot).

Definition iroot_name (i : iroot) : str :=
  match i with
  | IPrefix => STR "prefix" | IExecPrefix => STR "exec_prefix" | IBindir => STR "bindir"
  | ILibdir => STR "libdir" | IIncludedir => STR "includedir" | IDatadir => STR "datadir"
  | IMandir => STR "mandir"
  end.
Definition all_iroots := [IPrefix; IExecPrefix; IBindir; ILibdir; IIncludedir; IDatadir; IMandir].
Definition iroot_of_name (n : str) : option iroot :=
  find (fun i => str_eqb n (iroot_name i)) all_iroots.

Definition root_name (r : root) : str :=
  match r with
  | RSrcdir => STR "srcdir" | RBuilddir => STR "builddir" | RAbsolute => STR "absolute"
  | RInstall i => iroot_name i
  end.
(* Root[name], falling back to InstallRoot[name]; KeyError when neither *)
Definition root_of_name (n : str) : option root :=
  if str_eqb n (STR "srcdir") then Some RSrcdir
  else if str_eqb n (STR "builddir") then Some RBuilddir
  else if str_eqb n (STR "absolute") then Some RAbsolute
  else option_map RInstall (iroot_of_name n).

Record path := mkPath { p_suffix : str; p_root : root; p_destdir : bool; p_directory : bool }.

Definition ends_slash (t : str) : bool := N.eqb (last t 0) c_slash.
Definition is_abs (t : str) : bool := match t with c :: _ => N.eqb c c_slash | [] => false end.

Fixpoint split_slash_aux (cur : str) (t : str) : list str :=
  match t with
  | [] => [rev cur]
  | c :: r => if N.eqb c c_slash then rev cur :: split_slash_aux [] r else split_slash_aux (c :: cur) r
  end.
Definition split_slash (t : str) : list str := split_slash_aux [] t.

Definition comp_ok (c : str) : bool :=
  negb (str_eqb c []) && negb (str_eqb c (STR ".")) && negb (str_eqb c (STR "..")).

(* suffixes the constructor leaves alone: no drive, no home directory, no backslash, no doubled leading
   slash, no empty / dot / dot-dot component, no trailing slash (except the root directory itself) *)
Definition normal_body (t : str) : bool :=
  match t with
  | [] => true
  | c :: r =>
      if str_eqb t (STR "/") then true
      else negb (N.eqb c c_tilde) && negb (mem_char c_bs t)
           && negb (match r with c2 :: _ => N.eqb c2 c_colon | [] => false end)
           && negb (ends_slash t)
           && forallb comp_ok (if is_abs t then tl (split_slash t) else split_slash t)
  end.

(* the text of a path as written by to_json -> (suffix, isdir) *)
Definition strip_dir (t : str) : str * bool :=
  if str_eqb t [] then ([], true)
  else if str_eqb t (STR "./") then ([], true)
  else if str_eqb t (STR "/") then (t, true)
  else if ends_slash t then (removelast t, true)
  else (t, false).

Definition path_to_json (p : path) : json :=
  let s := p_suffix p in
  let s' := if p_directory p && negb (ends_slash s)
            then (match s with [] => STR "./" | _ => s ++ STR "/" end) else s in
  JArr [JStr s'; JStr (root_name (p_root p)); JBool (p_destdir p)].

(* BasePath(text, root, destdir) for a text whose body is normal *)
Definition path_make (text : str) (r : root) (destdir : bool) : res path :=
  if destdir && match r with RSrcdir | RBuilddir => true | _ => false end then Err
  else
    let (body, isdir) := strip_dir text in
    if str_eqb text (STR "//") then Outside     (* ntpath.splitdrive takes a doubled slash as a UNC prefix *)
    else if negb (normal_body body) then Outside
    else if is_abs body then Ok (mkPath body RAbsolute destdir isdir)
    else match r with
         | RAbsolute => Err
         | _ => Ok (mkPath body r destdir (isdir || str_eqb body []))
         end.

Definition path_from_json (j : json) : res path :=
  do l <- as_arr j;
  match l with
  | t :: rn :: dd :: _ =>
      do t <- as_str t; do rn <- as_str rn; do dd <- as_bool dd;
      match root_of_name rn with
      | None => Err
      | Some r => path_make t r dd
      end
  | _ => Err      (* IndexError *)
  end.

Definition as_directory (p : path) : path := mkPath (p_suffix p) (p_root p) (p_destdir p) true.

Definition path_ok (p : path) : bool :=
  normal_body (p_suffix p)
  && Bool.eqb (is_abs (p_suffix p)) (match p_root p with RAbsolute => true | _ => false end)
  && (if str_eqb (p_suffix p) [] || str_eqb (p_suffix p) (STR "/") then p_directory p else true)
  && negb (p_destdir p && match p_root p with RSrcdir | RBuilddir => true | _ => false end).

(* posixpath.dirname on a normal suffix *)
Definition dirname (t : str) : str :=
  let comps := split_slash t in
  let head := removelast comps in
  let joined := fold_right (fun c acc => match acc with None => Some c | Some a => Some (c ++ c_slash :: a) end) None head in
  match joined with
  | None => []
  | Some j => if is_abs t && str_eqb j [] then STR "/" else j
  end.

(* Path.parent() *)
Definition path_parent (p : path) : res path :=
  match p_suffix p with
  | [] => Err
  | _ => Ok (mkPath (dirname (p_suffix p)) (p_root p) (p_destdir p) true)
  end.

(* ---------------------------------------------------------------- variables *)
Definition dict_to_json (d : dict) : json := JObj (map (fun kv => (fst kv, JStr (snd kv))) d).
Definition dict_of_json (j : json) : res (list (str * str)) :=
  do l <- as_obj j; mapM (fun kv => do v <- as_str (snd kv); Ok (fst kv, v)) l.

Definition store_to_json (s : store) : json :=
  JObj [(STR "initial", dict_to_json (initial s)); (STR "current", dict_to_json (current s))].
Definition store_of_json (j : json) : res store :=
  do c <- jfield (STR "current") j; do c <- dict_of_json c;
  do i <- jfield (STR "initial") j; do i <- dict_of_json i;
  Ok (from_parts i c).

(* ---------------------------------------------------------------- environment *)
Record platform := mkPlatform { pl_genus : str; pl_species : str; pl_arch : str }.

Record env := mkEnv {
  e_bfgdir : path;
  e_backend : str;
  e_backend_version : str;          (* str(Version) *)
  e_host : platform;
  e_target : platform;
  e_srcdir : path;
  e_builddir : path;
  e_install_dirs : list (iroot * option path);
  e_toolchain : option path;
  e_mopack : list path;
  e_library_mode : bool * bool;
  e_compdb : bool;
  e_extra_args : option (list str);
  e_variables : store
}.

Definition platform_to_json (p : platform) : json :=
  JObj [(STR "genus", JStr (pl_genus p)); (STR "species", JStr (pl_species p)); (STR "arch", JStr (pl_arch p))].
Definition platform_of_json (j : json) : res platform :=
  do g <- jfield (STR "genus") j; do g <- as_str g;
  do s <- jfield (STR "species") j; do s <- as_str s;
  do a <- jfield (STR "arch") j; do a <- as_str a;
  Ok (mkPlatform g s a).

Definition opt_path_to_json (o : option path) : json :=
  match o with Some p => path_to_json p | None => JNull end.

Definition env_to_json (e : env) : json :=
  JObj [
    (STR "version", JNum 17);
    (STR "data", JObj [
      (STR "bfgdir", path_to_json (e_bfgdir e));
      (STR "backend", JStr (e_backend e));
      (STR "backend_version", JStr (e_backend_version e));
      (STR "host_platform", platform_to_json (e_host e));
      (STR "target_platform", platform_to_json (e_target e));
      (STR "srcdir", path_to_json (e_srcdir e));
      (STR "builddir", path_to_json (e_builddir e));
      (STR "install_dirs", JObj (map (fun kv => (iroot_name (fst kv), opt_path_to_json (snd kv))) (e_install_dirs e)));
      (STR "toolchain", JObj [(STR "path", opt_path_to_json (e_toolchain e))]);
      (STR "mopack", JArr (map path_to_json (e_mopack e)));
      (STR "library_mode", JArr [JBool (fst (e_library_mode e)); JBool (snd (e_library_mode e))]);
      (STR "compdb", JBool (e_compdb e));
      (STR "extra_args", match e_extra_args e with None => JNull | Some l => JArr (map JStr l) end);
      (STR "variables", store_to_json (e_variables e))
    ])
  ].

Definition dir_from_json (j : json) : res path := do p <- path_from_json j; Ok (as_directory p).

(* Path.from_json(v).as_directory() if v else None  (an empty list is falsy as well) *)
Definition opt_dir_from_json (j : json) : res (option path) :=
  match j with
  | JNull => Ok None
  | JArr [] => Ok None
  | _ => do p <- dir_from_json j; Ok (Some p)
  end.

Definition install_dir_of_json (kv : str * json) : res (iroot * option path) :=
  match iroot_of_name (fst kv) with
  | None => Err
  | Some i => do p <- opt_dir_from_json (snd kv); Ok (i, p)
  end.

(* the part of Environment.load after the upgrades, in the order of the code *)
Definition env_of_data (d : json) : res env :=
  do host <- jfield (STR "host_platform") d; do host <- platform_of_json host;
  do target <- jfield (STR "target_platform") d; do target <- platform_of_json target;
  do backend <- jfield (STR "backend") d; do backend <- as_str backend;
  do extra <- jfield (STR "extra_args") d;
  do extra <- match extra with
              | JNull => Ok None
              | JArr l => do l <- mapM as_str l; Ok (Some l)
              | _ => Outside
              end;
  do bfgdir <- jfield (STR "bfgdir") d; do bfgdir <- dir_from_json bfgdir;
  do srcdir <- jfield (STR "srcdir") d; do srcdir <- dir_from_json srcdir;
  do builddir <- jfield (STR "builddir") d; do builddir <- dir_from_json builddir;
  do bv <- jfield (STR "backend_version") d; do bv <- as_str bv;
  do idirs <- jfield (STR "install_dirs") d; do idirs <- as_obj idirs; do idirs <- mapM install_dir_of_json idirs;
  do tc <- jfield (STR "toolchain") d; do tcp <- jfield (STR "path") tc;
  do tcp <- match tcp with JNull => Ok None | _ => do p <- path_from_json tcp; Ok (Some p) end;
  do mo <- jfield (STR "mopack") d; do mo <- as_arr mo; do mo <- mapM path_from_json mo;
  do vars <- jfield (STR "variables") d; do vars <- store_of_json vars;
  do lm <- jfield (STR "library_mode") d; do lm <- as_arr lm;
  do lm <- match lm with
           | [a; b] => do a <- as_bool a; do b <- as_bool b; Ok (a, b)
           | _ => Err       (* LibraryMode called with the wrong number of arguments *)
           end;
  do compdb <- jfield (STR "compdb") d; do compdb <- as_bool compdb;
  Ok (mkEnv bfgdir backend bv host target srcdir builddir idirs tcp mo lm compdb extra vars).

(* ---------------------------------------------------------------- upgrades *)
Definition jset (k : str) (v : json) (d : list (str * json)) := dset k v d.

(* facts about the machine the upgrade runs on, explicit arguments of the model *)
Record ext := mkExt {
  x_backend_version : str -> option str;       (* str(list_backends()[name].version()); None: KeyError *)
  x_machine : str;                             (* platform.machine() *)
  x_datadir : json;                            (* target platform's default datadir / mandir, as JSON *)
  x_mandir : json
}.

Definition upd (k : str) (f : json -> res json) (d : list (str * json)) : res (list (str * json)) :=
  match dget k d with
  | None => Err
  | Some v => do v' <- f v; Ok (dset k v' d)
  end.

(* Path(text).to_json() : default root builddir *)
Definition path_text_to_json (j : json) : res json :=
  do t <- as_str j; do p <- path_make t RBuilddir false; Ok (path_to_json p).

Definition append_false (j : json) : res json :=
  match j with JArr l => Ok (JArr (l ++ [JBool false])) | JNull => Err | _ => Outside end.

Fixpoint updM (ks : list str) (f : json -> res json) (d : list (str * json)) : res (list (str * json)) :=
  match ks with
  | [] => Ok d
  | k :: r => do d' <- upd k f d; updM r f d'
  end.

Definition platform_genus (name : str) : str :=
  if str_eqb name (STR "android") then STR "linux"
  else if str_eqb name (STR "ios") then STR "darwin"
  else if str_eqb name (STR "macos") then STR "darwin"
  else name.

Definition when (b : bool) (f : list (str * json) -> res (list (str * json))) (d : list (str * json)) :=
  if b then f d else Ok d.

Definition up5 d := updM [STR "srcdir"; STR "builddir"] path_text_to_json d.
Definition up6 (x : ext) d :=
  do b <- jfield (STR "backend") (JObj d); do b <- as_str b;
  match x_backend_version x b with
  | None => Err
  | Some v => let d := dset (STR "backend_version") (JStr v) d in upd (STR "bfgpath") path_text_to_json d
  end.
Definition up7 d :=
  do bp <- jfield (STR "bfgpath") (JObj d); do bp <- append_false bp;
  do p <- path_from_json bp; do par <- path_parent p;
  Ok (ddel (STR "bfgpath") (dset (STR "bfgdir") (path_to_json par) d)).
Definition up8 d := Ok (dset (STR "extra_args") (JArr []) d).
Definition up9 d := Ok (dset (STR "library_mode") (JArr [JBool true; JBool false]) d).
Definition reroot_prefix (j : json) : res json :=
  match j with
  | JArr (a :: JStr r :: rest) =>
      Ok (if str_eqb r (STR "prefix") then JArr (a :: JStr (STR "exec_prefix") :: rest) else j)
  | JArr (_ :: _ :: _) => Ok j
  | JArr _ => Err
  | JNull => Err
  | _ => Outside
  end.
Definition up10 d :=
  upd (STR "install_dirs") (fun idirs =>
    do l <- as_obj idirs;
    let l := dset (STR "exec_prefix") (JArr [JStr []; JStr (STR "prefix")]) l in
    do l <- updM [STR "bindir"; STR "libdir"] reroot_prefix l; Ok (JObj l)) d.
Definition up11 d :=
  do d <- updM [STR "bfgdir"; STR "srcdir"; STR "builddir"] append_false d;
  upd (STR "install_dirs") (fun idirs =>
    do l <- as_obj idirs;
    do l <- mapM (fun kv => do v <- append_false (snd kv); Ok (fst kv, v)) l; Ok (JObj l)) d.
Definition up12 d :=
  do p <- jfield (STR "platform") (JObj d);
  Ok (dset (STR "target_platform") p (dset (STR "host_platform") p (ddel (STR "platform") d))).
Definition up13 d :=
  do v <- jfield (STR "variables") (JObj d);
  Ok (dset (STR "toolchain") (JObj [(STR "path", JNull)]) (dset (STR "initial_variables") v d)).
Definition up14 (x : ext) d :=
  updM [STR "host_platform"; STR "target_platform"] (fun j =>
    do n <- as_str j;
    Ok (JObj [(STR "genus", JStr (platform_genus n)); (STR "species", JStr n); (STR "arch", JStr (x_machine x))])) d.
Definition up15 d :=
  let d := dset (STR "mopack") (JArr []) d in
  do i <- jfield (STR "initial_variables") (JObj d);
  let d := ddel (STR "initial_variables") d in
  do c <- jfield (STR "variables") (JObj d);
  let d := ddel (STR "variables") d in
  Ok (dset (STR "variables") (JObj [(STR "initial", i); (STR "current", c)]) d).
Definition up16 d := Ok (dset (STR "compdb") (JBool true) d).
Definition up17 (x : ext) d :=
  do _ <- jfield (STR "target_platform") (JObj d);
  upd (STR "install_dirs") (fun idirs =>
    do l <- as_obj idirs;
    Ok (JObj (dset (STR "mandir") (x_mandir x) (dset (STR "datadir") (x_datadir x) l)))) d.

(* the chain, as in Environment.load: every step whose number exceeds the stored version, in order *)
Definition upgrade (x : ext) (v : N) (d : list (str * json)) : res (list (str * json)) :=
  do d <- when (v <? 5) up5 d;
  do d <- when (v <? 6) (up6 x) d;
  do d <- when (v <? 7) up7 d;
  do d <- when (v <? 8) up8 d;
  do d <- when (v <? 9) up9 d;
  do d <- when (v <? 10) up10 d;
  do d <- when (v <? 11) up11 d;
  do d <- when (v <? 12) up12 d;
  do d <- when (v <? 13) up13 d;
  do d <- when (v <? 14) (up14 x) d;
  do d <- when (v <? 15) up15 d;
  do d <- when (v <? 16) up16 d;
  when (v <? 17) (up17 x) d.

(* Environment.load on the parsed file *)
Definition env_of_json (x : ext) (j : json) : res env :=
  do v <- jfield (STR "version") j;
  do d <- jfield (STR "data") j;
  match v with
  | JNum v =>
      if 17 <? v then Err      (* EnvVersionError *)
      else do d <- as_obj d; do d <- upgrade x v d; env_of_data (JObj d)
  | _ => Outside
  end.

(* what a reload gives for an environment in memory: the same, with the lazily recomputed changes *)
Definition env_reloaded (e : env) : env :=
  mkEnv (e_bfgdir e) (e_backend e) (e_backend_version e) (e_host e) (e_target e) (e_srcdir e) (e_builddir e)
        (e_install_dirs e) (e_toolchain e) (e_mopack e) (e_library_mode e) (e_compdb e) (e_extra_args e)
        (reload (e_variables e)).
