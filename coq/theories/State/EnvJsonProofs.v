(* Round trips through the JSON form: paths, the variable store, the whole environment. *)
From Coq Require Import String.
From BFG Require Import Base.Chars State.EnvStore State.EnvStoreProofs State.EnvJson.
Local Open Scope N_scope.

Lemma root_name_inv r : root_of_name (root_name r) = Some r.
Proof. destruct r as [| | |i]; [reflexivity..|]. now destruct i. Qed.

Lemma iroot_name_inv i : iroot_of_name (iroot_name i) = Some i.
Proof. now destruct i. Qed.

Lemma ends_slash_app s : ends_slash (s ++ [c_slash]) = true.
Proof. unfold ends_slash. now rewrite last_last. Qed.

Lemma ends_slash_nil : ends_slash [] = false.
Proof. reflexivity. Qed.

(* a normal suffix with a trailing slash is the root directory *)
Lemma normal_ends_slash s : normal_body s = true -> ends_slash s = true -> s = STR "/".
Proof.
  intros Hn He. destruct s as [|c r]; [discriminate|].
  unfold normal_body in Hn. destruct (str_eqb (c :: r) (STR "/")) eqn:E; [now apply str_eqb_eq in E|].
  apply andb_true_iff in Hn. destruct Hn as [Hn _]. apply andb_true_iff in Hn. destruct Hn as [_ Hd].
  rewrite He in Hd. discriminate.
Qed.

Lemma strip_dir_file s : normal_body s = true -> s <> [] -> s <> STR "/" -> ends_slash s = false ->
  strip_dir s = (s, false).
Proof.
  intros Hn H1 H2 He. unfold strip_dir.
  destruct (str_eqb s []) eqn:E1; [apply str_eqb_eq in E1; contradiction|].
  destruct (str_eqb s (STR "./")) eqn:E2; [apply str_eqb_eq in E2; subst; discriminate|].
  destruct (str_eqb s (STR "/")) eqn:E3; [apply str_eqb_eq in E3; contradiction|].
  now rewrite He.
Qed.

Lemma strip_dir_dir s : normal_body s = true -> s <> [] -> ends_slash s = false ->
  strip_dir (s ++ STR "/") = (s, true).
Proof.
  intros Hn H1 He. unfold strip_dir.
  destruct (str_eqb (s ++ STR "/") []) eqn:E1; [apply str_eqb_eq in E1; now destruct s|].
  destruct (str_eqb (s ++ STR "/") (STR "./")) eqn:E2.
  { apply str_eqb_eq in E2. destruct s as [|a [|b t]]; try discriminate.
    - inversion E2; subst. discriminate.
    - inversion E2. now destruct t. }
  destruct (str_eqb (s ++ STR "/") (STR "/")) eqn:E3.
  { apply str_eqb_eq in E3. destruct s as [|a t]; [contradiction|]. inversion E3. now destruct t. }
  change (STR "/") with [c_slash]. rewrite ends_slash_app. now rewrite removelast_last.
Qed.

Lemma app_slash_not_dbl s : normal_body s = true -> ends_slash s = false -> str_eqb (s ++ STR "/") (STR "//") = false.
Proof.
  intros Hn He. apply str_eqb_neq. intros E.
  destruct s as [|a [|b t]]; try discriminate.
  - inversion E; subst. discriminate.
  - inversion E. now destruct t.
Qed.

Theorem path_json_rt p : path_ok p = true -> path_from_json (path_to_json p) = Ok p.
Proof.
  destruct p as [s r dd dir]. unfold path_ok. cbn [p_suffix p_root p_destdir p_directory].
  rewrite !andb_true_iff. intros [[[Hn Hab] Hd] Hdd].
  unfold path_from_json, path_to_json. cbn [p_suffix p_root p_destdir p_directory as_arr bind as_str as_bool].
  rewrite root_name_inv. unfold path_make.
  apply negb_true_iff in Hdd. rewrite Hdd.
  apply Bool.eqb_prop in Hab.
  destruct dir.
  - (* directory *)
    destruct (ends_slash s) eqn:He; cbn [andb negb].
    + pose proof (normal_ends_slash s Hn He) as ->. cbn.
      destruct r; try discriminate Hab. reflexivity.
    + destruct s as [|c t].
      * cbn. destruct r; try discriminate Hab; reflexivity.
      * rewrite strip_dir_dir by (assumption || discriminate).
        rewrite app_slash_not_dbl by assumption. rewrite Hn. cbn [negb].
        destruct (is_abs (c :: t)); [destruct r; try discriminate Hab; reflexivity|].
        destruct r; try discriminate Hab; reflexivity.
  - (* not a directory: the suffix is neither empty nor the root *)
    cbn [andb].
    destruct (str_eqb s []) eqn:E1; [discriminate|]. destruct (str_eqb s (STR "/")) eqn:E2; [discriminate|].
    apply str_eqb_neq in E1, E2. cbn [orb] in Hd.
    assert (He : ends_slash s = false).
    { destruct (ends_slash s) eqn:He; [|reflexivity]. exfalso. apply E2. now apply normal_ends_slash. }
    rewrite strip_dir_file by assumption.
    assert (E3 : str_eqb s (STR "//") = false).
    { apply str_eqb_neq. intros ->. discriminate. }
    rewrite E3, Hn. cbn [negb].
    apply str_eqb_neq in E1.
    destruct (is_abs s); [destruct r; try discriminate Hab; reflexivity|].
    destruct r; try discriminate Hab; cbn [orb]; rewrite E1; reflexivity.
Qed.

(* ---------------------------------------------------------------- variables *)
Lemma mapM_map {A B C} (f : B -> res C) (g : A -> B) (h : A -> C) (l : list A) :
  (forall x, In x l -> f (g x) = Ok (h x)) -> mapM f (map g l) = Ok (map h l).
Proof.
  induction l as [|x r IH]; intros H; cbn; [reflexivity|].
  rewrite H by now left. cbn. rewrite IH by (intros y Hy; apply H; now right). reflexivity.
Qed.

Lemma dict_json_rt (d : dict) : dict_of_json (dict_to_json d) = Ok d.
Proof.
  unfold dict_of_json, dict_to_json. cbn [as_obj bind].
  rewrite (mapM_map _ _ (fun kv => kv)); [now rewrite map_id|]. now intros [k v] _.
Qed.

Theorem store_json_rt s : wf s -> store_of_json (store_to_json s) = Ok (reload s).
Proof.
  intros [Hi Hc]. unfold store_of_json, store_to_json.
  cbn -[dict_of_json dict_to_json from_parts]. rewrite !dict_json_rt. cbn [bind].
  unfold from_parts, reload. now rewrite !dict_of_pairs_nodup.
Qed.

(* the reloaded store has the same variables and its recomputed changes still replay to them *)
Theorem store_json_meaning s : Inv s ->
  initial (reload s) = initial s /\ current (reload s) = current s /\
  forall k, dget k (apply_changes (initial s) (the_changes (reload s))) = dget k (current s).
Proof.
  intros I. repeat split. apply (inv_replay (reload s)). now apply reload_inv.
Qed.

(* ---------------------------------------------------------------- environment *)
Definition opt_path_ok (o : option path) : bool := match o with Some p => path_ok p | None => true end.
Definition dir_ok (p : path) : bool := path_ok p && p_directory p.

Definition env_ok (e : env) : Prop :=
  dir_ok (e_bfgdir e) = true /\ dir_ok (e_srcdir e) = true /\ dir_ok (e_builddir e) = true /\
  forallb (fun kv => match snd kv with Some p => dir_ok p | None => true end) (e_install_dirs e) = true /\
  opt_path_ok (e_toolchain e) = true /\ forallb path_ok (e_mopack e) = true /\ wf (e_variables e).

Lemma dir_json_rt p : dir_ok p = true -> dir_from_json (path_to_json p) = Ok p.
Proof.
  unfold dir_ok. rewrite andb_true_iff. intros [H D]. unfold dir_from_json. rewrite path_json_rt by assumption.
  cbn. destruct p as [s r dd dir]. cbn in D. now subst.
Qed.

Lemma path_to_json_arr p : exists a b c, path_to_json p = JArr [a; b; c].
Proof. unfold path_to_json. eauto. Qed.

Lemma install_dir_rt kv :
  match snd kv with Some p => dir_ok p | None => true end = true ->
  install_dir_of_json (iroot_name (fst kv), opt_path_to_json (snd kv)) = Ok kv.
Proof.
  destruct kv as [i [p|]]; cbn [fst snd]; intros H; unfold install_dir_of_json; cbn [fst snd]; rewrite iroot_name_inv.
  - cbn [opt_path_to_json]. destruct (path_to_json_arr p) as (a & b & c & E).
    unfold opt_dir_from_json. rewrite E. rewrite <- E. now rewrite dir_json_rt.
  - reflexivity.
Qed.

Theorem env_json_rt x e : env_ok e -> env_of_json x (env_to_json e) = Ok (env_reloaded e).
Proof.
  intros (Hb & Hs & Hbd & Hid & Htc & Hmo & Hv).
  unfold env_of_json, env_to_json. cbn [jfield dget]. cbn -[upgrade env_of_data N.ltb].
  change (17 <? 17) with false. cbn [as_obj bind].
  unfold upgrade. change (17 <? 5) with false. change (17 <? 6) with false. change (17 <? 7) with false.
  change (17 <? 8) with false. change (17 <? 9) with false. change (17 <? 10) with false.
  change (17 <? 11) with false. change (17 <? 12) with false. change (17 <? 13) with false.
  change (17 <? 14) with false. change (17 <? 15) with false. change (17 <? 16) with false.
  cbn [when bind].
  unfold env_of_data.
  cbn -[path_to_json path_from_json dir_from_json store_of_json store_to_json mapM map].
  rewrite !dir_json_rt by assumption. cbn [bind].
  rewrite (mapM_map _ _ (fun kv => kv)) by (intros kv Hk; apply install_dir_rt; rewrite forallb_forall in Hid; now apply Hid).
  rewrite map_id. cbn [bind].
  assert (Et : match opt_path_to_json (e_toolchain e) with
               | JNull => Ok None
               | _ => do p <- path_from_json (opt_path_to_json (e_toolchain e)); Ok (Some p)
               end = Ok (e_toolchain e)).
  { destruct (e_toolchain e) as [p|]; [|reflexivity]. cbn [opt_path_to_json opt_path_ok] in *.
    destruct (path_to_json_arr p) as (a & b & c & E). rewrite E. rewrite <- E. now rewrite path_json_rt. }
  rewrite Et. cbn [bind].
  rewrite (mapM_map _ _ (fun p => p)) by (intros p Hp; apply path_json_rt; rewrite forallb_forall in Hmo; now apply Hmo).
  rewrite map_id. cbn [bind].
  rewrite store_json_rt by assumption. cbn [bind].
  assert (Ex : match match e_extra_args e with None => JNull | Some l => JArr (map JStr l) end with
               | JNull => Ok None
               | JArr l => do l0 <- mapM as_str l; Ok (Some l0)
               | _ => Outside
               end = Ok (e_extra_args e)).
  { destruct (e_extra_args e) as [l|]; [|reflexivity].
    rewrite (mapM_map _ _ (fun s => s)) by reflexivity. now rewrite map_id. }
  rewrite Ex. cbn [bind].
  destruct e as [bfgdir backend bv [hg hs ha] [tg ts ta] srcdir builddir idirs tc mo [lm1 lm2] compdb extra vars].
  reflexivity.
Qed.
