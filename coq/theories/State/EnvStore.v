(* Model of bfg9000/environment.py class EnvVarDict: a Python dict (insertion ordered) that remembers the
   mapping it was created with (initial) and records every change made through an overridden mutator in
   _changes (None = variable deleted).  After from_json the attribute _changes does not exist and is
   computed on first access of the property changes (lazily, from initial and the current contents at
   that moment).  Model only; proofs are in EnvStoreProofs.v. *)
From BFG Require Import Base.Chars.

(* ---------------------------------------------------------------- insertion-ordered dict *)
Section Dict.
  Context {V : Type}.
  Definition adict := list (str * V).

  Fixpoint dget (k : str) (d : adict) : option V :=
    match d with
    | [] => None
    | (k', v) :: r => if str_eqb k k' then Some v else dget k r
    end.

  Definition dmem (k : str) (d : adict) : bool :=
    match dget k d with Some _ => true | None => false end.

  (* d[k] = v : an existing key keeps its position, a new key goes to the end *)
  Fixpoint dset (k : str) (v : V) (d : adict) : adict :=
    match d with
    | [] => [(k, v)]
    | (k', v') :: r => if str_eqb k k' then (k', v) :: r else (k', v') :: dset k v r
    end.

  (* del d[k] (caller has checked membership) *)
  Definition ddel (k : str) (d : adict) : adict :=
    filter (fun kv => negb (str_eqb k (fst kv))) d.

  (* dict(pairs) / dict.update(pairs) : later values win, first position is kept *)
  Definition dupdate (d : adict) (l : list (str * V)) : adict :=
    fold_left (fun acc kv => dset (fst kv) (snd kv) acc) l d.
  Definition dict_of_pairs (l : list (str * V)) : adict := dupdate [] l.

  (* dict.popitem : split off the most recently inserted item *)
  Fixpoint pop_last (d : adict) : option (adict * (str * V)) :=
    match d with
    | [] => None
    | x :: r =>
        match pop_last r with
        | None => Some ([], x)
        | Some (r', y) => Some (x :: r', y)
        end
    end.

  Definition keys (d : adict) : list str := map fst d.
End Dict.

Definition dict := @adict str.                 (* variables: name -> value *)
Definition cdict := @adict (option str).       (* changes: name -> new value, None = deleted *)

(* A Python object handed to a mutator: a str, or anything that is not a str (TypeError branch). *)
Inductive val := VStr (s : str) | VOther.

Record store := mkStore {
  initial : dict;
  current : dict;
  changes : option cdict      (* None: attribute _changes absent (after from_json) *)
}.

Definition with_current (s : store) (c : dict) : store := mkStore (initial s) c (changes s).
Definition with_changes (s : store) (c : option cdict) : store := mkStore (initial s) (current s) c.

(* EnvVarDict(pairs) *)
Definition init (pairs : list (str * str)) : store :=
  let d := dict_of_pairs pairs in mkStore d d (Some []).

(* EnvVarDict.from_json({'initial': i, 'current': c}) with i, c as parsed by json.load *)
Definition from_parts (i c : list (str * str)) : store :=
  mkStore (dict_of_pairs i) (dict_of_pairs c) None.

(* the body of the property changes when _changes is absent *)
Definition differs (i : dict) (kv : str * str) : bool :=
  match dget (fst kv) i with
  | None => true
  | Some v0 => negb (str_eqb v0 (snd kv))
  end.

Definition compute_changes (i c : dict) : cdict :=
  let ch1 := fold_left (fun ch kv => if differs i kv then dset (fst kv) (Some (snd kv)) ch else ch) c [] in
  fold_left (fun ch kv => if dmem (fst kv) c then ch else dset (fst kv) None ch) i ch1.

(* self.changes : returns the dict object (and creates it if absent) *)
Definition force (s : store) : store * cdict :=
  match changes s with
  | Some c => (s, c)
  | None => let c := compute_changes (initial s) (current s) in (with_changes s (Some c), c)
  end.

(* self.changes[k] = ov *)
Definition set_change (k : str) (ov : option str) (s : store) : store :=
  let (s', c) := force s in with_changes s' (Some (dset k ov c)).

(* mopack / a consumer applying the recorded changes to the initial variables *)
Definition apply_changes (i : dict) (ch : cdict) : dict :=
  fold_left (fun d kv => match snd kv with
                         | Some v => dset (fst kv) v d
                         | None => ddel (fst kv) d
                         end) ch i.

(* ---------------------------------------------------------------- operations *)
Inductive op :=
| OSet (k v : val)                       (* d[k] = v *)
| ODel (k : str)                         (* del d[k] *)
| OClear                                 (* d.clear() *)
| OPop (k : str) (dflt : option val)     (* d.pop(k) / d.pop(k, default) *)
| OPopitem                               (* d.popitem() *)
| OSetdefault (k : str) (v : val)        (* d.setdefault(k, v) *)
| OUpdate (kvs : list (str * val))       (* d.update(pairs) *)
| OReset                                 (* d.reset() *)
| OJson                                  (* d = EnvVarDict.from_json(json.loads(json.dumps(d.to_json()))) *)
| OChanges.                              (* read d.changes *)

Inductive out :=
| RNone
| RVal (v : val)
| RPair (k v : str)
| RKeyError
| RTypeError
| RChanges (c : cdict).

Definition setitem (k v : val) (s : store) : store * out :=
  match k, v with
  | VStr k, VStr v => (set_change k (Some v) (with_current s (dset k v (current s))), RNone)
  | _, _ => (s, RTypeError)
  end.

Definition delitem (k : str) (s : store) : store * out :=
  if dmem k (current s)
  then (set_change k None (with_current s (ddel k (current s))), RNone)
  else (s, RKeyError).

Definition clear (s : store) : store * out :=
  let s1 := fold_left (fun s kv => set_change (fst kv) None s) (current s) s in
  (with_current s1 [], RNone).

Definition pop (k : str) (dflt : option val) (s : store) : store * out :=
  match dget k (current s) with
  | Some v => (with_current (set_change k None s) (ddel k (current s)), RVal (VStr v))
  | None => (s, match dflt with Some d => RVal d | None => RKeyError end)
  end.

Definition popitem (s : store) : store * out :=
  match pop_last (current s) with
  | None => (s, RKeyError)
  | Some (rest, (k, v)) => (set_change k None (with_current s rest), RPair k v)
  end.

Definition setdefault (k : str) (v : val) (s : store) : store * out :=
  match dget k (current s) with
  | None => match setitem (VStr k) v s with
            | (s', RNone) => (s', RVal v)
            | r => r
            end
  | Some v0 => (s, RVal (VStr v0))
  end.

Fixpoint update_loop (l : list (str * val)) (s : store) : store * out :=
  match l with
  | [] => (s, RNone)
  | (k, v) :: r =>
      match setitem (VStr k) v s with
      | (s', RNone) => update_loop r s'
      | r => r
      end
  end.
Definition update (kvs : list (str * val)) (s : store) : store * out :=
  update_loop (dict_of_pairs kvs) s.

Definition reset (s : store) : store * out :=
  (mkStore (initial s) (dupdate [] (initial s)) (Some []), RNone).

(* to_json then from_json: same initial and current, attribute _changes absent *)
Definition reload (s : store) : store := mkStore (initial s) (current s) None.

Definition step (s : store) (o : op) : store * out :=
  match o with
  | OSet k v => setitem k v s
  | ODel k => delitem k s
  | OClear => clear s
  | OPop k d => pop k d s
  | OPopitem => popitem s
  | OSetdefault k v => setdefault k v s
  | OUpdate kvs => update kvs s
  | OReset => reset s
  | OJson => (reload s, RNone)
  | OChanges => let (s', c) := force s in (s', RChanges c)
  end.

Definition run (ops : list op) (s : store) : store := fold_left (fun s o => fst (step s o)) ops s.

(* the observable trace: result and state after every operation *)
Fixpoint trace (ops : list op) (s : store) : list (out * store) :=
  match ops with
  | [] => []
  | o :: r => let (s', x) := step s o in (x, s') :: trace r s'
  end.

(* the value of d.changes in state s *)
Definition the_changes (s : store) : cdict := snd (force s).
