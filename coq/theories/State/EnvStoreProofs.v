(* Proofs about the EnvVarDict model: the recorded changes replayed onto the initial variables give the
   current variables, after every sequence of operations. *)
From BFG Require Import Base.Chars State.EnvStore.

Lemma str_eqb_neq a b : str_eqb a b = false <-> a <> b.
Proof.
  split.
  - intros E H. apply str_eqb_eq in H. congruence.
  - intros H. destruct (str_eqb a b) eqn:E; [|reflexivity]. apply str_eqb_eq in E. contradiction.
Qed.

Ltac eqb_case a b :=
  let E := fresh "E" in
  destruct (str_eqb a b) eqn:E; [apply str_eqb_eq in E | apply str_eqb_neq in E].

(* ---------------------------------------------------------------- dict lemmas *)
Section DictLemmas.
  Context {V : Type}.
  Implicit Types d : @adict V.

  Lemma dget_dset_same k v d : dget k (dset k v d) = Some v.
  Proof.
    induction d as [|[k' v'] r IH]; cbn.
    - now rewrite str_eqb_refl.
    - eqb_case k k'; cbn.
      + subst. now rewrite str_eqb_refl.
      + apply str_eqb_neq in E. now rewrite E.
  Qed.

  Lemma dget_dset_other k k' v d : k' <> k -> dget k' (dset k v d) = dget k' d.
  Proof.
    intros N. induction d as [|[k2 v2] r IH]; cbn.
    - apply str_eqb_neq in N. now rewrite N.
    - eqb_case k k2; cbn.
      + subst k2. apply str_eqb_neq in N. now rewrite N.
      + now rewrite IH.
  Qed.

  Lemma dget_dset k k' v d : dget k' (dset k v d) = if str_eqb k' k then Some v else dget k' d.
  Proof.
    eqb_case k' k.
    - subst. apply dget_dset_same.
    - now apply dget_dset_other.
  Qed.

  Lemma dget_ddel_same k d : dget k (ddel k d) = None.
  Proof.
    unfold ddel. induction d as [|[k' v'] r IH]; cbn; [reflexivity|].
    eqb_case k k'; cbn; [assumption|].
    apply str_eqb_neq in E. now rewrite E.
  Qed.

  Lemma dget_ddel_other k k' d : k' <> k -> dget k' (ddel k d) = dget k' d.
  Proof.
    intros N. unfold ddel. induction d as [|[k2 v2] r IH]; cbn; [reflexivity|].
    eqb_case k k2; cbn.
    - subst k2. apply str_eqb_neq in N. rewrite N. exact IH.
    - now rewrite IH.
  Qed.

  Lemma dget_ddel k k' d : dget k' (ddel k d) = if str_eqb k' k then None else dget k' d.
  Proof.
    eqb_case k' k.
    - subst. apply dget_ddel_same.
    - now apply dget_ddel_other.
  Qed.

  Lemma dget_None_iff k d : dget k d = None <-> ~ In k (keys d).
  Proof.
    induction d as [|[k' v'] r IH]; cbn; [tauto|].
    eqb_case k k'.
    - subst. split; [discriminate|intros H; exfalso; apply H; now left].
    - rewrite IH. split; [intros H [F|F]; [congruence|contradiction]|tauto].
  Qed.

  Lemma dget_Some_In k v d : dget k d = Some v -> In k (keys d).
  Proof.
    intros H. destruct (in_dec str_eq_dec k (keys d)) as [I|I]; [assumption|].
    apply dget_None_iff in I. congruence.
  Qed.

  Lemma dmem_In k d : dmem k d = true <-> In k (keys d).
  Proof.
    unfold dmem. destruct (dget k d) eqn:E.
    - split; [intros _; eapply dget_Some_In; eassumption|reflexivity].
    - split; [discriminate|]. apply dget_None_iff in E. contradiction.
  Qed.

  Lemma In_keys_dset k k' v d : In k' (keys (dset k v d)) <-> k' = k \/ In k' (keys d).
  Proof.
    induction d as [|[k2 v2] r IH]; cbn.
    - split; [intros [H|[]]; left; congruence|intros [H|[]]; left; congruence].
    - eqb_case k k2; cbn.
      + subst. split; [intros [H|H]; auto|intros [H|[H|H]]; auto; left; congruence].
      + rewrite IH. split; [intros [H|[H|H]]; auto|intros [H|[H|H]]; auto].
  Qed.

  Lemma NoDup_dset k v d : NoDup (keys d) -> NoDup (keys (dset k v d)).
  Proof.
    induction d as [|[k2 v2] r IH]; cbn; intros H.
    - constructor; [intros []|constructor].
    - inversion H as [|x l Hn Hr]; subst. eqb_case k k2; cbn.
      + constructor; assumption.
      + constructor; [|now apply IH]. fold (@keys V (dset k v r)). rewrite In_keys_dset. intros [F|F]; [congruence|contradiction].
  Qed.

  Lemma In_keys_ddel k k' d : In k' (keys (ddel k d)) -> In k' (keys d).
  Proof.
    induction d as [|[k2 v2] r IH]; cbn; [tauto|].
    destruct (str_eqb k k2); cbn; [auto|]. intros [H|H]; auto.
  Qed.

  Lemma NoDup_ddel k d : NoDup (keys d) -> NoDup (keys (ddel k d)).
  Proof.
    induction d as [|[k2 v2] r IH]; cbn; intros H; [constructor|].
    inversion H as [|x l Hn Hr]; subst. destruct (str_eqb k k2); cbn; [now apply IH|].
    constructor; [|now apply IH]. intros F. apply Hn. eapply In_keys_ddel; eassumption.
  Qed.

  Lemma NoDup_dupdate l d : NoDup (keys d) -> NoDup (keys (dupdate d l)).
  Proof.
    unfold dupdate. revert d. induction l as [|[k v] r IH]; cbn; intros d H; [assumption|].
    apply IH. now apply NoDup_dset.
  Qed.

  Lemma dset_fresh k v d : ~ In k (keys d) -> dset k v d = d ++ [(k, v)].
  Proof.
    induction d as [|[k2 v2] r IH]; cbn; intros H; [reflexivity|].
    eqb_case k k2; [exfalso; apply H; left; congruence|].
    rewrite IH; [reflexivity|]. intros F. apply H. now right.
  Qed.

  (* building a dict from a list without repeated keys gives that list back, in order *)
  Lemma dupdate_nodup l d : NoDup (keys (d ++ l)) -> dupdate d l = d ++ l.
  Proof.
    unfold dupdate. revert d. induction l as [|[k v] r IH]; cbn; intros d H.
    - now rewrite app_nil_r.
    - rewrite dset_fresh.
      + rewrite IH; rewrite <- app_assoc; [reflexivity|assumption].
      + unfold keys in H. rewrite map_app in H. cbn in H. apply NoDup_remove_2 in H.
        intros F. apply H. apply in_or_app. now left.
  Qed.

  Lemma dict_of_pairs_nodup (l : @adict V) : NoDup (keys l) -> dict_of_pairs l = l.
  Proof. intros H. unfold dict_of_pairs. now rewrite dupdate_nodup. Qed.

  Lemma pop_last_spec d r x : pop_last d = Some (r, x) -> d = r ++ [x].
  Proof.
    revert r x. induction d as [|y d IH]; cbn; intros r x H; [discriminate|].
    destruct (pop_last d) as [[r' z]|] eqn:E.
    - inversion H; subst. cbn. f_equal. now apply IH.
    - inversion H; subst. destruct d as [|w d]; [reflexivity|].
      cbn in E. destruct (pop_last d) as [[? ?]|]; discriminate.
  Qed.

  Lemma pop_last_None d : pop_last d = None -> d = [].
  Proof. destruct d as [|y d]; [reflexivity|]. cbn. destruct (pop_last d) as [[? ?]|]; discriminate. Qed.

  Lemma dget_app_last k k' v d :
    NoDup (keys (d ++ [(k, v)])) -> dget k' d = if str_eqb k' k then None else dget k' (d ++ [(k, v)]).
  Proof.
    induction d as [|[k2 v2] r IH]; cbn; intros H.
    - now destruct (str_eqb k' k).
    - inversion H as [|x l Hn Hr]; subst. eqb_case k' k2.
      + subst k2. eqb_case k' k; [|reflexivity]. subst k'. exfalso. apply Hn.
        unfold keys. rewrite map_app. apply in_or_app. right. now left.
      + now apply IH.
  Qed.

End DictLemmas.

Section FoldSet.
  Context {V : Type}.
  (* a fold that conditionally assigns one entry per element of a list without repeated keys *)
  Lemma fold_set_lookup {W : Type} (f : @adict W -> str * V -> @adict W) (P : str * V -> bool) (g : str * V -> W) :
    (forall ch kv, f ch kv = if P kv then dset (fst kv) (g kv) ch else ch) ->
    forall l acc k, NoDup (keys l) ->
      dget k (fold_left f l acc) =
      match dget k l with
      | Some v => if P (k, v) then Some (g (k, v)) else dget k acc
      | None => dget k acc
      end.
  Proof.
    intros Hf. induction l as [|[k1 v1] r IH]; intros acc k H; cbn; [reflexivity|].
    inversion H as [|x l Hn Hr]; subst. rewrite IH by assumption. rewrite Hf. cbn [fst].
    eqb_case k k1.
    - subst k1. apply dget_None_iff in Hn. rewrite Hn.
      destruct (P (k, v1)); [apply dget_dset_same|reflexivity].
    - assert (X : dget k (if P (k1, v1) then dset k1 (g (k1, v1)) acc else acc) = dget k acc)
        by (destruct (P (k1, v1)); [now apply dget_dset_other|reflexivity]).
      rewrite X. reflexivity.
  Qed.

  Lemma fold_set_nodup {W : Type} (f : @adict W -> str * V -> @adict W) (P : str * V -> bool) (g : str * V -> W) :
    (forall ch kv, f ch kv = if P kv then dset (fst kv) (g kv) ch else ch) ->
    forall l acc, NoDup (keys acc) -> NoDup (keys (fold_left f l acc)).
  Proof.
    intros Hf. induction l as [|kv r IH]; intros acc H; cbn; [assumption|].
    apply IH. rewrite Hf. destruct (P kv); [now apply NoDup_dset|assumption].
  Qed.
End FoldSet.

(* ---------------------------------------------------------------- replay semantics *)
(* what a lookup gives after the changes ch have been applied to i, read off ch directly *)
Definition lookup_after (k : str) (i : dict) (ch : cdict) : option str :=
  match dget k ch with
  | Some (Some v) => Some v
  | Some None => None
  | None => dget k i
  end.

Lemma apply_lookup ch : forall i k, NoDup (keys ch) -> dget k (apply_changes i ch) = lookup_after k i ch.
Proof.
  unfold apply_changes, lookup_after.
  induction ch as [|[k1 ov] r IH]; intros i k H; cbn; [reflexivity|].
  inversion H as [|x l Hn Hr]; subst. rewrite IH by assumption.
  eqb_case k k1.
  - subst k1. apply dget_None_iff in Hn. rewrite Hn.
    destruct ov as [v|]; [apply dget_dset_same|apply dget_ddel_same].
  - destruct (dget k r) as [[v|]|]; try reflexivity.
    destruct ov as [v|]; [now apply dget_dset_other|now apply dget_ddel_other].
Qed.

Lemma compute_nodup i c : NoDup (keys (compute_changes i c)).
Proof.
  unfold compute_changes.
  apply (fold_set_nodup _ (fun kv => negb (dmem (fst kv) c)) (fun _ => None)).
  - intros ch kv. now destruct (dmem (fst kv) c).
  - apply (fold_set_nodup _ (differs i) (fun kv => Some (snd kv))); [reflexivity|constructor].
Qed.

Lemma compute_lookup i c k : NoDup (keys i) -> NoDup (keys c) ->
  dget k (compute_changes i c) =
  match dget k c with
  | Some v => if differs i (k, v) then Some (Some v) else None
  | None => if dmem k i then Some None else None
  end.
Proof.
  intros Hi Hc. unfold compute_changes.
  rewrite (fold_set_lookup _ (fun kv => negb (dmem (fst kv) c)) (fun _ => None)); [|intros ch kv; now destruct (dmem (fst kv) c)|assumption].
  rewrite (fold_set_lookup _ (differs i) (fun kv => Some (snd kv))); [|reflexivity|assumption].
  cbn [fst snd dget]. unfold dmem.
  destruct (dget k i) as [v0|]; destruct (dget k c) as [v|]; cbn; try reflexivity.
Qed.

Lemma compute_replay i c k : NoDup (keys i) -> NoDup (keys c) ->
  lookup_after k i (compute_changes i c) = dget k c.
Proof.
  intros Hi Hc. unfold lookup_after. rewrite compute_lookup by assumption.
  unfold differs, dmem. cbn [fst snd].
  destruct (dget k c) as [v|]; destruct (dget k i) as [v0|]; cbn; try reflexivity.
  destruct (str_eqb v0 v) eqn:E; cbn; [|reflexivity].
  apply str_eqb_eq in E. now subst.
Qed.

(* ---------------------------------------------------------------- invariant *)
Definition wf (s : store) : Prop := NoDup (keys (initial s)) /\ NoDup (keys (current s)).

(* the recorded changes (if the attribute exists) replay to the mapping t; if the attribute is absent it
   will be computed from current, so t must be current *)
Definition tracks (s : store) (t : str -> option str) : Prop :=
  match changes s with
  | None => forall k, t k = dget k (current s)
  | Some c => NoDup (keys c) /\ forall k, lookup_after k (initial s) c = t k
  end.

Definition Inv (s : store) : Prop := wf s /\ tracks s (fun k => dget k (current s)).

Lemma set_change_tracks s t k ov : wf s -> tracks s t ->
  initial (set_change k ov s) = initial s /\ current (set_change k ov s) = current s /\
  exists c, changes (set_change k ov s) = Some c /\ NoDup (keys c) /\
            forall k', lookup_after k' (initial s) c = if str_eqb k' k then ov else t k'.
Proof.
  intros [Hi Hc] T. unfold set_change, force, tracks in *.
  destruct (changes s) as [c|] eqn:E; cbn.
  - destruct T as [Nc T]. repeat split. eexists; split; [reflexivity|]. split; [now apply NoDup_dset|].
    intros k'. unfold lookup_after. rewrite dget_dset. eqb_case k' k.
    + now destruct ov.
    + apply T.
  - repeat split. eexists; split; [reflexivity|]. split; [apply NoDup_dset, compute_nodup|].
    intros k'. unfold lookup_after. rewrite dget_dset. eqb_case k' k.
    + now destruct ov.
    + fold (lookup_after k' (initial s) (compute_changes (initial s) (current s))).
      rewrite compute_replay by assumption. symmetry. apply T.
Qed.

(* current is modified at key k first, then the change is recorded (setitem, delitem, popitem) *)
Lemma modify_then_record s c' k ov : Inv s -> NoDup (keys c') ->
  (forall k', k' <> k -> dget k' c' = dget k' (current s)) -> dget k c' = ov ->
  Inv (set_change k ov (with_current s c')).
Proof.
  intros [[Hi Hc] T] Hc' Hoth Hk.
  set (s1 := with_current s c').
  assert (W1 : wf s1) by (split; assumption).
  assert (T1 : tracks s1 (fun k' => match changes s with None => dget k' c' | Some _ => dget k' (current s) end)).
  { unfold tracks in *. subst s1. cbn. destruct (changes s); [assumption|reflexivity]. }
  destruct (set_change_tracks s1 _ k ov W1 T1) as (Ei & Ec & c2 & E2 & N2 & L2).
  split.
  - split; [rewrite Ei|rewrite Ec]; assumption.
  - unfold tracks. rewrite E2. split; [assumption|]. intros k'. rewrite Ei, Ec. subst s1. cbn in *.
    rewrite L2. eqb_case k' k.
    + subst k'. now symmetry.
    + destruct (changes s); [symmetry; now apply Hoth|reflexivity].
Qed.

(* the change is recorded first, then current is modified at key k (pop) *)
Lemma record_then_modify s c' k ov : Inv s -> NoDup (keys c') ->
  (forall k', k' <> k -> dget k' c' = dget k' (current s)) -> dget k c' = ov ->
  Inv (with_current (set_change k ov s) c').
Proof.
  intros [W T] Hc' Hoth Hk.
  destruct (set_change_tracks s _ k ov W T) as (Ei & Ec & c2 & E2 & N2 & L2).
  destruct W as [Hi Hc]. split.
  - split; cbn; [rewrite Ei|]; assumption.
  - unfold tracks. cbn. rewrite E2. split; [assumption|]. intros k'. rewrite Ei, L2. eqb_case k' k.
    + subst k'. now symmetry.
    + symmetry. now apply Hoth.
Qed.

Lemma force_inv s : Inv s -> Inv (fst (force s)).
Proof.
  intros [[Hi Hc] T]. unfold force. destruct (changes s) as [c|] eqn:E; cbn; [split; [split|]; assumption|].
  split; [split; assumption|]. unfold tracks. cbn. split; [apply compute_nodup|].
  intros k. now apply compute_replay.
Qed.

Lemma setitem_inv k v s : Inv s -> Inv (fst (setitem k v s)).
Proof.
  intros I. unfold setitem. destruct k as [k|]; [|assumption]. destruct v as [v|]; [|assumption]. cbn [fst].
  destruct I as [[Hi Hc] T] eqn:EI. clear EI.
  apply modify_then_record; [assumption|now apply NoDup_dset| |apply dget_dset_same].
  intros k' N. now apply dget_dset_other.
Qed.

Lemma delitem_inv k s : Inv s -> Inv (fst (delitem k s)).
Proof.
  intros I. unfold delitem. destruct (dmem k (current s)); [|assumption]. cbn [fst].
  pose proof I as [[Hi Hc] T].
  apply modify_then_record; [assumption|now apply NoDup_ddel| |apply dget_ddel_same].
  intros k' N. now apply dget_ddel_other.
Qed.

Lemma pop_inv k d s : Inv s -> Inv (fst (pop k d s)).
Proof.
  intros I. unfold pop. destruct (dget k (current s)); [|assumption]. cbn [fst].
  pose proof I as [[Hi Hc] T].
  apply record_then_modify; [assumption|now apply NoDup_ddel| |apply dget_ddel_same].
  intros k' N. now apply dget_ddel_other.
Qed.

Lemma NoDup_keys_app_l {V} (a b : @adict V) : NoDup (keys (a ++ b)) -> NoDup (keys a).
Proof.
  unfold keys. rewrite map_app. induction (map fst a) as [|x l IH]; cbn; intros H; [constructor|].
  inversion H; subst. constructor; [|now apply IH]. intros F. apply H2. apply in_or_app. now left.
Qed.

Lemma popitem_inv s : Inv s -> Inv (fst (popitem s)).
Proof.
  intros I. unfold popitem. destruct (pop_last (current s)) as [[rest [k v]]|] eqn:E; [|assumption]. cbn [fst].
  pose proof I as [[Hi Hc] T]. apply pop_last_spec in E.
  apply modify_then_record; [assumption|rewrite E in Hc; eapply NoDup_keys_app_l; eassumption| |].
  - intros k' N. rewrite E. rewrite E in Hc. rewrite (dget_app_last k k' v rest Hc).
    apply str_eqb_neq in N. now rewrite N.
  - rewrite E in Hc. rewrite (dget_app_last k k v rest Hc). now rewrite str_eqb_refl.
Qed.

Lemma setdefault_inv k v s : Inv s -> Inv (fst (setdefault k v s)).
Proof.
  intros I. unfold setdefault. destruct (dget k (current s)); [assumption|].
  pose proof (setitem_inv (VStr k) v s I) as H.
  destruct (setitem (VStr k) v s) as [s' r]. now destruct r.
Qed.

Lemma update_loop_inv l : forall s, Inv s -> Inv (fst (update_loop l s)).
Proof.
  induction l as [|[k v] r IH]; intros s I; cbn [update_loop]; [assumption|].
  pose proof (setitem_inv (VStr k) v s I) as H.
  destruct (setitem (VStr k) v s) as [s' x]. cbn [fst] in H.
  destruct x; try assumption. now apply IH.
Qed.

(* clear: the loop records a deletion for every key while current is untouched *)
Definition cleared_view (P : list str) (c : dict) (k : str) : option str :=
  if in_dec str_eq_dec k P then None else dget k c.

Lemma clear_loop (l : dict) : forall s P, wf s -> tracks s (cleared_view P (current s)) ->
  let s1 := fold_left (fun s kv => set_change (fst kv) None s) l s in
  wf s1 /\ initial s1 = initial s /\ current s1 = current s /\
  tracks s1 (cleared_view (rev (keys l) ++ P) (current s)).
Proof.
  induction l as [|[k v] r IH]; intros s P W T; cbn.
  - repeat split; try apply W. assumption.
  - destruct (set_change_tracks s _ k None W T) as (Ei & Ec & c2 & E2 & N2 & L2).
    set (s' := set_change k None s) in *.
    assert (W' : wf s') by (destruct W; split; [rewrite Ei|rewrite Ec]; assumption).
    assert (T' : tracks s' (cleared_view (k :: P) (current s'))).
    { unfold tracks. rewrite E2. split; [assumption|]. intros k'. rewrite Ei, Ec, L2.
      unfold cleared_view. eqb_case k' k.
      - subst k'. destruct (in_dec str_eq_dec k (k :: P)) as [|F]; [reflexivity|exfalso; apply F; now left].
      - destruct (in_dec str_eq_dec k' P) as [I|I]; destruct (in_dec str_eq_dec k' (k :: P)) as [I'|I']; try reflexivity.
        + exfalso. apply I'. now right.
        + destruct I' as [F|F]; [congruence|contradiction]. }
    destruct (IH s' (k :: P) W' T') as (W2 & Ei2 & Ec2 & T2). cbn in W2, Ei2, Ec2, T2.
    repeat split; try apply W2; try congruence.
    rewrite Ec in T2. rewrite <- app_assoc. exact T2.
Qed.

Lemma clear_inv s : Inv s -> Inv (fst (clear s)).
Proof.
  intros [W T]. unfold clear. cbn [fst].
  assert (T0 : tracks s (cleared_view [] (current s))).
  { unfold tracks in *. destruct (changes s); [|reflexivity]. exact T. }
  destruct (clear_loop (current s) s [] W T0) as (W1 & Ei & Ec & T1). cbn in W1, Ei, Ec, T1.
  set (s1 := fold_left (fun s (kv : str * str) => set_change (fst kv) None s) (current s) s) in *.
  split.
  - split; cbn; [apply W1|constructor].
  - unfold tracks in *. cbn. destruct (changes s1) as [c|] eqn:E.
    + destruct T1 as [N1 L1]. split; [assumption|]. intros k. rewrite L1. unfold cleared_view.
      rewrite app_nil_r. destruct (in_dec str_eq_dec k (rev (keys (current s)))) as [I|I]; [reflexivity|].
      apply dget_None_iff. intros F. apply I. now apply in_rev in F.
    + intros k. reflexivity.
Qed.

Lemma reset_current s : NoDup (keys (initial s)) -> current (fst (reset s)) = initial s.
Proof. intros H. cbn. now rewrite dupdate_nodup. Qed.

Lemma reset_inv s : Inv s -> Inv (fst (reset s)).
Proof.
  intros [[Hi Hc] T]. split.
  - split; cbn; [assumption|]. now apply NoDup_dupdate; constructor.
  - unfold tracks. cbn. split; [constructor|]. intros k. unfold lookup_after. cbn.
    now rewrite dupdate_nodup.
Qed.

Lemma reload_inv s : Inv s -> Inv (reload s).
Proof. intros [W T]. split; [exact W|]. unfold tracks. cbn. reflexivity. Qed.

Lemma step_inv s o : Inv s -> Inv (fst (step s o)).
Proof.
  intros I. destruct o; cbn [step].
  - now apply setitem_inv.
  - now apply delitem_inv.
  - now apply clear_inv.
  - now apply pop_inv.
  - now apply popitem_inv.
  - now apply setdefault_inv.
  - unfold update. now apply update_loop_inv.
  - now apply reset_inv.
  - now apply reload_inv.
  - pose proof (force_inv s I) as H. now destruct (force s).
Qed.

Lemma run_inv ops : forall s, Inv s -> Inv (run ops s).
Proof.
  unfold run. induction ops as [|o r IH]; intros s I; cbn; [assumption|].
  apply IH. now apply step_inv.
Qed.

Lemma init_inv pairs : Inv (init pairs).
Proof.
  unfold init. split.
  - split; cbn; apply NoDup_dupdate; constructor.
  - unfold tracks. cbn. split; [constructor|]. reflexivity.
Qed.

Lemma from_parts_inv i c : Inv (from_parts i c).
Proof.
  split.
  - split; cbn; apply NoDup_dupdate; constructor.
  - unfold tracks. cbn. reflexivity.
Qed.

(* the property for one state *)
Lemma inv_replay s : Inv s ->
  forall k, dget k (apply_changes (initial s) (the_changes s)) = dget k (current s).
Proof.
  intros [[Hi Hc] T] k. unfold the_changes, force, tracks in *.
  destruct (changes s) as [c|]; cbn [snd].
  - destruct T as [N L]. rewrite apply_lookup by assumption. apply L.
  - rewrite apply_lookup by apply compute_nodup. now apply compute_replay.
Qed.

Theorem changes_replay s0 ops : Inv s0 ->
  forall k, dget k (apply_changes (initial (run ops s0)) (the_changes (run ops s0))) = dget k (current (run ops s0)).
Proof. intros I. apply inv_replay. now apply run_inv. Qed.

Theorem changes_replay_init pairs ops :
  let s := run ops (init pairs) in
  forall k, dget k (apply_changes (initial s) (the_changes s)) = dget k (current s).
Proof. cbn zeta. apply changes_replay, init_inv. Qed.

Theorem changes_replay_json i c ops :
  let s := run ops (from_parts i c) in
  forall k, dget k (apply_changes (initial s) (the_changes s)) = dget k (current s).
Proof. cbn zeta. apply changes_replay, from_parts_inv. Qed.

(* initial is never modified by any operation *)
Lemma set_change_initial k ov s : initial (set_change k ov s) = initial s.
Proof. unfold set_change, force. now destruct (changes s). Qed.

Lemma step_initial s o : initial (fst (step s o)) = initial s.
Proof.
  destruct o; cbn [step].
  - unfold setitem. destruct k; [|reflexivity]. destruct v; [|reflexivity]. cbn. now rewrite set_change_initial.
  - unfold delitem. destruct (dmem k (current s)); [|reflexivity]. cbn. now rewrite set_change_initial.
  - unfold clear. cbn. generalize (current s) at 1. intros l. revert s.
    induction l as [|kv r IH]; intros s; cbn; [reflexivity|]. now rewrite IH, set_change_initial.
  - unfold pop. destruct (dget k (current s)); [|reflexivity]. cbn. now rewrite set_change_initial.
  - unfold popitem. destruct (pop_last (current s)) as [[rest [k v]]|]; [|reflexivity]. cbn. now rewrite set_change_initial.
  - unfold setdefault. destruct (dget k (current s)); [reflexivity|]. unfold setitem. destruct v; [|reflexivity].
    cbn. now rewrite set_change_initial.
  - unfold update. generalize (dict_of_pairs kvs). intros l. revert s.
    induction l as [|[k v] r IH]; intros s; cbn [update_loop]; [reflexivity|].
    unfold setitem. destruct v; [|reflexivity]. rewrite IH. cbn. now rewrite set_change_initial.
  - reflexivity.
  - reflexivity.
  - unfold force. now destruct (changes s).
Qed.

Lemma run_initial ops : forall s, initial (run ops s) = initial s.
Proof.
  unfold run. induction ops as [|o r IH]; intros s; cbn; [reflexivity|].
  now rewrite IH, step_initial.
Qed.

(* reset: current becomes the initial mapping exactly (same order), no recorded change is left *)
Theorem reset_spec s0 ops : Inv s0 ->
  let s := fst (reset (run ops s0)) in
  current s = initial s0 /\ initial s = initial s0 /\ the_changes s = [].
Proof.
  intros I. cbn zeta. pose proof (run_inv ops s0 I) as [[Hi Hc] _].
  rewrite reset_current by assumption. cbn [initial reset fst]. rewrite run_initial. now repeat split.
Qed.
