(* The upgrade chain of Environment.load keeps every install directory an older document stored: whatever the
   stored version, the entry of install_dirs is carried over, changed only by the documented rewrites of the
   steps between that version and the current one (v10: bindir / libdir move from prefix to exec_prefix,
   v11: the destdir flag False is appended).  In particular a step never overwrites an entry that the format
   it upgrades from already had (exec_prefix from v10 on, datadir / mandir in v17). *)
From Coq Require Import String.
From BFG Require Import Base.Chars State.EnvStore State.EnvStoreProofs State.EnvJson State.EnvUpgradeProofs.
Local Open Scope N_scope.

Definition kdirs := STR "install_dirs".
Definition kexec := STR "exec_prefix".
Definition kbin := STR "bindir".
Definition klib := STR "libdir".
Definition kdata := STR "datadir".
Definition kman := STR "mandir".
Definition is_binlib (k : str) : bool := str_eqb k kbin || str_eqb k klib.

(* the entry k of the install_dirs object of the document *)
Definition idir (d : jd) (k : str) : option json :=
  match dget kdirs d with Some (JObj l) => dget k l | _ => None end.

(* the documented rewrites of one stored entry on its way from version v to the current format *)
Definition idir_up (v : N) (k : str) (j : json) : res json :=
  do j <- (if (v <? 10) && is_binlib k then reroot_prefix j else Ok j);
  if v <? 11 then append_false j else Ok j.

(* format v had the directory k: exec_prefix exists from v10 on, datadir and mandir from v17 on *)
Definition stored (v : N) (k : str) : bool :=
  negb ((v <? 10) && str_eqb k kexec) && negb ((v <? 17) && (str_eqb k kdata || str_eqb k kman)).

Lemma untouched_idir (f : jd -> res jd) k d d' : untouched f kdirs -> f d = Ok d' -> idir d' k = idir d k.
Proof. intros U H. unfold idir. now rewrite (U _ _ H). Qed.

Lemma upd_same k f (d d' : jd) v : upd k f d = Ok d' -> dget k d = Some v ->
  exists v', f v = Ok v' /\ dget k d' = Some v'.
Proof.
  unfold upd. intros H E. rewrite E in H. apply bind_ok in H. destruct H as (v' & Hf & H). inversion H; subst.
  exists v'. split; [exact Hf|apply dget_dset_same].
Qed.

Lemma as_obj_ok j l : as_obj j = Ok l -> j = JObj l.
Proof. destruct j; cbn; intros H; try discriminate. now inversion H. Qed.

Lemma mapM_dget (f : json -> res json) k : forall (l l' : jd) j,
  mapM (fun kv => do v <- f (snd kv); Ok (fst kv, v)) l = Ok l' -> dget k l = Some j ->
  exists j', f j = Ok j' /\ dget k l' = Some j'.
Proof.
  induction l as [|[k0 v0] r IH]; intros l' j H E; cbn in E; [discriminate|].
  cbn [mapM fst snd] in H. apply bind_ok in H. destruct H as (y & Hy & H).
  apply bind_ok in Hy. destruct Hy as (v1 & Hv1 & Hy). inversion Hy; subst y.
  apply bind_ok in H. destruct H as (ys & Hys & H). inversion H; subst l'. cbn [dget].
  destruct (str_eqb k k0).
  - inversion E; subst. exists v1. auto.
  - exact (IH _ _ Hys E).
Qed.

(* v10: exec_prefix is set, bindir and libdir are re-rooted; every other entry is kept *)
Lemma up10_idir d d' k j : up10 d = Ok d' -> idir d k = Some j -> k <> kexec ->
  exists j', idir d' k = Some j' /\ (if is_binlib k then reroot_prefix j else Ok j) = Ok j'.
Proof.
  unfold up10, idir. intros H E N. unfold upd in H. fold kdirs in H.
  destruct (dget kdirs d) as [idirs|] eqn:Ed; [|discriminate].
  apply bind_ok in H. destruct H as (v' & Hf & H). inversion H; subst d'. rewrite dget_dset_same.
  apply bind_ok in Hf. destruct Hf as (l & Hl & Hf). apply as_obj_ok in Hl. subst idirs.
  apply bind_ok in Hf. destruct Hf as (l2 & Hu & Hf). inversion Hf; subst v'.
  set (l0 := dset (STR "exec_prefix") (JArr [JStr []; JStr (STR "prefix")]) l) in Hu.
  assert (E0 : dget k l0 = Some j) by (unfold l0; rewrite dget_dset_other by exact N; exact E).
  cbn [updM] in Hu. apply bind_ok in Hu. destruct Hu as (l1 & H1 & Hu).
  apply bind_ok in Hu. destruct Hu as (l2' & H2 & Hu). inversion Hu; subst l2'.
  unfold is_binlib. fold kbin klib in H1, H2.
  eqb_case k kbin.
  - subst k. cbn [orb]. destruct (upd_same _ _ _ _ _ H1 E0) as (j' & Hj & Hg). exists j'. split; [|exact Hj].
    rewrite (upd_other _ _ _ _ kbin H2) by (apply str_eqb_neq; reflexivity). exact Hg.
  - cbn [orb]. eqb_case k klib.
    + subst k. assert (Eb1 : dget klib l1 = Some j).
      { rewrite (upd_other _ _ _ _ klib H1) by (apply str_eqb_neq; reflexivity). exact E0. }
      destruct (upd_same _ _ _ _ _ H2 Eb1) as (j' & Hj & Hg). exists j'. auto.
    + exists j. split; [|reflexivity].
      rewrite (upd_other _ _ _ _ k H2) by assumption. rewrite (upd_other _ _ _ _ k H1) by assumption. exact E0.
Qed.

(* v11: every entry gets the destdir flag *)
Lemma up11_idir d d' k j : up11 d = Ok d' -> idir d k = Some j ->
  exists j', idir d' k = Some j' /\ append_false j = Ok j'.
Proof.
  unfold up11, idir. intros H E. apply bind_ok in H. destruct H as (d1 & H1 & H).
  assert (Ed : dget kdirs d1 = dget kdirs d).
  { eapply updM_other; [exact H1|]. apply not_in_conv. reflexivity. }
  rewrite <- Ed in E. clear Ed H1.
  unfold upd in H. fold kdirs in H. destruct (dget kdirs d1) as [idirs|]; [|discriminate].
  apply bind_ok in H. destruct H as (v' & Hf & H). inversion H; subst d'. rewrite dget_dset_same.
  apply bind_ok in Hf. destruct Hf as (l & Hl & Hf). apply as_obj_ok in Hl. subst idirs.
  apply bind_ok in Hf. destruct Hf as (l2 & Hm & Hf). inversion Hf; subst v'.
  destruct (mapM_dget append_false k _ _ _ Hm E) as (j' & Hj & Hg). exists j'. auto.
Qed.

(* v17: datadir and mandir are set; every other entry is kept *)
Lemma up17_idir x d d' k : up17 x d = Ok d' -> k <> kdata -> k <> kman -> idir d' k = idir d k.
Proof.
  unfold up17, idir. intros H N1 N2. apply bind_ok in H. destruct H as (t & _ & H).
  unfold upd in H. fold kdirs in H. destruct (dget kdirs d) as [idirs|]; [|discriminate].
  apply bind_ok in H. destruct H as (v' & Hf & H). inversion H; subst d'. rewrite dget_dset_same.
  apply bind_ok in Hf. destruct Hf as (l & Hl & Hf). apply as_obj_ok in Hl. subst idirs.
  inversion Hf; subst v'. rewrite !dget_dset_other by assumption. reflexivity.
Qed.

Ltac kneq := apply str_eqb_neq; reflexivity.

Theorem upgrade_preserves_install_dirs x v d d' k j :
  upgrade x v d = Ok d' -> idir d k = Some j -> stored v k = true ->
  exists j', idir d' k = Some j' /\ idir_up v k j = Ok j'.
Proof.
  unfold upgrade. intros H E S.
  apply bind_ok in H. destruct H as (d5 & H5 & H). apply bind_ok in H. destruct H as (d6 & H6 & H).
  apply bind_ok in H. destruct H as (d7 & H7 & H). apply bind_ok in H. destruct H as (d8 & H8 & H).
  apply bind_ok in H. destruct H as (d9 & H9 & H). apply bind_ok in H. destruct H as (d10 & H10 & H).
  apply bind_ok in H. destruct H as (d11 & H11 & H). apply bind_ok in H. destruct H as (d12 & H12 & H).
  apply bind_ok in H. destruct H as (d13 & H13 & H). apply bind_ok in H. destruct H as (d14 & H14 & H).
  apply bind_ok in H. destruct H as (d15 & H15 & H). apply bind_ok in H. destruct H as (d16 & H16 & H17).
  (* steps that do not touch install_dirs *)
  rewrite <- (untouched_idir _ k _ _ (when_un _ _ kdirs (up5_un kdirs ltac:(apply not_in_conv; reflexivity))) H5) in E.
  rewrite <- (untouched_idir _ k _ _ (when_un _ _ kdirs (up6_un x kdirs ltac:(kneq) ltac:(kneq))) H6) in E.
  rewrite <- (untouched_idir _ k _ _ (when_un _ _ kdirs (up7_un kdirs ltac:(kneq) ltac:(kneq))) H7) in E.
  rewrite <- (untouched_idir _ k _ _ (when_un _ _ kdirs (set_un (STR "extra_args") _ kdirs ltac:(kneq))) H8) in E.
  rewrite <- (untouched_idir _ k _ _ (when_un _ _ kdirs (set_un (STR "library_mode") _ kdirs ltac:(kneq))) H9) in E.
  apply andb_true_iff in S. destruct S as [S10 S17]. apply negb_true_iff in S10, S17.
  unfold idir_up.
  (* v10 *)
  assert (A10 : exists j1, idir d10 k = Some j1 /\
                           (if (v <? 10) && is_binlib k then reroot_prefix j else Ok j) = Ok j1).
  { unfold when in H10. destruct (v <? 10) eqn:B10; cbn [andb] in *.
    - apply (up10_idir _ _ _ _ H10 E). apply str_eqb_neq. exact S10.
    - inversion H10; subst d10. exists j. auto. }
  destruct A10 as (j1 & E10 & R10). rewrite R10. cbn [bind].
  (* v11 *)
  assert (A11 : exists j2, idir d11 k = Some j2 /\ (if v <? 11 then append_false j1 else Ok j1) = Ok j2).
  { unfold when in H11. destruct (v <? 11).
    - exact (up11_idir _ _ _ _ H11 E10).
    - inversion H11; subst d11. exists j1. auto. }
  destruct A11 as (j2 & E11 & R11). exists j2. split; [|exact R11].
  rewrite <- (untouched_idir _ k _ _ (when_un _ _ kdirs (up12_un kdirs ltac:(kneq) ltac:(kneq) ltac:(kneq))) H12) in E11.
  assert (U13 : untouched up13 kdirs).
  { intros a a' Ha. unfold up13 in Ha. apply bind_ok in Ha. destruct Ha as (vv & _ & Ha). inversion Ha; subst.
    rewrite !dget_dset_other by kneq. reflexivity. }
  rewrite <- (untouched_idir _ k _ _ (when_un _ _ kdirs U13) H13) in E11.
  rewrite <- (untouched_idir _ k _ _ (when_un _ _ kdirs (up14_un x kdirs ltac:(apply not_in_conv; reflexivity))) H14) in E11.
  assert (U15 : untouched up15 kdirs).
  { intros a a' Ha. unfold up15 in Ha. apply bind_ok in Ha. destruct Ha as (i & _ & Ha).
    apply bind_ok in Ha. destruct Ha as (c & _ & Ha). inversion Ha; subst.
    rewrite dget_dset_other by kneq. rewrite !dget_ddel_other by kneq. rewrite dget_dset_other by kneq. reflexivity. }
  rewrite <- (untouched_idir _ k _ _ (when_un _ _ kdirs U15) H15) in E11.
  rewrite <- (untouched_idir _ k _ _ (when_un _ _ kdirs (set_un (STR "compdb") _ kdirs ltac:(kneq))) H16) in E11.
  (* v17 *)
  unfold when in H17. destruct (v <? 17); cbn [andb] in S17.
  - apply orb_false_iff in S17. destruct S17 as [Sd Sm].
    rewrite (up17_idir _ _ _ _ H17); [exact E11|apply str_eqb_neq; exact Sd|apply str_eqb_neq; exact Sm].
  - inversion H17; subst d'. exact E11.
Qed.

(* from v11 on a stored entry is carried over unchanged *)
Corollary upgrade_install_dirs_from_11 x v d d' k j :
  upgrade x v d = Ok d' -> 11 <= v -> idir d k = Some j -> stored v k = true -> idir d' k = Some j.
Proof.
  intros H Hv E S. destruct (upgrade_preserves_install_dirs _ _ _ _ _ _ H E S) as (j' & E' & R).
  unfold idir_up in R. assert (B10 : (v <? 10) = false) by (apply N.ltb_ge; lia).
  assert (B11 : (v <? 11) = false) by (apply N.ltb_ge; lia). rewrite B10, B11 in R. cbn in R. inversion R; subst. exact E'.
Qed.

(* a version-10 document keeps its exec_prefix (the flag False is appended), like every other entry *)
Corollary upgrade_exec_prefix_v10 x d d' a r :
  upgrade x 10 d = Ok d' -> idir d kexec = Some (JArr [a; r]) -> idir d' kexec = Some (JArr [a; r; JBool false]).
Proof.
  intros H E. destruct (upgrade_preserves_install_dirs _ _ _ _ _ _ H E eq_refl) as (j' & E' & R).
  cbn in R. inversion R; subst. exact E'.
Qed.
