(* The upgrade chain of Environment.load keeps the variables of an older document: whatever the stored version,
   the upgraded document carries them as initial / current of the variable store. *)
From Coq Require Import String.
From BFG Require Import Base.Chars State.EnvStore State.EnvStoreProofs State.EnvJson.
Local Open Scope N_scope.

Ltac neq := apply str_eqb_neq; reflexivity.

Lemma bind_ok {A B} (x : res A) (f : A -> res B) b : bind x f = Ok b -> exists a, x = Ok a /\ f a = Ok b.
Proof. destruct x; cbn; intros H; try discriminate. eauto. Qed.

Definition jd := list (str * json).

Lemma upd_other k f (d d' : jd) k' : upd k f d = Ok d' -> k' <> k -> dget k' d' = dget k' d.
Proof.
  unfold upd. destruct (dget k d); [|discriminate]. intros H N.
  apply bind_ok in H. destruct H as (v' & _ & H). inversion H; subst. now apply dget_dset_other.
Qed.

Lemma updM_other ks f : forall (d d' : jd) k', updM ks f d = Ok d' -> ~ In k' ks -> dget k' d' = dget k' d.
Proof.
  induction ks as [|k r IH]; intros d d' k' H N; cbn in H.
  - now inversion H.
  - apply bind_ok in H. destruct H as (d1 & H1 & H2).
    rewrite (IH _ _ _ H2) by (intros F; apply N; now right).
    eapply upd_other; [eassumption|]. intros F. apply N. now left.
Qed.

Definition kvars := STR "variables".
Definition kivars := STR "initial_variables".

(* steps that do not touch a key k, for the two keys that hold variables *)
Definition untouched (f : jd -> res jd) (k : str) : Prop := forall d d', f d = Ok d' -> dget k d' = dget k d.

Lemma up5_un k : ~ In k [STR "srcdir"; STR "builddir"] -> untouched up5 k.
Proof. intros N d d' H. unfold up5 in H. eapply updM_other; eassumption. Qed.

Lemma up6_un x k : k <> STR "backend_version" -> k <> STR "bfgpath" -> untouched (up6 x) k.
Proof.
  intros N1 N2 d d' H. unfold up6 in H.
  apply bind_ok in H. destruct H as (b & _ & H). apply bind_ok in H. destruct H as (b' & _ & H).
  destruct (x_backend_version x b'); [|discriminate].
  rewrite (upd_other _ _ _ _ _ H N2). now apply dget_dset_other.
Qed.

Lemma up7_un k : k <> STR "bfgdir" -> k <> STR "bfgpath" -> untouched up7 k.
Proof.
  intros N1 N2 d d' H. unfold up7 in H.
  repeat (apply bind_ok in H; destruct H as (? & _ & H)). inversion H; subst.
  rewrite dget_ddel_other by assumption. now apply dget_dset_other.
Qed.

Lemma set_un key v k : k <> key -> untouched (fun d => Ok (dset key v d)) k.
Proof. intros N d d' H. inversion H; subst. now apply dget_dset_other. Qed.

Lemma up10_un k : k <> STR "install_dirs" -> untouched up10 k.
Proof. intros N d d' H. unfold up10 in H. eapply upd_other; eassumption. Qed.

Lemma up11_un k : ~ In k [STR "bfgdir"; STR "srcdir"; STR "builddir"] -> k <> STR "install_dirs" -> untouched up11 k.
Proof.
  intros N1 N2 d d' H. unfold up11 in H. apply bind_ok in H. destruct H as (d1 & H1 & H).
  rewrite (upd_other _ _ _ _ _ H N2). eapply updM_other; eassumption.
Qed.

Lemma up12_un k : k <> STR "platform" -> k <> STR "host_platform" -> k <> STR "target_platform" -> untouched up12 k.
Proof.
  intros N1 N2 N3 d d' H. unfold up12 in H. apply bind_ok in H. destruct H as (p & _ & H). inversion H; subst.
  rewrite !dget_dset_other by assumption. now apply dget_ddel_other.
Qed.

Lemma up14_un x k : ~ In k [STR "host_platform"; STR "target_platform"] -> untouched (up14 x) k.
Proof. intros N d d' H. unfold up14 in H. eapply updM_other; eassumption. Qed.

Lemma up17_un x k : k <> STR "install_dirs" -> untouched (up17 x) k.
Proof.
  intros N d d' H. unfold up17 in H. apply bind_ok in H. destruct H as (t & _ & H). eapply upd_other; eassumption.
Qed.

Lemma when_un b f k : untouched f k -> untouched (when b f) k.
Proof. intros U d d' H. unfold when in H. destruct b; [now apply U|now inversion H]. Qed.

Ltac notin := cbn; intros F; repeat (destruct F as [F|F]; [apply str_eqb_neq in F; [exact F|reflexivity]|]); exact F.

Lemma not_in_conv k (l : list str) : forallb (fun x => negb (str_eqb x k)) l = true -> ~ In k l.
Proof.
  induction l as [|x r IH]; cbn; [tauto|]. rewrite andb_true_iff. intros [H1 H2] [F|F]; [|now apply IH].
  subst. now rewrite str_eqb_refl in H1.
Qed.

(* the whole chain up to (excluding) the step that introduces initial_variables keeps data['variables'] *)
Lemma chain_5_12 x v : forall d d',
  (do d <- when (v <? 5) up5 d; do d <- when (v <? 6) (up6 x) d; do d <- when (v <? 7) up7 d;
   do d <- when (v <? 8) up8 d; do d <- when (v <? 9) up9 d; do d <- when (v <? 10) up10 d;
   do d <- when (v <? 11) up11 d; when (v <? 12) up12 d) = Ok d' ->
  dget kvars d' = dget kvars d.
Proof.
  intros d d' H.
  apply bind_ok in H. destruct H as (d5 & H5 & H). apply bind_ok in H. destruct H as (d6 & H6 & H).
  apply bind_ok in H. destruct H as (d7 & H7 & H). apply bind_ok in H. destruct H as (d8 & H8 & H).
  apply bind_ok in H. destruct H as (d9 & H9 & H). apply bind_ok in H. destruct H as (d10 & H10 & H).
  apply bind_ok in H. destruct H as (d11 & H11 & H12).
  rewrite (when_un _ _ kvars (up12_un kvars ltac:(neq) ltac:(neq) ltac:(neq)) _ _ H12).
  rewrite (when_un _ _ kvars (up11_un kvars ltac:(apply not_in_conv; reflexivity) ltac:(neq)) _ _ H11).
  rewrite (when_un _ _ kvars (up10_un kvars ltac:(neq)) _ _ H10).
  rewrite (when_un _ _ kvars (set_un (STR "library_mode") _ kvars ltac:(neq)) _ _ H9).
  rewrite (when_un _ _ kvars (set_un (STR "extra_args") _ kvars ltac:(neq)) _ _ H8).
  rewrite (when_un _ _ kvars (up7_un kvars ltac:(neq) ltac:(neq)) _ _ H7).
  rewrite (when_un _ _ kvars (up6_un x kvars ltac:(neq) ltac:(neq)) _ _ H6).
  now rewrite (when_un _ _ kvars (up5_un kvars ltac:(apply not_in_conv; reflexivity)) _ _ H5).
Qed.

Lemma up13_spec d d' vars : up13 d = Ok d' -> dget kvars d = Some vars ->
  dget kvars d' = Some vars /\ dget kivars d' = Some vars.
Proof.
  unfold up13. cbn [jfield]. fold kvars. intros H E. rewrite E in H. cbn in H. inversion H; subst. split.
  - rewrite !dget_dset_other by neq. assumption.
  - rewrite dget_dset_other by neq. apply dget_dset_same.
Qed.

Lemma up15_spec d d' i c : up15 d = Ok d' -> dget kivars d = Some i -> dget kvars d = Some c ->
  dget kvars d' = Some (JObj [(STR "initial", i); (STR "current", c)]).
Proof.
  unfold up15. cbn [jfield]. fold kvars kivars. intros H Ei Ec.
  rewrite dget_dset_other in H by neq. rewrite Ei in H. cbn [bind] in H.
  rewrite dget_ddel_other in H by neq. rewrite dget_dset_other in H by neq. rewrite Ec in H. cbn [bind] in H.
  inversion H; subst. apply dget_dset_same.
Qed.

Lemma tail_16_17 x v d d' : (do d <- when (v <? 16) up16 d; when (v <? 17) (up17 x) d) = Ok d' ->
  dget kvars d' = dget kvars d.
Proof.
  intros H. apply bind_ok in H. destruct H as (d16 & H16 & H17).
  rewrite (when_un _ _ kvars (up17_un x kvars ltac:(neq)) _ _ H17).
  now rewrite (when_un _ _ kvars (set_un (STR "compdb") _ kvars ltac:(neq)) _ _ H16).
Qed.

Lemma upgrade_split x v d d' : upgrade x v d = Ok d' ->
  exists d12 d13 d14 d15,
    (do d <- when (v <? 5) up5 d; do d <- when (v <? 6) (up6 x) d; do d <- when (v <? 7) up7 d;
     do d <- when (v <? 8) up8 d; do d <- when (v <? 9) up9 d; do d <- when (v <? 10) up10 d;
     do d <- when (v <? 11) up11 d; when (v <? 12) up12 d) = Ok d12 /\
    when (v <? 13) up13 d12 = Ok d13 /\ when (v <? 14) (up14 x) d13 = Ok d14 /\
    when (v <? 15) up15 d14 = Ok d15 /\
    (do d <- when (v <? 16) up16 d15; when (v <? 17) (up17 x) d) = Ok d'.
Proof.
  unfold upgrade. intros H.
  apply bind_ok in H. destruct H as (d5 & H5 & H). apply bind_ok in H. destruct H as (d6 & H6 & H).
  apply bind_ok in H. destruct H as (d7 & H7 & H). apply bind_ok in H. destruct H as (d8 & H8 & H).
  apply bind_ok in H. destruct H as (d9 & H9 & H). apply bind_ok in H. destruct H as (d10 & H10 & H).
  apply bind_ok in H. destruct H as (d11 & H11 & H). apply bind_ok in H. destruct H as (d12 & H12 & H).
  apply bind_ok in H. destruct H as (d13 & H13 & H). apply bind_ok in H. destruct H as (d14 & H14 & H).
  apply bind_ok in H. destruct H as (d15 & H15 & H).
  exists d12, d13, d14, d15. repeat split; try assumption.
  rewrite H5; cbn [bind]. rewrite H6; cbn [bind]. rewrite H7; cbn [bind]. rewrite H8; cbn [bind].
  rewrite H9; cbn [bind]. rewrite H10; cbn [bind]. rewrite H11; cbn [bind]. exact H12.
Qed.

(* documents older than v13 have one set of variables: it becomes both initial and current *)
Theorem upgrade_variables_old x v d d' vars :
  upgrade x v d = Ok d' -> v < 13 -> dget kvars d = Some vars ->
  dget kvars d' = Some (JObj [(STR "initial", vars); (STR "current", vars)]).
Proof.
  intros H Hv E. destruct (upgrade_split _ _ _ _ H) as (d12 & d13 & d14 & d15 & H12 & H13 & H14 & H15 & Ht).
  assert (B13 : (v <? 13) = true) by now apply N.ltb_lt.
  assert (B15 : (v <? 15) = true) by (apply N.ltb_lt; lia).
  rewrite B13 in H13. rewrite B15 in H15. cbn [when] in H13, H15.
  rewrite (tail_16_17 _ _ _ _ Ht).
  pose proof (chain_5_12 _ _ _ _ H12) as E12. rewrite E in E12.
  destruct (up13_spec _ _ _ H13 E12) as [Ev Ei].
  eapply up15_spec; [eassumption| |].
  - rewrite (when_un _ _ kivars (up14_un x kivars ltac:(apply not_in_conv; reflexivity)) _ _ H14). exact Ei.
  - rewrite (when_un _ _ kvars (up14_un x kvars ltac:(apply not_in_conv; reflexivity)) _ _ H14). exact Ev.
Qed.

(* v13 and v14 documents keep initial_variables / variables as initial / current *)
Theorem upgrade_variables_13_14 x v d d' i c :
  upgrade x v d = Ok d' -> 13 <= v -> v < 15 -> dget kivars d = Some i -> dget kvars d = Some c ->
  dget kvars d' = Some (JObj [(STR "initial", i); (STR "current", c)]).
Proof.
  intros H Hlo Hhi Ei Ec.
  destruct (upgrade_split _ _ _ _ H) as (d12 & d13 & d14 & d15 & H12 & H13 & H14 & H15 & Ht).
  assert (B : forall n, n <= 13 -> (v <? n) = false) by (intros n Hn; apply N.ltb_ge; lia).
  rewrite (B 5), (B 6), (B 7), (B 8), (B 9), (B 10), (B 11), (B 12) in H12 by lia. cbn in H12. inversion H12; subst d12.
  rewrite (B 13) in H13 by lia. cbn in H13. inversion H13; subst d13.
  assert (B15 : (v <? 15) = true) by now apply N.ltb_lt.
  rewrite B15 in H15. cbn [when] in H15.
  rewrite (tail_16_17 _ _ _ _ Ht).
  eapply up15_spec; [eassumption| |].
  - rewrite (when_un _ _ kivars (up14_un x kivars ltac:(apply not_in_conv; reflexivity)) _ _ H14). exact Ei.
  - rewrite (when_un _ _ kvars (up14_un x kvars ltac:(apply not_in_conv; reflexivity)) _ _ H14). exact Ec.
Qed.

(* from v15 on the variables entry is not touched; a v17 document is not touched at all *)
Theorem upgrade_variables_new x v d d' :
  upgrade x v d = Ok d' -> 15 <= v -> dget kvars d' = dget kvars d.
Proof.
  intros H Hlo.
  destruct (upgrade_split _ _ _ _ H) as (d12 & d13 & d14 & d15 & H12 & H13 & H14 & H15 & Ht).
  assert (B : forall n, n <= 15 -> (v <? n) = false) by (intros n Hn; apply N.ltb_ge; lia).
  rewrite (B 5), (B 6), (B 7), (B 8), (B 9), (B 10), (B 11), (B 12) in H12 by lia. cbn in H12. inversion H12; subst d12.
  rewrite (B 13) in H13 by lia. rewrite (B 14) in H14 by lia. rewrite (B 15) in H15 by lia.
  cbn in H13, H14, H15. inversion H13; inversion H14; inversion H15; subst.
  now rewrite (tail_16_17 _ _ _ _ Ht).
Qed.

Theorem upgrade_current x d : upgrade x 17 d = Ok d.
Proof. reflexivity. Qed.
