(* The exit status of a failed configure / regeneration (property C10): driver.py configure() and
   handle_reload_exception() return e.code for a ScriptExitError and 1 for every other exception; main() passes the
   value to sys.exit.  A failed run must end with a non-zero status: GNU Make and Ninja take status 0 as
   the regeneration step having succeeded. *)
From Coq Require Import NArith List Bool.
Local Open Scope N_scope.

(* the code carried by SystemExit / ScriptExitError: None, a non-negative integer, a text (empty or not) *)
Inductive ecode := CNone | CNum (n : N) | CText (nonempty : bool).

(* the exceptions that end a run: a script that called exit(code); an OSError with or without an errno
   (a failed system call has one; the FileNotFoundError of a failed tool lookup carries only a message); any other *)
Inductive exn := ScriptExit (c : ecode) | OsErr (errno : option N) | OtherExn.

(* the value the handler returns to main() *)
Inductive ret := RNone | RNum (n : N) | RText.

Definition handler_result (e : exn) : ret :=
  match e with
  | ScriptExit CNone => RNone
  | ScriptExit (CNum n) => RNum n
  | ScriptExit (CText _) => RText
  | OsErr _ => RNum 1
  | OtherExn => RNum 1
  end.

(* sys.exit(r) as the parent process sees it: None is 0, an integer is taken modulo 256, a text is printed and gives 1 *)
Definition process_status (r : ret) : N :=
  match r with RNone => 0 | RNum n => n mod 256 | RText => 1 end.

Definition exit_status (e : exn) : N := process_status (handler_result e).

(* build._execute_script turns SystemExit into ScriptExitError only for a truthy code *)
Definition truthy (c : ecode) : bool :=
  match c with CNone => false | CNum n => negb (n =? 0) | CText b => b end.

(* the exceptions a run can end with; exit codes are those of a process (below 256) *)
Definition raisable (e : exn) : bool :=
  match e with
  | ScriptExit c => truthy c && match c with CNum n => n <? 256 | _ => true end
  | _ => true
  end.
