From Coq Require Import NArith List Bool Lia.
From BFG Require Import State.ExitStatus.
Local Open Scope N_scope.

Lemma failed_run_exit_nonzero : forall e, raisable e = true -> exit_status e <> 0.
Proof.
  intros e H. destruct e as [c | o |]; unfold exit_status.
  - destruct c as [| n | b]; cbn [raisable truthy] in H.
    + discriminate H.
    + apply andb_true_iff in H. destruct H as [H1 H2].
      apply negb_true_iff in H1. apply N.eqb_neq in H1. apply N.ltb_lt in H2.
      cbn [handler_result process_status]. rewrite N.mod_small by exact H2. exact H1.
    + cbn [handler_result process_status]. discriminate.
  - cbn [handler_result process_status]. rewrite N.mod_small by lia. discriminate.
  - cbn [handler_result process_status]. rewrite N.mod_small by lia. discriminate.
Qed.

(* the status does not depend on what an OSError carries *)
Lemma oserror_status_one : forall errno, exit_status (OsErr errno) = 1.
Proof. intros. reflexivity. Qed.
