(* C08 - model of automatic regeneration: builtins/find.py (find_check_cache, find_from_filter with its
   cache-hit branch, FindCache, FindCacheFile.save, make_find_dirs), builtins/regenerate.py (_inputs, _outputs,
   make_regenerate_rule through multitarget_rule) and the lazy branch of driver.regenerate.

   Paths, filters and times are natural numbers (the harness interns path strings; times are st_mtime_ns).
   The directory search itself (glob matching and the pruned walk, property C11) is abstract: find t f is the
   traversal of the tree t for the filter f, as the list of reported paths with a flag (true = include,
   false = not_now, i.e. matched by extra only) in the order of the walk; seen t f are the directories walked. *)
From Coq Require Import NArith List Bool.
Import ListNotations.
Local Open Scope N_scope.

Definition path := N.
Definition filt := N.
Definition time := N.

Fixpoint lookup {V : Type} (k : N) (l : list (N * V)) : option V :=
  match l with
  | [] => None
  | (k', v) :: r => if N.eqb k k' then Some v else lookup k r
  end.

Definition memN (x : N) (l : list N) : bool := existsb (N.eqb x) l.

(* Python dict keyed by path / Python set, kept as a list in first-insertion order *)
Definition add_set (l : list N) (x : N) : list N := if memN x l then l else l ++ [x].
Definition union_set (l a : list N) : list N := fold_left add_set a l.

Fixpoint list_eqb (a b : list N) : bool :=
  match a, b with
  | [], [] => true
  | x :: a', y :: b' => N.eqb x y && list_eqb a' b'
  | _, _ => false
  end.

(* one find-like call of a script: find_files / directory(include=) / header_directory(include=) *)
Record call := { c_filt : filt; c_cached : bool; c_dist : bool }.

(* what the scripts say at present (a function of their contents): the scripts executed (regenerate inputs),
   the immediate files beside the build file (regenerate outputs: .pc files), the find-like calls in execution
   order, and an opaque token for everything else *)
Record conf := { cf_inputs : list path; cf_outs : list path; cf_calls : list call; cf_tok : N }.

Definition centry := (list path * list path)%type.          (* FindCacheEntry(found, extra) *)
Definition cache := list (filt * centry).                    (* FindCache._cache, insertion ordered *)

(* .bfg_find_cache; the file is absent (None) when no filter was cached *)
Record saved := { sv_inputs : list path; sv_outputs : list path; sv_cache : cache }.

(* abstract result of a configure: everything the writers get to see *)
Record result := {
  r_inputs : list path; r_outputs : list path;
  r_rets : list (list path);      (* what each call returned to the script *)
  r_dist : list path;             (* BuildInputs._sources in registration order *)
  r_cache : cache;                (* build['find_cache'] *)
  r_dirs : list path;             (* build['find_dirs'] *)
  r_tok : N }.

Definition bf : path := 0.        (* the build file (Makefile) *)
Definition stamp : path := 1.     (* Makefile.stamp *)
Definition cachef : path := 2.    (* .bfg_find_cache itself (its mtime is read by find_check_cache since the repair F1) *)

Definition outputs_of (cf : conf) : list path := bf :: cf_outs cf.

Definition incs (tr : list (path * bool)) : list path := map fst (filter (fun x => snd x) tr).
Definition exts (tr : list (path * bool)) : list path := map fst (filter (fun x => negb (snd x)) tr).

Definition reg (d : bool) (dist ps : list path) : list path := if d then union_set dist ps else dist.

Record st := { st_cache : cache; st_dirs : list path; st_dist : list path; st_rets : list (list path) }.

Inductive outcome := Skip (touched : list path) | Ran (r : result).

Definition maxl (l : list N) : N := fold_right N.max 0 l.
Definition minl (l : list N) : N := match l with [] => 0 | x :: r => fold_right N.min x r end.

Section Model.
  Variable tree : Type.
  Variable find : tree -> filt -> list (path * bool).
  Variable seen : tree -> filt -> list path.

  (* files and directories with their mtimes (absent = does not exist) *)
  Record world := { w_tree : tree; w_mt : list (path * time); w_conf : conf }.

  Definition entry (t : tree) (f : filt) : centry := (incs (find t f), exts (find t f)).

  (* find_from_filter as written. fx74 = true is the code after commit 491a34f (cached extra files are
     registered again on a hit), false the code before it. *)
  Definition step_call (fx74 : bool) (t : tree) (s : st) (c : call) : st :=
    match (if c_cached c then lookup (c_filt c) (st_cache s) else None) with
    | Some (found, extra) =>
        let d1 := if fx74 then reg (c_dist c) (st_dist s) extra else st_dist s in
        {| st_cache := st_cache s; st_dirs := st_dirs s;
           st_dist := reg (c_dist c) d1 found; st_rets := st_rets s ++ [found] |}
    | None =>
        let tr := find t (c_filt c) in
        {| st_cache := if c_cached c then st_cache s ++ [(c_filt c, (incs tr, exts tr))] else st_cache s;
           st_dirs := if c_cached c then union_set (st_dirs s) (seen t (c_filt c)) else st_dirs s;
           st_dist := reg (c_dist c) (st_dist s) (map fst tr);
           st_rets := st_rets s ++ [incs tr] |}
    end.

  Fixpoint run_calls (fx74 : bool) (t : tree) (s : st) (cs : list call) : st :=
    match cs with
    | [] => s
    | c :: r => run_calls fx74 t (step_call fx74 t s c) r
    end.

  (* the scripts run with the given pre-filled find cache / find dirs *)
  Definition run (fx74 : bool) (w : world) (c0 : cache) (d0 : list path) : result :=
    let s := run_calls fx74 (w_tree w) {| st_cache := c0; st_dirs := d0; st_dist := []; st_rets := [] |}
                       (cf_calls (w_conf w)) in
    {| r_inputs := cf_inputs (w_conf w); r_outputs := outputs_of (w_conf w);
       r_rets := st_rets s; r_dist := st_dist s; r_cache := st_cache s; r_dirs := st_dirs s;
       r_tok := cf_tok (w_conf w) |}.

  Definition fresh (fx74 : bool) (w : world) : result := run fx74 w [] [].

  (* getmtime_ns(strict=False): 0 for a missing file *)
  Definition mt (w : world) (p : path) : time := match lookup p (w_mt w) with Some t => t | None => 0 end.
  Definition exists_b (w : world) (p : path) : bool := match lookup p (w_mt w) with Some _ => true | None => false end.

  Definition inputs_newer (w : world) (s : saved) : bool :=
    minl (map (mt w) (sv_outputs s)) <? maxl (map (mt w) (sv_inputs s)).

  (* the loop of find_check_cache over the old cache: did any filter change, the pre-filled cache and dirs *)
  Definition entry_eqb (a b : centry) : bool := list_eqb (fst a) (fst b) && list_eqb (snd a) (snd b).
  Definition replay_changed (t : tree) (c : cache) : bool :=
    existsb (fun e => negb (entry_eqb (snd e) (entry t (fst e)))) c.
  Definition prefill (t : tree) (c : cache) : cache := map (fun e => (fst e, entry t (fst e))) c.
  Definition predirs (t : tree) (c : cache) : list path :=
    fold_left (fun acc e => union_set acc (seen t (fst e))) c [].

  (* F1 (find_check_cache, first test after loading the cache): the cache file is strictly newer than
     regen_files.outputs[0], the build file - a previous run saved the cache and died before it completed the build
     file.  RegenerateFiles always lists the build file first; an empty list (IndexError in Python) is never saved *)
  Definition first_output (s : saved) : path := match sv_outputs s with o :: _ => o | [] => bf end.
  Definition cache_newer (w : world) (s : saved) : bool := mt w (first_output s) <? mt w cachef.

  (* bfg9000 regenerate --lazy : find_check_cache followed (unless AbortConfigure) by the scripts.
     fxc = true is find_check_cache with F1, false the code before it. *)
  Definition lazy (fx74 fxc : bool) (w : world) (sv : option saved) : outcome :=
    match sv with
    | None => Ran (run fx74 w [] [])
    | Some s =>
        if fxc && cache_newer w s then Ran (run fx74 w [] [])
        else if inputs_newer w s then Ran (run fx74 w [] [])
        else if replay_changed (w_tree w) (sv_cache s)
             then Ran (run fx74 w (prefill (w_tree w) (sv_cache s)) (predirs (w_tree w) (sv_cache s)))
             else Skip (filter (exists_b w) (sv_outputs s))
    end.

  (* FindCacheFile.save *)
  Definition save (r : result) : option saved :=
    match r_cache r with
    | [] => None
    | _ => Some {| sv_inputs := r_inputs r; sv_outputs := r_outputs r; sv_cache := r_cache r |}
    end.

  (* ---- trigger side: the emitted regenerate rule and .bfg_find_deps, with the mtime rule of Make ----
     multitarget_rule: with more than one output the recipe hangs off Makefile.stamp.
     fx75 = true is make_find_dirs after commit df3cfcf (the depfile names the stamp then), false before it
     (the depfile always names the build file). *)
  Definition primary (r : result) : path := if (1 <? N.of_nat (length (r_outputs r))) then stamp else bf.
  Definition depfile_target (fx75 : bool) (r : result) : path := if fx75 then primary r else bf.
  (* prerequisites of the target that carries the recipe *)
  Definition step_deps (fx75 : bool) (r : result) : list path :=
    r_inputs r ++ (if N.eqb (depfile_target fx75 r) (primary r) then r_dirs r else []).

  (* a target is out of date iff it is missing, or a prerequisite is missing (watched directories have an
     empty rule, so a missing one counts as always remade) or strictly newer *)
  Definition ood (w : world) (target : path) (deps : list path) : bool :=
    match lookup target (w_mt w) with
    | None => true
    | Some tg => existsb (fun d => match lookup d (w_mt w) with None => true | Some td => tg <? td end) deps
    end.

  Definition regen_due (fx75 : bool) (r : result) (w : world) : bool := ood w (primary r) (step_deps fx75 r).

  (* ---- effect of the regeneration step on the mtimes, at clock value now ---- *)
  Fixpoint set_mt (m : list (path * time)) (p : path) (t : time) : list (path * time) :=
    match m with
    | [] => [(p, t)]
    | (q, u) :: r => if N.eqb p q then (q, t) :: r else (q, u) :: set_mt r p t
    end.
  Definition set_all (m : list (path * time)) (ps : list path) (t : time) := fold_left (fun a p => set_mt a p t) ps m.

  Definition with_mt (w : world) (m : list (path * time)) : world :=
    {| w_tree := w_tree w; w_mt := m; w_conf := w_conf w |}.

  (* a run that cached something saves .bfg_find_cache (before it writes the build file; one clock value per step,
     so both carry the same time in the model and F1, a strict comparison, trusts that cache) *)
  Definition cache_written (o : outcome) : list path :=
    match o with
    | Ran r => match r_cache r with [] => [] | _ => [cachef] end
    | Skip _ => []
    end.

  (* what the Make recipe leaves behind: bfg writes (Ran) or touches (Skip) the outputs, then, with a stamp,
     touch $@ *)
  Definition after_step (w : world) (o : outcome) (prim : path) (now : time) : world :=
    let written := (match o with Skip tl => tl | Ran r => r_outputs r end) ++ cache_written o in
    let m := set_all (w_mt w) written now in
    with_mt w (if N.eqb prim stamp then set_mt m stamp now else m).
End Model.

Arguments w_tree {tree}. Arguments w_mt {tree}. Arguments w_conf {tree}.
