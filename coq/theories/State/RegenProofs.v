(* C08 - proofs about the regeneration model of Regen.v *)
From Coq Require Import NArith List Bool Lia.
From BFG Require Import State.Regen.
Import ListNotations.
Local Open Scope N_scope.

(* ------------------------------------------------------------------ small facts *)
Lemma memN_In x l : memN x l = true <-> In x l.
Proof.
  unfold memN. rewrite existsb_exists. split.
  - intros [y [Hy He]]. apply N.eqb_eq in He. now subst.
  - intros H. exists x. split; [assumption|apply N.eqb_refl].
Qed.

Lemma memN_false x l : memN x l = false <-> ~ In x l.
Proof. rewrite <- memN_In. destruct (memN x l); split; congruence. Qed.

Lemma add_set_In p l x : In p (add_set l x) <-> In p l \/ p = x.
Proof.
  unfold add_set. destruct (memN x l) eqn:E.
  - apply memN_In in E. split; [auto|]. intros [H| ->]; assumption.
  - rewrite in_app_iff. cbn. split; intros [H|H]; auto. destruct H as [H|[]]; auto.
Qed.

Lemma union_set_In p a : forall l, In p (union_set l a) <-> In p l \/ In p a.
Proof.
  unfold union_set. induction a as [|x a IH]; intros l; cbn.
  - tauto.
  - rewrite IH, add_set_In. split; intros H; intuition auto.
Qed.

Lemma reg_In p d dist ps : In p (reg d dist ps) <-> In p dist \/ (d = true /\ In p ps).
Proof.
  unfold reg. destruct d.
  - rewrite union_set_In. tauto.
  - split; [auto|]. intros [H|[H _]]; [assumption|discriminate].
Qed.

Lemma list_eqb_eq a : forall b, list_eqb a b = true <-> a = b.
Proof.
  induction a as [|x a IH]; intros [|y b]; cbn; try (split; congruence).
  rewrite andb_true_iff, N.eqb_eq, IH. split; [intros [-> ->]; reflexivity|intros H; inversion H; auto].
Qed.

Lemma entry_eqb_eq (a b : centry) : entry_eqb a b = true <-> a = b.
Proof.
  unfold entry_eqb. destruct a as [a1 a2], b as [b1 b2]. cbn.
  rewrite andb_true_iff, !list_eqb_eq. split; [intros [-> ->]; reflexivity|intros H; inversion H; auto].
Qed.

Lemma lookup_app {V} k (a b : list (N * V)) :
  lookup k (a ++ b) = match lookup k a with Some v => Some v | None => lookup k b end.
Proof.
  induction a as [|[k' v] a IH]; cbn; [reflexivity|]. destruct (N.eqb k k'); [reflexivity|apply IH].
Qed.

Lemma lookup_None {V} k (l : list (N * V)) : lookup k l = None <-> ~ In k (map fst l).
Proof.
  induction l as [|[k' v] l IH]; cbn; [tauto|].
  destruct (N.eqb k k') eqn:E.
  - apply N.eqb_eq in E. subst. split; [discriminate|]. intros H. exfalso. apply H. now left.
  - apply N.eqb_neq in E. rewrite IH. split; intros H; [intros [H1|H1]; [congruence|auto]|auto].
Qed.

Lemma lookup_Some_In {V} k (l : list (N * V)) v : lookup k l = Some v -> In k (map fst l).
Proof.
  intros H. destruct (in_dec N.eq_dec k (map fst l)) as [Hi|Hn]; [assumption|].
  apply lookup_None in Hn. congruence.
Qed.

Lemma incs_exts_In p tr : In p (map fst tr) <-> In p (incs tr) \/ In p (exts tr).
Proof.
  unfold incs, exts. induction tr as [|[q b] tr IH]; cbn; [tauto|].
  destruct b; cbn; rewrite IH; tauto.
Qed.

(* ------------------------------------------------------------------ the script run *)
(* filters that a run adds to the cache, given the keys already present *)
Fixpoint new_keys (ks : list filt) (cs : list call) : list filt :=
  match cs with
  | [] => []
  | c :: r => if c_cached c && negb (memN (c_filt c) ks)
              then c_filt c :: new_keys (ks ++ [c_filt c]) r
              else new_keys ks r
  end.

Lemma new_keys_nil cs : forall ks,
  (forall c, In c cs -> c_cached c = true -> In (c_filt c) ks) -> new_keys ks cs = [].
Proof.
  induction cs as [|c cs IH]; intros ks H; cbn; [reflexivity|].
  destruct (c_cached c) eqn:Ec; cbn.
  - assert (Hm : memN (c_filt c) ks = true) by (apply memN_In, H; [now left|assumption]).
    rewrite Hm. cbn. apply IH. intros c' Hc'. apply H. now right.
  - apply IH. intros c' Hc'. apply H. now right.
Qed.

Lemma new_keys_complete cs : forall ks c,
  In c cs -> c_cached c = true -> In (c_filt c) (ks ++ new_keys ks cs).
Proof.
  induction cs as [|c0 cs IH]; intros ks c Hin Hc; [destruct Hin|].
  cbn. destruct Hin as [->|Hin].
  - rewrite Hc. cbn. destruct (memN (c_filt c) ks) eqn:Em; cbn.
    + apply memN_In in Em. apply in_app_iff. now left.
    + apply in_app_iff. right. now left.
  - destruct (c_cached c0 && negb (memN (c_filt c0) ks)) eqn:E.
    + specialize (IH (ks ++ [c_filt c0]) c Hin Hc). rewrite <- app_assoc in IH. exact IH.
    + apply IH; assumption.
Qed.

Section Proofs.
  Variable tree : Type.
  Variable find : tree -> filt -> list (path * bool).
  Variable seen : tree -> filt -> list path.
  (* find_check_cache with (true) or without (false) the repair F1; everything below holds for both *)
  Variable fxc : bool.

  Notation entry := (entry tree find).
  Notation step_call := (step_call tree find seen).
  Notation run_calls := (run_calls tree find seen).
  Notation run := (run tree find seen).
  Notation fresh := (fresh tree find seen).
  Notation lazy := (lazy tree find seen).
  Notation prefill := (prefill tree find).
  Notation predirs := (predirs tree seen).
  Notation replay_changed := (replay_changed tree find).
  Notation world := (world tree).

  Definition cache_ok (t : tree) (c : cache) : Prop := forall f e, lookup f c = Some e -> e = entry t f.
  Definition entryf (t : tree) (f : filt) : filt * centry := (f, entry t f).
  Definition dirs_of (t : tree) (d0 : list path) (ks : list filt) : list path :=
    fold_left (fun acc f => union_set acc (seen t f)) ks d0.

  Lemma run_calls_spec t cs : forall s,
    cache_ok t (st_cache s) ->
    let s' := run_calls true t s cs in
    cache_ok t (st_cache s') /\
    st_rets s' = st_rets s ++ map (fun c => incs (find t (c_filt c))) cs /\
    (forall p, In p (st_dist s') <->
               In p (st_dist s) \/ exists c, In c cs /\ c_dist c = true /\ In p (map fst (find t (c_filt c)))) /\
    st_cache s' = st_cache s ++ map (entryf t) (new_keys (map fst (st_cache s)) cs) /\
    st_dirs s' = dirs_of t (st_dirs s) (new_keys (map fst (st_cache s)) cs).
  Proof.
    induction cs as [|c cs IH]; intros s Hok.
    - cbn. rewrite !app_nil_r. repeat split; auto.
      + intros [H|[c [[] _]]]. assumption.
    - cbn [Regen.run_calls].
      assert (Hstep :
        cache_ok t (st_cache (step_call true t s c)) /\
        st_rets (step_call true t s c) = st_rets s ++ [incs (find t (c_filt c))] /\
        (forall p, In p (st_dist (step_call true t s c)) <->
                   In p (st_dist s) \/ (c_dist c = true /\ In p (map fst (find t (c_filt c))))) /\
        st_cache (step_call true t s c) =
          st_cache s ++ map (entryf t) (if c_cached c && negb (memN (c_filt c) (map fst (st_cache s)))
                                        then [c_filt c] else []) /\
        st_dirs (step_call true t s c) =
          dirs_of t (st_dirs s) (if c_cached c && negb (memN (c_filt c) (map fst (st_cache s)))
                                 then [c_filt c] else [])).
      { unfold Regen.step_call. destruct (c_cached c) eqn:Ec; cbn [andb].
        - destruct (lookup (c_filt c) (st_cache s)) as [[found extra]|] eqn:El.
          + pose proof (Hok _ _ El) as He. unfold Regen.entry in He. inversion He; subst found extra.
            assert (Hm : memN (c_filt c) (map fst (st_cache s)) = true)
              by (apply memN_In; eapply lookup_Some_In; eassumption).
            rewrite Hm. cbn. rewrite app_nil_r. repeat split; auto.
            * intros H. apply reg_In in H. destruct H as [H|[Hd H]].
              -- apply reg_In in H. destruct H as [H|[Hd H]]; [now left|].
                 right. split; [assumption|]. apply incs_exts_In. now right.
              -- right. split; [assumption|]. apply incs_exts_In. now left.
            * intros [H|[Hd H]]; apply reg_In.
              -- left. apply reg_In. now left.
              -- apply incs_exts_In in H. destruct H as [H|H].
                 ++ right. now split.
                 ++ left. apply reg_In. right. now split.
          + assert (Hm : memN (c_filt c) (map fst (st_cache s)) = false)
              by (apply memN_false; now apply lookup_None).
            rewrite Hm. cbn. repeat split; auto.
            * intros f e. rewrite lookup_app. destruct (lookup f (st_cache s)) eqn:E1.
              -- intros H. inversion H; subst. now apply Hok.
              -- cbn. destruct (N.eqb f (c_filt c)) eqn:E2; [|discriminate].
                 apply N.eqb_eq in E2. subst f. intros H. inversion H. reflexivity.
            * intros H. apply reg_In in H. exact H.
            * intros H. apply reg_In. exact H.
        - cbn. rewrite app_nil_r. repeat split; auto.
          + intros H. apply reg_In in H. exact H.
          + intros H. apply reg_In. exact H. }
      destruct Hstep as (H1 & H2 & H3 & H4 & H5).
      specialize (IH (step_call true t s c) H1). cbn zeta in IH.
      destruct IH as (I1 & I2 & I3 & I4 & I5).
      assert (Hk : map fst (st_cache (step_call true t s c)) =
                   map fst (st_cache s) ++ (if c_cached c && negb (memN (c_filt c) (map fst (st_cache s)))
                                            then [c_filt c] else [])).
      { rewrite H4, map_app. f_equal. destruct (c_cached c && negb (memN (c_filt c) (map fst (st_cache s)))); reflexivity. }
      cbn zeta. split; [exact I1|]. split; [|split; [|split]].
      + rewrite I2, H2, <- app_assoc. reflexivity.
      + intros p. rewrite I3, H3. split.
        * intros [[H|[Hd H]]|[c' [Hc' H]]].
          -- now left.
          -- right. exists c. split; [now left|now split].
          -- right. exists c'. split; [now right|exact H].
        * intros [H|[c' [[->|Hc'] H]]].
          -- left. now left.
          -- left. right. exact H.
          -- right. exists c'. now split.
      + rewrite I4, Hk, H4. cbn [new_keys].
        destruct (c_cached c && negb (memN (c_filt c) (map fst (st_cache s)))); cbn.
        * rewrite <- app_assoc. reflexivity.
        * rewrite !app_nil_r. reflexivity.
      + rewrite I5, Hk, H5. cbn [new_keys].
        destruct (c_cached c && negb (memN (c_filt c) (map fst (st_cache s)))); cbn.
        * reflexivity.
        * rewrite !app_nil_r. reflexivity.
  Qed.

  (* the run only looks at the tree through find and seen at the filters of its calls *)
  Lemma run_calls_ext fx t t' cs : forall s,
    (forall c, In c cs -> find t (c_filt c) = find t' (c_filt c) /\ seen t (c_filt c) = seen t' (c_filt c)) ->
    run_calls fx t s cs = run_calls fx t' s cs.
  Proof.
    induction cs as [|c cs IH]; intros s H; cbn; [reflexivity|].
    assert (Hs : step_call fx t s c = step_call fx t' s c).
    { unfold Regen.step_call. destruct (H c (or_introl eq_refl)) as [-> ->]. reflexivity. }
    rewrite Hs. apply IH. intros c' Hc'. apply H. now right.
  Qed.

  Lemma cache_ok_nil t : cache_ok t [].
  Proof. intros f e H. discriminate. Qed.

  Lemma cache_ok_prefill t c : cache_ok t (prefill t c).
  Proof.
    unfold Regen.prefill. induction c as [|[k v] c IH]; intros f e; cbn; [discriminate|].
    destruct (N.eqb f k) eqn:E.
    - apply N.eqb_eq in E. subst. intros H. inversion H. reflexivity.
    - apply IH.
  Qed.

  Lemma prefill_keys t c : map fst (prefill t c) = map fst c.
  Proof. unfold Regen.prefill. rewrite map_map. reflexivity. Qed.

  Lemma prefill_entryf t c : prefill t c = map (entryf t) (map fst c).
  Proof. unfold Regen.prefill. rewrite map_map. reflexivity. Qed.

  Lemma predirs_dirs_of t c : predirs t c = dirs_of t [] (map fst c).
  Proof.
    unfold Regen.predirs, dirs_of.
    assert (G : forall a : list path,
               fold_left (fun acc (e : filt * centry) => union_set acc (seen t (fst e))) c a =
               fold_left (fun acc f => union_set acc (seen t f)) (map fst c) a).
    { induction c as [|e c IH]; intros a; cbn; [reflexivity|]. apply IH. }
    apply G.
  Qed.

  (* ------------------------------------------------------------------ equality of results *)
  Definition set_eq (a b : list path) : Prop := forall p, In p a <-> In p b.

  (* everything except the watched directories; the dist list as a set *)
  Definition req (a b : result) : Prop :=
    r_inputs a = r_inputs b /\ r_outputs a = r_outputs b /\ r_rets a = r_rets b /\
    set_eq (r_dist a) (r_dist b) /\ r_cache a = r_cache b /\ r_tok a = r_tok b.
  Definition req_full (a b : result) : Prop := req a b /\ r_dirs a = r_dirs b.

  Lemma req_full_refl a : req_full a a.
  Proof. unfold req_full, req, set_eq. repeat split; auto. Qed.

  (* the recorded cache keys are those a run of the present scripts creates *)
  Definition coherent (w : world) (sv : option saved) : Prop :=
    forall s, sv = Some s -> inputs_newer tree w s = false ->
              map fst (sv_cache s) = new_keys [] (cf_calls (w_conf w)).

  Theorem noskip_eq_fresh : forall (w : world) sv r,
    coherent w sv -> lazy true fxc w sv = Ran r -> req_full r (fresh true w).
  Proof.
    intros w sv r Hcoh H. unfold Regen.lazy in H. destruct sv as [s|].
    2:{ inversion H. apply req_full_refl. }
    destruct (fxc && cache_newer tree w s).
    { inversion H. apply req_full_refl. }
    destruct (inputs_newer tree w s) eqn:En.
    { inversion H. apply req_full_refl. }
    destruct (replay_changed (w_tree w) (sv_cache s)) eqn:Er; [|discriminate].
    inversion H as [Hr]. clear H Hr.
    specialize (Hcoh s eq_refl En).
    unfold Regen.fresh, Regen.run.
    set (cs := cf_calls (w_conf w)) in *. set (t := w_tree w).
    pose proof (run_calls_spec t cs {| st_cache := prefill t (sv_cache s); st_dirs := predirs t (sv_cache s);
                                       st_dist := []; st_rets := [] |} (cache_ok_prefill t _)) as P.
    pose proof (run_calls_spec t cs {| st_cache := []; st_dirs := []; st_dist := []; st_rets := [] |}
                               (cache_ok_nil t)) as F.
    cbn zeta in P, F. cbn [st_cache st_dirs st_dist st_rets] in P, F.
    destruct P as (_ & P2 & P3 & P4 & P5). destruct F as (_ & F2 & F3 & F4 & F5).
    assert (Hnil : new_keys (map fst (prefill t (sv_cache s))) cs = []).
    { apply new_keys_nil. intros c Hc Hcc. rewrite prefill_keys, Hcoh.
      apply (new_keys_complete cs [] c Hc Hcc). }
    rewrite Hnil in P4, P5. cbn in P4, P5. rewrite app_nil_r in P4.
    cbn [map] in F4, F5. cbn [app] in F4.
    unfold req_full, req, set_eq. cbn [r_inputs r_outputs r_rets r_dist r_cache r_dirs r_tok].
    repeat split; auto.
    - rewrite P2, F2. reflexivity.
    - intros H. apply F3. apply P3 in H. exact H.
    - intros H. apply P3. apply F3 in H. exact H.
    - rewrite P4, F4, prefill_entryf, Hcoh. reflexivity.
    - rewrite P5, F5. unfold dirs_of at 1. cbn [fold_left]. rewrite predirs_dirs_of, Hcoh. reflexivity.
  Qed.

  (* what a fresh run produces, in closed form *)
  Lemma fresh_spec (w : world) :
    let t := w_tree w in let cs := cf_calls (w_conf w) in
    r_rets (fresh true w) = map (fun c => incs (find t (c_filt c))) cs /\
    (forall p, In p (r_dist (fresh true w)) <->
               exists c, In c cs /\ c_dist c = true /\ In p (map fst (find t (c_filt c)))) /\
    r_cache (fresh true w) = map (entryf t) (new_keys [] cs) /\
    r_dirs (fresh true w) = dirs_of t [] (new_keys [] cs).
  Proof.
    cbn zeta. unfold Regen.fresh, Regen.run. cbn [r_rets r_dist r_cache r_dirs].
    pose proof (run_calls_spec (w_tree w) (cf_calls (w_conf w))
                  {| st_cache := []; st_dirs := []; st_dist := []; st_rets := [] |} (cache_ok_nil _)) as F.
    cbn zeta in F. cbn [st_cache st_dirs st_dist st_rets map app] in F.
    destruct F as (_ & F2 & F3 & F4 & F5). repeat split; auto.
    - intros H. apply F3 in H. destruct H as [[]|H]. exact H.
    - intros H. apply F3. now right.
  Qed.

  Lemma existsb_false_forall {A} (f : A -> bool) l : existsb f l = false -> forall x, In x l -> f x = false.
  Proof.
    intros H x Hx. destruct (f x) eqn:E; [|reflexivity].
    assert (existsb f l = true) by (apply existsb_exists; exists x; auto). congruence.
  Qed.

  Theorem skip_sound : forall (w0 w : world) s tl,
    save (fresh true w0) = Some s ->
    (inputs_newer tree w s = false -> w_conf w = w_conf w0) ->
    forallb c_cached (cf_calls (w_conf w)) = true ->
    lazy true fxc w (Some s) = Skip tl ->
    req (fresh true w) (fresh true w0).
  Proof.
    intros w0 w s tl Hsave Hconf Hall H. unfold Regen.lazy in H.
    destruct (fxc && cache_newer tree w s); [discriminate|].
    destruct (inputs_newer tree w s) eqn:En; [discriminate|].
    destruct (replay_changed (w_tree w) (sv_cache s)) eqn:Er; [discriminate|].
    specialize (Hconf eq_refl).
    assert (Hsc : sv_cache s = r_cache (fresh true w0)).
    { unfold Regen.save in Hsave. destruct (r_cache (fresh true w0)) eqn:E; [discriminate|].
      inversion Hsave. reflexivity. }
    destruct (fresh_spec w0) as (A2 & A3 & A4 & A5). destruct (fresh_spec w) as (B2 & B3 & B4 & B5).
    cbn zeta in *. rewrite Hconf in *. set (cs := cf_calls (w_conf w0)) in *.
    (* every filter of the scripts has the same entry in both trees *)
    assert (Hent : forall c, In c cs -> entry (w_tree w) (c_filt c) = entry (w_tree w0) (c_filt c)).
    { intros c Hc. rewrite forallb_forall in Hall. specialize (Hall c Hc).
      pose proof (new_keys_complete cs [] c Hc Hall) as Hk. cbn [app] in Hk.
      unfold Regen.replay_changed in Er.
      pose proof (existsb_false_forall _ _ Er (entryf (w_tree w0) (c_filt c))) as He.
      rewrite Hsc, A4 in He. specialize (He (in_map _ _ _ Hk)). cbn in He.
      apply negb_false_iff, entry_eqb_eq in He. symmetry. exact He. }
    assert (Hinc : forall c, In c cs -> incs (find (w_tree w) (c_filt c)) = incs (find (w_tree w0) (c_filt c))).
    { intros c Hc. specialize (Hent c Hc). unfold Regen.entry in Hent. inversion Hent. reflexivity. }
    assert (Hext : forall c, In c cs -> exts (find (w_tree w) (c_filt c)) = exts (find (w_tree w0) (c_filt c))).
    { intros c Hc. specialize (Hent c Hc). unfold Regen.entry in Hent. inversion Hent. reflexivity. }
    unfold req, set_eq. repeat split.
    - unfold Regen.fresh, Regen.run. cbn. now rewrite Hconf.
    - unfold Regen.fresh, Regen.run. cbn. now rewrite Hconf.
    - rewrite A2, B2. apply map_ext_in. exact Hinc.
    - intros Hp. apply A3. apply B3 in Hp. destruct Hp as [c [Hc [Hd Hp]]]. exists c. split; [exact Hc|split; [exact Hd|]].
      apply incs_exts_In. apply incs_exts_In in Hp. rewrite <- (Hinc c Hc), <- (Hext c Hc). exact Hp.
    - intros Hp. apply B3. apply A3 in Hp. destruct Hp as [c [Hc [Hd Hp]]]. exists c. split; [exact Hc|split; [exact Hd|]].
      apply incs_exts_In. apply incs_exts_In in Hp. rewrite (Hinc c Hc), (Hext c Hc). exact Hp.
    - rewrite A4, B4. apply map_ext_in. intros f Hf. unfold entryf. f_equal.
      (* f is the filter of some cached call *)
      assert (Hex : exists c, In c cs /\ c_filt c = f).
      { clear - Hf. revert Hf. generalize (@nil filt). induction cs as [|c cs' IH]; intros ks Hf; [destruct Hf|].
        cbn in Hf. destruct (c_cached c && negb (memN (c_filt c) ks)).
        - destruct Hf as [Hf|Hf]; [exists c; split; [now left|exact Hf]|].
          destruct (IH _ Hf) as [c' [Hc' He]]. exists c'. split; [now right|exact He].
        - destruct (IH _ Hf) as [c' [Hc' He]]. exists c'. split; [now right|exact He]. }
      destruct Hex as [c [Hc <-]]. apply Hent. exact Hc.
    - unfold Regen.fresh, Regen.run. cbn. now rewrite Hconf.
  Qed.

  (* ------------------------------------------------------------------ trigger *)
  (* the prerequisite exists and is not newer than the (existing) target *)
  Definition quiet_dep (w : world) (target d : path) : Prop :=
    exists tg td, lookup target (w_mt w) = Some tg /\ lookup d (w_mt w) = Some td /\ td <= tg.

  Lemma ood_false (w : world) target deps :
    ood tree w target deps = false -> forall d, In d deps -> quiet_dep w target d.
  Proof.
    unfold Regen.ood. destruct (lookup target (w_mt w)) as [tg|] eqn:Et; [|discriminate].
    intros H d Hd. pose proof (existsb_false_forall _ _ H d Hd) as Hf. cbn in Hf.
    destruct (lookup d (w_mt w)) as [td|] eqn:Ed; [|discriminate].
    exists tg, td. repeat split; auto. apply N.ltb_ge in Hf. exact Hf.
  Qed.

  Lemma dirs_of_incl t ks : forall d0 f p, In f ks -> In p (seen t f) -> In p (dirs_of t d0 ks).
  Proof.
    unfold dirs_of. induction ks as [|k ks IH]; intros d0 f p Hf Hp; [destruct Hf|]. cbn.
    destruct Hf as [->|Hf].
    - assert (Hin : In p (union_set d0 (seen t f))) by (apply union_set_In; now right).
      clear - Hin. revert Hin. generalize (union_set d0 (seen t f)). induction ks as [|k ks IH]; intros a Ha; cbn; [exact Ha|].
      apply IH. apply union_set_In. now left.
    - eapply IH; eassumption.
  Qed.

  (* If the step is not due then nothing that a configure looks at has changed.  Hypotheses on the edit:
     scripts that are not newer than the target carrying the recipe are unchanged (strictly increasing clock), and a
     walk all of whose directories still exist and are not newer gives the same answer (directory mtimes). *)
  Theorem trigger_complete : forall (w0 w : world) r0,
    req_full r0 (fresh true w0) ->
    forallb c_cached (cf_calls (w_conf w0)) = true ->
    ((forall p, In p (cf_inputs (w_conf w0)) -> quiet_dep w (primary r0) p) -> w_conf w = w_conf w0) ->
    (forall f, (forall d, In d (seen (w_tree w0) f) -> quiet_dep w (primary r0) d) ->
               find (w_tree w) f = find (w_tree w0) f /\ seen (w_tree w) f = seen (w_tree w0) f) ->
    fresh true w <> fresh true w0 -> regen_due tree true r0 w = true.
  Proof.
    intros w0 w r0 [Hreq Hdirs] Hall Hscripts Hwalk Hne.
    destruct (regen_due tree true r0 w) eqn:Ed; [reflexivity|]. exfalso. apply Hne.
    unfold Regen.regen_due in Ed. pose proof (ood_false _ _ _ Ed) as Hq.
    unfold Regen.step_deps, Regen.depfile_target in Hq. rewrite N.eqb_refl in Hq.
    destruct Hreq as (Hin & _).
    assert (Hc : w_conf w = w_conf w0).
    { apply Hscripts. intros p Hp. apply Hq. apply in_app_iff. left. rewrite Hin.
      unfold Regen.fresh, Regen.run. cbn. exact Hp. }
    assert (E : forall s, run_calls true (w_tree w) s (cf_calls (w_conf w0)) =
                          run_calls true (w_tree w0) s (cf_calls (w_conf w0))).
    { intros s. apply run_calls_ext. intros c Hcin. apply Hwalk. intros d Hd. apply Hq. apply in_app_iff. right.
      rewrite Hdirs. destruct (fresh_spec w0) as (_ & _ & _ & A5). cbn zeta in A5. rewrite A5.
      rewrite forallb_forall in Hall.
      pose proof (new_keys_complete (cf_calls (w_conf w0)) [] c Hcin (Hall c Hcin)) as Hk. cbn [app] in Hk.
      eapply dirs_of_incl; eassumption. }
    unfold Regen.fresh, Regen.run. rewrite Hc, E. reflexivity.
  Qed.

  (* ------------------------------------------------------------------ convergence *)
  Lemma lookup_set_mt m : forall p q t, lookup p (set_mt m q t) = if N.eqb p q then Some t else lookup p m.
  Proof.
    induction m as [|[k v] m IH]; intros p q t; cbn.
    - destruct (N.eqb p q); reflexivity.
    - destruct (N.eqb q k) eqn:E1; cbn.
      + apply N.eqb_eq in E1. subst k. destruct (N.eqb p q); reflexivity.
      + destruct (N.eqb p k) eqn:E2.
        * apply N.eqb_eq in E2. subst k. destruct (N.eqb p q) eqn:E3; [|reflexivity].
          apply N.eqb_eq in E3. subst. rewrite N.eqb_refl in E1. discriminate.
        * apply IH.
  Qed.

  Lemma lookup_set_all ps : forall m p t,
    lookup p (set_all m ps t) = if memN p ps then Some t else lookup p m.
  Proof.
    unfold set_all. induction ps as [|q ps IH]; intros m p t; cbn; [reflexivity|].
    rewrite IH, lookup_set_mt. destruct (N.eqb p q) eqn:E; cbn.
    - destruct (memN p ps); reflexivity.
    - reflexivity.
  Qed.

  Definition written (o : outcome) : list path := match o with Skip tl => tl | Ran r => r_outputs r end.
  Definition stamped (o : outcome) : list path := written o ++ cache_written o.

  (* the mtimes after the step: now for everything written or touched, unchanged otherwise *)
  Lemma lookup_after_step (w : world) o prim now p :
    lookup p (w_mt (after_step tree w o prim now)) =
    if (N.eqb prim stamp && N.eqb p stamp) || memN p (stamped o) then Some now else lookup p (w_mt w).
  Proof.
    unfold Regen.after_step. cbn [w_mt with_mt]. fold (written o). fold (stamped o).
    destruct (N.eqb prim stamp) eqn:E; cbn.
    - rewrite lookup_set_mt, lookup_set_all. destruct (N.eqb p stamp); reflexivity.
    - apply lookup_set_all.
  Qed.

  Lemma memN_app x a b : memN x (a ++ b) = memN x a || memN x b.
  Proof. unfold memN. apply existsb_app. Qed.

  Theorem converges : forall fx75 (w : world) o r now,
    (forall p t, lookup p (w_mt w) = Some t -> t < now) ->
    (forall d, In d (step_deps fx75 r) -> exists_b tree w d = true) ->
    (primary r = stamp \/ In (primary r) (written o)) ->
    regen_due tree fx75 r (after_step tree w o (primary r) now) = false.
  Proof.
    intros fx75 w o r now Hclock Hdeps Hprim.
    unfold Regen.regen_due, Regen.ood.
    pose proof (lookup_after_step w o (primary r) now) as Hl.
    rewrite Hl.
    assert (Hp : (N.eqb (primary r) stamp && N.eqb (primary r) stamp) || memN (primary r) (stamped o) = true).
    { destruct Hprim as [H|H].
      - rewrite H. reflexivity.
      - apply memN_In in H. unfold stamped. rewrite memN_app, H. cbn. apply orb_true_r. }
    rewrite Hp.
    match goal with |- existsb ?f ?l = false => destruct (existsb f l) eqn:Ex end; [|reflexivity]. exfalso.
    apply existsb_exists in Ex. destruct Ex as [d [Hd Hx]]. rewrite Hl in Hx.
    destruct ((N.eqb (primary r) stamp && N.eqb d stamp) || memN d (stamped o)).
    - apply N.ltb_lt in Hx. lia.
    - specialize (Hdeps d Hd). unfold Regen.exists_b in Hdeps.
      destruct (lookup d (w_mt w)) as [td|] eqn:El; [|discriminate].
      apply N.ltb_lt in Hx. specialize (Hclock d td El). lia.
  Qed.

  Corollary converges_ran : forall fx75 (w : world) sv r now,
    lazy true fxc w sv = Ran r ->
    (forall p t, lookup p (w_mt w) = Some t -> t < now) ->
    (forall d, In d (step_deps fx75 r) -> exists_b tree w d = true) ->
    regen_due tree fx75 r (after_step tree w (Ran r) (primary r) now) = false.
  Proof.
    intros fx75 w sv r now Hl Hc Hd. apply converges; auto.
    unfold Regen.primary. destruct (1 <? N.of_nat (length (r_outputs r))); [now left|right].
    cbn. unfold Regen.lazy in Hl.
    assert (Ho : forall c d, r_outputs (run true w c d) = bf :: cf_outs (w_conf w)) by reflexivity.
    destruct sv as [s|].
    - destruct (fxc && cache_newer tree w s); [inversion Hl; rewrite Ho; now left|].
      destruct (inputs_newer tree w s).
      + inversion Hl. rewrite Ho. now left.
      + destruct (replay_changed (w_tree w) (sv_cache s)); [|discriminate]. inversion Hl. rewrite Ho. now left.
    - inversion Hl. rewrite Ho. now left.
  Qed.

  (* F1 cannot make the step run for ever: after a step (Ran: the build file is written after the cache; Skip: the
     outputs are touched) at a clock value beyond every mtime the cache is not newer than the first output, so the
     next find_check_cache trusts it.  The comparison is strict: equal timestamps (one clock value per step in the
     model; coarse file-system timestamps in reality) count as not newer. *)
  Theorem cache_trusted_after_step : forall (w : world) o prim now s,
    (forall p t, lookup p (w_mt w) = Some t -> t < now) ->
    In (first_output s) (written o) ->
    cache_newer tree (after_step tree w o prim now) s = false.
  Proof.
    intros w o prim now s Hclock Hin. unfold Regen.cache_newer, Regen.mt.
    rewrite !lookup_after_step.
    assert (Hm : memN (first_output s) (stamped o) = true).
    { unfold stamped. rewrite memN_app. apply memN_In in Hin. rewrite Hin. reflexivity. }
    rewrite Hm, orb_true_r. apply N.ltb_ge.
    destruct ((N.eqb prim stamp && N.eqb cachef stamp) || memN cachef (stamped o)); [lia|].
    destruct (lookup cachef (w_mt w)) as [t|] eqn:El; [|lia].
    specialize (Hclock _ _ El). lia.
  Qed.

  (* the new branch of find_check_cache gives exactly a fresh configure *)
  Theorem newer_cache_reruns : forall (w : world) s,
    cache_newer tree w s = true -> lazy true true w (Some s) = Ran (fresh true w).
  Proof. intros w s H. unfold Regen.lazy. rewrite H. reflexivity. Qed.

  (* ------------------------------------------------------------------ histories *)
  (* the persistent state between makes: the world, .bfg_find_cache, and the result the build files on disk
     were written from *)
  Record state := { s_w : world; s_sv : option saved; s_emit : result }.

  (* one make: the regeneration recipe runs iff its target is out of date *)
  Definition regen_step (s : state) (now : time) : state :=
    if regen_due tree true (s_emit s) (s_w s) then
      match lazy true fxc (s_w s) (s_sv s) with
      | Ran r => {| s_w := after_step tree (s_w s) (Ran r) (primary r) now; s_sv := save r; s_emit := r |}
      | Skip tl => {| s_w := after_step tree (s_w s) (Skip tl) (primary (s_emit s)) now;
                      s_sv := s_sv s; s_emit := s_emit s |}
      end
    else s.

  Definition all_cached (w : world) : Prop := forallb c_cached (cf_calls (w_conf w)) = true.

  (* the build files on disk are those of a fresh configure of the present world *)
  Definition good (s : state) : Prop :=
    req_full (s_emit s) (fresh true (s_w s)) /\ s_sv s = save (s_emit s) /\ all_cached (s_w s).

  (* what an edit (the step from the world of s to w') has to respect: scripts keep their meaning unless their mtime
     moved past the outputs / the target; walks whose directories kept their mtimes give the same answer; and, because
     a skipped regeneration does not rewrite .bfg_find_deps, a skip must not coincide with a change of the set of walked
     directories (this last guard is necessary: skip_dirs_refuted) *)
  Definition edit_ok (s : state) (w' : world) : Prop :=
    all_cached w' /\
    (forall s0, s_sv s = Some s0 -> inputs_newer tree w' s0 = false -> w_conf w' = w_conf (s_w s)) /\
    ((forall p, In p (cf_inputs (w_conf (s_w s))) -> quiet_dep w' (primary (s_emit s)) p) ->
     w_conf w' = w_conf (s_w s)) /\
    (forall f, (forall d, In d (seen (w_tree (s_w s)) f) -> quiet_dep w' (primary (s_emit s)) d) ->
               find (w_tree w') f = find (w_tree (s_w s)) f /\ seen (w_tree w') f = seen (w_tree (s_w s)) f) /\
    (forall tl, lazy true fxc w' (s_sv s) = Skip tl -> r_dirs (fresh true w') = r_dirs (fresh true (s_w s))).

  Inductive reach : state -> Prop :=
  | reach_init : forall w, all_cached w ->
      reach {| s_w := w; s_sv := save (fresh true w); s_emit := fresh true w |}
  | reach_step : forall s w' now, reach s -> edit_ok s w' ->
      reach (regen_step {| s_w := w'; s_sv := s_sv s; s_emit := s_emit s |} now).

  Lemma result_eq_dec : forall a b : result, {a = b} + {a <> b}.
  Proof. repeat decide equality. Qed.

  Lemma set_eq_sym a b : set_eq a b -> set_eq b a.
  Proof. intros H p. symmetry. apply H. Qed.
  Lemma set_eq_trans a b c : set_eq a b -> set_eq b c -> set_eq a c.
  Proof. intros H1 H2 p. rewrite (H1 p). apply H2. Qed.

  Lemma req_full_sym a b : req_full a b -> req_full b a.
  Proof.
    intros [(H1 & H2 & H3 & H4 & H5 & H6) H7]. unfold req_full, req. repeat split; auto using set_eq_sym; try (apply H4).
  Qed.
  Lemma req_full_trans a b c : req_full a b -> req_full b c -> req_full a c.
  Proof.
    intros [(H1 & H2 & H3 & H4 & H5 & H6) H7] [(G1 & G2 & G3 & G4 & G5 & G6) G7]. unfold req_full, req.
    repeat split; try congruence; try (apply (set_eq_trans _ _ _ H4 G4)).
  Qed.

  Lemma save_req a b : req a b -> save a = save b.
  Proof. intros (H1 & H2 & _ & _ & H5 & _). unfold Regen.save. rewrite H1, H2, H5. reflexivity. Qed.

  Lemma fresh_mt (w : world) m : fresh true (with_mt tree w m) = fresh true w.
  Proof. reflexivity. Qed.

  Lemma after_step_fresh (w : world) o p now : fresh true (after_step tree w o p now) = fresh true w.
  Proof. reflexivity. Qed.

  Lemma all_cached_after (w : world) o p now : all_cached w -> all_cached (after_step tree w o p now).
  Proof. intros H. exact H. Qed.

  Lemma map_fst_entryf t l : map fst (map (entryf t) l) = l.
  Proof. rewrite map_map. cbn. apply map_id. Qed.

  Lemma good_step s w' now :
    good s -> edit_ok s w' -> good (regen_step {| s_w := w'; s_sv := s_sv s; s_emit := s_emit s |} now).
  Proof.
    intros (Hreq & Hsv & Hall) (E2 & E1 & Hscripts & Hwalk & E4).
    unfold regen_step. cbn [s_w s_sv s_emit].
    destruct (regen_due tree true (s_emit s) w') eqn:Edue.
    - destruct (lazy true fxc w' (s_sv s)) as [tl|r] eqn:El.
      + (* Skip *)
        unfold good. cbn [s_w s_sv s_emit]. rewrite after_step_fresh. split; [|split; [exact Hsv|exact E2]].
        destruct (s_sv s) as [s0|] eqn:Es; [|cbn in El; discriminate].
        assert (Hs0 : save (fresh true (s_w s)) = Some s0).
        { rewrite <- (save_req _ _ (proj1 Hreq)). congruence. }
        pose proof (skip_sound (s_w s) w' s0 tl Hs0 (E1 s0 eq_refl) E2 El) as Hr.
        apply (req_full_trans _ (fresh true (s_w s))); [exact Hreq|].
        apply req_full_sym. split; [exact Hr|]. apply (E4 tl eq_refl).
      + (* Ran *)
        unfold good. cbn [s_w s_sv s_emit]. rewrite after_step_fresh. split; [|split; [reflexivity|exact E2]].
        apply (noskip_eq_fresh w' (s_sv s) r); [|exact El].
        intros s0 Hs0 Hn. rewrite (E1 s0 Hs0 Hn).
        rewrite Hsv in Hs0. unfold Regen.save in Hs0. destruct (r_cache (s_emit s)) eqn:Ec; [discriminate|].
        inversion Hs0. cbn [sv_cache]. rewrite <- Ec.
        destruct Hreq as [(_ & _ & _ & _ & H5 & _) _]. rewrite H5.
        destruct (fresh_spec (s_w s)) as (_ & _ & A4 & _). cbn zeta in A4. rewrite A4. apply map_fst_entryf.
    - (* the step is not due: nothing a configure looks at changed *)
      unfold good. cbn [s_w s_sv s_emit]. split; [|split; [exact Hsv|exact E2]].
      destruct (result_eq_dec (fresh true w') (fresh true (s_w s))) as [He|Hne].
      + rewrite He. exact Hreq.
      + pose proof (trigger_complete (s_w s) w' (s_emit s) Hreq Hall Hscripts Hwalk Hne) as Ht. congruence.
  Qed.

  Theorem history : forall s, reach s -> good s.
  Proof.
    intros s H. induction H as [w Hw|s w' now _ IH He].
    - unfold good. cbn. split; [apply req_full_refl|]. split; [reflexivity|exact Hw].
    - apply good_step; assumption.
  Qed.

  (* a run that cached no search leaves no .bfg_find_cache (FindCacheFile.save removes it), so no state of an earlier,
     searching, version of the scripts can make a later lazy regeneration skip: whatever the world has become, the
     scripts are run and the result is that of a fresh configure *)
  Theorem nothing_cached_never_skips : forall (r : result) (w : world),
    r_cache r = [] -> lazy true fxc w (save r) = Ran (fresh true w).
  Proof. intros r w H. unfold Regen.save. rewrite H. reflexivity. Qed.

  (* ... and a configuration without a cached call caches nothing, whatever was pre-filled from an old cache file is
     irrelevant to what gets saved only when nothing was pre-filled: the fresh run *)
  Lemma run_calls_uncached_cache t cs : forall s,
    forallb (fun c => negb (c_cached c)) cs = true -> st_cache (run_calls true t s cs) = st_cache s.
  Proof.
    induction cs as [|c cs IH]; intros s H; [reflexivity|].
    cbn in H. apply andb_true_iff in H. destruct H as [Hc Hr].
    cbn [Regen.run_calls]. rewrite (IH _ Hr). unfold Regen.step_call.
    apply negb_true_iff in Hc. rewrite Hc. reflexivity.
  Qed.

  Theorem no_cached_call_no_cache_file : forall (w : world),
    forallb (fun c => negb (c_cached c)) (cf_calls (w_conf w)) = true -> save (fresh true w) = None.
  Proof.
    intros w H. unfold Regen.save, Regen.fresh, Regen.run. cbn [r_cache].
    rewrite (run_calls_uncached_cache _ _ _ H). reflexivity.
  Qed.
End Proofs.

(* ------------------------------------------------------------------ concrete worlds (witnesses, non-vacuity) *)
Module Wit.
  (* the tree is a boolean: false = before the edit, true = after it *)
  Definition cf1 (outs : list path) : conf :=
    {| cf_inputs := [4]; cf_outs := outs; cf_calls := [{| c_filt := 7; c_cached := true; c_dist := true |}]; cf_tok := 0 |}.
  Definition mk (t : bool) (m : list (path * time)) (outs : list path) : world bool :=
    {| w_tree := t; w_mt := m; w_conf := cf1 outs |}.

  (* a file 12 appears beside 10 (included) and 11 (extra) in directory 5 *)
  Definition findA (t : bool) (f : filt) : list (path * bool) :=
    if t then [(10, true); (11, false); (12, true)] else [(10, true); (11, false)].
  Definition seenA (t : bool) (f : filt) : list path := [5].
  Definition mtA : list (path * time) := [(0, 10); (4, 3); (5, 20)].
  Definition svA : option saved := save (fresh bool findA seenA true (mk false mtA [])).

  Lemma cohA : coherent bool (mk true mtA []) svA.
  Proof. intros s Hs Hn. vm_compute in Hs. inversion Hs; subst. reflexivity. Qed.

  (* a directory 6 appears (seenB) or disappears (seenC) without changing any result *)
  Definition findB (t : bool) (f : filt) : list (path * bool) := [(10, true)].
  Definition seenB (t : bool) (f : filt) : list path := if t then [5; 6] else [5].
  Definition seenC (t : bool) (f : filt) : list path := if t then [5] else [5; 6].
  Definition mtB : list (path * time) := [(0, 30); (4, 3); (5, 40); (6, 40)].
  Definition mtC : list (path * time) := [(0, 30); (4, 3); (5, 40)].
End Wit.

Lemma noskip_eq_fresh_refuted : forall fxc,
  exists (tree : Type) find seen (w : world tree) sv r,
    coherent tree w sv /\ lazy tree find seen false fxc w sv = Ran r /\
    ~ set_eq (r_dist r) (r_dist (fresh tree find seen false w)).
Proof.
  intros fxc. exists bool, Wit.findA, Wit.seenA, (Wit.mk true Wit.mtA []), Wit.svA.
  eexists. split; [exact Wit.cohA|]. split; [destruct fxc; vm_compute; reflexivity|].
  intros H. destruct (H 11) as [_ H2].
  assert (Hin : In 11 (r_dist (fresh bool Wit.findA Wit.seenA false (Wit.mk true Wit.mtA [])))) by (vm_compute; auto).
  specialize (H2 Hin). vm_compute in H2.
  repeat (destruct H2 as [H2|H2]; [discriminate|]). destruct H2.
Qed.

Lemma noskip_dist_order_refuted : forall fxc,
  exists (tree : Type) find seen (w : world tree) sv r,
    coherent tree w sv /\ lazy tree find seen true fxc w sv = Ran r /\
    r_dist r <> r_dist (fresh tree find seen true w).
Proof.
  intros fxc. exists bool, Wit.findA, Wit.seenA, (Wit.mk true Wit.mtA []), Wit.svA.
  eexists. split; [exact Wit.cohA|]. split; [destruct fxc; vm_compute; reflexivity|]. vm_compute. discriminate.
Qed.

Lemma skip_dirs_refuted : forall fxc,
  exists (tree : Type) find seen (w0 w : world tree) s tl,
    save (fresh tree find seen true w0) = Some s /\
    (inputs_newer tree w s = false -> w_conf w = w_conf w0) /\
    forallb c_cached (cf_calls (w_conf w)) = true /\
    lazy tree find seen true fxc w (Some s) = Skip tl /\
    ~ set_eq (r_dirs (fresh tree find seen true w)) (r_dirs (fresh tree find seen true w0)).
Proof.
  intros fxc. exists bool, Wit.findB, Wit.seenB, (Wit.mk false Wit.mtB []), (Wit.mk true Wit.mtB []).
  eexists. eexists. split; [vm_compute; reflexivity|]. split; [reflexivity|]. split; [reflexivity|].
  split; [destruct fxc; vm_compute; reflexivity|].
  intros H. destruct (H 6) as [H2 _].
  assert (Hin : In 6 (r_dirs (fresh bool Wit.findB Wit.seenB true (Wit.mk true Wit.mtB [])))) by (vm_compute; auto).
  specialize (H2 Hin). vm_compute in H2.
  repeat (destruct H2 as [H2|H2]; [discriminate|]). destruct H2.
Qed.

Lemma trigger_refuted :
  exists (tree : Type) (find : tree -> filt -> list (path * bool)) (seen : tree -> filt -> list path)
         (w0 w : world tree) r0,
    req_full r0 (fresh tree find seen true w0) /\
    forallb c_cached (cf_calls (w_conf w0)) = true /\
    ((forall p, In p (cf_inputs (w_conf w0)) -> quiet_dep tree w (primary r0) p) -> w_conf w = w_conf w0) /\
    (forall f, (forall d, In d (seen (w_tree w0) f) -> quiet_dep tree w (primary r0) d) ->
               find (w_tree w) f = find (w_tree w0) f /\ seen (w_tree w) f = seen (w_tree w0) f) /\
    fresh tree find seen true w <> fresh tree find seen true w0 /\
    1 < N.of_nat (length (r_outputs r0)) /\
    regen_due tree false r0 w = false /\ regen_due tree true r0 w = true.
Proof.
  pose (m := [(0, 10); (1, 10); (3, 10); (4, 3); (5, 20)] : list (path * time)).
  exists bool, Wit.findA, Wit.seenA, (Wit.mk false m [3]), (Wit.mk true m [3]).
  eexists. split; [apply req_full_refl|]. split; [reflexivity|]. split; [reflexivity|]. split.
  - intros f H. exfalso. specialize (H 5 (or_introl eq_refl)).
    destruct H as (tg & td & H1 & H2 & H3). vm_compute in H1, H2. inversion H1; inversion H2; subst.
    vm_compute in H3. apply H3. reflexivity.
  - split; [vm_compute; discriminate|]. split; [vm_compute; reflexivity|]. split; vm_compute; reflexivity.
Qed.

Lemma converges_skip_missing_dir_refuted : forall fxc,
  exists (tree : Type) find seen (w0 w : world tree) s tl now,
    save (fresh tree find seen true w0) = Some s /\
    lazy tree find seen true fxc w (Some s) = Skip tl /\
    (forall p t, lookup p (w_mt w) = Some t -> t < now) /\
    let r0 := fresh tree find seen true w0 in
    regen_due tree true r0 (after_step tree w (Skip tl) (primary r0) now) = true.
Proof.
  intros fxc. exists bool, Wit.findB, Wit.seenC, (Wit.mk false Wit.mtB []), (Wit.mk true Wit.mtC []).
  eexists. eexists. exists 100. split; [vm_compute; reflexivity|]. split; [destruct fxc; vm_compute; reflexivity|]. split.
  - intros p t H. cbn in H.
    repeat match type of H with
           | (if ?b then _ else _) = _ => destruct b
           end; inversion H; subst; reflexivity.
  - vm_compute. reflexivity.
Qed.

(* the hypotheses of the positive theorems are satisfiable on worlds where something happens *)
Lemma noskip_nonvacuous : forall fxc,
  exists r, coherent bool (Wit.mk true Wit.mtA []) Wit.svA /\
            lazy bool Wit.findA Wit.seenA true fxc (Wit.mk true Wit.mtA []) Wit.svA = Ran r /\
            r_rets r = [[10; 12]] /\ In 11 (r_dist r).
Proof.
  intros fxc. eexists. split; [exact Wit.cohA|]. split; [destruct fxc; vm_compute; reflexivity|].
  split; [reflexivity|]. cbn. auto.
Qed.

(* F1 decides: the same unchanged world is skipped when the cache is not newer than the build file and regenerated
   (by the repaired code only) when it is - the state left behind by a run that saved the cache and died before
   writing the build file; with equal timestamps the cache is trusted (strict comparison) *)
Lemma newer_cache_nonvacuous :
  let w0 := Wit.mk false Wit.mtA [] in
  let sv := save (fresh bool Wit.findA Wit.seenA true w0) in
  let newer := Wit.mk false ((2, 11) :: Wit.mtA) [] in
  let equal := Wit.mk false ((2, 10) :: Wit.mtA) [] in
  (exists tl, lazy bool Wit.findA Wit.seenA true true equal sv = Skip tl) /\
  (exists tl, lazy bool Wit.findA Wit.seenA true false newer sv = Skip tl) /\
  lazy bool Wit.findA Wit.seenA true true newer sv = Ran (fresh bool Wit.findA Wit.seenA true newer).
Proof.
  cbn zeta. split; [eexists; vm_compute; reflexivity|]. split; [eexists; vm_compute; reflexivity|].
  vm_compute. reflexivity.
Qed.
