(* Dispatch entries (name -> sx wrapper) for State/Crash.v (property C10). *)
From Coq Require Import String List.
From BFG Require Import Base.Chars Base.Sx State.Crash.
Import ListNotations.
Local Open Scope N_scope.

Definition un_proj (x : sx) : proj :=
  mkP (un_bool (nth_sx 0 x)) (un_nat (nth_sx 1 x)) (un_bool (nth_sx 2 x)).
Definition un_edit (x : sx) : edit :=
  mkE (un_bool (nth_sx 0 x)) (un_bool (nth_sx 1 x)) (un_bool (nth_sx 2 x)).

(* [cal; adeps (F2); dnc (F1)] *)
Definition un_variant (x : sx) : variant :=
  mkV (un_bool (nth_sx 0 x)) (un_bool (nth_sx 1 x)) (un_bool (nth_sx 2 x)).

Definition sx_file (f : file) : list sx :=
  match f with
  | FEnv => [A 0] | FImm k => [A 1; sx_nat k] | FDeps => [A 2] | FCache => [A 3]
  | FBuild => [A 4] | FStamp => [A 5] | FCompdb => [A 6] | FDepsTmp => [A 9]
  end.
Definition sx_op (o : fsop) : sx :=
  match o with
  | Open f => L (A 0 :: sx_file f)
  | WriteClose f => L (A 1 :: sx_file f)
  | Remove f => L (A 2 :: sx_file f)
  | Utime f => L (A 3 :: sx_file f)
  | Mkdir DBuild => L [A 4; A 7]
  | Mkdir DImm => L [A 4; A 8]
  | Rename a b => L (A 5 :: sx_file a ++ sx_file b)
  end.
Definition sx_fstate (x : fstate) : sx :=
  A (match cont x with Absent => 0 | Empty => 1 | Full Old => 2 | Full New => 3 end).

(* [variant; kind (0 regenerate, 1 configure-into, 2 lazy skip); proj] -> ops *)
Definition t_run_ops (x : sx) : sx :=
  let cal := un_variant (nth_sx 0 x) in
  let p := un_proj (nth_sx 2 x) in
  sx_list sx_op (match un_N (nth_sx 1 x) with
                 | 0 => run_ops cal p
                 | 1 => configure_ops cal p
                 | _ => skip_ops p
                 end).

Definition sx_result (r : bool * fs * bool) : sx :=
  let s := snd (fst r) in
  L [sx_bool (fst (fst r)); sx_bool (snd r); sx_fstate (f_build s); sx_list sx_fstate (f_imm s); sx_fstate (f_compdb s);
     sx_bool (describes_new s)].

(* [variant; proj; edit; n; k] -> the k follow-ups after a crash at n *)
Definition t_outcome (x : sx) : sx :=
  let cal := un_variant (nth_sx 0 x) in
  let p := un_proj (nth_sx 1 x) in
  let e := un_edit (nth_sx 2 x) in
  let n := un_nat (nth_sx 3 x) in
  let k := un_nat (nth_sx 4 x) in
  let s := crash 4 n (run_ops cal p) (fs_old p) in
  L [L [sx_fstate (f_build s); sx_list sx_fstate (f_imm s); sx_fstate (f_compdb s); sx_fstate (f_deps s); sx_fstate (f_tmp s)];
     sx_list sx_result (attempts cal p e 5 k s);
     sx_bool (safe_at cal p e n k)].

(* [variant; proj; j] -> mutations performed by a run whose script / hook raises after j mutations, and the build file after it *)
Definition t_raise (x : sx) : sx :=
  let v := un_variant (nth_sx 0 x) in
  let p := un_proj (nth_sx 1 x) in
  let j := un_nat (nth_sx 2 x) in
  let l := until_raise (run_events v p j) in
  L [sx_list sx_op l; sx_fstate (f_build (apply_ops 4 l (fs_old p)))].

(* [variant; proj] *)
Definition t_points (x : sx) : sx :=
  let v := un_variant (nth_sx 0 x) in
  let p := un_proj (nth_sx 1 x) in
  L [sx_nat (deps_pt p); sx_nat (window_pt v p); sx_nat (List.length (pre_ops v p));
     sx_nat (compdb_lo v p); sx_nat (compdb_hi v p)].

(* [variant; proj; n] -> the history `options`: state after the cut at n, the by-hand lazy follow-up, the verdicts *)
Definition t_reconf (x : sx) : sx :=
  let v := un_variant (nth_sx 0 x) in
  let p := un_proj (nth_sx 1 x) in
  let n := un_nat (nth_sx 2 x) in
  let s := crash 4 n (run_ops v p) (fs_old p) in
  let r := reconf_followup v p n in
  L [L [sx_fstate (f_build s); sx_list sx_fstate (f_imm s); sx_fstate (f_compdb s); sx_fstate (f_env s)];
     L [sx_bool (fst r); sx_fstate (f_build (snd r)); sx_list sx_fstate (f_imm (snd r)); sx_fstate (f_compdb (snd r))];
     sx_bool (reconf_ok v p n); sx_bool (reconf_bad v p n)].

Definition table : list (string * (sx -> sx)) :=
  [ ("crash.run_ops"%string, t_run_ops);
    ("crash.outcome"%string, t_outcome);
    ("crash.raise"%string, t_raise);
    ("crash.points"%string, t_points);
    ("crash.reconf"%string, t_reconf) ].
