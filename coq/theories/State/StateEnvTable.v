(* Dispatch entries (name -> sx wrapper) for the State/Env* models. *)
From BFG Require Import Base.Chars Base.Sx State.EnvStore.
From Coq Require Import String.
Local Open Scope N_scope.

Definition un_pair (x : sx) : str * str := (un_str (nth_sx 0 x), un_str (nth_sx 1 x)).
Definition un_pairs (x : sx) : list (str * str) := map un_pair (un_list x).
Definition un_val (x : sx) : val :=
  if N.eqb (un_N (nth_sx 0 x)) 0 then VStr (un_str (nth_sx 1 x)) else VOther.
Definition un_kv (x : sx) : str * val := (un_str (nth_sx 0 x), un_val (nth_sx 1 x)).

Definition un_op (x : sx) : op :=
  match un_N (nth_sx 0 x) with
  | 0 => OSet (un_val (nth_sx 1 x)) (un_val (nth_sx 2 x))
  | 1 => ODel (un_str (nth_sx 1 x))
  | 2 => OClear
  | 3 => OPop (un_str (nth_sx 1 x)) (un_opt un_val (nth_sx 2 x))
  | 4 => OPopitem
  | 5 => OSetdefault (un_str (nth_sx 1 x)) (un_val (nth_sx 2 x))
  | 6 => OUpdate (map un_kv (un_list (nth_sx 1 x)))
  | 7 => OReset
  | 8 => OJson
  | _ => OChanges
  end.

Definition un_start (x : sx) : store :=
  if N.eqb (un_N (nth_sx 0 x)) 0 then init (un_pairs (nth_sx 1 x))
  else from_parts (un_pairs (nth_sx 1 x)) (un_pairs (nth_sx 2 x)).

Definition sx_val (v : val) : sx := match v with VStr s => L [A 0; sx_str s] | VOther => L [A 1] end.
Definition sx_dict (d : dict) : sx := sx_list (sx_pair sx_str sx_str) d.
Definition sx_cdict (d : cdict) : sx := sx_list (sx_pair sx_str (sx_opt sx_str)) d.
Definition sx_out (o : out) : sx :=
  match o with
  | RNone => L [A 0]
  | RVal v => L [A 1; sx_val v]
  | RPair k v => L [A 2; sx_str k; sx_str v]
  | RKeyError => L [A 3]
  | RTypeError => L [A 4]
  | RChanges c => L [A 5; sx_cdict c]
  end.
Definition sx_store (s : store) : sx := L [sx_dict (initial s); sx_dict (current s); sx_opt sx_cdict (changes s)].

Definition table : list (string * (sx -> sx)) := [
  (* [start; ops] -> [store0; [[out; store] ...]; changes at the end; replay of them onto initial] *)
  ("envstore.trace", fun a =>
      let s0 := un_start (nth_sx 0 a) in
      let ops := map un_op (un_list (nth_sx 1 a)) in
      let s := run ops s0 in
      L [sx_store s0; sx_list (sx_pair sx_out sx_store) (trace ops s0);
         sx_cdict (the_changes s); sx_dict (apply_changes (initial s) (the_changes s))])
]%string.
