(* Dispatch entries (name -> sx wrapper) for the State/Env* models. *)
From BFG Require Import Base.Chars Base.Sx State.EnvStore State.EnvJson.
From Coq Require Import String.
Local Open Scope N_scope.

Definition un_pair (x : sx) : str * str := (un_str (nth_sx 0 x), un_str (nth_sx 1 x)).
Definition un_pairs (x : sx) : list (str * str) := map un_pair (un_list x).
Definition un_val (x : sx) : val :=
  if N.eqb (un_N (nth_sx 0 x)) 0 then VStr (un_str (nth_sx 1 x)) else VOther.
Definition un_kv (x : sx) : str * val := (un_str (nth_sx 0 x), un_val (nth_sx 1 x)).

Definition un_op (x : sx) : op :=
  match un_N (nth_sx 0 x) with
  | 0 => OSet (un_val (nth_sx 1 x)) (un_val (nth_sx 2 x))
  | 1 => ODel (un_str (nth_sx 1 x))
  | 2 => OClear
  | 3 => OPop (un_str (nth_sx 1 x)) (un_opt un_val (nth_sx 2 x))
  | 4 => OPopitem
  | 5 => OSetdefault (un_str (nth_sx 1 x)) (un_val (nth_sx 2 x))
  | 6 => OUpdate (map un_kv (un_list (nth_sx 1 x)))
  | 7 => OReset
  | 8 => OJson
  | _ => OChanges
  end.

Definition un_start (x : sx) : store :=
  if N.eqb (un_N (nth_sx 0 x)) 0 then init (un_pairs (nth_sx 1 x))
  else from_parts (un_pairs (nth_sx 1 x)) (un_pairs (nth_sx 2 x)).

Definition sx_val (v : val) : sx := match v with VStr s => L [A 0; sx_str s] | VOther => L [A 1] end.
Definition sx_dict (d : dict) : sx := sx_list (sx_pair sx_str sx_str) d.
Definition sx_cdict (d : cdict) : sx := sx_list (sx_pair sx_str (sx_opt sx_str)) d.
Definition sx_out (o : out) : sx :=
  match o with
  | RNone => L [A 0]
  | RVal v => L [A 1; sx_val v]
  | RPair k v => L [A 2; sx_str k; sx_str v]
  | RKeyError => L [A 3]
  | RTypeError => L [A 4]
  | RChanges c => L [A 5; sx_cdict c]
  end.
Definition sx_store (s : store) : sx := L [sx_dict (initial s); sx_dict (current s); sx_opt sx_cdict (changes s)].

(* ---- JSON trees: [0] null, [1 b] bool, [2 n] number, [3 str] string, [4 [items]] array, [5 [[k v] ...]] object *)
Fixpoint un_json (x : sx) : json :=
  match x with
  | L (A t :: rest) =>
      match t, rest with
      | 1, [b] => JBool (un_bool b)
      | 2, [n] => JNum (un_N n)
      | 3, [s] => JStr (un_str s)
      | 4, [L items] => JArr (map un_json items)
      | 5, [L items] =>
          JObj (map (fun kv => match kv with
                               | L [k; v] => (un_str k, un_json v)
                               | _ => ([], JNull)
                               end) items)
      | _, _ => JNull
      end
  | _ => JNull
  end.

Fixpoint sx_json (j : json) : sx :=
  match j with
  | JNull => L [A 0]
  | JBool b => L [A 1; sx_bool b]
  | JNum n => L [A 2; A n]
  | JStr s => L [A 3; sx_str s]
  | JArr l => L [A 4; L (map sx_json l)]
  | JObj l => L [A 5; L (map (fun kv => L [sx_str (fst kv); sx_json (snd kv)]) l)]
  end.

Definition sx_res {T} (f : T -> sx) (r : res T) : sx :=
  match r with Ok a => L [A 0; f a] | Err => L [A 1] | Outside => L [A 2] end.

Definition sx_path (p : path) : sx :=
  L [sx_str (p_suffix p); sx_str (root_name (p_root p)); sx_bool (p_destdir p); sx_bool (p_directory p)].
Definition sx_platform (p : platform) : sx := L [sx_str (pl_genus p); sx_str (pl_species p); sx_str (pl_arch p)].
Definition sx_env (e : env) : sx :=
  L [sx_path (e_bfgdir e); sx_str (e_backend e); sx_str (e_backend_version e);
     sx_platform (e_host e); sx_platform (e_target e); sx_path (e_srcdir e); sx_path (e_builddir e);
     sx_list (fun kv => L [sx_str (iroot_name (fst kv)); sx_opt sx_path (snd kv)]) (e_install_dirs e);
     sx_opt sx_path (e_toolchain e); sx_list sx_path (e_mopack e);
     L [sx_bool (fst (e_library_mode e)); sx_bool (snd (e_library_mode e))]; sx_bool (e_compdb e);
     sx_opt (sx_list sx_str) (e_extra_args e); sx_store (e_variables e)].

(* [[name version] ...] machine datadir mandir *)
Definition un_ext (x : sx) : ext :=
  mkExt (fun b => dget b (map (fun kv => (un_str (nth_sx 0 kv), un_str (nth_sx 1 kv))) (un_list (nth_sx 0 x))))
        (un_str (nth_sx 1 x)) (un_json (nth_sx 2 x)) (un_json (nth_sx 3 x)).

Definition table : list (string * (sx -> sx)) := [
  (* [start; ops] -> [store0; [[out; store] ...]; changes at the end; replay of them onto initial] *)
  ("envstore.trace", fun a =>
      let s0 := un_start (nth_sx 0 a) in
      let ops := map un_op (un_list (nth_sx 1 a)) in
      let s := run ops s0 in
      L [sx_store s0; sx_list (sx_pair sx_out sx_store) (trace ops s0);
         sx_cdict (the_changes s); sx_dict (apply_changes (initial s) (the_changes s))]);
  (* json -> res path *)
  ("envjson.path_from_json", fun a => sx_res sx_path (path_from_json (un_json a)));
  (* json -> res json : from_json then to_json *)
  ("envjson.path_rejson", fun a => sx_res sx_json (bind (path_from_json (un_json a)) (fun p => Ok (path_to_json p))));
  (* json -> res path : Path.from_json(j).parent() *)
  ("envjson.path_parent", fun a => sx_res sx_path (bind (path_from_json (un_json a)) path_parent));
  (* [ext; document] -> res env : Environment.load *)
  ("envjson.load", fun a => sx_res sx_env (env_of_json (un_ext (nth_sx 0 a)) (un_json (nth_sx 1 a))));
  (* [ext; document] -> res json : Environment.load then Environment.save *)
  ("envjson.resave", fun a =>
      sx_res sx_json (bind (env_of_json (un_ext (nth_sx 0 a)) (un_json (nth_sx 1 a))) (fun e => Ok (env_to_json e))))
]%string.
