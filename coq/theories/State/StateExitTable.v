(* Dispatch entry for State/ExitStatus.v (property C10). *)
From Coq Require Import String List.
From BFG Require Import Base.Chars Base.Sx State.ExitStatus.
Import ListNotations.
Local Open Scope N_scope.

(* [0; code] with code = [] (None) | [0; n] | [1; nonempty] ;  [1; errno option] ;  [2] *)
Definition un_ecode (x : sx) : ecode :=
  match un_list x with
  | [] => CNone
  | k :: rest => match un_N k with
                 | 0 => CNum (un_N (nth 0 rest (A 0)))
                 | _ => CText (un_bool (nth 0 rest (A 0)))
                 end
  end.
Definition un_exn (x : sx) : exn :=
  match un_N (nth_sx 0 x) with
  | 0 => ScriptExit (un_ecode (nth_sx 1 x))
  | 1 => OsErr (un_opt un_N (nth_sx 1 x))
  | _ => OtherExn
  end.

Definition table : list (string * (sx -> sx)) :=
  [ ("exit.status"%string, fun a => A (exit_status (un_exn a))) ].
