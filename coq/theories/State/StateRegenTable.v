(* Dispatch entries for the regeneration model (C08). The abstract tree is instantiated by a table
   filter -> (traversal, walked directories) that the harness computes with its own walker. *)
From BFG Require Import Base.Chars Base.Sx State.Regen.
From Coq Require Import String.
Local Open Scope N_scope.

Definition ctree := list (filt * (list (path * bool) * list path)).
Definition cfind (t : ctree) (f : filt) : list (path * bool) :=
  match lookup f t with Some x => fst x | None => [] end.
Definition cseen (t : ctree) (f : filt) : list path :=
  match lookup f t with Some x => snd x | None => [] end.

Definition un_Ns (x : sx) : list N := map un_N (un_list x).
Definition un_tree (x : sx) : ctree :=
  map (fun e => (un_N (nth_sx 0 e),
                 (map (fun p => (un_N (nth_sx 0 p), un_bool (nth_sx 1 p))) (un_list (nth_sx 1 e)),
                  un_Ns (nth_sx 2 e)))) (un_list x).
Definition un_mt (x : sx) : list (path * time) := map (fun e => (un_N (nth_sx 0 e), un_N (nth_sx 1 e))) (un_list x).
Definition un_call (x : sx) : call :=
  {| c_filt := un_N (nth_sx 0 x); c_cached := un_bool (nth_sx 1 x); c_dist := un_bool (nth_sx 2 x) |}.
Definition un_conf (x : sx) : conf :=
  {| cf_inputs := un_Ns (nth_sx 0 x); cf_outs := un_Ns (nth_sx 1 x);
     cf_calls := map un_call (un_list (nth_sx 2 x)); cf_tok := un_N (nth_sx 3 x) |}.
Definition un_world (x : sx) : world ctree :=
  {| w_tree := un_tree (nth_sx 0 x); w_mt := un_mt (nth_sx 1 x); w_conf := un_conf (nth_sx 2 x) |}.
Definition un_cache (x : sx) : cache :=
  map (fun e => (un_N (nth_sx 0 e), (un_Ns (nth_sx 1 e), un_Ns (nth_sx 2 e)))) (un_list x).
Definition un_saved (x : sx) : option saved :=
  un_opt (fun s => {| sv_inputs := un_Ns (nth_sx 0 s); sv_outputs := un_Ns (nth_sx 1 s);
                      sv_cache := un_cache (nth_sx 2 s) |}) x.

Definition sx_Ns (l : list N) : sx := L (map A l).
Definition sx_cache (c : cache) : sx :=
  sx_list (fun e => L [A (fst e); sx_Ns (fst (snd e)); sx_Ns (snd (snd e))]) c.
Definition sx_result (r : result) : sx :=
  L [sx_Ns (r_inputs r); sx_Ns (r_outputs r); sx_list sx_Ns (r_rets r); sx_Ns (r_dist r);
     sx_cache (r_cache r); sx_Ns (r_dirs r); A (r_tok r)].
Definition sx_outcome (o : outcome) : sx :=
  match o with Skip tl => L [A 0; sx_Ns tl] | Ran r => L [A 1; sx_result r] end.

(* the part of a result that the trigger looks at *)
Definition un_emit (x : sx) : result :=
  {| r_inputs := un_Ns (nth_sx 0 x); r_outputs := un_Ns (nth_sx 1 x); r_rets := []; r_dist := [];
     r_cache := []; r_dirs := un_Ns (nth_sx 2 x); r_tok := 0 |}.

Definition table : list (string * (sx -> sx)) := [
  ("regen.fresh", fun a => sx_result (fresh ctree cfind cseen (un_bool (nth_sx 0 a)) (un_world (nth_sx 1 a))));
  (* [fx74; world; saved; fxc (F1: find_check_cache distrusts a cache newer than the build file)] *)
  ("regen.lazy", fun a => sx_outcome (lazy ctree cfind cseen (un_bool (nth_sx 0 a)) (un_bool (nth_sx 3 a))
                                           (un_world (nth_sx 1 a)) (un_saved (nth_sx 2 a))));
  ("regen.due", fun a => sx_bool (regen_due ctree (un_bool (nth_sx 0 a)) (un_emit (nth_sx 1 a))
                                            (un_world (nth_sx 2 a))));
  ("regen.primary", fun a => A (primary (un_emit (nth_sx 0 a))))
]%string.
