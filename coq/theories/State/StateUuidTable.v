(* Dispatch entries for the UuidMap / Solution model (C20). *)
From BFG Require Import Base.Chars Base.Sx State.Uuid.
From Coq Require Import String.
Local Open Scope N_scope.

Definition un_umap (x : sx) : umap := map (fun e => (un_str (nth_sx 0 e), un_N (nth_sx 1 e))) (un_list x).
Definition un_ufile (x : sx) : ufile :=
  un_opt (fun y => (un_N (nth_sx 0 y), un_umap (nth_sx 1 y))) x.
Definition un_spec (x : sx) : spec :=
  {| sp_key := un_str (nth_sx 0 x); sp_name := un_str (nth_sx 1 x);
     sp_deps := map (un_opt un_str) (un_list (nth_sx 2 x)) |}.
Definition un_run (x : sx) : run_in :=
  {| r_specs := map un_spec (un_list (nth_sx 0 x)); r_explicit := map un_str (un_list (nth_sx 1 x));
     r_fallback := map un_str (un_list (nth_sx 2 x)) |}.

Definition sx_umap (m : umap) : sx := sx_list (fun kv => L [sx_str (fst kv); A (snd kv)]) m.
Definition sx_ufile (f : ufile) : sx := sx_opt (fun vm => L [A (fst vm); sx_umap (snd vm)]) f.
Definition sx_project (p : project) : sx := L [sx_str (p_name p); A (p_uuid p); sx_list A (p_deps p)].
Definition sx_out (o : run_out) : sx :=
  match o with
  | RunOk (su, ps) => L [A 0; A su; sx_list sx_project ps]
  | RunRuntimeError => L [A 1]
  | RunValueError => L [A 2]
  end.

(* the oracle is the list of ids the harness fed to the patched uuid4, in order *)
Definition fresh_of (x : sx) : nat -> uuid := fun i => nth i (map un_N (un_list x)) 0.

(* per run: outcome and the file afterwards *)
Fixpoint hist_files (fresh : nat -> uuid) (f : ufile) (n : nat) (rs : list run_in) : list sx :=
  match rs with
  | [] => []
  | r :: rest => let (fn, o) := run fresh f n r in
                 L [sx_out o; sx_ufile (fst fn); sx_nat (snd fn)] :: hist_files fresh (fst fn) (snd fn) rest
  end.

Definition table : list (string * (sx -> sx)) := [
  ("uuid.hist", fun a => L (hist_files (fresh_of (nth_sx 0 a)) (un_ufile (nth_sx 1 a)) 0 (map un_run (un_list (nth_sx 2 a)))))
]%string.
