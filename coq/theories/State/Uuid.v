(* W model of bfg9000/backends/msbuild/solution.py: UuidMap (persisted name -> GUID map with a seen
   set), Solution.__setitem__ / dependencies / set_default, and the part of backends/msbuild/writer.py
   write that drives them in one configure / regenerate run.  uuid.uuid4 is the fresh-id oracle
   [fresh], an explicit argument; the position in the oracle is threaded through runs. *)
From BFG Require Import Base.Chars.

Definition uuid := N.
Definition umap := list (str * uuid).          (* dict, insertion ordered *)

Fixpoint lookup (k : str) (m : umap) : option uuid :=
  match m with
  | [] => None
  | (k', u) :: r => if str_eqb k' k then Some u else lookup k r
  end.

Definition mem_str (k : str) (l : list str) : bool := existsb (str_eqb k) l.

(* .bfg_uuid: None = absent or unreadable (OSError), else the JSON fields version and map *)
Definition ufile := option (N * umap).

Inductive load_result := LoadOk (m : umap) | LoadValueError.

(* UuidMap.__init__ / _load: OSError gives an empty map, a newer version raises ValueError *)
Definition load (f : ufile) : load_result :=
  match f with
  | None => LoadOk []
  | Some (v, m) => if (1 <? v)%N then LoadValueError else LoadOk m
  end.

Record umstate := { um_map : umap; um_seen : list str; um_next : nat }.

(* projects of a Solution *)
Record project := { p_name : str; p_uuid : uuid; p_deps : list uuid }.
Inductive pkey := PK (k : str) | PKeyLit.       (* PKeyLit: the literal string key of set_default *)
Definition pkey_eqb (a b : pkey) : bool :=
  match a, b with
  | PK x, PK y => str_eqb x y
  | PKeyLit, PKeyLit => true
  | _, _ => false
  end.
Definition pdict := list (pkey * project).

(* d[k] = v on an insertion-ordered dict: an existing key keeps its place *)
Fixpoint dict_set (k : pkey) (v : project) (d : pdict) : pdict :=
  match d with
  | [] => [(k, v)]
  | (k', v') :: r => if pkey_eqb k' k then (k', v) :: r else (k', v') :: dict_set k v r
  end.

Fixpoint dict_get (k : pkey) (d : pdict) : option project :=
  match d with
  | [] => None
  | (k', v) :: r => if pkey_eqb k' k then Some v else dict_get k r
  end.

Fixpoint dict_remove (k : pkey) (d : pdict) : pdict :=
  match d with
  | [] => []
  | (k', v) :: r => if pkey_eqb k' k then r else (k', v) :: dict_remove k r
  end.

(* Solution.dependencies: deps without creator (None) are skipped, an unknown creator output
   raises RuntimeError (None) *)
Fixpoint dependencies (d : pdict) (deps : list (option str)) : option (list uuid) :=
  match deps with
  | [] => Some []
  | None :: r => dependencies d r
  | Some k :: r =>
      match dict_get (PK k) d with
      | None => None
      | Some p => match dependencies d r with None => None | Some l => Some (p_uuid p :: l) end
      end
  end.

(* Solution.set_default, as written: the popped project goes first under the literal key,
   then update() with the remaining entries *)
Definition set_default (d : pdict) (key : str) : pdict :=
  match dict_get (PK key) d with
  | None => d
  | Some p => fold_left (fun acc kv => dict_set (fst kv) (snd kv) acc) (dict_remove (PK key) d) [(PKeyLit, p)]
  end.

(* one build step that the MSBuild backend turns into a project: the key is the first public
   output of the rule, the name is the project name, deps are the creator outputs of its
   dependencies (None: no creator) *)
Record spec := { sp_key : str; sp_name : str; sp_deps : list (option str) }.

(* builtins/default.py: the explicit defaults (default(...) calls, in call order) and the implicit ones
   (every step output not taken out again by test()), as keys of the solution.  msbuild_default, the
   post-rules hook of the MSBuild backend, calls Solution.set_default ONCE: with the first explicit
   default, else with the last implicit one, else not at all. *)
Fixpoint last_opt (l : list str) : option str :=
  match l with
  | [] => None
  | [x] => Some x
  | _ :: r => last_opt r
  end.
Definition default_choice (explicit fallback : list str) : option str :=
  match explicit with
  | x :: _ => Some x
  | [] => last_opt fallback
  end.

Record run_in := { r_specs : list spec; r_explicit : list str; r_fallback : list str }.
Definition r_default (r : run_in) : option str := default_choice (r_explicit r) (r_fallback r).

(* what the .sln says: the solution GUID and, in order, the projects *)
Definition sln := (uuid * list project)%type.
Inductive run_out := RunOk (s : sln) | RunRuntimeError | RunValueError.

Section Oracle.
Variable fresh : nat -> uuid.

(* UuidMap.__getitem__ *)
Definition getitem (st : umstate) (k : str) : umstate * uuid :=
  let seen := if mem_str k (um_seen st) then um_seen st else um_seen st ++ [k] in
  match lookup k (um_map st) with
  | Some u => ({| um_map := um_map st; um_seen := seen; um_next := um_next st |}, u)
  | None => let u := fresh (um_next st) in
            ({| um_map := um_map st ++ [(k, u)]; um_seen := seen; um_next := S (um_next st) |}, u)
  end.

(* UuidMap.save: only the keys seen in this run *)
Definition save (st : umstate) : ufile :=
  Some (1%N, filter (fun kv => mem_str (fst kv) (um_seen st)) (um_map st)).

(* the rule handlers: dependencies first, then Project(...), then solution[key] = project,
   which calls set_uuid *)
Fixpoint add_projects (st : umstate) (projs : pdict) (specs : list spec) : umstate * option pdict :=
  match specs with
  | [] => (st, Some projs)
  | sp :: r =>
      match dependencies projs (sp_deps sp) with
      | None => (st, None)
      | Some ds =>
          let (st', u) := getitem st (sp_name sp) in
          add_projects st' (dict_set (PK (sp_key sp)) {| p_name := sp_name sp; p_uuid := u; p_deps := ds |} projs) r
      end
  end.

(* writer.write: returns the new file, the new oracle position and the outcome; on an exception
   nothing is saved *)
Definition run (f : ufile) (n : nat) (r : run_in) : (ufile * nat) * run_out :=
  match load f with
  | LoadValueError => ((f, n), RunValueError)
  | LoadOk m =>
      let (st1, su) := getitem {| um_map := m; um_seen := []; um_next := n |} [] in
      match add_projects st1 [] (r_specs r) with
      | (st2, None) => ((f, um_next st2), RunRuntimeError)
      | (st2, Some projs) =>
          let projs' := match r_default r with Some k => set_default projs k | None => projs end in
          ((save st2, um_next st2), RunOk (su, map snd projs'))
      end
  end.

Fixpoint state_after (f : ufile) (n : nat) (rs : list run_in) : ufile * nat :=
  match rs with
  | [] => (f, n)
  | r :: rest => let (fn, _) := run f n r in state_after (fst fn) (snd fn) rest
  end.

Fixpoint hist (f : ufile) (n : nat) (rs : list run_in) : list run_out :=
  match rs with
  | [] => []
  | r :: rest => let (fn, o) := run f n r in o :: hist (fst fn) (snd fn) rest
  end.
End Oracle.
