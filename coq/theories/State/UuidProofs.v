(* Proofs about the UuidMap / Solution model over histories of runs: GUID stability, uniqueness,
   forgetting of removed projects, dependency closure.  The fresh-id oracle is a section variable
   with the hypothesis that it never repeats; stored ids are required to be old (invariant FInv). *)
From Coq Require Import Arith Lia FinFun Permutation.
From BFG Require Import Base.Chars State.Uuid.

(* ---- association lists ---- *)
Lemma lookup_In k m u : lookup k m = Some u -> In (k, u) m.
Proof.
  induction m as [|[k' u'] r IH]; cbn; [discriminate|]. destruct (str_eqb k' k) eqn:E.
  - intros H. inversion H. subst. apply str_eqb_eq in E. subst. now left.
  - intros H. right. auto.
Qed.

Lemma lookup_app k m m2 :
  lookup k (m ++ m2) = match lookup k m with Some u => Some u | None => lookup k m2 end.
Proof. induction m as [|[k' u'] r IH]; cbn; [reflexivity|]. now destruct (str_eqb k' k). Qed.

Lemma lookup_none k m : lookup k m = None -> ~ In k (map fst m).
Proof.
  induction m as [|[k' u'] r IH]; cbn; [tauto|]. destruct (str_eqb k' k) eqn:E; [discriminate|].
  intros H [H1|H1].
  - subst. rewrite str_eqb_refl in E. discriminate.
  - now apply IH.
Qed.

Lemma vals_inj m : NoDup (map snd m) -> forall k1 k2 u, lookup k1 m = Some u -> lookup k2 m = Some u -> k1 = k2.
Proof.
  induction m as [|[k' u'] r IH]; cbn; intros ND k1 k2 u H1 H2; [discriminate|].
  inversion ND as [|? ? Hn ND']; subst.
  destruct (str_eqb k' k1) eqn:E1, (str_eqb k' k2) eqn:E2.
  - apply str_eqb_eq in E1, E2. congruence.
  - inversion H1; subst. apply lookup_In in H2. exfalso. apply Hn. apply (in_map snd) in H2. exact H2.
  - inversion H2; subst. apply lookup_In in H1. exfalso. apply Hn. apply (in_map snd) in H1. exact H1.
  - eauto.
Qed.

Lemma mem_str_In k l : mem_str k l = true <-> In k l.
Proof.
  unfold mem_str. rewrite existsb_exists. split.
  - intros [x [Hx E]]. apply str_eqb_eq in E. now subst.
  - intros H. exists k. split; [assumption|apply str_eqb_refl].
Qed.

Lemma lookup_filter k seen m :
  lookup k (filter (fun kv => mem_str (fst kv) seen) m) = if mem_str k seen then lookup k m else None.
Proof.
  induction m as [|[k' u'] r IH]; cbn.
  - now destruct (mem_str k seen).
  - destruct (mem_str k' seen) eqn:Ek'; cbn; destruct (str_eqb k' k) eqn:E.
    + apply str_eqb_eq in E. subst. now rewrite Ek'.
    + exact IH.
    + apply str_eqb_eq in E. subst. now rewrite IH, Ek'.
    + exact IH.
Qed.

Lemma NoDup_snoc {T} (l : list T) x : NoDup l -> ~ In x l -> NoDup (l ++ [x]).
Proof.
  induction l as [|a l IH]; intros ND Hn; cbn.
  - constructor; [tauto|constructor].
  - inversion ND; subst. constructor.
    + intros Hin. apply in_app_or in Hin as [Hin|[Hin|[]]]; [tauto|]. subst. apply Hn. now left.
    + apply IH; [assumption|]. intros Hx. apply Hn. now right.
Qed.

Lemma NoDup_map_filter {T U} (g : T -> U) (p : T -> bool) l : NoDup (map g l) -> NoDup (map g (filter p l)).
Proof.
  induction l as [|a l IH]; cbn; intros ND; [constructor|]. inversion ND as [|? ? Hn ND']; subst.
  destruct (p a); cbn; [constructor|]; auto.
  intros Hin. apply in_map_iff in Hin as [x [Hx Hin]]. apply filter_In in Hin as [Hin _].
  apply Hn. rewrite <- Hx. now apply in_map.
Qed.

Lemma seen_add k l :
  let l' := if mem_str k l then l else l ++ [k] in
  In k l' /\ (forall x, In x l -> In x l') /\ (forall x, In x l' -> x = k \/ In x l).
Proof.
  destruct (mem_str k l) eqn:E; cbn.
  - apply mem_str_In in E. repeat split; auto.
  - repeat split.
    + apply in_or_app. right. now left.
    + intros. apply in_or_app. now left.
    + intros x Hx. apply in_app_or in Hx as [Hx|[Hx|[]]]; auto.
Qed.

(* ---- project dictionaries ---- *)
Lemma dict_set_In k v d key p : In (key, p) (dict_set k v d) -> In (key, p) d \/ p = v.
Proof.
  induction d as [|[k' v'] r IH]; cbn.
  - intros [H|[]]. inversion H. auto.
  - destruct (pkey_eqb k' k); cbn; intros [H|H].
    + inversion H. auto.
    + left. now right.
    + inversion H. left. now left.
    + apply IH in H as [H|H]; auto.
Qed.

Lemma dict_get_In k d v : dict_get k d = Some v -> exists k', In (k', v) d.
Proof.
  induction d as [|[k' v'] r IH]; cbn; [discriminate|]. destruct (pkey_eqb k' k).
  - intros H. inversion H. subst. exists k'. now left.
  - intros H. destruct (IH H) as [k2 H2]. exists k2. now right.
Qed.

Lemma dict_remove_In k d key p : In (key, p) (dict_remove k d) -> In (key, p) d.
Proof.
  induction d as [|[k' v'] r IH]; cbn; [tauto|]. destruct (pkey_eqb k' k); cbn.
  - intros H. now right.
  - intros [H|H]; [now left|right; auto].
Qed.

Lemma fold_dict_set_In rest : forall acc key p,
  In (key, p) (fold_left (fun a kv => dict_set (fst kv) (snd kv) a) rest acc) ->
  (exists k', In (k', p) acc) \/ (exists k', In (k', p) rest).
Proof.
  induction rest as [|[k v] rest IH]; cbn; intros acc key p H; [left; eauto|].
  apply IH in H as [[k' H]|[k' H]].
  - apply dict_set_In in H as [H|H]; [left; eauto|]. subst. right. exists k. now left.
  - right. exists k'. now right.
Qed.

Lemma set_default_sub d k key p : In (key, p) (set_default d k) -> exists key', In (key', p) d.
Proof.
  unfold set_default. destruct (dict_get (PK k) d) as [p0|] eqn:G; [|eauto].
  intros H. apply fold_dict_set_In in H as [[k' H]|[k' H]].
  - destruct H as [H|[]]. inversion H. subst. now apply dict_get_In in G.
  - apply dict_remove_In in H. eauto.
Qed.

Section Proofs.
Variable fresh : nat -> uuid.
Hypothesis fresh_inj : forall i j, fresh i = fresh j -> i = j.

Notation getitem := (getitem fresh).
Notation add_projects := (add_projects fresh).
Notation run := (run fresh).
Notation hist := (hist fresh).
Notation state_after := (state_after fresh).

(* the map is a dict, its ids are pairwise distinct and none of them will be drawn again *)
Definition UInv (m : umap) (n : nat) : Prop :=
  NoDup (map fst m) /\ NoDup (map snd m) /\ (forall k u, In (k, u) m -> forall i, n <= i -> fresh i <> u).
Definition Ext (m m' : umap) : Prop := forall k u, lookup k m = Some u -> lookup k m' = Some u.
Definition FInv (f : ufile) (n : nat) : Prop := forall v m, f = Some (v, m) -> UInv m n.

Lemma UInv_mono m n n' : n <= n' -> UInv m n -> UInv m n'.
Proof. intros L (A & B & C). repeat split; auto. intros k u H i Hi. apply (C k u H). lia. Qed.

Lemma FInv_mono f n n' : n <= n' -> FInv f n -> FInv f n'.
Proof. intros L H v m E. eapply UInv_mono; eauto. Qed.

Lemma FInv_none n : FInv None n.
Proof. intros v m E. discriminate. Qed.

Lemma getitem_spec st k st' u : getitem st k = (st', u) -> UInv (um_map st) (um_next st) ->
  UInv (um_map st') (um_next st') /\ Ext (um_map st) (um_map st') /\ lookup k (um_map st') = Some u /\
  In k (um_seen st') /\ (forall x, In x (um_seen st) -> In x (um_seen st')) /\
  (forall x, In x (um_seen st') -> x = k \/ In x (um_seen st)) /\ um_next st <= um_next st'.
Proof.
  unfold Uuid.getitem. intros H I. destruct (seen_add k (um_seen st)) as (S1 & S2 & S3).
  destruct I as (A & B & C).
  destruct (lookup k (um_map st)) as [u0|] eqn:L; inversion H; subst; clear H; cbn [um_map um_seen um_next].
  - repeat split; auto. intros x y Hx. exact Hx.
  - repeat split; auto.
    + rewrite map_app. cbn. apply NoDup_snoc; [assumption|]. now apply lookup_none.
    + rewrite map_app. cbn. apply NoDup_snoc; [assumption|].
      intros Hin. apply in_map_iff in Hin as [[k0 u0] [E Hin]]. cbn in E. subst u0.
      apply (C k0 _ Hin (um_next st)); auto.
    + intros k0 u0 Hin i Hi. apply in_app_or in Hin as [Hin|[Hin|[]]].
      * apply (C k0 u0 Hin). lia.
      * inversion Hin; subst. intros E. apply fresh_inj in E. lia.
    + intros x y Hx. rewrite lookup_app, Hx. reflexivity.
    + rewrite lookup_app, L. cbn. now rewrite str_eqb_refl.
Qed.

Lemma getitem_next st k : um_next st <= um_next (fst (getitem st k)).
Proof. unfold Uuid.getitem. destruct (lookup k (um_map st)); cbn; lia. Qed.

Lemma add_projects_next : forall specs st projs, um_next st <= um_next (fst (add_projects st projs specs)).
Proof.
  induction specs as [|sp r IH]; intros st projs; cbn; [lia|].
  destruct (dependencies projs (sp_deps sp)); cbn; [|lia].
  pose proof (getitem_next st (sp_name sp)) as G. destruct (getitem st (sp_name sp)) as [st1 u]. cbn in G.
  etransitivity; [exact G|apply IH].
Qed.

(* every project of the solution carries the id the map holds for its name, and the name was seen *)
Definition PInv (st : umstate) (projs : pdict) : Prop :=
  forall key p, In (key, p) projs -> lookup (p_name p) (um_map st) = Some (p_uuid p) /\ In (p_name p) (um_seen st).

Lemma add_projects_spec : forall specs st projs st' projs',
  add_projects st projs specs = (st', Some projs') -> UInv (um_map st) (um_next st) -> PInv st projs ->
  UInv (um_map st') (um_next st') /\ Ext (um_map st) (um_map st') /\ PInv st' projs' /\
  (forall x, In x (um_seen st) -> In x (um_seen st')) /\
  (forall x, In x (um_seen st') -> In x (um_seen st) \/ In x (map sp_name specs)) /\ um_next st <= um_next st'.
Proof.
  induction specs as [|sp r IH]; intros st projs st' projs' H I P; cbn in H.
  - inversion H; subst. split; [assumption|]. split; [intros x y Hx; exact Hx|]. split; [exact P|]. repeat split; auto.
  - destruct (dependencies projs (sp_deps sp)) as [ds|]; [|discriminate].
    destruct (getitem st (sp_name sp)) as [st1 u] eqn:G.
    apply getitem_spec in G as (I1 & E1 & L1 & S0 & S1 & S2 & N1); [|assumption].
    apply IH in H as (I2 & E2 & P2 & S3 & S4 & N2); [|assumption|].
    + split; [exact I2|]. split; [intros x y Hx; apply E2, E1, Hx|]. split; [exact P2|].
      split; [auto|]. split; [|lia].
      intros x Hx. apply S4 in Hx as [Hx|Hx]; [|right; now right].
      apply S2 in Hx as [Hx|Hx]; [right; left; now subst|now left].
    + intros key p Hin. apply dict_set_In in Hin as [Hin|Hin].
      * destruct (P key p Hin) as [A B]. split; auto.
      * subst p. cbn. auto.
Qed.

Definition file_lookup (k : str) (f : ufile) : option uuid :=
  match f with Some (_, m) => lookup k m | None => None end.

Lemma load_inv f n m0 : load f = LoadOk m0 -> FInv f n ->
  UInv m0 n /\ forall k g, file_lookup k f = Some g -> lookup k m0 = Some g.
Proof.
  destruct f as [[v m]|]; cbn.
  - destruct (1 <? v)%N; [discriminate|]. intros H F. inversion H; subst. split; [now apply (F v)|auto].
  - intros H _. inversion H; subst. split; [|discriminate]. repeat split; try constructor. intros k u [].
Qed.

(* what a successful run establishes *)
Lemma run_ok_spec f n r f' n' su ps : run f n r = ((f', n'), RunOk (su, ps)) -> FInv f n ->
  exists stF, f' = save stF /\ n' = um_next stF /\ UInv (um_map stF) n' /\
    (forall k g, file_lookup k f = Some g -> lookup k (um_map stF) = Some g) /\
    lookup [] (um_map stF) = Some su /\ In [] (um_seen stF) /\
    (forall p, In p ps -> lookup (p_name p) (um_map stF) = Some (p_uuid p) /\ In (p_name p) (um_seen stF)) /\
    (forall x, In x (um_seen stF) -> x = [] \/ In x (map sp_name (r_specs r))) /\ n <= n'.
Proof.
  unfold Uuid.run. intros H F. destruct (load f) as [m0|] eqn:L; [|discriminate].
  destruct (load_inv f n m0 L F) as [I0 FL].
  destruct (getitem {| um_map := m0; um_seen := []; um_next := n |} []) as [st1 su1] eqn:G.
  apply getitem_spec in G as (I1 & E1 & L1 & S0 & S1 & S2 & N1); [|exact I0]. cbn [um_map um_seen um_next] in *.
  destruct (add_projects st1 [] (r_specs r)) as [st2 [projs|]] eqn:AP; [|discriminate].
  apply add_projects_spec in AP as (I2 & E2 & P2 & S3 & S4 & N2); [|assumption|intros key p []].
  inversion H; subst; clear H. exists st2.
  split; [reflexivity|]. split; [reflexivity|]. split; [exact I2|].
  split; [intros k g Hk; apply E2, E1, FL, Hk|].
  split; [apply E2, L1|]. split; [apply S3, S0|].
  split.
  { intros p Hp. apply in_map_iff in Hp as [[key q] [E Hin]]. cbn in E. subst q.
    destruct (r_default r) as [k|]; [apply set_default_sub in Hin as [key' Hin]|]; eapply P2; eauto. }
  split; [|lia].
  intros x Hx. apply S4 in Hx as [Hx|Hx]; [|now right]. apply S2 in Hx as [Hx|[]]. now left.
Qed.

(* the three outcomes of a run *)
Lemma run_cases f n r :
  (exists f' n' su ps, run f n r = ((f', n'), RunOk (su, ps))) \/
  (exists n', n <= n' /\ run f n r = ((f, n'), RunRuntimeError)) \/
  run f n r = ((f, n), RunValueError).
Proof.
  unfold Uuid.run. destruct (load f) as [m0|]; [|now right; right].
  pose proof (getitem_next {| um_map := m0; um_seen := []; um_next := n |} []) as G.
  destruct (getitem {| um_map := m0; um_seen := []; um_next := n |} []) as [st1 su1]. cbn in G.
  pose proof (add_projects_next (r_specs r) st1 []) as N.
  destruct (add_projects st1 [] (r_specs r)) as [st2 [projs|]]; cbn in N.
  - left. eauto.
  - right. left. exists (um_next st2). split; [lia|reflexivity].
Qed.

Lemma save_inv st : UInv (um_map st) (um_next st) -> FInv (save st) (um_next st).
Proof.
  intros (A & B & C) v m E. unfold save in E. inversion E; subst. repeat split.
  - now apply NoDup_map_filter.
  - now apply NoDup_map_filter.
  - intros k u Hin. apply filter_In in Hin as [Hin _]. exact (C k u Hin).
Qed.

Lemma run_FInv f n r : FInv f n -> FInv (fst (fst (run f n r))) (snd (fst (run f n r))).
Proof.
  intros F. destruct (run_cases f n r) as [(f' & n' & su & ps & R)|[(n' & L & R)|R]]; rewrite R; cbn.
  - destruct (run_ok_spec _ _ _ _ _ _ _ R F) as (stF & E1 & E2 & I & _). subst. now apply save_inv.
  - now apply (FInv_mono f n n').
  - exact F.
Qed.

Lemma state_after_FInv : forall rs f n, FInv f n -> FInv (fst (state_after f n rs)) (snd (state_after f n rs)).
Proof.
  induction rs as [|r rs IH]; intros f n F; cbn; [exact F|].
  pose proof (run_FInv f n r F) as F'. destruct (run f n r) as [[f' n'] o]. cbn in *. now apply IH.
Qed.

Lemma save_lookup st k : file_lookup k (save st) = if mem_str k (um_seen st) then lookup k (um_map st) else None.
Proof. unfold save, file_lookup. apply lookup_filter. Qed.

(* a successful run takes the id of every project it names from the file when the file has one,
   and leaves it in the file *)
Lemma run_ok_from_file f n r f' n' su ps : run f n r = ((f', n'), RunOk (su, ps)) -> FInv f n ->
  (forall p g, In p ps -> file_lookup (p_name p) f = Some g -> p_uuid p = g) /\
  (forall p, In p ps -> file_lookup (p_name p) f' = Some (p_uuid p)).
Proof.
  intros R F. destruct (run_ok_spec _ _ _ _ _ _ _ R F) as (stF & E1 & E2 & I & FL & Lsu & Ssu & P & S & N).
  split.
  - intros p g Hp Hg. apply FL in Hg. destruct (P p Hp) as [Lp _]. congruence.
  - intros p Hp. destruct (P p Hp) as [Lp Sp]. subst f'. rewrite save_lookup.
    apply mem_str_In in Sp. now rewrite Sp.
Qed.

Lemma stable_from_file : forall rs f n name g, FInv f n -> file_lookup name f = Some g ->
  (forall su ps, In (RunOk (su, ps)) (hist f n rs) -> In name (map p_name ps)) ->
  forall su ps p, In (RunOk (su, ps)) (hist f n rs) -> In p ps -> p_name p = name -> p_uuid p = g.
Proof.
  induction rs as [|r rs IH]; intros f n name g F Hg Hall su ps p Hin Hp Hn; cbn in Hin; [contradiction|].
  cbn in Hall. pose proof (run_FInv f n r F) as F'.
  destruct (run_cases f n r) as [(f' & n' & su0 & ps0 & R)|[(n' & L & R)|R]]; rewrite R in *; cbn [fst snd] in *.
  - destruct (run_ok_from_file _ _ _ _ _ _ _ R F) as [A B].
    assert (Hname : In name (map p_name ps0)) by (apply (Hall su0); now left).
    apply in_map_iff in Hname as [p0 [E0 Hp0]].
    assert (Hg' : file_lookup name f' = Some g).
    { rewrite <- E0. rewrite (B p0 Hp0). f_equal. apply (A p0 g Hp0). now rewrite E0. }
    destruct Hin as [Hin|Hin].
    + inversion Hin; subst. apply (A p g Hp). exact Hg.
    + apply (IH f' n' name g F' Hg') with (su := su) (ps := ps); auto. intros su1 ps1 H1. apply (Hall su1). now right.
  - destruct Hin as [Hin|Hin]; [discriminate|].
    apply (IH f n' name g F' Hg) with (su := su) (ps := ps); auto. intros su1 ps1 H1. apply (Hall su1). now right.
  - destruct Hin as [Hin|Hin]; [discriminate|].
    apply (IH f n name g F' Hg) with (su := su) (ps := ps); auto. intros su1 ps1 H1. apply (Hall su1). now right.
Qed.

(* GUID stability over histories: once a successful run has given project [p] its GUID, every later
   successful run gives a project of the same name the same GUID, as long as the name is a project of every
   successful run in between (failed runs in between do not matter: they save nothing) *)
Theorem guid_stable f n pre r mid f1 n1 f2 n2 su ps :
  FInv f n -> state_after f n pre = (f1, n1) -> run f1 n1 r = ((f2, n2), RunOk (su, ps)) ->
  forall p, In p ps ->
  (forall su' ps', In (RunOk (su', ps')) (hist f2 n2 mid) -> In (p_name p) (map p_name ps')) ->
  forall su' ps' p', In (RunOk (su', ps')) (hist f2 n2 mid) -> In p' ps' -> p_name p' = p_name p ->
  p_uuid p' = p_uuid p.
Proof.
  intros F SA R p Hp Hall su' ps' p' Hin Hp' Hn.
  pose proof (state_after_FInv pre f n F) as F1. rewrite SA in F1. cbn in F1.
  pose proof (run_FInv f1 n1 r F1) as F2. rewrite R in F2. cbn in F2.
  destruct (run_ok_from_file _ _ _ _ _ _ _ R F1) as [_ B].
  exact (stable_from_file mid f2 n2 (p_name p) (p_uuid p) F2 (B p Hp) Hall su' ps' p' Hin Hp' Hn).
Qed.

(* GUID uniqueness inside one solution *)
Lemma lookup_nodup mF : NoDup (map snd mF) -> forall l : list (str * uuid),
  (forall k u, In (k, u) l -> lookup k mF = Some u) -> NoDup (map fst l) -> NoDup (map snd l).
Proof.
  intros ND. induction l as [|[k u] l IH]; cbn; intros H N; [constructor|].
  inversion N as [|? ? Hn N']; subst. constructor.
  - intros Hin. apply in_map_iff in Hin as [[k2 u2] [E Hin]]. cbn in E. subst u2.
    assert (k = k2) by (eapply (vals_inj mF ND); [apply H; now left|apply H; now right]).
    subst. apply Hn. apply (in_map fst) in Hin. exact Hin.
  - apply IH; auto.
Qed.

Theorem guid_unique f n r f' n' su ps : FInv f n -> run f n r = ((f', n'), RunOk (su, ps)) ->
  NoDup (map p_name ps) -> ~ In [] (map p_name ps) -> NoDup (su :: map p_uuid ps).
Proof.
  intros F R ND Hne. destruct (run_ok_spec _ _ _ _ _ _ _ R F) as (stF & E1 & E2 & (A & B & C) & FL & Lsu & Ssu & P & S & N).
  pose (l := ([], su) :: map (fun p => (p_name p, p_uuid p)) ps).
  assert (Hf : map fst l = [] :: map p_name ps) by (unfold l; cbn; now rewrite map_map).
  assert (Hs : map snd l = su :: map p_uuid ps) by (unfold l; cbn; now rewrite map_map).
  rewrite <- Hs. apply (lookup_nodup (um_map stF) B).
  - intros k u [Hin|Hin].
    + inversion Hin; subst. exact Lsu.
    + apply in_map_iff in Hin as [p [E Hp]]. inversion E; subst. now apply P.
  - change (NoDup (map fst l)). rewrite Hf. constructor; assumption.
Qed.

(* a project that is no longer named by the build script is dropped from the file *)
Theorem forget_removed f n r f' n' su ps k : FInv f n -> run f n r = ((f', n'), RunOk (su, ps)) ->
  k <> [] -> ~ In k (map sp_name (r_specs r)) -> file_lookup k f' = None.
Proof.
  intros F R Hk Hn. destruct (run_ok_spec _ _ _ _ _ _ _ R F) as (stF & E1 & E2 & I & FL & Lsu & Ssu & P & S & N).
  subst f'. rewrite save_lookup. destruct (mem_str k (um_seen stF)) eqn:M; [|reflexivity].
  apply mem_str_In in M. apply S in M as [M|M]; [congruence|contradiction].
Qed.

(* a failed run changes nothing that is persisted *)
Theorem failed_run_keeps_file f n r : forall f' n' o, run f n r = ((f', n'), o) ->
  (forall s, o <> RunOk s) -> f' = f.
Proof.
  intros f' n' o R H. destruct (run_cases f n r) as [(f2 & n2 & su & ps & R2)|[(n2 & L & R2)|R2]]; rewrite R2 in R; inversion R; subst; auto.
  exfalso. now apply (H (su, ps)).
Qed.
End Proofs.

(* ---- dependency closure of the written solution (needs no assumption on the oracle) ---- *)
Section Deps.
Variable fresh : nat -> uuid.

Lemma pkey_eqb_eq a b : pkey_eqb a b = true <-> a = b.
Proof. destruct a, b; cbn; try (split; congruence). rewrite str_eqb_eq. split; congruence. Qed.

Lemma dict_get_app k d d2 :
  dict_get k (d ++ d2) = match dict_get k d with Some v => Some v | None => dict_get k d2 end.
Proof. induction d as [|[k' v'] r IH]; cbn; [reflexivity|]. now destruct (pkey_eqb k' k). Qed.

Lemma dict_set_fresh k v d : dict_get k d = None -> dict_set k v d = d ++ [(k, v)].
Proof.
  induction d as [|[k' v'] r IH]; cbn; [reflexivity|]. destruct (pkey_eqb k' k); [discriminate|].
  intros H. now rewrite IH.
Qed.

Definition DInv (projs : pdict) : Prop :=
  forall key p d, In (key, p) projs -> In d (p_deps p) -> exists key' q, In (key', q) projs /\ p_uuid q = d.

Lemma dependencies_sound : forall deps d l, dependencies d deps = Some l ->
  forall x, In x l -> exists key q, In (key, q) d /\ p_uuid q = x.
Proof.
  induction deps as [|[k|] r IH]; cbn; intros d l H x Hx.
  - inversion H; subst. contradiction.
  - destruct (dict_get (PK k) d) as [p|] eqn:G; [|discriminate].
    destruct (dependencies d r) as [l'|] eqn:D; [|discriminate]. inversion H; subst. destruct Hx as [Hx|Hx].
    + subst. apply dict_get_In in G as [k' G]. eauto.
    + eapply IH; eauto.
  - eapply IH; eauto.
Qed.

Lemma add_projects_deps : forall specs st projs st' projs',
  add_projects fresh st projs specs = (st', Some projs') ->
  NoDup (map sp_key specs) -> (forall sp, In sp specs -> dict_get (PK (sp_key sp)) projs = None) -> DInv projs ->
  DInv projs' /\ map fst projs' = map fst projs ++ map (fun sp => PK (sp_key sp)) specs.
Proof.
  induction specs as [|sp r IH]; intros st projs st' projs' H ND Hf D; cbn in H.
  - inversion H; subst. split; [assumption|]. cbn. now rewrite app_nil_r.
  - destruct (dependencies projs (sp_deps sp)) as [ds|] eqn:Dp; [|discriminate].
    destruct (getitem fresh st (sp_name sp)) as [st1 u].
    rewrite dict_set_fresh in H by (apply Hf; now left).
    inversion ND as [|? ? Hn ND']; subst.
    apply IH in H as [D' K]; auto.
    + split; [assumption|]. rewrite K, map_app. cbn. now rewrite <- app_assoc.
    + intros sp' Hsp'. rewrite dict_get_app. rewrite (Hf sp') by now right. cbn.
      destruct (str_eqb (sp_key sp) (sp_key sp')) eqn:E; [|reflexivity].
      apply str_eqb_eq in E. exfalso. apply Hn. rewrite E. now apply in_map.
    + intros key p d Hin Hd. apply in_app_or in Hin as [Hin|[Hin|[]]].
      * destruct (D key p d Hin Hd) as (k' & q & Hq & E). exists k', q. split; [apply in_or_app; now left|assumption].
      * inversion Hin; subst. cbn in Hd. destruct (dependencies_sound _ _ _ Dp d Hd) as (k' & q & Hq & E).
        exists k', q. split; [apply in_or_app; now left|assumption].
Qed.

Lemma fold_fresh : forall rest acc, NoDup (map fst rest) ->
  (forall kv, In kv rest -> dict_get (fst kv) acc = None) ->
  fold_left (fun a kv => dict_set (fst kv) (snd kv) a) rest acc = acc ++ rest.
Proof.
  induction rest as [|[k v] rest IH]; intros acc ND H; cbn; [now rewrite app_nil_r|].
  inversion ND as [|? ? Hn ND']; subst. rewrite dict_set_fresh by (apply (H (k, v)); now left).
  rewrite IH; auto.
  - now rewrite <- app_assoc.
  - intros [k' v'] Hin. cbn. rewrite dict_get_app. pose proof (H (k', v') (or_intror Hin)) as Hk. cbn in Hk.
    rewrite Hk. cbn. destruct (pkey_eqb k k') eqn:E; [|reflexivity]. apply pkey_eqb_eq in E. subst. exfalso.
    apply Hn. apply (in_map fst) in Hin. exact Hin.
Qed.

Lemma dict_remove_keys k d : NoDup (map fst d) -> NoDup (map fst (dict_remove k d)).
Proof.
  induction d as [|[k' v'] r IH]; cbn; intros ND; [constructor|]. inversion ND as [|? ? Hn ND']; subst.
  destruct (pkey_eqb k' k); cbn; [assumption|]. constructor; auto.
  intros Hin. apply in_map_iff in Hin as [[k2 v2] [E Hin]]. cbn in E. subst.
  apply dict_remove_In in Hin. apply Hn. apply (in_map fst) in Hin. exact Hin.
Qed.

Lemma dict_remove_split k d p0 : dict_get k d = Some p0 ->
  forall key q, In (key, q) d -> In (key, q) (dict_remove k d) \/ q = p0.
Proof.
  induction d as [|[k' v'] r IH]; cbn; [discriminate|]. destruct (pkey_eqb k' k).
  - intros H key q [Hin|Hin].
    + inversion H; inversion Hin; subst. now right.
    + now left.
  - intros H key q [Hin|Hin].
    + left. now left.
    + destruct (IH H key q Hin); [left; now right|now right].
Qed.

Lemma set_default_sup d k : NoDup (map fst d) -> (forall key q, In (key, q) d -> key <> PKeyLit) ->
  forall key q, In (key, q) d -> exists key', In (key', q) (set_default d k).
Proof.
  intros ND HK key q Hin. unfold set_default. destruct (dict_get (PK k) d) as [p0|] eqn:G; [|eauto].
  rewrite fold_fresh.
  - destruct (dict_remove_split _ _ _ G key q Hin) as [H|H].
    + exists key. apply in_or_app. now right.
    + subst. exists PKeyLit. now left.
  - now apply dict_remove_keys.
  - intros [k' v'] Hin'. cbn. apply dict_remove_In in Hin'. apply HK in Hin'. destruct k'; [reflexivity|congruence].
Qed.

(* every dependency GUID written into a ProjectDependencies section is the GUID of a project of the same
   solution, provided no two steps share their first public output *)
Theorem deps_closed f n r f' n' su ps : run fresh f n r = ((f', n'), RunOk (su, ps)) ->
  NoDup (map sp_key (r_specs r)) ->
  forall p d, In p ps -> In d (p_deps p) -> exists q, In q ps /\ p_uuid q = d.
Proof.
  unfold run. intros H ND p d Hp Hd. destruct (load f) as [m0|]; [|discriminate].
  destruct (getitem fresh {| um_map := m0; um_seen := []; um_next := n |} []) as [st1 su1].
  destruct (add_projects fresh st1 [] (r_specs r)) as [st2 [projs|]] eqn:AP; [|discriminate].
  apply add_projects_deps in AP as [D K]; auto; [|intros key p0 d0 []].
  inversion H; subst; clear H.
  apply in_map_iff in Hp as [[key p1] [E Hin]]. cbn in E. subst p1. cbn in K.
  assert (NDk : NoDup (map fst projs)).
  { rewrite K, <- (map_map sp_key PK). apply FinFun.Injective_map_NoDup; [|assumption].
    intros a b E. now inversion E. }
  assert (HK : forall key0 q, In (key0, q) projs -> key0 <> PKeyLit).
  { intros key0 q Hq. apply (in_map fst) in Hq. rewrite K in Hq. cbn in Hq.
    apply in_map_iff in Hq as [sp [E _]]. rewrite <- E. discriminate. }
  destruct (r_default r) as [k|].
  - apply set_default_sub in Hin as [key' Hin]. destruct (D key' p d Hin Hd) as (k2 & q & Hq & E).
    destruct (set_default_sup projs k NDk HK k2 q Hq) as [k3 H3]. exists q. split; [|assumption].
    apply in_map_iff. exists (k3, q). split; auto.
  - destruct (D key p d Hin Hd) as (k2 & q & Hq & E). exists q. split; [|assumption].
    apply in_map_iff. exists (k2, q). split; auto.
Qed.

(* ---- every step has exactly one Project entry, and the default project comes first ---- *)
Definition kn (kp : pkey * project) : pkey * str := (fst kp, p_name (snd kp)).
Definition skn (sp : spec) : pkey * str := (PK (sp_key sp), sp_name sp).

Lemma add_projects_names : forall specs st projs st' projs',
  add_projects fresh st projs specs = (st', Some projs') ->
  NoDup (map sp_key specs) -> (forall sp, In sp specs -> dict_get (PK (sp_key sp)) projs = None) ->
  map kn projs' = map kn projs ++ map skn specs.
Proof.
  induction specs as [|sp r IH]; intros st projs st' projs' H ND Hf; cbn in H.
  - inversion H; subst. cbn. now rewrite app_nil_r.
  - destruct (dependencies projs (sp_deps sp)) as [ds|] eqn:Dp; [|discriminate].
    destruct (getitem fresh st (sp_name sp)) as [st1 u].
    rewrite dict_set_fresh in H by (apply Hf; now left).
    inversion ND as [|? ? Hn ND']; subst.
    apply IH in H; auto.
    + rewrite H, map_app. cbn. now rewrite <- app_assoc.
    + intros sp' Hsp'. rewrite dict_get_app. rewrite (Hf sp') by now right. cbn.
      destruct (str_eqb (sp_key sp) (sp_key sp')) eqn:E; [|reflexivity].
      apply str_eqb_eq in E. exfalso. apply Hn. rewrite E. now apply in_map.
Qed.

Lemma dict_get_In_key k d v : dict_get k d = Some v -> In (k, v) d.
Proof.
  induction d as [|[k' v'] r IH]; cbn; [discriminate|]. destruct (pkey_eqb k' k) eqn:E.
  - intros H. inversion H. subst. apply pkey_eqb_eq in E. subst. now left.
  - intros H. right. auto.
Qed.

Lemma In_dict_get k d : In k (map fst d) -> exists v, dict_get k d = Some v.
Proof.
  induction d as [|[k' v'] r IH]; cbn; [tauto|]. intros [H|H].
  - subst. replace (pkey_eqb k k) with true by (symmetry; now apply pkey_eqb_eq). eauto.
  - destruct (pkey_eqb k' k); eauto.
Qed.

Lemma dict_remove_perm k d p0 : dict_get k d = Some p0 ->
  Permutation (p0 :: map snd (dict_remove k d)) (map snd d).
Proof.
  induction d as [|[k' v'] r IH]; cbn; [discriminate|]. destruct (pkey_eqb k' k).
  - intros H. inversion H. subst. apply Permutation_refl.
  - intros H. cbn. eapply perm_trans; [apply perm_swap|]. apply perm_skip. auto.
Qed.

Lemma set_default_shape d k p0 : NoDup (map fst d) -> (forall key q, In (key, q) d -> key <> PKeyLit) ->
  dict_get (PK k) d = Some p0 -> set_default d k = (PKeyLit, p0) :: dict_remove (PK k) d.
Proof.
  intros ND HK G. unfold set_default. rewrite G. rewrite fold_fresh; [reflexivity| |].
  - now apply dict_remove_keys.
  - intros [k' v'] Hin'. cbn. apply dict_remove_In in Hin'. apply HK in Hin'. destruct k'; [reflexivity|congruence].
Qed.

(* a successful run whose steps have pairwise distinct keys writes exactly one Project entry per step
   (whatever the defaults are), and when the chosen default (the first explicit one, else the last
   implicit one) is a step of the solution, its project is the first entry *)
Theorem default_wellformed f n r f' n' su ps : run fresh f n r = ((f', n'), RunOk (su, ps)) ->
  NoDup (map sp_key (r_specs r)) ->
  Permutation (map p_name ps) (map sp_name (r_specs r)) /\
  (forall k, default_choice (r_explicit r) (r_fallback r) = Some k -> In k (map sp_key (r_specs r)) ->
     exists sp p, In sp (r_specs r) /\ sp_key sp = k /\ hd_error ps = Some p /\ p_name p = sp_name sp).
Proof.
  unfold run. intros H ND. destruct (load f) as [m0|]; [|discriminate].
  destruct (getitem fresh {| um_map := m0; um_seen := []; um_next := n |} []) as [st1 su1].
  destruct (add_projects fresh st1 [] (r_specs r)) as [st2 [projs|]] eqn:AP; [|discriminate].
  pose proof (add_projects_names _ _ _ _ _ AP ND (fun sp _ => eq_refl)) as KN. cbn in KN.
  assert (K : map fst projs = map (fun sp => PK (sp_key sp)) (r_specs r)).
  { apply (f_equal (map fst)) in KN. rewrite !map_map in KN. exact KN. }
  assert (N : map p_name (map snd projs) = map sp_name (r_specs r)).
  { apply (f_equal (map snd)) in KN. rewrite !map_map in KN. rewrite map_map. exact KN. }
  assert (NDk : NoDup (map fst projs)).
  { rewrite K, <- (map_map sp_key PK). apply FinFun.Injective_map_NoDup; [|assumption].
    intros a b E. now inversion E. }
  assert (HK : forall key0 q, In (key0, q) projs -> key0 <> PKeyLit).
  { intros key0 q Hq. apply (in_map fst) in Hq. rewrite K in Hq. cbn in Hq.
    apply in_map_iff in Hq as [sp [E _]]. rewrite <- E. discriminate. }
  inversion H; subst; clear H. unfold r_default.
  destruct (default_choice (r_explicit r) (r_fallback r)) as [k|]; [|split; [now rewrite N|discriminate]].
  destruct (dict_get (PK k) projs) as [p0|] eqn:G.
  - rewrite (set_default_shape _ _ _ NDk HK G). split.
    + rewrite <- N. apply Permutation_map. cbn. now apply dict_remove_perm.
    + intros k0 E Hin. inversion E; subst k0. apply dict_get_In_key in G.
      apply (in_map kn) in G. rewrite KN in G. apply in_map_iff in G as [sp [E2 Hsp]].
      unfold kn, skn in E2. cbn in E2. inversion E2. exists sp, p0. repeat split; auto.
  - unfold set_default. rewrite G. split; [now rewrite N|].
    intros k0 E Hin. inversion E; subst k0. exfalso.
    assert (In (PK k) (map fst projs)) as Hk.
    { rewrite K, <- (map_map sp_key PK). now apply in_map. }
    apply In_dict_get in Hk as [v Hv]. congruence.
Qed.
End Deps.
