"""C01 - Make backend: every argument reaches the spawned process unchanged."""
import random
from . import common, gen, shtools
from .common import d_str, d_bool, d_opt, d_list

LEVEL = 'proof'
RULE = ('strings are drawn per character from weighted classes (plain, ok-punctuation, blank, single quote, sh-special, '
        'Make-special, backslash, non-ASCII word / non-word / space), lengths 0..10, plus a corpus of corner cases; '
        'a case is non-trivial when it contains at least one character outside [A-Za-z0-9_] and distinct by its exact text')
TRUSTED = ('R model Shell/Sh.v validated against /bin/dash on this run', )
EXPLANATION = ''

CORPUS_WORDS = ['', "'", "''", "'''", "a'", "'a", "'a'", "a'b", "''a", "a''", "' '", "\\", "\\'", "'\\''", "$", "$$", "#",
                "a b", " ", "\t", "~", "~x", "%", "a,b", "(", ")", "a=b", "=", "-", "@", "+", "é", "€", "a\xa0b",
                "&&", "&", ";", "|", "*", "?", "[a]", "!", "`x`", "$(x)", "${x}", '"', '"a b"', "a\\ b"]


def nontrivial(s):
    return any(not (c.isalnum() and c.isascii() or c == '_') for c in s)


def dec(name, r):
    if name in ('posix.quote', 'posix.wrap_quotes', 'posix.join'):
        return d_str(r)
    if name in ('posix.inner_quote_info', 'posix.quote_info'):
        return (d_str(r[0]), d_bool(r[1]))
    if name == 'sh.words':
        return d_opt(lambda x: d_list(d_str, x), r)
    raise KeyError(name)


def stage_w_posix(rep, rng, n):
    from bfg9000.shell import posix as pshell
    from bfg9000.safe_str import jbos, shell_literal
    uw, _ = gen.uni_tables()
    calls, impl = [], []
    words = CORPUS_WORDS + [gen.arg_string(rng, rep) for _ in range(n)]
    for s in words:
        rep.case('q:' + s, nontrivial(s))
        calls.append(('posix.quote', [uw, s])); impl.append(pshell.quote(s))
        calls.append(('posix.inner_quote_info', [uw, s])); impl.append(tuple(pshell.inner_quote_info(s)))
        calls.append(('posix.wrap_quotes', [s])); impl.append(pshell.wrap_quotes(s))
    for _ in range(n // 4):
        args = gen.arg_list(rng, rep)
        rep.case('j:' + repr(args), any(nontrivial(a) for a in args))
        calls.append(('posix.join', [uw, args])); impl.append(pshell.join(args))
        # jbos of alternating str / shell_literal bits
        bits = []
        for a in args:
            lit = rng.random() < 0.3
            if bits and bits[-1][0] == lit:
                continue            # jbos canonicalisation merges adjacent bits of one kind
            if a:
                bits.append((lit, a))
        if len(bits) >= 2:
            j = jbos(*[(shell_literal(a) if lit else a) for lit, a in bits])
            calls.append(('posix.quote_info', [uw, [[1 if lit else 0, a] for lit, a in bits]]))
            impl.append(tuple(pshell.quote_info(j)))
    for c in calls[:3]:
        rep.sample({'stage': 'W:posix', 'call': c[0], 'arg': c[1]})
    dis = common.compare_model(rep, 'W:posix', calls, impl, dec)
    return dis


def stage_r_dash(rep, rng, n):
    """Sh.v (R model) against the real dash: on lines the model accepts, dash must deliver the same words."""
    from bfg9000.shell import posix as pshell
    uw, _ = gen.uni_tables()
    lines = []
    for _ in range(n):
        args = gen.arg_list(rng, None, maxn=3, maxlen=6)
        line = pshell.join(args)
        if rng.random() < 0.5:     # mutate: the model must also be right about near-misses it accepts
            chars = list(line) or ['a']
            for _ in range(rng.randint(1, 2)):
                i = rng.randrange(len(chars))
                op = rng.random()
                if op < 0.4:
                    chars[i] = rng.choice("ab' \\@=,")
                elif op < 0.7:
                    chars.insert(i, rng.choice("ab' \\@=,"))
                else:
                    del chars[i]
                    if not chars:
                        chars = ['a']
            line = ''.join(chars)
        if '\n' in line or '\0' in line:
            continue
        lines.append(line)
    calls = [('sh.words', [uw, l]) for l in lines]
    raw = common.model_batch(calls)
    bad = 0
    accepted = 0
    for l, r in zip(lines, raw):
        mv = dec('sh.words', r)
        if mv is None:
            continue
        accepted += 1
        dv = shtools.dash_words(l)
        rep.case('r:' + l, nontrivial(l))
        if dv != mv:
            bad += 1
            rep.fail('R:sh_words - the sh model and /bin/dash disagree on %r: model %r, dash %r' % (l, mv, dv),
                     {'obligation': 'R:sh_words', 'line': l, 'model': mv, 'dash': dv}, found_input=False)
    rep.stage('R:dash', lines=len(lines), accepted_by_model=accepted, disagreements=bad)


def classify_word_failure(args):
    return ()


def stage_oracle_quote(rep, rng, n):
    """Search / direct check on the implementation: real quote -> real dash -> the same words."""
    from bfg9000.shell import posix as pshell
    bad = 0
    cases = [[w] for w in CORPUS_WORDS] + [gen.arg_list(rng, rep) for _ in range(n)]
    for args in cases:
        if any('\n' in a or '\0' in a or '\r' in a for a in args):
            continue
        line = pshell.join(args)
        dv = shtools.dash_words(line)
        rep.case('o:' + repr(args), any(nontrivial(a) for a in args))
        if dv != args:
            bad += 1
            rep.fail('arguments %r written as %r are delivered by /bin/sh as %r' % (args, line, dv),
                     {'args': args, 'written': line, 'delivered': dv,
                      'replay_hint': "python -c 'from bfg9000.shell import posix; print(posix.join(ARGS))' | dash"},
                     classes=classify_word_failure(args))
    rep.stage('oracle:quote->dash', cases=len(cases), failures=bad)
    return bad


def run(rep):
    rng = random.Random(rep.seed)
    thorough = rep.tier == 'thorough'
    rep.proof_stage(coqchk=thorough)
    n = 4000 if thorough else 600
    dis = stage_w_posix(rep, rng, n)
    stage_r_dash(rep, rng, n // 2)
    found = stage_oracle_quote(rep, rng, n // 2 * (10 if dis else 1))
    if dis and not found:
        i, call, iv, mv = dis[0]
        rep.fail('W:%s - model and implementation disagree (%d cases), e.g. %r: impl %r, model %r' % (
            call[0], len(dis), call[1], iv, mv),
            {'obligation': 'W:' + call[0], 'call': call, 'impl': iv, 'model': mv, 'n_disagreements': len(dis)},
            found_input=False)


def replay(rep, path):
    import json
    r = json.load(open(path))
    print(json.dumps(r, indent=1)[:2000])
    run(rep)
