"""C01 - Make backend: every argument reaches the spawned process unchanged."""
import random
from . import common, gen, shtools
from .common import d_str, d_bool, d_opt, d_list

LEVEL = 'proof'
RULE = ('strings are drawn per character from weighted classes (plain, ok-punctuation, blank, single quote, sh-special, '
        'Make-special, backslash, non-ASCII word / non-word / space), lengths 0..10, plus a corpus of corner cases; '
        'a case is non-trivial when it contains at least one character outside [A-Za-z0-9_] and distinct by its exact text')
TRUSTED = ('R model Shell/Sh.v validated against /bin/dash on this run', )
EXPLANATION = ''

CORPUS_WORDS = ['', "'", "''", "'''", "a'", "'a", "'a'", "a'b", "''a", "a''", "' '", "\\", "\\'", "'\\''", "$", "$$", "#",
                "a b", " ", "\t", "~", "~x", "%", "a,b", "(", ")", "a=b", "=", "-", "@", "+", "é", "€", "a\xa0b",
                "&&", "&", ";", "|", "*", "?", "[a]", "!", "`x`", "$(x)", "${x}", '"', '"a b"', "a\\ b"]


def nontrivial(s):
    return any(not (c.isalnum() and c.isascii() or c == '_') for c in s)


def dec(name, r):
    if name in ('posix.quote', 'posix.wrap_quotes', 'posix.join'):
        return d_str(r)
    if name in ('posix.inner_quote_info', 'posix.quote_info'):
        return (d_str(r[0]), d_bool(r[1]))
    if name == 'sh.words':
        return d_opt(lambda x: d_list(d_str, x), r)
    raise KeyError(name)


def stage_w_posix(rep, rng, n):
    from bfg9000.shell import posix as pshell
    from bfg9000.safe_str import jbos, shell_literal
    uw, _ = gen.uni_tables()
    calls, impl = [], []
    words = CORPUS_WORDS + [gen.arg_string(rng, rep) for _ in range(n)]
    for s in words:
        rep.case('q:' + s, nontrivial(s))
        calls.append(('posix.quote', [uw, s])); impl.append(pshell.quote(s))
        calls.append(('posix.inner_quote_info', [uw, s])); impl.append(tuple(pshell.inner_quote_info(s)))
        calls.append(('posix.wrap_quotes', [s])); impl.append(pshell.wrap_quotes(s))
    for _ in range(n // 4):
        args = gen.arg_list(rng, rep)
        rep.case('j:' + repr(args), any(nontrivial(a) for a in args))
        calls.append(('posix.join', [uw, args])); impl.append(pshell.join(args))
        # jbos of alternating str / shell_literal bits
        bits = []
        for a in args:
            lit = rng.random() < 0.3
            if bits and bits[-1][0] == lit:
                continue            # jbos canonicalisation merges adjacent bits of one kind
            if a:
                bits.append((lit, a))
        if len(bits) >= 2:
            j = jbos(*[(shell_literal(a) if lit else a) for lit, a in bits])
            calls.append(('posix.quote_info', [uw, [[1 if lit else 0, a] for lit, a in bits]]))
            impl.append(tuple(pshell.quote_info(j)))
    for c in calls[:3]:
        rep.sample({'stage': 'W:posix', 'call': c[0], 'arg': c[1]})
    dis = common.compare_model(rep, 'W:posix', calls, impl, dec)
    return dis


def stage_r_dash(rep, rng, n):
    """Sh.v (R model) against the real dash: on lines the model accepts, dash must deliver the same words."""
    from bfg9000.shell import posix as pshell
    uw, _ = gen.uni_tables()
    lines = []
    for _ in range(n):
        args = gen.arg_list(rng, None, maxn=3, maxlen=6)
        line = pshell.join(args)
        if rng.random() < 0.5:     # mutate: the model must also be right about near-misses it accepts
            chars = list(line) or ['a']
            for _ in range(rng.randint(1, 2)):
                i = rng.randrange(len(chars))
                op = rng.random()
                if op < 0.4:
                    chars[i] = rng.choice("ab' \\@=,")
                elif op < 0.7:
                    chars.insert(i, rng.choice("ab' \\@=,"))
                else:
                    del chars[i]
                    if not chars:
                        chars = ['a']
            line = ''.join(chars)
        if '\n' in line or '\0' in line:
            continue
        lines.append(line)
    calls = [('sh.words', [uw, l]) for l in lines]
    raw = common.model_batch(calls)
    bad = 0
    accepted = 0
    for l, r in zip(lines, raw):
        mv = dec('sh.words', r)
        if mv is None:
            continue
        accepted += 1
        dv = shtools.dash_words(l)
        rep.case('r:' + l, nontrivial(l))
        if dv != mv:
            bad += 1
            rep.fail('R:sh_words - the sh model and /bin/dash disagree on %r: model %r, dash %r' % (l, mv, dv),
                     {'obligation': 'R:sh_words', 'line': l, 'model': mv, 'dash': dv}, found_input=False)
    rep.stage('R:dash', lines=len(lines), accepted_by_model=accepted, disagreements=bad)


def classify_word_failure(args):
    return ()


def stage_oracle_quote(rep, rng, n):
    """Search / direct check on the implementation: real quote -> real dash -> the same words."""
    from bfg9000.shell import posix as pshell
    bad = 0
    cases = [[w] for w in CORPUS_WORDS] + [gen.arg_list(rng, rep) for _ in range(n)]
    for args in cases:
        if any('\n' in a or '\0' in a or '\r' in a for a in args):
            continue
        line = pshell.join(args)
        dv = shtools.dash_words(line)
        rep.case('o:' + repr(args), any(nontrivial(a) for a in args))
        if dv != args:
            bad += 1
            rep.fail('arguments %r written as %r are delivered by /bin/sh as %r' % (args, line, dv),
                     {'args': args, 'written': line, 'delivered': dv,
                      'replay_hint': "python -c 'from bfg9000.shell import posix; print(posix.join(ARGS))' | dash"},
                     classes=classify_word_failure(args))
    rep.stage('oracle:quote->dash', cases=len(cases), failures=bad)
    return bad


# ----------------------------------------------------------------------------- Make layer
SYN = {'target': 0, 'dependency': 1, 'function': 2, 'shell': 3, 'clean': 4}


def gen_frag(rng, depth=0):
    """Returns (encoding, python_object) of one safe_str fragment."""
    from bfg9000.safe_str import literal, shell_literal
    from bfg9000.backends.make.syntax import syntax_string, Syntax
    k = rng.random()
    s = gen.arg_string(rng, None, maxlen=6, allow_empty=False)
    if k < 0.15:
        return [0, s], literal(s)
    if k < 0.3:
        return [1, s], shell_literal(s)
    if k < 0.8 or depth >= 2:
        return [2, s], s
    # syntax_string with its own syntax / quoted flag
    n = rng.randint(1, 3)
    enc_bits, py_bits, last = [], [], None
    for _ in range(n):
        e, o = gen_frag(rng, depth + 1)
        if last == e[0] and e[0] in (0, 1, 2):
            continue
        enc_bits.append(e); py_bits.append(o); last = e[0]
    from bfg9000.safe_str import jbos
    data = py_bits[0] if len(py_bits) == 1 else jbos(*py_bits)
    if isinstance(data, jbos) and len(data.bits) != len(py_bits):
        return [2, s], s
    syn = rng.choice([None, 'function', 'shell', 'target'])
    quoted = rng.random() < 0.5
    return [4, enc_bits, [] if syn is None else [SYN[syn]], quoted], syntax_string(data, None if syn is None else Syntax[syn], quoted)


def gen_jbos(rng):
    from bfg9000.safe_str import jbos
    n = rng.choice([1, 1, 1, 2, 3])
    enc_bits, py_bits, last = [], [], None
    for _ in range(n):
        e, o = gen_frag(rng)
        if last == e[0] and e[0] in (0, 1, 2):
            continue
        enc_bits.append(e); py_bits.append(o); last = e[0]
    obj = py_bits[0] if len(py_bits) == 1 else jbos(*py_bits)
    if len(py_bits) > 1 and len(obj.bits) != len(py_bits):
        return gen_jbos(rng)
    return enc_bits, obj


def path_frag(rng, writer, shelly):
    """A real Path object and the encoding of its realised bits."""
    from bfg9000.path import Path, Root, InstallRoot
    from bfg9000.safe_str import jbos, literal
    from bfg9000.backends.make.syntax import Variable
    comps = [gen.arg_string(rng, None, maxlen=5, allow_empty=False).replace('/', '_').replace('\\', '_') for _ in range(rng.randint(1, 3))]
    comps = [c for c in comps if c not in ('.', '..') and not c.startswith('~') and ':' not in c[:2]] or ['x']
    root = rng.choice([Root.srcdir, Root.builddir, InstallRoot.bindir])
    try:
        p = Path('/'.join(comps), root)
    except ValueError:
        p = Path('x', root)
    real = p.realize(writer.path_vars, shelly)
    bits = []
    for b in (real.bits if isinstance(real, jbos) else [real]):
        b = b.use() if isinstance(b, Variable) else b
        bits.append([isinstance(b, literal), b.string if isinstance(b, literal) else b])
    return [3, bits], p


def stage_w_make(rep, rng, n):
    from io import StringIO
    from bfg9000.backends.make.syntax import Writer, Syntax, Makefile, Variable
    uw, us = gen.uni_tables()
    calls, impl = [], []
    mk = Makefile('build.bfg')
    # escape_str in the five syntaxes (+ the newline error branch)
    words = CORPUS_WORDS + ['a\\ b', '\\#', '\\\\#', '~', '~a', 'a~', '\\~', 'a|b', 'a\\|b', 'a\nb', 'x\x0by', 'x\x1cy', 'x\x85y'] + \
        [gen.arg_string(rng, rep) for _ in range(n)]
    for s in words:
        for name, num in SYN.items():
            try:
                iv = Writer.escape_str(s, Syntax[name])
            except ValueError:
                iv = None
            calls.append(('make.escape_str', [us, s, num])); impl.append(iv)
            rep.case('e:%s:%s' % (name, s), nontrivial(s))
    # Writer.write on fragment trees and paths
    for _ in range(n):
        syn = rng.choice(list(SYN))
        w = mk.writer(StringIO())
        if rng.random() < 0.3:
            e, o = path_frag(rng, w, syn in ('function', 'shell'))
            enc_j = [e]
        else:
            enc_j, o = gen_jbos(rng)
        try:
            esc = w.write(o, Syntax[syn])
            iv = (w.stream.getvalue(), bool(esc))
        except ValueError:
            iv = None
        calls.append(('make.write', [uw, us, enc_j, SYN[syn], 0])); impl.append(iv)
        rep.case('w:%s:%r' % (syn, enc_j), True)
        rep.count('frag:' + ('path' if enc_j[0][0] == 3 else 'jbos%d' % len(enc_j)))
    # _write_variable (value channel, with the # escaping) and write_shell
    for _ in range(n // 2):
        items_enc, items_py = [], []
        for _ in range(rng.randint(1, 4)):
            if rng.random() < 0.7:
                s = gen.arg_string(rng, rep)
                items_enc.append([[2, s]]); items_py.append(s)
            else:
                e, o = gen_jbos(rng)
                items_enc.append(e); items_py.append(o)
        w = mk.writer(StringIO())
        try:
            mk._write_variable(w, Variable('V'), items_py)
            text = w.stream.getvalue()
            assert text.startswith('V := ') and text.endswith('\n')
            iv = text[5:-1]
        except ValueError:
            iv = None
        calls.append(('make.write_value', [uw, us, items_enc, 3])); impl.append(iv)
        w = mk.writer(StringIO())
        try:
            w.write_shell(items_py)
            iv = w.stream.getvalue()
        except ValueError:
            iv = None
        calls.append(('make.write_each', [uw, us, items_enc, 3])); impl.append(iv)
        rep.case('v:%r' % (items_enc,), True)

    def dec2(name, r):
        if name in ('make.escape_str', 'make.write_each', 'make.write_value'):
            return d_opt(d_str, r)
        if name == 'make.write':
            return d_opt(lambda x: (d_str(x[0]), d_bool(x[1])), r)
        raise KeyError(name)
    rep.sample({'stage': 'W:make', 'call': calls[-1][0], 'arg': calls[-1][1]})
    return common.compare_model(rep, 'W:make', calls, impl, dec2)


def make_value_of(text):
    """Value GNU Make gives V after  V := text  (via $(info))."""
    rc, _, out = shtools.make_run('V := ' + text + '\n$(info $(V))\nall:;@:\n')
    if rc != 0:
        return None
    return out.split('\n')[0]


def stage_r_make(rep, rng, n):
    """MakeRead.v against /usr/bin/make: immediate assignment values and recipe lines."""
    from bfg9000.shell import posix as pshell
    uw, us = gen.uni_tables()
    bad = 0
    texts = ['a#b', 'a\\#b', 'a\\\\#b', 'a\\\\\\#b', "'a#b' c", 'x$$y', '  lead', 'a\\b', 'tr ', '$(U)x', '$Ux', 'a$$$$b']
    for _ in range(n):
        s = gen.arg_string(rng, None, maxlen=8, classes=[c for c in gen.CLASSES if c[0] not in ('unisp',)])
        if rng.random() < 0.6:
            s = s.replace('$', '$$')
        texts.append(s)
    texts = [t for t in texts if '\n' not in t and '\0' not in t and '\r' not in t and not t.endswith('\\')]
    calls = [('make.assign_value', [[], t]) for t in texts]
    raw = common.model_batch(calls)
    acc = 0
    for t, r in zip(texts, raw):
        mv = d_opt(d_str, r)
        if mv is None:
            continue
        acc += 1
        rv = make_value_of(t)
        rep.case('rv:' + t, nontrivial(t))
        if rv != mv:
            bad += 1
            rep.fail('R:make_assign - Make model and /usr/bin/make disagree on the value of V := %r: model %r, make %r' % (t, mv, rv),
                     {'obligation': 'R:make_assign', 'text': t, 'model': mv, 'make': rv}, found_input=False)
    # recipe lines: model = recipe_shell_text ; sh.words, real = make + recorder
    rec_ok = 0
    for _ in range(n // 2):
        args = [shtools.ARGVREC] + gen.arg_list(rng, None, maxn=3, maxlen=6)
        args = [a for a in args if '\n' not in a and '\r' not in a and '\0' not in a]
        line = '\t' + pshell.join(args).replace('$', '$$')
        r1 = common.model_batch([('make.recipe_shell_text', [[], line])])[0]
        t = d_opt(d_str, r1)
        if t is None:
            continue
        mv = dec('sh.words', common.model_batch([('sh.words', [uw, t])])[0])
        rc, recs, out = shtools.make_run('all:\n' + line + '\n')
        rv = [shtools.ARGVREC] + recs[0]['argv'] if (rc == 0 and len(recs) == 1) else None
        rec_ok += 1
        rep.case('rr:' + line, True)
        if rv != mv:
            bad += 1
            rep.fail('R:make_recipe - model and real make disagree on recipe %r: model %r, make %r' % (line, mv, rv),
                     {'obligation': 'R:make_recipe', 'line': line, 'model': mv, 'make': rv, 'out': out[-300:]}, found_input=False)
    rep.stage('R:make', assign_texts=len(texts), accepted_by_model=acc, recipe_lines=rec_ok, disagreements=bad)


PREFIX_CHARS = '@-+'


def classify_make_failure(channel, args):
    cls = []
    w0 = args[0] if args else ''
    import re
    if channel == 'recipe':
        if re.match(r'^[A-Za-z_][A-Za-z0-9_]*=', w0) and not re.search(r"[^\w@%+=:,./-]", w0):
            cls.append('cmdword-assignment-like')
        if w0[:1] in PREFIX_CHARS and not re.search(r"[^\w@%+=:,./-]", w0):
            cls.append('cmdword-recipe-prefix')
    return tuple(cls)


def stage_oracle_make(rep, rng, n):
    """Direct check on the implementation: arguments written by the real Makefile writer (recipe channel and
    variable channel) are delivered by the real GNU Make + /bin/sh to the recorder unchanged."""
    from io import StringIO
    from bfg9000.backends.make.syntax import Makefile, var
    bad = 0
    cases = [[w] for w in CORPUS_WORDS if w] + [gen.arg_list(rng, rep, maxn=4) for _ in range(n)]
    for args in cases:
        args = [a for a in args if not any(c in a for c in '\n\r\0')]
        if not args:
            continue
        for channel in ('recipe', 'variable'):
            mk = Makefile('build.bfg')
            if channel == 'recipe':
                mk.rule('all', recipe=[[shtools.ARGVREC] + args], phony=True)
            else:
                mk.variable('V', args)
                mk.rule('all', recipe=[[shtools.ARGVREC, var('V')]], phony=True)
            o = StringIO()
            mk.write(o)
            rc, recs, out = shtools.make_run(o.getvalue(), 'all')
            got = recs[0]['argv'] if (rc == 0 and len(recs) == 1) else None
            rep.case('om:%s:%r' % (channel, args), any(nontrivial(a) for a in args))
            rep.count('channel:' + channel)
            if got != args:
                if rep.fail('Make backend, %s channel: arguments %r are delivered as %r' % (channel, args, got),
                            {'channel': channel, 'args': args, 'delivered': got, 'makefile': o.getvalue(), 'make_output': out[-400:]},
                            classes=classify_make_failure(channel, args)):
                    bad += 1
    rep.stage('oracle:makefile->make->sh', cases=len(cases) * 2, failures=bad)
    return bad


CMDWORDS = ['ok-cmd', 'A=1', 'a=b=c', '-cmd', '@cmd', '+cmd', "it's", 'a b', '~cmd', '%cmd', '=x', '1A=2']


def stage_oracle_cmdword(rep):
    """The command word position: programs with odd names (symlinks to the recorder on PATH) must be started
    under exactly that name, with their arguments and environment, through Make + sh."""
    import os, shutil
    from io import StringIO
    from bfg9000.backends.make.syntax import Makefile
    from bfg9000.shell import posix as pshell
    d = common.scratch('c01cw')
    bad = 0
    try:
        bindir = os.path.join(d, 'bin')
        os.mkdir(bindir)
        for w in CMDWORDS:
            os.symlink(shtools.ARGVREC, os.path.join(bindir, w))
        for w in CMDWORDS:
            for envd in ({}, {'VAR': 'v 1'}):
                mk = Makefile('build.bfg')
                mk.rule('all', recipe=[pshell.global_env(envd, [[w, 'x y']]) if envd else [w, 'x y']], phony=True)
                o = StringIO(); mk.write(o)
                rc, recs, out = shtools.make_run(o.getvalue(), 'all', envnames=('VAR',),
                                                 extra_env={'PATH': bindir + ':/usr/bin:/bin'})
                got = [(os.path.basename(r['argv0'] or ''), r['argv'], r['env'].get('VAR')) for r in recs] if rc == 0 else None
                want = [(w, ['x y'], envd.get('VAR'))]
                rep.case('cw:%s:%r' % (w, envd), True)
                if got != want:
                    if rep.fail('Make backend: command word %r with args %r env %r is run as %r' % (w, ['x y'], envd, got),
                                {'command_word': w, 'env': envd, 'delivered': got, 'makefile': o.getvalue(), 'out': out[-300:]},
                                classes=classify_make_failure('recipe', [w])):
                        bad += 1
    finally:
        shutil.rmtree(d, ignore_errors=True)
    rep.stage('oracle:command words', words=len(CMDWORDS), failures=bad)
    return bad


def run(rep):
    rng = random.Random(rep.seed)
    thorough = rep.tier == 'thorough'
    rep.proof_stage(coqchk=thorough)
    n = 4000 if thorough else 600
    dis = stage_w_posix(rep, rng, n)
    stage_r_dash(rep, rng, n // 2)
    dis += stage_w_make(rep, rng, n // 2)
    stage_r_make(rep, rng, 300 if thorough else 60)
    found = stage_oracle_quote(rep, rng, n // 2 * (10 if dis else 1))
    found += stage_oracle_make(rep, rng, (400 if thorough else 60) * (5 if dis else 1))
    found += stage_oracle_cmdword(rep)
    from . import c06
    for i in range(12 if thorough else 2):
        found += c06.declared_vs_delivered(rep, rng, i, 'make', odd_names=(i % 2 == 1))
    rep.stage('system:configure->make->recorder', projects=rep.traces)
    if dis and not found:
        i, call, iv, mv = dis[0]
        rep.fail('W:%s - model and implementation disagree (%d cases), e.g. %r: impl %r, model %r' % (
            call[0], len(dis), call[1], iv, mv),
            {'obligation': 'W:' + call[0], 'call': call, 'impl': iv, 'model': mv, 'n_disagreements': len(dis)},
            found_input=False)


def replay(rep, path):
    import json
    r = json.load(open(path))
    print(json.dumps(r, indent=1)[:2000])
    run(rep)
