"""C01 - Make backend: every argument reaches the spawned process unchanged."""
import random
from . import common, gen, shtools
from .common import d_str, d_bool, d_opt, d_list

LEVEL = 'proof'
RULE = ('strings are drawn per character from weighted classes (plain, ok-punctuation, blank, single quote, sh-special, '
        'Make-special, backslash, non-ASCII word / non-word / space), lengths 0..10, plus a corpus of corner cases; '
        'a case is non-trivial when it contains at least one character outside [A-Za-z0-9_] and distinct by its exact text; '
        'environment channel: names from a list of identifiers (and, for the tie only, of non-identifiers), values from a corpus '
        'rich in ~ : = plus random strings over ~ : = / a b . plus the general generator; sh lines for the R validation from a '
        'corpus of probed cases, the real writer output (also mutated) and random assemblies of tilde-relevant atoms; flag '
        'variables: random := definition lists (global / % / target, references, 3-4 variables, 2-6 targets), random DAGs and goal '
        'lists against the real make; in-process projects (library chains, executables, global options of each kind present or '
        'absent, own options present or absent) through the real Make handlers, non-trivial when steps with and without own '
        'values of one kind coexist' + '; system stage: generated projects with static libraries whose link_options= are forwarded (also through libs= of static libraries) to 5-6 consumers declared one after the other - the linker process of each compared with the declared closure of exactly that target (no missing, foreign or repeated word, each archive once) -, path-valued flag words (include / library directories, words joined from a string and a file, names with # $ blank @ + { ^, global and per target, source directory named with # and $), copies / symbolic / hard links between directories in near-prefix families (data / data2, lib / lib64, a / a.b) with the copying tools recorded: what a tool is handed, read from the directory of the link, names the input (path arithmetic and the real ln + readlink -f)')
TRUSTED = ('R model Shell/Sh.v validated against /bin/dash on this run (word splitting; second layer: assignment words, export, tilde '
           'expansion, environment along && - with a private HOME; a process in an && list is assumed to exit 0; login-name tilde '
           'prefixes, OPTIND and shell builtins as command words are outside the model fragment)',
           'R models Make/MakeRead.v and Make/MakeCall.v (define bodies, $(call ...) argument splitting, binding, body expansion, '
           'recipe lines) validated against /usr/bin/make on this run; call recipes whose command line ends in a backslash or lets $$ '
           'reach sh are outside the validated fragment',
           'nested test drivers: each nesting level is run by the real dash in the oracle; a one-word child is a file argument',
           'R model Make/MakeTVars.v (GNU Make lookup of target- / pattern-specific := variables with inheritance from the '
           'dependents of a sequential run; recursive =, +=, ?=, private / override / export, patterns other than %, command-line '
           'variables and -j are outside the model) validated against /usr/bin/make on this run; harness/c01tv.py parser of the '
           'variable lines of a written Makefile')
EXPLANATION = ''

CORPUS_WORDS = ['', "'", "''", "'''", "a'", "'a", "'a'", "a'b", "''a", "a''", "' '", "\\", "\\'", "'\\''", "$", "$$", "#",
                "a b", " ", "\t", "~", "~x", "%", "a,b", "(", ")", "a=b", "=", "-", "@", "+", "é", "€", "a\xa0b",
                "&&", "&", ";", "|", "*", "?", "[a]", "!", "`x`", "$(x)", "${x}", '"', '"a b"', "a\\ b",
                "a#b", "a\\#b", "\\#", "a\\\\#b", "#\\", "x\\\\\\#y z", "~/x", "a:~", "a=~/b", "-DX=a\\#b"]


def nontrivial(s):
    return any(not (c.isalnum() and c.isascii() or c == '_') for c in s)


def dec(name, r):
    if name in ('posix.quote', 'posix.wrap_quotes', 'posix.join'):
        return d_str(r)
    if name in ('posix.inner_quote_info', 'posix.quote_info'):
        return (d_str(r[0]), d_bool(r[1]))
    if name == 'sh.words':
        return d_opt(lambda x: d_list(d_str, x), r)
    raise KeyError(name)


def stage_w_posix(rep, rng, n):
    from bfg9000.shell import posix as pshell
    from bfg9000.safe_str import jbos, shell_literal
    uw, _ = gen.uni_tables()
    calls, impl = [], []
    words = CORPUS_WORDS + [gen.arg_string(rng, rep) for _ in range(n)]
    for s in words:
        rep.case('q:' + s, nontrivial(s))
        calls.append(('posix.quote', [uw, s])); impl.append(pshell.quote(s))
        calls.append(('posix.inner_quote_info', [uw, s])); impl.append(tuple(pshell.inner_quote_info(s)))
        calls.append(('posix.wrap_quotes', [s])); impl.append(pshell.wrap_quotes(s))
    for _ in range(n // 4):
        args = gen.arg_list(rng, rep)
        rep.case('j:' + repr(args), any(nontrivial(a) for a in args))
        calls.append(('posix.join', [uw, args])); impl.append(pshell.join(args))
        # jbos of alternating str / shell_literal bits
        bits = []
        for a in args:
            lit = rng.random() < 0.3
            if bits and bits[-1][0] == lit:
                continue            # jbos canonicalisation merges adjacent bits of one kind
            if a:
                bits.append((lit, a))
        if len(bits) >= 2:
            j = jbos(*[(shell_literal(a) if lit else a) for lit, a in bits])
            calls.append(('posix.quote_info', [uw, [[1 if lit else 0, a] for lit, a in bits]]))
            impl.append(tuple(pshell.quote_info(j)))
    for c in calls[:3]:
        rep.sample({'stage': 'W:posix', 'call': c[0], 'arg': c[1]})
    dis = common.compare_model(rep, 'W:posix', calls, impl, dec)
    return dis


def stage_r_dash(rep, rng, n):
    """Sh.v (R model) against the real dash: on lines the model accepts, dash must deliver the same words."""
    from bfg9000.shell import posix as pshell
    uw, _ = gen.uni_tables()
    lines = []
    for _ in range(n):
        args = gen.arg_list(rng, None, maxn=3, maxlen=6)
        line = pshell.join(args)
        if rng.random() < 0.5:     # mutate: the model must also be right about near-misses it accepts
            chars = list(line) or ['a']
            for _ in range(rng.randint(1, 2)):
                i = rng.randrange(len(chars))
                op = rng.random()
                if op < 0.4:
                    chars[i] = rng.choice("ab' \\@=,")
                elif op < 0.7:
                    chars.insert(i, rng.choice("ab' \\@=,"))
                else:
                    del chars[i]
                    if not chars:
                        chars = ['a']
            line = ''.join(chars)
        if '\n' in line or '\0' in line:
            continue
        lines.append(line)
    calls = [('sh.words', [uw, l]) for l in lines]
    raw = common.model_batch(calls)
    bad = 0
    accepted = 0
    for l, r in zip(lines, raw):
        mv = dec('sh.words', r)
        if mv is None:
            continue
        accepted += 1
        dv = shtools.dash_words(l)
        rep.case('r:' + l, nontrivial(l))
        if dv != mv:
            bad += 1
            rep.fail('R:sh_words - the sh model and /bin/dash disagree on %r: model %r, dash %r' % (l, mv, dv),
                     {'obligation': 'R:sh_words', 'line': l, 'model': mv, 'dash': dv}, found_input=False)
    rep.stage('R:dash', lines=len(lines), accepted_by_model=accepted, disagreements=bad)


def classify_word_failure(args):
    return ()


def stage_oracle_quote(rep, rng, n):
    """Search / direct check on the implementation: real quote -> real dash -> the same words."""
    from bfg9000.shell import posix as pshell
    bad = 0
    cases = [[w] for w in CORPUS_WORDS] + [gen.arg_list(rng, rep) for _ in range(n)]
    for args in cases:
        if any('\n' in a or '\0' in a or '\r' in a for a in args):
            continue
        line = pshell.join(args)
        dv = shtools.dash_words(line)
        rep.case('o:' + repr(args), any(nontrivial(a) for a in args))
        if dv != args:
            bad += 1
            rep.fail('arguments %r written as %r are delivered by /bin/sh as %r' % (args, line, dv),
                     {'args': args, 'written': line, 'delivered': dv,
                      'replay_hint': "python -c 'from bfg9000.shell import posix; print(posix.join(ARGS))' | dash"},
                     classes=classify_word_failure(args))
    rep.stage('oracle:quote->dash', cases=len(cases), failures=bad)
    return bad


# ----------------------------------------------------------------------------- Make layer
SYN = {'target': 0, 'dependency': 1, 'function': 2, 'shell': 3, 'clean': 4}


def gen_frag(rng, depth=0):
    """Returns (encoding, python_object) of one safe_str fragment."""
    from bfg9000.safe_str import literal, shell_literal
    from bfg9000.backends.make.syntax import syntax_string, Syntax
    k = rng.random()
    s = gen.arg_string(rng, None, maxlen=6, allow_empty=False)
    if k < 0.15:
        return [0, s], literal(s)
    if k < 0.3:
        return [1, s], shell_literal(s)
    if k < 0.8 or depth >= 2:
        return [2, s], s
    # syntax_string with its own syntax / quoted flag
    n = rng.randint(1, 3)
    enc_bits, py_bits, last = [], [], None
    for _ in range(n):
        e, o = gen_frag(rng, depth + 1)
        if last == e[0] and e[0] in (0, 1, 2):
            continue
        enc_bits.append(e); py_bits.append(o); last = e[0]
    from bfg9000.safe_str import jbos
    data = py_bits[0] if len(py_bits) == 1 else jbos(*py_bits)
    if isinstance(data, jbos) and len(data.bits) != len(py_bits):
        return [2, s], s
    syn = rng.choice([None, 'function', 'shell', 'target'])
    quoted = rng.random() < 0.5
    return [4, enc_bits, [] if syn is None else [SYN[syn]], quoted], syntax_string(data, None if syn is None else Syntax[syn], quoted)


def gen_jbos(rng):
    from bfg9000.safe_str import jbos
    n = rng.choice([1, 1, 1, 2, 3])
    enc_bits, py_bits, last = [], [], None
    for _ in range(n):
        e, o = gen_frag(rng)
        if last == e[0] and e[0] in (0, 1, 2):
            continue
        enc_bits.append(e); py_bits.append(o); last = e[0]
    obj = py_bits[0] if len(py_bits) == 1 else jbos(*py_bits)
    if len(py_bits) > 1 and len(obj.bits) != len(py_bits):
        return gen_jbos(rng)
    return enc_bits, obj


def path_frag(rng, writer, shelly):
    """A real Path object and the encoding of its realised bits."""
    from bfg9000.path import Path, Root, InstallRoot
    from bfg9000.safe_str import jbos, literal
    from bfg9000.backends.make.syntax import Variable
    comps = [gen.arg_string(rng, None, maxlen=5, allow_empty=False).replace('/', '_').replace('\\', '_') for _ in range(rng.randint(1, 3))]
    comps = [c for c in comps if c not in ('.', '..') and not c.startswith('~') and ':' not in c[:2]] or ['x']
    root = rng.choice([Root.srcdir, Root.builddir, InstallRoot.bindir])
    try:
        p = Path('/'.join(comps), root)
    except ValueError:
        p = Path('x', root)
    real = p.realize(writer.path_vars, shelly)
    bits = []
    for b in (real.bits if isinstance(real, jbos) else [real]):
        b = b.use() if isinstance(b, Variable) else b
        bits.append([isinstance(b, literal), b.string if isinstance(b, literal) else b])
    return [3, bits], p


def stage_w_make(rep, rng, n):
    from io import StringIO
    from bfg9000.backends.make.syntax import Writer, Syntax, Makefile, Variable
    uw, us = gen.uni_tables()
    calls, impl = [], []
    mk = Makefile('build.bfg')
    # escape_str in the five syntaxes (+ the newline error branch)
    words = CORPUS_WORDS + ['a\\ b', '\\#', '\\\\#', '~', '~a', 'a~', '\\~', 'a|b', 'a\\|b', 'a\nb', 'x\x0by', 'x\x1cy', 'x\x85y'] + \
        [gen.arg_string(rng, rep) for _ in range(n)]
    for s in words:
        for name, num in SYN.items():
            try:
                iv = Writer.escape_str(s, Syntax[name])
            except ValueError:
                iv = None
            calls.append(('make.escape_str', [us, s, num])); impl.append(iv)
            rep.case('e:%s:%s' % (name, s), nontrivial(s))
    # Writer.write on fragment trees and paths
    for _ in range(n):
        syn = rng.choice(list(SYN))
        w = mk.writer(StringIO())
        if rng.random() < 0.3:
            e, o = path_frag(rng, w, syn in ('function', 'shell'))
            enc_j = [e]
        else:
            enc_j, o = gen_jbos(rng)
        try:
            esc = w.write(o, Syntax[syn])
            iv = (w.stream.getvalue(), bool(esc))
        except ValueError:
            iv = None
        calls.append(('make.write', [uw, us, enc_j, SYN[syn], 0])); impl.append(iv)
        rep.case('w:%s:%r' % (syn, enc_j), True)
        rep.count('frag:' + ('path' if enc_j[0][0] == 3 else 'jbos%d' % len(enc_j)))
    # _write_variable (value channel, with the # escaping) and write_shell
    for _ in range(n // 2):
        items_enc, items_py = [], []
        for _ in range(rng.randint(1, 4)):
            if rng.random() < 0.7:
                s = gen.arg_string(rng, rep)
                items_enc.append([[2, s]]); items_py.append(s)
            else:
                e, o = gen_jbos(rng)
                items_enc.append(e); items_py.append(o)
        w = mk.writer(StringIO())
        try:
            mk._write_variable(w, Variable('V'), items_py)
            text = w.stream.getvalue()
            assert text.startswith('V := ') and text.endswith('\n')
            iv = text[5:-1]
        except ValueError:
            iv = None
        calls.append(('make.write_value', [uw, us, items_enc, 3])); impl.append(iv)
        w = mk.writer(StringIO())
        try:
            w.write_shell(items_py)
            iv = w.stream.getvalue()
        except ValueError:
            iv = None
        calls.append(('make.write_each', [uw, us, items_enc, 3])); impl.append(iv)
        rep.case('v:%r' % (items_enc,), True)

    def dec2(name, r):
        if name in ('make.escape_str', 'make.write_each', 'make.write_value'):
            return d_opt(d_str, r)
        if name == 'make.write':
            return d_opt(lambda x: (d_str(x[0]), d_bool(x[1])), r)
        raise KeyError(name)
    rep.sample({'stage': 'W:make', 'call': calls[-1][0], 'arg': calls[-1][1]})
    return common.compare_model(rep, 'W:make', calls, impl, dec2)


def make_value_of(text):
    """Value GNU Make gives V after  V := text  (via $(info))."""
    rc, _, out = shtools.make_run('V := ' + text + '\n$(info $(V))\nall:;@:\n')
    if rc != 0:
        return None
    return out.split('\n')[0]


def stage_r_make(rep, rng, n):
    """MakeRead.v against /usr/bin/make: immediate assignment values and recipe lines."""
    from bfg9000.shell import posix as pshell
    uw, us = gen.uni_tables()
    bad = 0
    texts = ['a#b', 'a\\#b', 'a\\\\#b', 'a\\\\\\#b', "'a#b' c", 'x$$y', '  lead', 'a\\b', 'tr ', '$(U)x', '$Ux', 'a$$$$b']
    for _ in range(n):
        s = gen.arg_string(rng, None, maxlen=8, classes=[c for c in gen.CLASSES if c[0] not in ('unisp',)])
        if rng.random() < 0.6:
            s = s.replace('$', '$$')
        texts.append(s)
    # GNU Make takes ONE BYTE after an unescaped $ as the variable name: a non-ASCII character there is outside the fragment of
    # MakeRead.expand (the writer always doubles $)
    import re as _re
    texts = [t for t in texts if '\n' not in t and '\0' not in t and '\r' not in t and not t.endswith('\\')
             and not _re.search(r'(?<!\$)(\$\$)*\$[^\x00-\x7f]', t)]
    calls = [('make.assign_value', [[], t]) for t in texts]
    raw = common.model_batch(calls)
    acc = 0
    for t, r in zip(texts, raw):
        mv = d_opt(d_str, r)
        if mv is None:
            continue
        acc += 1
        rv = make_value_of(t)
        rep.case('rv:' + t, nontrivial(t))
        if rv != mv:
            bad += 1
            rep.fail('R:make_assign - Make model and /usr/bin/make disagree on the value of V := %r: model %r, make %r' % (t, mv, rv),
                     {'obligation': 'R:make_assign', 'text': t, 'model': mv, 'make': rv}, found_input=False)
    # recipe lines: model = recipe_shell_text ; sh.words, real = make + recorder
    rec_ok = 0
    for _ in range(n // 2):
        args = [shtools.ARGVREC] + gen.arg_list(rng, None, maxn=3, maxlen=6)
        args = [a for a in args if '\n' not in a and '\r' not in a and '\0' not in a]
        line = '\t' + pshell.join(args).replace('$', '$$')
        r1 = common.model_batch([('make.recipe_shell_text', [[], line])])[0]
        t = d_opt(d_str, r1)
        if t is None:
            continue
        mv = dec('sh.words', common.model_batch([('sh.words', [uw, t])])[0])
        rc, recs, out = shtools.make_run('all:\n' + line + '\n')
        rv = [shtools.ARGVREC] + recs[0]['argv'] if (rc == 0 and len(recs) == 1) else None
        rec_ok += 1
        rep.case('rr:' + line, True)
        if rv != mv:
            bad += 1
            rep.fail('R:make_recipe - model and real make disagree on recipe %r: model %r, make %r' % (line, mv, rv),
                     {'obligation': 'R:make_recipe', 'line': line, 'model': mv, 'make': rv, 'out': out[-300:]}, found_input=False)
    rep.stage('R:make', assign_texts=len(texts), accepted_by_model=acc, recipe_lines=rec_ok, disagreements=bad)


PREFIX_CHARS = '@-+'


def classify_make_failure(channel, args):
    """input predicate of the two command-word findings: args[0] is the word written at the start of a recipe line"""
    cls = []
    w0 = args[0] if args else ''
    import re
    if channel == 'recipe':
        if re.match(r'^[A-Za-z_][A-Za-z0-9_]*=', w0) and not re.search(r"[^\w@%+=:,./-]", w0):
            cls.append('cmdword-assignment-like')
        if w0[:1] in PREFIX_CHARS and not re.search(r"[^\w@%+=:,./-]", w0):
            cls.append('cmdword-recipe-prefix')
    return tuple(cls)


def classify_cmdword(w, first_arg, got, out):
    """Finding classes of a command word that is not started under its name: the shape of the word (classify_make_failure)
    AND the failure the finding describes - no process is recorded at all, and
      cmdword-assignment-like: sh took the word as an assignment and tried to run the first ARGUMENT as the program;
      cmdword-recipe-prefix:   Make consumed the first character and tried to run the rest of the word.
    A program started under the right name with wrong arguments or environment is a different violation."""
    if got not in (None, []):
        return ()
    cls = []
    for c in classify_make_failure('recipe', [w]):
        if c == 'cmdword-assignment-like' and '/bin/sh: 1: %s: not found' % first_arg in out:
            cls.append(c)
        if c == 'cmdword-recipe-prefix' and 'make: %s: No such file or directory' % w[1:] in out:
            cls.append(c)
    return tuple(cls)


def stage_oracle_make(rep, rng, n):
    """Direct check on the implementation: arguments written by the real Makefile writer (recipe channel and
    variable channel) are delivered by the real GNU Make + /bin/sh to the recorder unchanged."""
    from io import StringIO
    from bfg9000.backends.make.syntax import Makefile, var
    bad = 0
    cases = [[w] for w in CORPUS_WORDS if w] + [gen.arg_list(rng, rep, maxn=4) for _ in range(n)]
    for args in cases:
        args = [a for a in args if not any(c in a for c in '\n\r\0')]
        if not args:
            continue
        for channel in ('recipe', 'variable'):
            mk = Makefile('build.bfg')
            if channel == 'recipe':
                mk.rule('all', recipe=[[shtools.ARGVREC] + args], phony=True)
            else:
                mk.variable('V', args)
                mk.rule('all', recipe=[[shtools.ARGVREC, var('V')]], phony=True)
            o = StringIO()
            mk.write(o)
            rc, recs, out = shtools.make_run(o.getvalue(), 'all')
            got = recs[0]['argv'] if (rc == 0 and len(recs) == 1) else None
            rep.case('om:%s:%r' % (channel, args), any(nontrivial(a) for a in args))
            rep.count('channel:' + channel)
            if got != args:
                if rep.fail('Make backend, %s channel: arguments %r are delivered as %r' % (channel, args, got),
                            {'channel': channel, 'args': args, 'delivered': got, 'makefile': o.getvalue(), 'make_output': out[-400:]},
                            classes=()):      # the command word is the recorder here: no finding is about argument words
                    bad += 1
    rep.stage('oracle:makefile->make->sh', cases=len(cases) * 2, failures=bad)
    return bad


CMDWORDS = ['ok-cmd', 'A=1', 'a=b=c', '-cmd', '@cmd', '+cmd', "it's", 'a b', '~cmd', '%cmd', '=x', '1A=2']


def stage_oracle_cmdword(rep):
    """The command word position: programs with odd names (symlinks to the recorder on PATH) must be started
    under exactly that name, with their arguments and environment, through Make + sh."""
    import os, shutil
    from io import StringIO
    from bfg9000.backends.make.syntax import Makefile
    from bfg9000.shell import posix as pshell
    d = common.scratch('c01cw')
    bad = 0
    try:
        bindir = os.path.join(d, 'bin')
        os.mkdir(bindir)
        for w in CMDWORDS:
            os.symlink(shtools.ARGVREC, os.path.join(bindir, w))
        for w in CMDWORDS:
            for envd in ({}, {'VAR': 'v 1'}):
                mk = Makefile('build.bfg')
                mk.rule('all', recipe=[pshell.global_env(envd, [[w, 'x y']]) if envd else [w, 'x y']], phony=True)
                o = StringIO(); mk.write(o)
                rc, recs, out = shtools.make_run(o.getvalue(), 'all', envnames=('VAR',),
                                                 extra_env={'PATH': bindir + ':/usr/bin:/bin'})
                got = [(os.path.basename(r['argv0'] or ''), r['argv'], r['env'].get('VAR')) for r in recs] if rc == 0 else None
                want = [(w, ['x y'], envd.get('VAR'))]
                rep.case('cw:%s:%r' % (w, envd), True)
                if got != want:
                    if rep.fail('Make backend: command word %r with args %r env %r is run as %r' % (w, ['x y'], envd, got),
                                {'command_word': w, 'env': envd, 'delivered': got, 'makefile': o.getvalue(), 'out': out[-300:]},
                                classes=classify_cmdword(w, 'x y', got, out)):
                        bad += 1
    finally:
        shutil.rmtree(d, ignore_errors=True)
    rep.stage('oracle:command words', words=len(CMDWORDS), failures=bad)
    return bad


# ----------------------------------------------------------------------------- channel F: define + $(call ...)
CALL_WORDS = ['a.o', 'b c.o', "it's", '$x', 'a$$b', '#h', 'f(a,b).o', '(x)', 'a,b', 'ma,in.o', 'o(ne.o', 'o)ne.o', '((', '))', ')(',
              'a$,b', '$(,)', ',', '', ' ', '~x', '%k', 'x\\', "'", "''", 'é', 'a\xa0b', '@x', '-x', 'a=b', '$', '$,', 'a;b', 'a|b']


def call_word_ok(w):
    """Python twin of MakeCall.call_word_ok (the guard of C01_call_arg): non-empty, no newline, parentheses balanced,
    no comma outside parentheses."""
    if not w or '\n' in w:
        return False
    d = 0
    for c in w:
        if c == ',' and d == 0:
            return False
        if c == '(':
            d += 1
        elif c == ')':
            d -= 1
            if d < 0:
                return False
    return d == 0


def call_word(rng, rep=None):
    k = rng.random()
    if k < 0.25:
        return rng.choice(CALL_WORDS)
    if k < 0.5:
        return ''.join(rng.choice("ab,()$' \\#") for _ in range(rng.randint(1, 6)))
    return gen.arg_string(rng, rep, maxlen=8)


def gen_call_word(rng, writer):
    """One argument word of a Call: (encoding as a jbos = list of frags, python object)."""
    k = rng.random()
    if k < 0.7:
        s = call_word(rng)
        return [[2, s]], s
    if k < 0.85:
        e, o = path_frag(rng, writer, True)
        return [e], o
    return gen_jbos(rng)


def stage_w_call(rep, rng, n):
    """W tie of channel F: Variable.use, Function.use/Call and Makefile._write_define against the extracted model."""
    from io import StringIO
    from bfg9000.backends.make.syntax import Makefile, Syntax, Variable, Call, Function, Silent, var
    uw, us = gen.uni_tables()
    calls, impl = [], []
    mk = Makefile('build.bfg')
    names = ['RULE_CC_LINK', 'RULE_C++', 'x', '@', '<', '1', '10', 'a b', 'a:b', 'a#b=c', 'a\tb', 'a\xa0b', 'R$', "R'", 'R,S', '']
    for nm in names + [gen.arg_string(rng, rep, maxlen=6) for _ in range(n // 4)]:
        if '\n' in nm:
            continue
        for q in (False, True):
            calls.append(('make.var_use', [us, nm, q])); impl.append(Variable(nm, q).use().string)
            rep.case('vu:%s:%r' % (nm, q), nontrivial(nm))
    for i in range(n):
        w = mk.writer(StringIO())
        func = rng.choice(names[:2] + ['R,S', 'a b', "R'"]) if rng.random() < 0.8 else gen.arg_string(rng, rep, maxlen=6, allow_empty=False)
        enc_args, py_args = [], []
        for _ in range(rng.choice([0, 1, 1, 2, 2, 3])):
            ew, pw = [], []
            for _ in range(rng.choice([0, 1, 1, 2, 3])):
                e, o = gen_call_word(rng, w)
                ew.append(e); pw.append(o)
            # a one-word argument is also passed bare (iterutils.iterate accepts both)
            enc_args.append(ew); py_args.append(pw[0] if (len(pw) == 1 and rng.random() < 0.5) else pw)
        try:
            esc = w.write(Call(func, *py_args), Syntax.shell)
            iv = (w.stream.getvalue(), bool(esc))
        except ValueError:
            iv = None
        calls.append(('make.call', [uw, us, func, enc_args])); impl.append(iv)
        rep.case('call:%s:%r' % (func, enc_args), True)
        rep.count('call:nargs=%d' % len(enc_args))
        if i % 4 == 0:
            # a general Function (quoted or not, any syntax of the enclosing text)
            w2 = mk.writer(StringIO())
            fn = rng.choice(['patsubst', 'subst', 'wildcard', 'x'])
            quoted = rng.random() < 0.5
            syn = rng.choice(['shell', 'function', 'target', 'dependency', 'clean'])
            try:
                esc = w2.write(Function(fn, *py_args, quoted=quoted), Syntax[syn])
                iv = (w2.stream.getvalue(), bool(esc))
            except ValueError:
                iv = None
            calls.append(('make.function', [uw, us, fn, enc_args, quoted, SYN[syn]])); impl.append(iv)
    # _write_define
    for _ in range(n // 2):
        lines_enc, lines_py = [], []
        for _ in range(rng.randint(0, 3)):
            silent = rng.random() < 0.4
            items_enc, items_py = [], []
            for _ in range(rng.randint(1, 4)):
                k = rng.random()
                if k < 0.5:
                    s = gen.arg_string(rng, rep, maxlen=6)
                    items_enc.append([[2, s]]); items_py.append(s)
                elif k < 0.75:
                    v = var(rng.choice(['1', '2', '10', 'CC', '@', '<']), rng.random() < 0.3)
                    items_enc.append([[0, v.use().string]]); items_py.append(v)
                else:
                    e, o = gen_jbos(rng)
                    items_enc.append(e); items_py.append(o)
            lines_enc.append([silent, items_enc]); lines_py.append(Silent(items_py) if silent else items_py)
        nm = rng.choice(['RULE_CC', 'RULE X', 'R=1'])
        w = mk.writer(StringIO())
        try:
            mk._write_define(w, Variable(nm), lines_py)
            iv = w.stream.getvalue()
        except ValueError:
            iv = None
        calls.append(('make.write_define', [uw, us, nm, lines_enc])); impl.append(iv)
        rep.case('define:%r' % (lines_enc,), True)

    def dec3(name, r):
        if name == 'make.var_use':
            return d_str(r)
        if name == 'make.write_define':
            return d_opt(d_str, r)
        return d_opt(lambda x: (d_str(x[0]), d_bool(x[1])), r)
    rep.sample({'stage': 'W:call', 'call': calls[-1][0], 'arg': calls[-1][1]})
    return common.compare_model(rep, 'W:make call/define', calls, impl, dec3)


CALL_TEXT_ATOMS = ['a', 'b', 'c.o', ',', ',', '(', ')', '$,', '$$', ' ', "'", "'x y'", '\\', '$(,)', '$(1)', '$(U)', '$', '"', 'x(y,z)w']


def stage_r_call(rep, rng, n):
    """R validation of MakeCall.v against /usr/bin/make: (a) the body GNU Make stores for a define block, (b) the
    command lines a recipe consisting of one $(call ...) hands to sh."""
    from io import StringIO
    from bfg9000.backends.make.syntax import Makefile, Variable, Silent, var
    from bfg9000.shell import posix as pshell
    uw, us = gen.uni_tables()
    bad = 0
    # (a) define blocks as bfg9000 writes them
    defs_checked = 0
    for _ in range(n // 3):
        mk = Makefile('build.bfg')
        lines = []
        for _ in range(rng.randint(1, 3)):
            items = [rng.choice([gen.arg_string(rng, None, maxlen=5, allow_empty=False), var('1'), var('CC'), var('@', True), 'endef', 'define'])
                     for _ in range(rng.randint(1, 3))]
            lines.append(Silent(items) if rng.random() < 0.3 else items)
        w = mk.writer(StringIO())
        try:
            mk._write_define(w, Variable('RULE'), lines)
        except ValueError:
            continue
        text = w.stream.getvalue()
        mv = d_opt(lambda x: (d_str(x[0]), d_str(x[1])), common.model_batch([('make.parse_define', [text])])[0])
        if mv is None or text != 'define RULE\n' + ''.join(l + '\n' for l in mv[1].split('\n') if mv[1]) + 'endef\n\n':
            # a body line that ends or nests the define: the rest of the block is not Makefile text
            rep.count('R:define outside fragment')
            continue
        rc, _, out = shtools.make_run(text + '$(info [$(value RULE)])\nall:;@:\n')
        rv = out[1:out.rindex(']')] if rc == 0 and out.startswith('[') and ']' in out else None
        defs_checked += 1
        rep.case('rd:' + text, True)
        if rv != mv[1] or mv[0] != 'RULE':
            bad += 1
            rep.fail('R:make_define - model and /usr/bin/make disagree on the body of %r: model %r, make %r' % (text, mv, rv),
                     {'obligation': 'R:make_define', 'text': text, 'model': mv, 'make': rv}, found_input=False)
    # (b) call recipes
    body = '$(REC) L1 $(1) -- $(2)\n@$(REC) L2 \'$@\' \'$$x\' $3 $(10)'
    head = ', := ,\nREC := %s\ndefine RULE\n%s\nendef\n' % (shtools.ARGVREC, body)
    vars_ = [[',', ','], ['REC', shtools.ARGVREC], ['@', 'all']]
    texts = ['a$,b,c', 'f(a,b) g,x y', "f(a$,b),'q r' $$x", 'o)ne.o,z', ' lead,trail ,', 'o(ne.o', 'a,b,c,d,e,f,g,h,i,j,k', '', ',', 'a$', "'a,b'"]
    for _ in range(n):
        if rng.random() < 0.5:
            texts.append(''.join(rng.choice(CALL_TEXT_ATOMS) for _ in range(rng.randint(1, 7))))
        else:
            # argument text as bfg9000 writes it
            args = [[call_word(rng) for _ in range(rng.randint(0, 3))] for _ in range(rng.randint(1, 3))]
            texts.append(','.join(' '.join(pshell.quote(w).replace('$', '$$').replace(',', '$,') for w in a if w) for a in args))
    texts = [t for t in texts if not any(c in t for c in '\n\r\0#')]
    calls = [('make.recipe_call_lines', [vars_, [['RULE', body]], '$(call RULE,' + t + ')']) for t in texts]
    raw = common.model_batch(calls)
    ran = agreed_fail = 0
    for t, r in zip(texts, raw):
        lines = d_opt(lambda x: d_list(d_str, x), r)
        rc, recs, out = shtools.make_run(head + 'all: ; $(call RULE,' + t + ')\n')
        rv = [[shtools.ARGVREC] + x['argv'] for x in recs] if rc == 0 else None
        rep.case('rc:' + t, True)
        if lines is None:
            # the model says: unterminated call (or outside the fragment); make must not run the recipe successfully with
            # both lines delivered
            if 'unterminated call' in out:
                agreed_fail += 1
            rep.count('R:call model None, make %s' % ('stops' if rc != 0 else 'runs'))
            if rc == 0 and '(' in t and t.count('(') > t.count(')'):
                bad += 1
                rep.fail('R:make_call - model says unterminated call for %r, make runs it: %r' % (t, rv),
                         {'obligation': 'R:make_call', 'args_text': t, 'make': rv}, found_input=False)
            continue
        if any(l.endswith('\\') or '$$' in l for l in lines):
            # outside the validated fragment: a command line ending in a backslash continues on the next line of the
            # define; $$ reaches sh as its process id. The writer never produces either (both characters are quoted).
            rep.count('R:call continuation or pid')
            continue
        words = [dec('sh.words', x) for x in common.model_batch([('sh.words', [uw, l]) for l in lines])]
        if any(w is None for w in words):
            # the sh model does not cover the line (an unquoted $, an open quote): let the real dash split the command
            # lines the Make model computed, one after the other until one fails, as Make does
            rep.count('R:call split by dash')
            mv = []
            for l in lines:
                if not l.strip():
                    continue
                rc_l, recs_l, _ = shtools.dash_run(l)
                mv += [[r_['argv0']] + r_['argv'] for r_ in recs_l]
                if rc_l != 0:
                    break
            else:
                rc_l = 0
            rv = [[shtools.ARGVREC] + x['argv'] for x in recs]
            if (rc_l != 0) != (rc != 0):
                mv = ('sh fails' if rc_l else 'sh succeeds', mv)
        else:
            mv = [w for w in words if w]
        ran += 1
        if rv != mv:
            bad += 1
            rep.fail('R:make_call - model and /usr/bin/make disagree on $(call RULE,%s): model %r, make %r' % (t, mv, rv),
                     {'obligation': 'R:make_call', 'args_text': t, 'model': mv, 'make': rv, 'out': out[-300:]}, found_input=False)
    rep.stage('R:make call/define', defines=defs_checked, call_texts=len(texts), compared=ran, unterminated_agreed=agreed_fail, disagreements=bad)


def run_call_channel(words1, words2):
    """The real writer, the real make: define RULE with two lines, a rule whose recipe is Call(RULE, words1, words2).
    Returns (delivered argv lists or None, makefile text, make output)."""
    from io import StringIO
    from bfg9000.backends.make.syntax import Makefile, Call, Silent, var, qvar
    mk = Makefile('build.bfg')
    mk.define('RULE_X', [[shtools.ARGVREC, 'L1', var('1'), '--', var('2')], Silent([shtools.ARGVREC, 'L2', qvar('@'), var('2')])])
    mk.rule('all', recipe=Call('RULE_X', words1, words2), phony=True)
    o = StringIO()
    mk.write(o)
    rc, recs, out = shtools.make_run(o.getvalue(), 'all')
    return ([r['argv'] for r in recs] if rc == 0 else None), o.getvalue(), out


def stage_oracle_call(rep, rng, n):
    """Direct check on the implementation, channel F: words passed through $(call RULE,...) by the real Makefile writer are
    delivered by the real GNU Make + /bin/sh in the declared positions. Words outside the guard of C01_call_arg (a comma
    outside parentheses, unbalanced parentheses) are file-name findings of C04 and are exercised there."""
    bad = 0
    cases = [([w], ['out']) for w in CALL_WORDS if call_word_ok(w)]
    while len(cases) < n:
        a = [w for w in (call_word(rng, rep) for _ in range(rng.randint(0, 3))) if call_word_ok(w) and not any(c in w for c in '\r\0')]
        b = [w for w in (call_word(rng, rep) for _ in range(rng.randint(0, 2))) if call_word_ok(w) and not any(c in w for c in '\r\0')]
        cases.append((a, b))
    for a, b in cases:
        got, text, out = run_call_channel(a, b)
        want = [['L1'] + a + ['--'] + b, ['L2', 'all'] + b]
        rep.case('oc:%r' % ((a, b),), any(nontrivial(w) for w in a + b))
        rep.count('channel:call')
        if got != want:
            if rep.fail('Make backend, call channel: $(call RULE,%r,%r) is delivered as %r' % (a, b, got),
                        {'channel': 'call', 'args': [a, b], 'delivered': got, 'makefile': text, 'make_output': out[-400:]}):
                bad += 1
    rep.stage('oracle:define+call->make->sh', cases=len(cases), failures=bad)
    return bad


# ----------------------------------------------------------------------------- channel N: nested test drivers
class _MockEnv:
    @staticmethod
    def run_arguments(cmd, lang=None):
        return list(cmd) if isinstance(cmd, (list, tuple)) else cmd


class _MockDefaults:
    def remove(self, x):
        pass


class _MockContext:
    """What builtins.tests.Test.__init__ touches: env.run_arguments and build['tests'] / build['defaults']."""
    def __init__(self):
        from bfg9000.builtins.tests import TestInputs
        self.env = _MockEnv()
        self.build = {'tests': TestInputs(), 'defaults': _MockDefaults()}


NESTED_WORDS = ['a b', "it's", '$x', 'a$$b', '$(V)', '${v}', "q'$", "'", "''", '#h', '~x', 'a,b', '(x)', '\\', 'x\\', '"q"', ' ', '', 'é',
                'a\xa0b', '&&', ';', '*', 'A=1', '-n', '@x', '%d', '$', '$$', "'$'", "a'b'c"]


def nested_word(rng, rep=None):
    return rng.choice(NESTED_WORDS) if rng.random() < 0.4 else gen.arg_string(rng, rep, maxlen=6)


def gen_test_tree(rng, depth, lead, plain=False):
    """A tree of tests: {'words': [...python objects...], 'enc': items encoding, 'kids': [...]}. `lead`: words every command
    starts with (the recorder, so that the oracle can run the command lines); plain: only str words."""
    nwords = rng.choice([0, 0, 1, 1, 2, 3])
    words, enc = list(lead), [[[2, w]] for w in lead]
    for _ in range(nwords):
        if plain or rng.random() < 0.8:
            s = nested_word(rng)
            if any(c in s for c in '\n\r\0'):
                continue
            words.append(s); enc.append([[2, s]])
        else:
            e, o = gen_jbos(rng)
            words.append(o); enc.append(e)
    if not words:
        words, enc = ['w'], [[[2, 'w']]]
    kids = []
    if depth > 0 and rng.random() < 0.8:
        kids = [gen_test_tree(rng, depth - 1 if rng.random() < 0.6 else 0, lead, plain) for _ in range(rng.randint(0, 3))]
    return {'words': words, 'enc': enc, 'kids': kids}


def build_real_tests(ctx, tree, parent=None, env=None):
    from bfg9000.builtins.tests import TestCase, TestDriver
    if tree['kids']:
        t = TestDriver(ctx, list(tree['words']), **({'parent': parent} if parent else {'environment': env or {}}))
        for k in tree['kids']:
            build_real_tests(ctx, k, parent=t)
    else:
        t = TestCase(ctx, list(tree['words']), **({'driver': parent} if parent else {'environment': env or {}}))
    return t


def enc_tree(tree, env=None):
    items = []
    for k, v in (env or {}).items():
        items.append([b for b in ([2, k] if k else None, [1, '='], [2, v] if v else None) if b])
    return [items + tree['enc'], [enc_tree(k) for k in tree['kids']]]


def stage_w_nested(rep, rng, n):
    """W tie of channel N: the real tests._build_commands (TestCase/TestDriver objects on a mocked context, the real
    Makefile writer and pshell.local_env) against MakeNested.test_recipe."""
    from io import StringIO
    from bfg9000.backends.make.syntax import Makefile
    from bfg9000.builtins.tests import _build_commands
    from bfg9000.shell import posix as pshell
    uw, us = gen.uni_tables()
    calls, impl = [], []
    for _ in range(n):
        ctx = _MockContext()
        mk = Makefile('build.bfg')
        trees = []
        for _ in range(rng.randint(1, 2)):
            tree = gen_test_tree(rng, rng.choice([0, 1, 2, 2, 3]), [])
            env = {}
            if rng.random() < 0.3:
                env = {rng.choice(['VAR', 'A_1', 'x']): nested_word(rng)}
                env = {k: v for k, v in env.items() if not any(c in v for c in '\n\r\0')}
            build_real_tests(ctx, tree, env=env)
            trees.append(enc_tree(tree, env))
        try:
            recipe, _ = _build_commands(ctx.build['tests'].tests, mk.writer, pshell.local_env)
            lines = []
            for cmd in recipe:
                w = mk.writer(StringIO())
                w.write_shell(cmd)
                lines.append('\t' + w.stream.getvalue())
            iv = lines
        except ValueError:
            iv = None
        calls.append(('make.test_recipe', [uw, us, trees])); impl.append(iv)
        rep.case('nest:%r' % (trees,), True)

        def depth(t):
            return 1 + max([depth(k) for k in t[1]] or [0])
        rep.count('nested:depth=%d' % max(depth(t) for t in trees))
    rep.sample({'stage': 'W:nested', 'arg': calls[-1][1]})
    return common.compare_model(rep, 'W:tests._build_commands', calls, impl,
                                lambda name, r: d_opt(lambda x: d_list(d_str, x), r))


def check_delivery(tree, got_argv, lead_n):
    """Does the argv a test's process received deliver the tree? Children arguments are run by the real dash, as a test
    driver does (one-word children without tests of their own are file arguments and must arrive verbatim)."""
    words = tree['words']
    nk = len(tree['kids'])
    if got_argv is None or len(got_argv) != len(words) + nk or got_argv[:len(words)] != words:
        return 'test %r (+%d children) received %r' % (words, nk, got_argv)
    for k, a in zip(tree['kids'], got_argv[len(words):]):
        if len(k['words']) == 1 and not k['kids']:
            if a != k['words'][0]:
                return 'one-word child %r arrives as %r' % (k['words'][0], a)
            continue
        rc, recs, _ = shtools.dash_run(a)
        sub = ([recs[0]['argv0']] + recs[0]['argv']) if rc == 0 and len(recs) == 1 else None
        err = check_delivery(k, sub, lead_n)
        if err:
            return err + ' (command line %r)' % (a,)
    return None


def stage_oracle_nested(rep, rng, n):
    """Direct check on the implementation, channel N: the real _build_commands + Makefile writer, the real make, and one
    real dash per nesting level; every test must receive exactly its declared words."""
    from io import StringIO
    from bfg9000.backends.make.syntax import Makefile
    from bfg9000.builtins.tests import _build_commands
    from bfg9000.shell import posix as pshell
    bad = 0
    for i in range(n):
        ctx = _MockContext()
        mk = Makefile('build.bfg')
        tree = gen_test_tree(rng, rng.choice([1, 2, 2, 3]), [shtools.ARGVREC], plain=True)
        if i < len(NESTED_WORDS):      # every corpus word once as the argument of a leaf at depth 2
            w = NESTED_WORDS[i]
            tree['kids'].append({'words': [shtools.ARGVREC, 'mid'], 'enc': None,
                                 'kids': [{'words': [shtools.ARGVREC, 'leaf', w, 'z'], 'enc': None, 'kids': []},
                                          {'words': [w or 'solo'], 'enc': None, 'kids': []}]})
        build_real_tests(ctx, tree)
        recipe, _ = _build_commands(ctx.build['tests'].tests, mk.writer, pshell.local_env)
        mk.rule('test', recipe=recipe, phony=True)
        o = StringIO()
        mk.write(o)
        rc, recs, out = shtools.make_run(o.getvalue(), 'test')
        got = ([recs[0]['argv0']] + recs[0]['argv']) if rc == 0 and len(recs) == 1 else None
        err = check_delivery(tree, got, 1)

        def strip(t):
            return [t['words'][1:], [strip(k) for k in t['kids']]]
        rep.case('on:%r' % (strip(tree),), True)
        rep.count('channel:nested')
        if err:
            if rep.fail('Make backend, nested test drivers: ' + err,
                        {'channel': 'nested', 'tree': strip(tree), 'makefile': o.getvalue(), 'make_output': out[-300:], 'top_argv': got}):
                bad += 1
    rep.stage('oracle:test drivers->make->sh^k', cases=n, failures=bad)
    return bad


# ----------------------------------------------------------------------------- environment values
ENV_VALUES = ['/opt/lib:~/lib', 'a~b:~', 'x=~/y', '~', '~/x', ':~', '=~', 'a:~root', '~:~', '~root', 'a=~', ':~:', 'a:~/b:~/c', '~+', '~-',
              'a b', "it's", '$HOME', '${HOME}', 'x#y', '#', 'a;b', 'a&&b', '*', '?', '[a]', '{a,b}', '`id`', '$(id)', '\\', 'a\\', '"q"',
              '', ' ', '\t', 'é', 'a\xa0b', '-n', 'A=1', '%d', "'", "''", '!', '^', '|', '<x', '>x', 'a,b', '(x)', '@', '+']


def env_value(rng, rep=None):
    k = rng.random()
    if k < 0.3:
        return rng.choice(ENV_VALUES)
    if k < 0.65:      # rich in the characters sh treats specially inside assignment words
        return ''.join(rng.choice('~~::==/ab.') for _ in range(rng.randint(1, 7)))
    return gen.arg_string(rng, rep, maxlen=8)


def stage_oracle_env(rep, rng, n):
    """Direct check on the implementation, environment values: the real pshell.global_env (export NAME=value && cmd) and
    pshell.local_env (NAME=value cmd) written as a recipe by the real Makefile writer, run by the real make + /bin/sh;
    the recorder reports the environment the process sees. HOME is a private value, so a tilde that sh expands (at the
    start of the value, after an unquoted colon or equals sign) is visible."""
    from io import StringIO
    from bfg9000.backends.make.syntax import Makefile
    from bfg9000.shell import posix as pshell
    bad = 0
    home = '/var/tmp/c01-private-home'
    cases = [{'VAR': v} for v in ENV_VALUES]
    while len(cases) < n:
        e = {'VAR': env_value(rng, rep)}
        if rng.random() < 0.4:
            e['PATH_2'] = env_value(rng, rep)
        cases.append(e)
    for envd in cases:
        if any(c in v for v in envd.values() for c in '\n\r\0'):
            continue
        for form in ('global_env', 'local_env'):
            mk = Makefile('build.bfg')
            cmd = [shtools.ARGVREC, 'x y']
            recipe = pshell.global_env(envd, [cmd]) if form == 'global_env' else pshell.local_env(envd, cmd)
            mk.rule('all', recipe=[recipe], phony=True)
            o = StringIO()
            mk.write(o)
            rc, recs, out = shtools.make_run(o.getvalue(), 'all', envnames=tuple(envd), extra_env={'HOME': home})
            got = {k: recs[0]['env'].get(k) for k in envd} if rc == 0 and len(recs) == 1 and recs[0]['argv'] == ['x y'] else None
            rep.case('env:%s:%r' % (form, envd), any(nontrivial(v) for v in envd.values()))
            rep.count('channel:env:' + form)
            if got != envd:
                if rep.fail('Make backend, %s: environment %r is delivered as %r' % (form, envd, got),
                            {'channel': 'env', 'form': form, 'env': envd, 'delivered': got, 'makefile': o.getvalue(), 'make_output': out[-300:]}):
                    bad += 1
    rep.stage('oracle:environment values->make->sh', cases=len(cases) * 2, failures=bad)
    return bad


# ----------------------------------------------------------------------------- environment channel: tie and R model
PRIVATE_HOME = '/var/tmp/c01-private-home'
ENV_NAMES_OK = ['VAR', 'A_1', 'x', '_', 'PATH_2', 'HOME', 'X', 'LD_LIBRARY_PATH', 'a1', '_9']
ENV_NAMES_ODD = ['', '1A', 'A B', 'a=b', 'é', 'X~', 'A-B', "A'", 'OPTIND', '~', '=']
REC_NAMES = ('HOME', 'X', 'Y', 'PRE', 'VAR', 'A_1', 'x', '_9', 'PATH_2', 'a1', 'LD_LIBRARY_PATH')


def canon_item(x):
    """One element of a shell_list -> list of [kind, text] bits (kind 0 = str, 1 = shell_literal)."""
    from bfg9000.safe_str import jbos, shell_literal
    if isinstance(x, jbos):
        return [[0, b] if isinstance(b, str) else [1, b.string] for b in x.bits if isinstance(b, (str, shell_literal))]
    if isinstance(x, shell_literal):
        return [[1, x.string]]
    if isinstance(x, str):
        return [[0, x]]
    raise TypeError(type(x))


def d_items(r):
    return [[[int(b[0]), d_str(b[1])] for b in it] for it in r]


def enc_line(l):
    return [1, l] if isinstance(l, str) else [0, [[[0, w]] for w in l]]


def ident_ok(n):
    import re
    return bool(re.match(r'^[A-Za-z_][A-Za-z0-9_]*$', n)) and n != 'OPTIND'


def gen_env(rng, rep=None, odd=0.0, maxn=3):
    env = {}
    for _ in range(rng.choice([0, 1, 1, 1, 2, maxn])):
        name = rng.choice(ENV_NAMES_ODD) if rng.random() < odd else rng.choice(ENV_NAMES_OK)
        v = env_value(rng, rep)
        if '\0' in v:
            continue
        env[name] = v
    return env


def stage_w_env(rep, rng, n):
    """W tie of the environment half of shell/posix.py: join_lines, local_env, global_env (structure of the returned
    shell_list, bit by bit) and the sh text of the items (quote of every item, joined with blanks)."""
    from io import StringIO
    from bfg9000.shell import posix as pshell
    from bfg9000.backends.make.syntax import Makefile
    uw, us = gen.uni_tables()
    calls, impl = [], []
    mk = Makefile('build.bfg')

    def gen_line():
        if rng.random() < 0.2:
            return gen.arg_string(rng, rep, maxlen=8)        # a raw string: passed through as one shell_literal
        return gen.arg_list(rng, rep, maxn=3, maxlen=6)
    for i in range(n):
        env = gen_env(rng, rep, odd=0.25)
        lines = [gen_line() for _ in range(rng.choice([0, 1, 1, 2, 3]))]
        pairs = [[k, v] for k, v in env.items()]
        got = pshell.global_env(env, lines if (lines or rng.random() < 0.5) else None)
        calls.append(('posix.global_env', [pairs, [enc_line(l) for l in lines]])); impl.append([canon_item(x) for x in got])
        calls.append(('posix.sh_text', [uw, [canon_item(x) for x in got]])); impl.append(' '.join(pshell.quote(x) for x in got))
        # the recipe text the real Makefile writer makes of the items (the W function of C01_env_through_make)
        w = mk.writer(StringIO())
        try:
            w.write_shell(got)
            iv = w.stream.getvalue()
        except ValueError:
            iv = None
        calls.append(('make.write_each', [uw, us, [[[2, b[1]] if b[0] == 0 else [1, b[1]] for b in canon_item(x)] for x in got], 3]))
        impl.append(iv)
        line = gen_line()
        got = pshell.local_env(env, line)
        calls.append(('posix.local_env', [pairs, enc_line(line)])); impl.append([canon_item(x) for x in got])
        calls.append(('posix.sh_text', [uw, [canon_item(x) for x in got]])); impl.append(' '.join(pshell.quote(x) for x in got))
        got = pshell.join_lines(lines)
        calls.append(('posix.join_lines', [[enc_line(l) for l in lines]])); impl.append([canon_item(x) for x in got])
        rep.case('wenv:%r:%r:%r' % (pairs, lines, line), True)
        rep.count('wenv:nenv=%d' % len(env))
    rep.sample({'stage': 'W:env', 'call': calls[0][0], 'arg': calls[0][1]})
    return common.compare_model(rep, 'W:posix env', calls, impl,
                                lambda name, r: d_str(r) if name == 'posix.sh_text' else
                                d_opt(d_str, r) if name == 'make.write_each' else d_items(r))


def d_run(r):
    """sh.run result -> None | ([(env dict, argv)], ok)"""
    return d_opt(lambda x: ([({d_str(p[0]): d_str(p[1]) for p in pr[0]}, d_list(d_str, pr[1])) for pr in x[0]], d_bool(x[1])), r)


class DashEnv:
    """The real dash with a private HOME and a directory on PATH whose programs `rec` and `rec2` are the recorder."""
    def __init__(self):
        import os
        self.dir = common.scratch('c01env')
        for nm in ('rec', 'rec2'):
            os.symlink(shtools.ARGVREC, os.path.join(self.dir, nm))
        self.extra = {'HOME': PRIVATE_HOME, 'PATH': self.dir + ':/usr/bin:/bin', 'PRE': 'pre0'}
        self.env0 = [['HOME', PRIVATE_HOME], ['PRE', 'pre0'], ['PATH', self.extra['PATH']]]

    def close(self):
        import shutil
        shutil.rmtree(self.dir, ignore_errors=True)

    def run(self, line, names=REC_NAMES):
        """-> ([(argv0 basename, argv, {name: value})], ok)"""
        import os
        rc, recs, err = shtools.dash_run(line, envnames=names, extra_env=self.extra)
        return [(os.path.basename(r['argv0'] or ''), r['argv'], r['env']) for r in recs], rc == 0


R_ENV_CORPUS = [
    'export X=~/a && rec', 'export X=a:~/b && rec', 'export X=~ && rec', 'X=~/a rec', 'X=a:~ rec', 'X=a:~/b:~ rec', "X='~' rec",
    'X=\\~ rec', "X=~'/a' rec", "X='~'/a rec", 'X=a=~ rec', 'X==~ rec', 'X=~:~ rec', 'X=:~ rec', 'X=a~ rec', "X=a:'~' rec",
    "X=a':'~ rec", "X=a:~'b' rec", 'X=~/~ rec', 'X=~: rec', "rec ~ ~/a a~ a:~ a=~ '~' ~'' ~'a' ~/'a b' X=~", 'HOME=/Z X=~ rec',
    'export HOME=/Z && X=~ rec', 'HOME=/Z && X=~ rec', 'HOME= && X=~ rec', 'HOME= && rec ~ x ~/a', "HOME= && rec ~'' x", 'export X=1 && export Y=2 && rec',
    'export 1A=x && rec', '1A=x rec', "export 'A B'=x && rec", 'export X=a Y=~ && rec', 'X=1 Y=~ rec', 'X=1 && rec', 'export ~/a=~ && rec',
    'X=1 X=2 rec', 'export X=1 && X=2 rec', 'export X=1 && X=2 && rec', 'HOME=/Q rec ~ x', 'HOME=/Q X=~ rec ~', "X''=1 rec", "X=1''~ rec",
    "X=''~ rec", "X=a:''~ rec", "export X''=~ && rec", 'export X=1 PRE && rec', 'export PRE && rec', 'rec a&&rec2 b', "export X=~/'a b' && rec",
    "X=~/'a b':~ rec", 'X=~\\/a rec', 'rec ~\\/a ~/\\a', "export 'X'=~ && rec", "export 'X='~ && rec", "export X'='~ && rec",
    "export X=a'='b=~:~ && rec", 'export X=~ Y=~/b:~ && rec', "'export' X=~ && rec", "ex'port' X=a:~ && rec", 'export HOME=/Q X=~ && rec',
    'export X=~ HOME=/Q Y=~ && rec', 'X=~ HOME=/Q Y=~ rec', 'export X= && rec', 'X= rec', 'export A_1=B=~ && rec', 'export =x && rec',
    "export X='a'\\'''\\''b' && rec", "X='a'\\'''\\''~' rec", "X=\\''~' rec", 'export X=a:~ && rec ~ && rec2 X=~', "X=a:~/b'c d':~ rec 'x y'",
    'rec && rec2', 'rec a && X=~ rec2 ~/b c', 'X=1', 'X=~ && export X && rec', 'export a:~=x && rec', 'export X:~ && rec',
]
R_ENV_ATOMS = ['~', '~', ':', '=', '/', 'a', 'b', "'", "''", "'a'", "'~'", "':'", '\\~', "\\'", ' ', ' ', ' && ', 'export ', 'X=', 'Y=', 'HOME=',
               'rec ', 'rec2 ', 'PRE', "'a b'", '.', '@', '-']


R_ENV_VAL_ATOMS = ['~', '~', '~', ':', ':', '/', '/', '=', 'a', 'b', '.', "'b'", "''", "'~'", '\\~', "':'", "'/'", "'='", "\\'", "'a b'", ',']


def stage_r_env(rep, rng, n):
    """R validation of the environment layer of Sh.v (sh_run: assignment words, export, tilde expansion, && with the
    environment carried along) against the real dash with a private HOME. Lines: a corpus of the probed cases, lines written
    by the real global_env/local_env, the same with quotes removed or characters replaced, and random assemblies of atoms.
    On every line the model accepts, dash must start the same processes with the same words and the same values of the
    recorded variables, and agree on whether the whole list ran."""
    from bfg9000.shell import posix as pshell
    uw, _ = gen.uni_tables()
    d = DashEnv()
    bad = acc = 0
    try:
        lines = list(R_ENV_CORPUS)
        for _ in range(n):
            k = rng.random()
            if k < 0.35:
                # structured: assignment words / export arguments / ordinary words built from the atoms tilde expansion looks at
                def val():
                    return ''.join(rng.choice(R_ENV_VAL_ATOMS) for _ in range(rng.randint(0, 5)))

                def asg():
                    return rng.choice(['X', 'Y', 'HOME', 'A_1', 'PRE']) + '=' + val()
                parts = []
                for _ in range(rng.randint(1, 3)):
                    f = rng.random()
                    if f < 0.35:
                        parts.append('export ' + ' '.join(asg() if rng.random() < 0.85 else rng.choice(['PRE', 'X', val()])
                                                            for _ in range(rng.randint(1, 2))))
                    elif f < 0.45:
                        parts.append(' '.join(asg() for _ in range(rng.randint(1, 2))))
                    else:
                        parts.append(' '.join([asg() for _ in range(rng.randint(0, 2))] + [rng.choice(['rec', 'rec2'])] +
                                              [val() for _ in range(rng.randint(0, 2))]))
                line = ' && '.join(parts)
            elif k < 0.45:
                line = ''.join(rng.choice(R_ENV_ATOMS) for _ in range(rng.randint(2, 9)))
            else:
                env = {rng.choice(['X', 'Y', 'HOME', 'A_1', 'PRE']): env_value(rng) for _ in range(rng.randint(1, 2))}
                cmd = ['rec'] + [env_value(rng) for _ in range(rng.randint(0, 2))]
                items = pshell.global_env(env, [cmd, ['rec2', 'z']]) if rng.random() < 0.5 else pshell.local_env(env, cmd)
                line = ' '.join(pshell.quote(x) for x in items)
                if k < 0.85:
                    chars = list(line)
                    for _ in range(rng.randint(1, 3)):
                        i = rng.randrange(len(chars))
                        op = rng.random()
                        if op < 0.5:
                            del chars[i]
                        elif op < 0.8:
                            chars[i] = rng.choice("~:='/ a")
                        else:
                            chars.insert(i, rng.choice("~:='/ a"))
                        if not chars:
                            chars = ['a']
                    line = ''.join(chars)
            if any(c in line for c in '\n\r\0'):
                continue
            lines.append(line)
        raw = common.model_batch([('sh.run', [uw, d.env0, l]) for l in lines])
        for l, r in zip(lines, raw):
            mv = d_run(r)
            if mv is None:
                rep.count('R:env outside the model fragment')
                continue
            procs, ok = mv
            if any(p[1][0] not in ('rec', 'rec2') for p in procs):
                rep.count('R:env command word is not a recorder')
                continue
            acc += 1
            want = ([(p[1][0], p[1][1:], {k: v for k, v in p[0].items() if k in REC_NAMES}) for p in procs], ok)
            got = d.run(l)
            rep.case('renv:' + l, True)
            expanded = any(PRIVATE_HOME in v for p in want[0] for v in list(p[2].values()) + p[1] if v != PRIVATE_HOME) or \
                any(v == PRIVATE_HOME for p in want[0] for k, v in list(p[2].items()) + [('', a) for a in p[1]] if k != 'HOME')
            rep.count('R:env line with a tilde that the model %s' % (
                'expands' if expanded else 'leaves alone' if '~' in l else '- no tilde'))
            if got != want:
                bad += 1
                rep.fail('R:sh_run - the sh model and /bin/dash disagree on %r: model %r, dash %r' % (l, want, got),
                         {'obligation': 'R:sh_run', 'line': l, 'model': want, 'dash': got}, found_input=False)
    finally:
        d.close()
    rep.stage('R:dash environment', lines=len(lines), accepted_by_model=acc, disagreements=bad)


def stage_probe_env_names(rep):
    """Domain boundary (not a finding: C01 quantifies over environment values, not names): the complement of the guard name_ok of C01_env_global/local, witness
    C01_env_name_refuted): environment names that are not sh identifiers (and OPTIND with a non-number) run through the real
    writer, the real make and /bin/sh. Recorded in the evidence, never reported as a violation."""
    from io import StringIO
    from bfg9000.backends.make.syntax import Makefile
    from bfg9000.shell import posix as pshell
    res = {}
    for name, value in [('1A', 'x'), ('A.B', 'x'), ('A-B', 'x'), ('A B', 'x'), ('é', 'x'), ('OPTIND', 'abc'), ('OPTIND', '3'), ('GOOD_1', 'x')]:
        for form in ('global_env', 'local_env'):
            mk = Makefile('build.bfg')
            cmd = [shtools.ARGVREC, 'x y']
            envd = {name: value}
            mk.rule('all', recipe=[pshell.global_env(envd, [cmd]) if form == 'global_env' else pshell.local_env(envd, cmd)], phony=True)
            o = StringIO()
            mk.write(o)
            rc, recs, out = shtools.make_run(o.getvalue(), 'all', envnames=(name,), extra_env={'HOME': PRIVATE_HOME})
            ok = rc == 0 and len(recs) == 1 and recs[0]['argv'] == ['x y'] and recs[0]['env'].get(name) == value
            res['%s=%s %s' % (name, value, form)] = 'delivered' if ok else 'NOT delivered (make exit %d: %s)' % (
                rc, out.strip().split('\n')[-1][-80:] if out.strip() else '')
            rep.case('envname:%s:%s' % (name, form), True)
    rep.stage('probe:environment names outside the guard (domain boundary)', **res)
    if res.get('GOOD_1=x global_env') != 'delivered' or res.get('GOOD_1=x local_env') != 'delivered' or \
            res.get('OPTIND=3 global_env') != 'delivered':
        rep.fail('environment-name probe: the control case is not delivered: %r' % (res,), {'obligation': 'probe:env names', 'result': res},
                 found_input=False)


def stage_t_env(rep, rng, n):
    """Theorem-level stage of C01_env_global / C01_env_local: the text the REAL global_env / local_env + quote write for
    environments and commands inside the guards of the theorems, run by the extracted sh model (with tilde expansion and a
    private HOME), must deliver exactly the declared values and words. A mismatch is re-run on the real dash: if dash
    misdelivers too it is a failing input of the property, otherwise a broken obligation. Returns (failing inputs, broken)."""
    from bfg9000.shell import posix as pshell
    uw, _ = gen.uni_tables()
    d = DashEnv()
    cases = []
    for v in ENV_VALUES:
        cases.append(({'VAR': v}, [['rec', 'x y']]))
    while len(cases) < n:
        env = {k: v for k, v in gen_env(rng, rep, maxn=4).items() if ident_ok(k)}
        cmds = [[rng.choice(['rec', 'rec2'])] + [env_value(rng, rep) for _ in range(rng.randint(0, 3))] for _ in range(rng.randint(1, 3))]
        cases.append((env, cmds))
    found = broken = 0
    try:
        texts = []
        for env, cmds in cases:
            for form in ('global_env', 'local_env'):
                cs = cmds if form == 'global_env' else cmds[:1]
                if any('\0' in w for c in cs for w in c):
                    continue
                items = pshell.global_env(env, cs) if form == 'global_env' else pshell.local_env(env, cs[0])
                texts.append((form, env, cs, ' '.join(pshell.quote(x) for x in items)))
        raw = common.model_batch([('sh.run', [uw, d.env0, t[3]]) for t in texts])
        for (form, env, cs, text), r in zip(texts, raw):
            mv = d_run(r)
            base = {'HOME': PRIVATE_HOME, 'PRE': 'pre0'}
            base.update(env)
            names = tuple(base)
            want = ([(c[0], c[1:], dict(base)) for c in cs], True)
            got = None if mv is None else ([(p[1][0], p[1][1:], {k: v for k, v in p[0].items() if k in names}) for p in mv[0]], mv[1])
            rep.case('tenv:%s:%r:%r' % (form, env, cs), True)
            rep.count('T:env:' + form)
            if got != want:
                if any(c in text for c in '\n\r'):
                    real = None
                else:
                    real = d.run(text, names)
                if real is not None and real != want:
                    if rep.fail('%s: environment %r / commands %r written as %r are delivered by /bin/sh as %r' % (form, env, cs, text, real),
                                {'channel': 'env', 'form': form, 'env': env, 'commands': cs, 'written': text, 'delivered': real,
                                 'model': got}):
                        found += 1
                else:
                    broken += 1
                    rep.fail('T:env - the text %r written by the real %s is not delivered by the sh model as declared: model %r, '
                             'declared %r (real dash: %r)' % (text, form, got, want, real),
                             {'obligation': 'C01_env_%s on the real text' % form[:-4], 'text': text, 'model': got, 'declared': want,
                              'dash': real}, found_input=False)
    finally:
        d.close()
    rep.stage('T:environment theorems on the real text', texts=len(texts), failing_inputs=found, broken=broken)
    return found


def run(rep):
    rng = random.Random(rep.seed)
    thorough = rep.tier == 'thorough'
    rep.proof_stage(coqchk=thorough)
    n = 4000 if thorough else 600
    dis = stage_w_posix(rep, rng, n)
    stage_r_dash(rep, rng, n // 2)
    dis += stage_w_make(rep, rng, n // 2)
    dis += stage_w_call(rep, rng, n // 3)
    dis += stage_w_nested(rep, rng, n // 3)
    dis += stage_w_env(rep, rng, n // 3)
    stage_r_env(rep, rng, n)
    stage_r_make(rep, rng, 300 if thorough else 60)
    stage_r_call(rep, rng, 600 if thorough else 150)
    found = stage_oracle_quote(rep, rng, n // 2 * (10 if dis else 1))
    found += stage_oracle_make(rep, rng, (400 if thorough else 60) * (5 if dis else 1))
    found += stage_oracle_call(rep, rng, (400 if thorough else 70) * (5 if dis else 1))
    found += stage_oracle_nested(rep, rng, (300 if thorough else 50) * (5 if dis else 1))
    found += stage_oracle_env(rep, rng, (300 if thorough else 90) * (5 if dis else 1))
    found += stage_t_env(rep, rng, n * (5 if dis else 1))
    stage_probe_env_names(rep)
    found += stage_oracle_cmdword(rep)
    # flag variables and the goal: GNU Make's target- / pattern-specific lookup (R), the lines flags_vars and the rule handlers
    # write (W), C01_flags_goal_independent evaluated on the real text (T), the real lines under the real make (own random
    # stream: the other stages keep theirs)
    from . import c01tv
    tdis, tfound = c01tv.run_stages(rep, random.Random(rep.seed * 7919 + 17), thorough)
    dis += tdis
    found += tfound
    from . import c06
    for i in range(12 if thorough else 2):
        found += c06.declared_vs_delivered(rep, rng, i, 'make', odd_names=(i % 2 == 1))
    for i in range(8 if thorough else 2):
        found += c06.goal_independence(rep, rng, i)
    rep.stage('system:configure->make->recorder', projects=rep.traces)
    if dis and not rep.n_with_input:
        i, call, iv, mv = dis[0]
        rep.fail('W:%s - model and implementation disagree (%d cases), e.g. %r: impl %r, model %r' % (
            call[0], len(dis), call[1], iv, mv),
            {'obligation': 'W:' + call[0], 'call': call, 'impl': iv, 'model': mv, 'n_disagreements': len(dis)},
            found_input=False)


def replay(rep, path):
    import json
    r = json.load(open(path))
    print(json.dumps(r, indent=1)[:2000])
    run(rep)
