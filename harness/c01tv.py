"""C01 / C06: flag variables and the goal - GNU Make's lookup of target-specific / pattern-specific variables with
inheritance (R model coq/theories/Make/MakeTVars.v) and the lines flags_vars + make_compile / make_link write
(W model coq/theories/Graph/FlagsVars.v); theorems C01_flags_goal_independent, C01_flags_without_pattern_line_refuted,
C06_make_flags_any_goal.

Stages (called from harness/c01.py and harness/c06.py):
  R:make tvars                 random definition lists (global / %: / target:, := with references), random dependency DAGs and
                               goal lists: the extracted model against the real GNU Make (value every recipe sees, in run order)
  W:flags_vars lines           in-process projects through the real builtins and the real Make rule handlers: the lines of the
                               written Makefile that define GLOBAL_X / X, per kind X, against the W model
  T:flags goal independence    the theorem's conclusion evaluated by the extracted R model on the REAL text of those lines:
                               every rule target, as a goal and below every chain of dependents the rule graph has, sees
                               global ++ own words (sh-split); a failing project is a failing input
  R:real lines under real make the real variable lines + the real rule graph (recipes replaced by $(info ...)) run by the real make
                               for several goal orders: the values the model predicts, and the same values for every goal order
"""
import io
import logging
import os
import re
import shutil
import subprocess

from . import common, gen, shtools

RULE = ('variable lookup: random lists of global / pattern-specific (%) / target-specific := definitions over 3-4 variables and '
        '3-6 targets whose texts mix literals (blank, quote, $$, \\#) with references to variables of the pool, random DAG, '
        'random goal list (non-trivial: a value is inherited from a dependent or a pattern-specific value shields one); flag '
        'lines: generated projects (static / shared libraries in a chain, executables, yacc sources translated by a step with two '
        'outputs - its variables belong to the .stamp target whose recipe runs the command - or with one output, global options of each kind present or '
        'ABSENT, own options present or absent, odd characters) through the real handlers (non-trivial: a step without own values '
        'depends on or is depended on by a step with own values of the same kind)')
TRUSTED = ('harness/c01tv.py: the parser of the variable lines of the written Makefile (NAME := text, %: NAME := text, '
           'target: NAME := text; the target text decoded by undoing the backslash escaping of Syntax.target)',
           'GNU Make variable-lookup model Make/MakeTVars.v (validated against /usr/bin/make on generated Makefiles; the chain of '
           'dependents is the one of a sequential run)')

VARS = ['V', 'W', 'G_V', 'X1']
LITS = ['a', 'b', '-x', 'l.so', './p/q', "'q r'", '=', ',', '$$', '\\#', '-D1', 'z',
        # the rule-line scanner of target- / pattern-specific lines: the first unquoted ; changes the meaning of # and backslashes
        "'x;y'", 'a\\;b', 'k\\\\;', ';', "'h\\#i'", '\\\\#c', '$$;']


# ------------------------------------------------------------------------------------------- R: model vs real make
def gen_text(rng):
    toks = []
    for _ in range(rng.choice([0, 1, 1, 2, 2, 3])):
        toks.append('$(%s)' % rng.choice(VARS) if rng.random() < 0.45 else rng.choice(LITS))
    return ' '.join(toks) if rng.random() < 0.8 else ''.join(toks)


def gen_case(rng):
    nt = rng.randint(2, 6)
    targets = ['t%d' % i for i in range(nt)]
    if rng.random() < 0.3:
        targets[rng.randrange(nt)] = 'sub/lib x.so'
    defs = []
    for _ in range(rng.randint(1, 9)):
        r = rng.random()
        name = rng.choice(VARS[:3] if rng.random() < 0.85 else VARS)
        if r < 0.3:
            defs.append(([0], name, gen_text(rng)))
        elif r < 0.48:
            defs.append(([1], name, gen_text(rng)))
        else:
            defs.append(([2, rng.choice(targets)], name, gen_text(rng)))
    deps = {}
    for i, t in enumerate(targets):
        later = targets[i + 1:]
        k = rng.choice([0, 1, 1, 2, 3])
        ds = rng.sample(later, min(k, len(later)))
        deps[t] = ds
    goals = [rng.choice(targets) for _ in range(rng.choice([1, 1, 2, 3]))]
    return defs, deps, goals, targets


def esc_target(t):
    return t.replace(' ', '\\ ')


def render(defs, deps, targets, watch, use_define):
    out = []
    for scope, name, text in defs:
        pre = '' if scope[0] == 0 else ('%: ' if scope[0] == 1 else esc_target(scope[1]) + ': ')
        out.append('%s%s := %s' % (pre, name, text))
    info = '$(info REC|$@|%s)' % '|'.join('[$(%s)]' % w for w in watch)
    if use_define:
        out += ['define RULE_X', '@: ' + info, 'endef']
    for t in targets:
        out.append('%s: %s ; %s' % (esc_target(t), ' '.join(esc_target(d) for d in deps[t]),
                                    '$(call RULE_X)' if use_define else '@: ' + info))
    out.append('.PHONY: ' + ' '.join(esc_target(t) for t in targets))
    return '\n'.join(out) + '\n'


def parse_info(out, nwatch):
    res = []
    for line in out.split('\n'):
        if line.startswith('REC|'):
            parts = line.split('|', 2)
            vals = re.findall(r'\[(.*?)\](?=\||$)', parts[2])
            res.append((parts[1], vals))
    return res


def real_make(text, goals):
    d = common.scratch('tv')
    try:
        with open(os.path.join(d, 'Makefile'), 'w') as f:
            f.write(text)
        p = subprocess.run(['make', '-f', 'Makefile', '--no-print-directory'] + list(goals), capture_output=True, cwd=d, timeout=30,
                           env={'PATH': '/usr/bin:/bin', 'LC_ALL': 'C.UTF-8'})
        return p.returncode, p.stdout.decode('utf-8', 'replace'), p.stderr.decode('utf-8', 'replace')
    finally:
        shutil.rmtree(d, ignore_errors=True)


FIXED = [
    # the probes of the design notes: definition-time expansion, scopes seen by each kind of definition, later wins
    ([([0], 'G_V', 'glob'), ([0], 'V', 'gv'), ([1], 'V', 'pat-$(G_V)-$(V)'), ([0], 'G_V', 'glob2'), ([2, 't0'], 'V', 'a-own-$(V)'),
      ([2, 't2'], 'W', 'cw-$(W)-$(V)'), ([2, 't0'], 'W', 'aw'), ([0], 'W', 'gw')],
     {'t0': ['t1', 't2'], 't1': ['t3'], 't2': ['t3'], 't3': []}, [['t0'], ['t3'], ['t2'], ['t3', 't2', 't1', 't0']]),
    ([([0], 'V', 'gv'), ([2, 't0'], 'V', 'x'), ([2, 't0'], 'X1', '1'), ([2, 't0'], 'V', '$(V)-y-$(X1)'), ([1], 'V', 'p1'),
      ([1], 'V', 'p2-$(V)'), ([1], 'W', 'q1'), ([2, 't1'], 'V', 'bv'), ([2, 't1'], 'W', '$(W)-b'), ([0], 'W', 'gq'), ([2, 't3'], 'X1', 'ex')],
     {'t3': ['t0'], 't0': ['t1', 't2'], 't1': ['t2'], 't2': []}, [['t3'], ['t2', 't1', 't0', 't3']]),
    # the shape of the seeded change: no pattern line, a prerequisite without own value
    ([([0], 'G_V', ''), ([2, 't0'], 'V', '$(G_V) ./l.so')], {'t0': ['t1'], 't1': []}, [['t0'], ['t1', 't0'], ['t1']]),
    ([([0], 'G_V', ''), ([1], 'V', '$(G_V)'), ([2, 't0'], 'V', '$(G_V) ./l.so')], {'t0': ['t1'], 't1': []}, [['t0'], ['t1', 't0']]),
]


def stage_rmake(rep, rng, n):
    cases = []
    for defs, deps, goalsets in FIXED:
        for goals in goalsets:
            cases.append((defs, deps, goals, sorted(deps)))
    while len(cases) < n:
        cases.append(gen_case(rng))
    calls, texts = [], []
    for k, (defs, deps, goals, targets) in enumerate(cases):
        dl = [[list(s), nm, tx] for s, nm, tx in defs]
        dp = [[t, list(deps[t])] for t in targets]
        calls.append(('make.tvars_run', [dl, dp, list(goals), VARS]))
        texts.append(render(defs, deps, targets, VARS, use_define=(k % 2 == 1)))
    raw = common.model_batch(calls)
    bad = 0
    inherited = runs = 0
    for (defs, deps, goals, targets), call, r, text in zip(cases, calls, raw, texts):
        model = common.d_opt(lambda x: [(common.d_str(p[0]), [common.d_str(v) for v in p[1]]) for p in x], r)
        rc, out, err = real_make(text, goals)
        real = parse_info(out, len(VARS)) if rc == 0 else None
        shield = any(s[0] == 1 for s, _, _ in defs) and any(s[0] == 2 for s, _, _ in defs)
        rep.case('tv:%r' % ((defs, sorted(deps.items()), goals),), shield or len(goals) > 1)
        rep.count('tvars:%s' % ('pattern+target' if shield else 'other'))
        if any(sc[0] != 0 and ';' in tx for sc, _, tx in defs):
            rep.count('tvars:target / pattern line with ;' + (' and # or backslash' if any(
                sc[0] != 0 and ';' in tx and ('#' in tx or '\\' in tx) for sc, _, tx in defs) else ''))
        if model is None:
            rep.count('tvars:outside the fragment')
            continue
        runs += len(model)
        alone = common.model_batch([('make.tvars_lookup', [call[1][0], v, t, []]) for t, _ in model for v in VARS])
        it = iter(alone)
        for t, vals in model:
            if [common.d_opt(common.d_str, next(it)) for _ in VARS] != vals:
                inherited += 1
        if real != model:
            bad += 1
            if bad <= 3:
                rep.fail('GNU Make variable-lookup model disagrees with the real make: model %r, make %r' % (model, real),
                         {'obligation': 'R:make tvars', 'makefile': text, 'goals': goals, 'model': model, 'make': real,
                          'stderr': err[-300:]}, found_input=False)
    n_vm, ok, detail = common.vm_crosscheck(calls, raw, limit=40)
    if not ok:
        rep.fail('extraction glue: ' + detail, {'obligation': 'vm_compute == extracted model', 'detail': detail}, found_input=False)
    rep.stage('R:make tvars (model vs /usr/bin/make)', cases=len(cases), disagreements=bad, recipe_runs=runs,
              runs_seeing_an_inherited_value=inherited, vm_compute_rechecked=n_vm, vm_agrees=ok)
    return bad


# ------------------------------------------------------------------------------------------- in-process projects
ODD = ['a b', "q'r", '$x', 'h#i', 'p%q', '-Wl,-z,now', 'A=1', '~t', 'x;y', '(p)', 'é']


def make_env(with_env_flags):
    from bfg9000.environment import Environment
    from bfg9000.path import abspath, InstallRoot
    env = Environment(abspath('/bfgdir'), 'make', None, abspath('/s r/c', directory=True), abspath('/b d', directory=True))
    env.finalize({InstallRoot.prefix: abspath('/prefix')}, (True, True), True)
    if with_env_flags:
        env.variables.update({'CFLAGS': '-O1 -DENVC="e c"', 'LDFLAGS': "-Wl,--as-needed '-L/e n v'", 'LDLIBS': '-lm', 'CPPFLAGS': '-DCPP=a#b',
                              'YFLAGS': "-Wenv '-DENVY=e y'"})
    else:
        for k in ('CFLAGS', 'LDFLAGS', 'LDLIBS', 'CPPFLAGS', 'CXXFLAGS', 'ARFLAGS', 'YFLAGS'):
            env.variables.pop(k, None)
    # yacc / bison do not exist here: the stand-in answers the version probe of the tool detection
    env.variables['YACC'] = os.path.join(common.VERIF, 'harness', 'stubs', 'yacc')
    return env


def gen_project(rng, ctx, fixed=False):
    """libraries in a chain (each may use the previous ones), executables on top; every option list empty with probability
    about one half, so that steps without own values stand next to steps with own values of the same kind"""
    ctx['project']('p')
    if fixed:
        # the open finding C01-target-flag-semicolon, every run: own words with ; in front of # / behind a backslash
        inner = ctx['shared_library']('inner', files=['inner.c'], link_options=['-Wl,a\\;b', '-Wl,c'])
        ctx['executable']('prog', files=['main.c'], libs=[inner], compile_options=['-DA=x;y', '-DB=h#i'])
        return
    word = lambda: rng.choice(ODD) if rng.random() < 0.4 else rng.choice(['1', 'x', 'long_name', 'k2'])
    def rep_words(ws, pre):
        # word lists in which the same word occurs more than once: two-word options sharing their first word, a word
        # re-asserted after its negation (every occurrence and the order are part of what the script specified)
        if ws and rng.random() < 0.35:
            return rng.choice([[pre, ws[0], pre, 'second'], ws + ['-UREP'] + ws, ws + ws])
        return ws
    copt = lambda: rep_words([rng.choice(['-D', '-W', '-I/i ']) + word() for _ in range(rng.choice([0, 0, 1, 2]))], '-include')
    lopt = lambda: rep_words([rng.choice(['-Wl,', '-L/l ']) + word() for _ in range(rng.choice([0, 0, 1, 2]))], '-Xlinker')
    if rng.random() < 0.5:
        ctx['global_options'](copt() or ['-DG'], lang='c')
    if rng.random() < 0.4:
        ctx['global_link_options'](lopt() or ['-Wl,-g'])
    libs = []
    name = lambda stem: rng.choice(['', '', 'sub/']) + stem + (rng.choice([' ', "'", '$', '+']) + 'n' if rng.random() < 0.25 else '')
    # steps of a language that is translated first (yacc): with TWO outputs (translation unit + header: the Make backend runs
    # the command in the recipe of a .stamp target, which is where the step's variables belong) and with one named output;
    # own options present or absent, global options of that language present or absent
    gen = []
    if rng.random() < 0.6:
        yopt = lambda: rep_words([rng.choice(['-D', '-W', '--report=']) + word() for _ in range(rng.choice([0, 1, 2]))], '-D')
        if rng.random() < 0.4:
            ctx['global_options'](yopt() or ['-Wyg'], lang='yacc')
        for k in range(rng.randint(1, 2)):
            if rng.random() < 0.7:
                gen.append(ctx['generated_source'](file=name('gram%d' % k) + '.y', options=yopt())[0])
            else:
                gen.append(ctx['generated_source'](name('one%d' % k) + '.c', 'single%d.y' % k, options=yopt()))
    for k in range(rng.randint(1, 3)):
        use = rng.sample(libs, rng.randint(0, len(libs)))
        kind = rng.choice(['shared_library', 'shared_library', 'static_library'])
        kw = dict(files=['l%d.c' % k] + (['m %d.c' % k] if rng.random() < 0.3 else []), compile_options=copt(), libs=use)
        if kind == 'shared_library':
            kw['link_options'] = lopt()
            if rng.random() < 0.3:
                kw['version'] = '1.2.3'
                kw['soversion'] = '1'
        libs.append(ctx[kind](name('lib%d' % k), **kw))
    for k in range(rng.randint(1, 2)):
        ctx['executable'](name('prog%d' % k), files=['main%d.c' % k] + (gen if k == 0 else []), libs=rng.sample(libs, rng.randint(0, len(libs))),
                          compile_options=copt(), link_options=lopt())


def primary_suffix(rule_output):
    p = rule_output[0].path
    return p.addext('.stamp').suffix if len(rule_output) > 1 else p.suffix


def declared_kinds(build):
    """what the project declares, from the edges and their tools (not from what the handlers registered):
    {X: (global typed list, [(target suffix, own typed list)])} in edge order"""
    from bfg9000.builtins import compile as bcompile, link as blink
    kinds = {}

    def add(name, g, tgt, own):
        k = kinds.setdefault(name.upper(), [list(g), []])
        k[1].append((tgt, list(own)))
    for e in build.edges():
        if isinstance(e, (bcompile.CompileSource, bcompile.CompileHeader, bcompile.GenerateSource)):
            c = e.compiler
            if hasattr(c, 'flags_var'):
                gopts = build['compile_options'][c.lang]
                add(c.flags_var, c.global_flags + c.flags(gopts, mode='global'), primary_suffix(e.output), e.flags(gopts))
        elif isinstance(e, (blink.StaticLink, blink.DynamicLink)):
            ln = e.linker
            gopts = build['link_options'][e.base_mode][ln.family]
            if hasattr(ln, 'flags_var'):
                add(ln.flags_var, ln.global_flags + ln.flags(gopts, mode='global'), primary_suffix(e.output), e.flags(gopts))
            if hasattr(ln, 'libs_var'):
                add(ln.libs_var, ln.global_libs + ln.lib_flags(gopts, mode='global'), primary_suffix(e.output), e.lib_flags(gopts))
    return kinds


UNESC = re.compile(r'\\([ :#%\\])')


def parse_var_lines(text):
    """the variable lines of a written Makefile -> [(scope, name, text, line)]; scope [0] / [1] / [2, target name]"""
    out = []
    for line in text.split('\n'):
        m = re.match(r'^([A-Za-z0-9_,.]+) := (.*)$', line)
        if m:
            out.append(([0], m.group(1), m.group(2), line))
            continue
        m = re.match(r'^%: ([A-Za-z0-9_]+) := (.*)$', line)
        if m:
            out.append(([1], m.group(1), m.group(2), line))
            continue
        m = re.match(r'^((?:[^\\:#=\t]|\\.)+?): ([A-Za-z0-9_]+) := (.*)$', line)
        if m and ' := ' not in m.group(1):
            # several targets on one line (separated by unescaped blanks): the definition holds for each of them
            for one in re.findall(r'(?:[^\\ ]|\\.)+', m.group(1)):
                tgt = UNESC.sub(lambda k: k.group(1), one).replace('$$', '$')
                out.append(([2, tgt], m.group(2), m.group(3), line))
    return out


def write_project(rng, idx):
    """Returns None (rejected) or a dict: text, kinds, rules [(target suffix, [prerequisite suffixes that are targets])]."""
    from . import c14
    from bfg9000 import builtins as B, path
    B.init()
    from bfg9000.backends.make import syntax as ms, writer as make
    logging.disable(logging.WARNING)
    env = make_env(with_env_flags=(idx % 3 == 2))
    build, ctx = c14.make_context(env)
    gen_project(rng, ctx, fixed=(idx == 1))
    mk = ms.Makefile('build.bfg', False, gnu=True)
    mk.variable(mk.path_vars[path.Root.srcdir], env.srcdir, ms.Section.path)
    make.rule_handler.run(build.edges(), build, mk, env)
    o = io.StringIO()
    mk.write(o)
    sfx = lambda x: (x if isinstance(x, path.BasePath) else x.path)
    rules = []
    for r in mk._rules:
        ts = [sfx(t) for t in r.targets]
        if not all(t.root == path.Root.builddir for t in ts):
            continue
        for t in ts:
            rules.append((t.suffix, [sfx(d).suffix for d in r.deps if sfx(d).root == path.Root.builddir]))
    names = {t for t, _ in rules}
    rules = [(t, [d for d in ds if d in names]) for t, ds in rules]
    return {'text': o.getvalue(), 'kinds': declared_kinds(build), 'rules': rules, 'mk': mk}


def chains_of(rules, cap=40):
    """every (target, chain of dependents) the rule graph has: chain = path from a goal down to the target, nearest first"""
    deps = dict(rules)
    out = []

    def walk(t, chain):
        if len(out) >= cap:
            return
        out.append((t, chain))
        for d in deps.get(t, []):
            walk(d, [t] + chain)
    for t, _ in rules:
        walk(t, [])
    return out


_SPLIT = {}


def sh_split(val):
    """the words /bin/sh makes of a value (dash is asked unless the value is made of plain words)"""
    if re.fullmatch(r'[A-Za-z0-9_./=,:+ -]*', val):
        return val.split()
    if val not in _SPLIT:
        _SPLIT[val] = shtools.dash_words(val)
    return _SPLIT[val]


def stage_lines(rep, rng, n):
    """Returns (W disagreements, failing inputs)."""
    from .c06cdb import enc_arg
    from bfg9000.shell import posix as pshell
    uw, us = gen.uni_tables()
    calls, impl, projects = [], [], []
    found = 0
    for idx in range(n):
        try:
            pr = write_project(rng, idx)
        except (ValueError, TypeError) as ex:
            rep.count('flaglines:project rejected (%s)' % type(ex).__name__)
            continue
        lines = parse_var_lines(pr['text'])
        pr['lines'] = lines
        projects.append((pr, lines))
        for X, (g, own) in sorted(pr['kinds'].items()):
            real = [ln for s, nm, tx, ln in lines if nm in (X, 'GLOBAL_' + X)]
            calls.append(('flags.lines', [uw, us, True, X, [enc_arg(a) for a in g], [[t, [enc_arg(a) for a in ws]] for t, ws in own]]))
            impl.append(real)
            with_own = sum(1 for _, ws in own if ws)
            rep.case('fl:%s:%r' % (X, real), 0 < with_own < len(own))
            rep.count('flaglines:%s global=%s own=%s' % (X, 'empty' if not g else 'words',
                                                         'none' if not with_own else ('all' if with_own == len(own) else 'some')))
        if idx < 2:
            rep.sample({'flag_lines': [ln for _, _, _, ln in lines if not ln.startswith(('CC', 'AR', 'DEPFIXER', ','))][:14]})
    dis = common.compare_model(rep, 'W:flags_vars lines', calls, impl, lambda name, raw: common.d_opt(lambda x: [common.d_str(s) for s in x], raw),
                               vm_limit=25)

    # ---- T: the conclusion of C01_flags_goal_independent on the real text, by the extracted R model
    tcalls, tmeta = [], []
    for pr, lines in projects:
        defs = [[s, nm, tx] for s, nm, tx, _ in lines]
        for X, (g, own) in sorted(pr['kinds'].items()):
            own_d = {}
            for t, ws in own:
                own_d[t] = ws
            for t, chain in chains_of(pr['rules']):
                if t not in own_d:
                    continue        # the recipe of t does not use X
                tcalls.append(('make.tvars_lookup', [defs, X, t, chain]))
                tmeta.append((pr, X, t, chain, list(g) + list(own_d.get(t, []))))
    raw = common.model_batch(tcalls)
    tbad = tknown = 0
    shown = set()
    for (name, arg), r, (pr, X, t, chain, want) in zip(tcalls, raw, tmeta):
        val = common.d_opt(common.d_str, r)
        if val is None:
            rep.count('flagsT:outside the fragment')
            continue
        # the words sh gets: the real splitter of bfg9000 is not the judge here, dash is
        got = sh_split(val)
        want_s = _stringify(want, pr)
        rep.count('flagsT:chain length %d' % min(len(chain), 3))
        if got != want_s:
            own_s = _stringify(dict(pr['kinds'][X][1]).get(t, []), pr)
            # the open finding: a ; among the own words of the step, and the step sees exactly the words the finding predicts
            # (global words unchanged, the own ones as c06.semicolon_predict says)
            from . import c06
            classes = ('target-flag-semicolon',) if (
                any(';' in w for w in own_s) and got is not None and
                got == want_s[:len(want_s) - len(own_s)] + c06.semicolon_predict(own_s)) else ()
            if classes:
                tknown += 1
            else:
                tbad += 1
            key = (id(pr), X, bool(classes))
            if key not in shown and (classes or sum(1 for k in shown if not k[2]) < 3):
                shown.add(key)
                if rep.fail('Make backend: the recipe of %r, built on behalf of %r, sees %s = %r; the project declares %r for it '
                            '(global ++ own)' % (t, chain, X, got, want_s),
                            {'kind': 'flags-not-delivered', 'variable': X, 'target': t, 'chain': chain, 'sees': got, 'declared': want_s,
                             'variable_lines': [ln for _, _, _, ln in pr['lines']], 'rules': pr['rules']}, classes=classes):
                    found += 1
    n_vm, ok, detail = common.vm_crosscheck(tcalls[::max(1, len(tcalls) // 8)], raw[::max(1, len(tcalls) // 8)], limit=8)
    if not ok:
        rep.fail('extraction glue: ' + detail, {'obligation': 'vm_compute == extracted model', 'detail': detail}, found_input=False)
    rep.stage('T:flags goal independence on the real text', lookups=len(tcalls), failures=tbad, known_finding_lookups=tknown, vm_compute_rechecked=n_vm, vm_agrees=ok)

    # ---- R: the real lines + the real rule graph under the real make, several goal orders
    rbad = 0
    for k, (pr, lines) in enumerate(projects[:max(4, n // 3)]):
        rbad += real_lines_under_make(rep, rng, pr, lines, report=(rbad < 2))
    found += rbad
    rep.stage('R:real lines under real make', projects=min(len(projects), max(4, n // 3)), failures=rbad)
    return dis, found


def _stringify(words, pr):
    """typed arguments -> the strings the process should get (paths: srcdir / builddir realised the way the Makefile does)"""
    from bfg9000 import safe_str, path
    out = []
    for w in words:
        w = safe_str.safe_str(w)
        bits = w.bits if isinstance(w, safe_str.jbos) else [w]
        s = ''
        for b in bits:
            if isinstance(b, (safe_str.literal, safe_str.shell_literal)):
                s += b.string
            elif isinstance(b, path.BasePath):
                if b.root == path.Root.srcdir:
                    s += '/s r/c' + ('/' + b.suffix if b.suffix else '')
                elif b.root == path.Root.builddir:
                    s += ('.' if not b.suffix else (b.suffix if '/' in b.suffix else './' + b.suffix))
                else:
                    s += b.string()
            else:
                s += b
        out.append(s)
    return out


def real_lines_under_make(rep, rng, pr, lines, report=True):
    """the variable lines as written + one phony rule per real rule target (same prerequisites among the targets), recipe =
    $(info ...) of every kind; run for the goal orders [each target alone], [all in order], [all reversed]: every run of a
    target must print the same values (goal independence, decided by the real make), and these are the model's values"""
    mk = pr['mk']
    kinds = sorted(pr['kinds'])
    if not kinds or not pr['rules']:
        return 0
    from bfg9000.backends.make import syntax as ms
    from bfg9000 import path
    tstr = lambda s: mk._target_str(path.Path(s, path.Root.builddir))

    def dstr(s):
        o = mk.writer(io.StringIO())
        o.write(path.Path(s, path.Root.builddir), ms.Syntax.dependency)
        return o.stream.getvalue()
    body = [ln for _, _, _, ln in lines]
    info = '$(info REC|$@|%s)' % '|'.join('[$(%s)]' % X for X in kinds)
    seen = set()
    for t, ds in pr['rules']:
        if t in seen:
            continue
        seen.add(t)
        body.append('%s: %s ; @: %s' % (tstr(t), ' '.join(dstr(d) for d in ds), info))
        body.append('.PHONY: ' + dstr(t))
    text = '\n'.join(body) + '\n'
    targets = [t for t, _ in pr['rules']]
    tops = [t for t in targets if not any(t in ds for _, ds in pr['rules'])]
    orders = [[t] for t in tops[:3]] + [targets, list(reversed(targets))]
    per_target = {}
    bad = 0
    for goals in orders:
        rc, out, err = real_make(text, [g for g in goals])
        if rc != 0:
            rep.count('flagsR:make refused the micro-Makefile')
            return 0
        for t, vals in parse_info(out, len(kinds)):
            per_target.setdefault(t, set()).add(tuple(vals))
    defs = [[s, nm, tx] for s, nm, tx, _ in lines]
    calls = [('make.tvars_lookup', [defs, X, t, []]) for t in per_target for X in kinds]
    raw = common.model_batch(calls)
    it = iter(raw)
    uses = {X: {t for t, _ in own} for X, (g, own) in pr['kinds'].items()}
    for t in per_target:
        mask = lambda vals: tuple(v if t in uses[X] else '-' for X, v in zip(kinds, vals))
        model = mask(tuple(common.d_opt(common.d_str, next(it)) for X in kinds))
        seen_vals = {mask(v) for v in per_target[t]}
        per_target[t] = seen_vals
        if not any(t in uses[X] for X in kinds):
            continue
        rep.case('flR:%r' % ((t, sorted(seen_vals)),), True)
        if len(seen_vals) > 1:
            bad += 1
            if bad == 1 and report:
                rep.fail('Make backend: GNU Make hands the recipe of %r different flag values depending on the goal: %r (variables %r)'
                         % (t, sorted(per_target[t]), kinds),
                         {'kind': 'flags-goal-dependent-real-make', 'target': t, 'values': [list(v) for v in sorted(per_target[t])],
                          'variables': kinds, 'makefile': text})
        elif None not in model and model not in per_target[t]:
            bad += 1
            rep.fail('variable-lookup model and real make disagree on the written lines: target %r model %r make %r' % (
                t, model, sorted(per_target[t])), {'obligation': 'R:real lines under real make', 'makefile': text, 'target': t},
                found_input=False)
    return bad


def run_stages(rep, rng, thorough, r_stage=True):
    """Returns (W disagreements, failing inputs found)."""
    if r_stage:
        stage_rmake(rep, rng, 1200 if thorough else 220)
    n = 120 if thorough else 24
    dis, found = stage_lines(rep, rng, n)
    if dis and not rep.n_with_input:
        # the tie broke and the theorem-level stage saw no failing project: widened search
        _, found = stage_lines(rep, rng, n * 10)
    return dis, found
