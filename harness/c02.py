"""C02 - Ninja backend: every argument reaches the spawned process unchanged."""
import random
from io import StringIO
from . import common, gen, shtools, ninjaparse
from .common import d_str, d_bool, d_opt, d_list
from .c01 import CORPUS_WORDS, nontrivial, classify_make_failure

LEVEL = 'proof'
RULE = ('argument strings drawn per character from weighted classes (plain, ok-punctuation, blank, single quote, sh-special, '
        'Make/Ninja-special incl. $ : space, backslash, non-ASCII) plus a corner-case corpus; a case is non-trivial when it '
        'contains a character outside [A-Za-z0-9_]; distinct by exact text')
TRUSTED = ('R model Ninja/NinjaRead.v (lexer, scoping, $in/$out escaping) is TRUSTED: no ninja binary exists in this sandbox; '
           'written from the Ninja manual / lexer.in.cc / eval_env.cc / util.cc',
           'harness/ninjaparse.py splits build.ninja into lines and blocks (structure only); all lexing/evaluation is done by the extracted Coq model',
           'R model Shell/Sh.v validated against /bin/dash (see C01); the shell layer of the oracle is the real dash')
SYN = {'output': 0, 'input': 1, 'shell': 2, 'clean': 3}


def gen_nfrag(rng):
    from bfg9000.safe_str import literal, shell_literal
    k = rng.random()
    s = gen.arg_string(rng, None, maxlen=6, allow_empty=False)
    if k < 0.15:
        return [0, s], literal(s)
    if k < 0.3:
        return [1, s], shell_literal(s)
    return [2, s], s


def gen_njbos(rng):
    from bfg9000.safe_str import jbos
    n = rng.choice([1, 1, 1, 2, 3])
    enc_bits, py_bits, last = [], [], None
    for _ in range(n):
        e, o = gen_nfrag(rng)
        if last == e[0]:
            continue
        enc_bits.append(e); py_bits.append(o); last = e[0]
    obj = py_bits[0] if len(py_bits) == 1 else jbos(*py_bits)
    return enc_bits, obj


def npath_frag(rng, writer, shelly):
    from bfg9000.path import Path, Root, InstallRoot
    from bfg9000.safe_str import jbos, literal
    from bfg9000.backends.ninja.syntax import Variable
    comps = [gen.arg_string(rng, None, maxlen=5, allow_empty=False).replace('/', '_').replace('\\', '_') for _ in range(rng.randint(1, 3))]
    comps = [c for c in comps if c not in ('.', '..') and not c.startswith('~') and ':' not in c[:2]] or ['x']
    root = rng.choice([Root.srcdir, Root.builddir, InstallRoot.bindir])
    try:
        p = Path('/'.join(comps), root)
    except ValueError:
        p = Path('x', root)
    real = p.realize(writer.path_vars, shelly)
    bits = []
    for b in (real.bits if isinstance(real, jbos) else [real]):
        b = b.use() if isinstance(b, Variable) else b
        bits.append([isinstance(b, literal), b.string if isinstance(b, literal) else b])
    return [3, bits], p


def stage_w_ninja(rep, rng, n):
    from bfg9000.backends.ninja.syntax import Writer, Syntax, NinjaFile
    from bfg9000.shell import posix as pshell
    uw, _ = gen.uni_tables()
    calls, impl = [], []
    nf = NinjaFile('build.bfg')
    words = CORPUS_WORDS + ['a:b', 'a$b', 'a b', '$ ', '$:', '$$', 'a\nb', 'a|b'] + [gen.arg_string(rng, rep) for _ in range(n)]
    for s in words:
        for name, num in SYN.items():
            try:
                iv = Writer.escape_str(s, Syntax[name])
            except ValueError:
                iv = None
            calls.append(('ninja.escape_str', [s, num])); impl.append(iv)
            rep.case('e:%s:%s' % (name, s), nontrivial(s))
    for _ in range(n):
        syn = rng.choice(list(SYN))
        w = nf.writer(StringIO(), shell=pshell)
        if rng.random() < 0.3:
            e, o = npath_frag(rng, w, syn == 'shell')
            enc_j = [e]
        else:
            enc_j, o = gen_njbos(rng)
        try:
            esc = w.write(o, Syntax[syn])
            iv = (w.stream.getvalue(), bool(esc))
        except ValueError:
            iv = None
        calls.append(('ninja.write', [uw, enc_j, SYN[syn]])); impl.append(iv)
        rep.case('w:%s:%r' % (syn, enc_j), True)
        rep.count('frag:' + ('path' if enc_j[0][0] == 3 else 'jbos%d' % len(enc_j)))
    for _ in range(n // 2):
        items_enc, items_py = [], []
        for _ in range(rng.randint(1, 4)):
            if rng.random() < 0.7:
                s = gen.arg_string(rng, rep)
                items_enc.append([[2, s]]); items_py.append(s)
            else:
                e, o = gen_njbos(rng)
                items_enc.append(e); items_py.append(o)
        w = nf.writer(StringIO(), shell=pshell)
        try:
            w.write_shell(items_py)
            iv = w.stream.getvalue()
        except ValueError:
            iv = None
        calls.append(('ninja.write_each', [uw, items_enc, 2])); impl.append(iv)
        rep.case('v:%r' % (items_enc,), True)

    def dec2(name, r):
        if name in ('ninja.escape_str', 'ninja.write_each'):
            return d_opt(d_str, r)
        return d_opt(lambda x: (d_str(x[0]), d_bool(x[1])), r)
    rep.sample({'stage': 'W:ninja', 'call': calls[-1][0], 'arg': calls[-1][1]})
    return common.compare_model(rep, 'W:ninja', calls, impl, dec2)


def stage_r_inout(rep, rng, n):
    """$in/$out escaping of the Ninja model -> real dash -> the same paths (validates the shell half of the
    trusted model; the Ninja half cannot be validated here)."""
    bad = 0
    for _ in range(n):
        paths = [p for p in gen.arg_list(rng, None, maxn=3, maxlen=6, allow_empty=False) if not any(c in p for c in '\n\r\0')]
        if not paths:
            continue
        text = d_str(common.model_batch([('ninja.in_out', [paths])])[0])
        dv = shtools.dash_words(text)
        rep.case('io:%r' % (paths,), True)
        if dv != paths:
            bad += 1
            rep.fail('R:ninja_in_out - model $in/$out text %r is split by dash into %r, expected %r' % (text, dv, paths),
                     {'obligation': 'R:ninja_in_out', 'paths': paths, 'text': text, 'dash': dv}, found_input=False)
    rep.stage('R:ninja_in_out->dash', cases=n, disagreements=bad)


def stage_oracle_ninja(rep, rng, n):
    """Direct check on the implementation: a build.ninja written by the real NinjaFile (generic command rule, and a
    compile-like rule using file-level / edge-level flag variables, $in, $out) is evaluated by the reference
    evaluator and the resulting command is run by the real dash with the recorder; argv must be the arguments."""
    from bfg9000.backends.ninja.syntax import NinjaFile, Section, var
    from bfg9000 import shell
    bad = 0
    cases = [[w] for w in CORPUS_WORDS if w] + [gen.arg_list(rng, rep, maxn=4) for _ in range(n)]
    for args in cases:
        args = [a for a in args if not any(c in a for c in '\n\r\0')]
        if not args:
            continue
        for channel in ('cmd', 'flags'):
            nf = NinjaFile('build.bfg')
            k = len(args) // 2
            if channel == 'cmd':
                nf.rule('command', command=shell.shell_list([var('cmd')]))
                nf.build(output='out', rule='command', variables={'cmd': [shtools.ARGVREC] + args})
                expect = args
            else:
                g = nf.variable('global_cflags', args[:k], Section.flags, True)
                f = nf.variable('cflags', g, Section.other, True)
                nf.rule('cc', command=[shtools.ARGVREC, f, '-c', var('in'), '-o', var('out')])
                nf.build(output='o ut.o', rule='cc', inputs=['in put.c'], variables={f: [g] + args[k:]})
                expect = args + ['-c', 'in put.c', '-o', 'o ut.o']
            o = StringIO()
            nf.write(o)
            got = None
            err = ''
            try:
                m = ninjaparse.parse(o.getvalue())
                cmd = m.command('out' if channel == 'cmd' else 'o ut.o')
                rc, recs, err = shtools.dash_run(cmd)
                if rc == 0 and len(recs) == 1:
                    got = recs[0]['argv']
            except ninjaparse.NinjaError as e:
                err = str(e)
            rep.case('on:%s:%r' % (channel, args), any(nontrivial(a) for a in args))
            rep.count('channel:' + channel)
            if got != expect:
                if rep.fail('Ninja backend, %s channel: arguments %r are delivered as %r (%s)' % (channel, expect, got, err[:100]),
                            {'channel': channel, 'args': expect, 'delivered': got, 'build.ninja': o.getvalue(), 'error': err},
                            classes=()):
                    bad += 1
    rep.stage('oracle:build.ninja->evaluator->sh', cases=len(cases) * 2, failures=bad)
    return bad


def run(rep):
    rng = random.Random(rep.seed)
    thorough = rep.tier == 'thorough'
    rep.proof_stage(coqchk=thorough)
    n = 3000 if thorough else 400
    dis = stage_w_ninja(rep, rng, n)
    stage_r_inout(rep, rng, 400 if thorough else 80)
    found = stage_oracle_ninja(rep, rng, (500 if thorough else 60) * (5 if dis else 1))
    from . import c06
    for i in range(12 if thorough else 2):
        found += c06.declared_vs_delivered(rep, rng, i, 'ninja', odd_names=(i % 2 == 1))
    rep.stage('system:configure->evaluator->dash->recorder', projects=rep.traces)
    if dis and not found:
        i, call, iv, mv = dis[0]
        rep.fail('W:%s - model and implementation disagree (%d cases), e.g. %r: impl %r, model %r' % (
            call[0], len(dis), call[1], iv, mv),
            {'obligation': 'W:' + call[0], 'call': call, 'impl': iv, 'model': mv, 'n_disagreements': len(dis)},
            found_input=False)


def replay(rep, path):
    run(rep)
