"""C02 - Ninja backend: every argument reaches the spawned process unchanged."""
import random
from io import StringIO
from . import common, gen, shtools, ninjaparse
from .common import d_str, d_bool, d_opt, d_list
from .c01 import CORPUS_WORDS, nontrivial, classify_make_failure

LEVEL = 'proof'
RULE = ('argument strings drawn per character from weighted classes (plain, ok-punctuation, blank, single quote, sh-special, '
        'Make/Ninja-special incl. $ : space, backslash, non-ASCII) plus a corner-case corpus; a case is non-trivial when it '
        'contains a character outside [A-Za-z0-9_]; distinct by exact text; environment channel: environments of 0-4 names (identifier pool, '
        'a quarter odd names in the W stage) with values from a corner corpus (tildes, colons, equals, dollars, ${cmd}, $in, quotes, blanks, empty), '
        'tilde/colon-rich strings and the weighted classes; command lines as word lists, string-form lines starting two processes, mixtures, via '
        'cmd= and cmds= of real command()/build_step() edges and local_env for tests; system stage: generated projects whose yacc steps '
        'have MIXED shapes (default two outputs, two named outputs, one named output, in drawn order), the whole argument vector of '
        'every translator process compared with the declared one (options, --defines= of the second output, source, -o, first output)' + '; system stage: generated projects with static libraries whose link_options= are forwarded (also through libs= of static libraries) to 5-6 consumers declared one after the other - the linker process of each compared with the declared closure of exactly that target (no missing, foreign or repeated word, each archive once) -, path-valued flag words (include / library directories, words joined from a string and a file, names with # $ blank @ + { ^, global and per target, source directory named with # and $), copies / symbolic / hard links between directories in near-prefix families (data / data2, lib / lib64, a / a.b) with the copying tools recorded: what a tool is handed, read from the directory of the link, names the input (path arithmetic and the real ln + readlink -f)' + '; install stage: generated projects that install() a program linked '
        'to installed shared libraries, libraries, a header file, a header directory, data files (directory= below a root, odd names) and a man '
        'page, configured for Ninja with install directories from the command line (--prefix ... --mandir, absolute), from a toolchain file '
        '(install_dirs() with directories RELATIVE TO ANOTHER ROOT and absolute ones) or both, DESTDIR in the environment; the install / '
        'uninstall edges go through the reference evaluator and the real dash with doppel / patchelf / rm recorded: every file is copied to / '
        'removed from exactly DESTDIR + the directory the configuration denotes + its declared place, the rpath is the denoted library '
        'directory, and the real make on the Make configuration of the same project delivers the same observations; install-dirs stage (in process): the same configurations given to a real Environment (toolchain entries before finalize, command line through finalize), the REAL _add_install_paths + NinjaFile.write, tied to Ninja/InstallDirs.v (variables written in the order of InstallRoot; value of every root under where-defined evaluation) and compared with the denoted directories')
TRUSTED = ('R model Ninja/NinjaRead.v (lexer, $in/$out escaping) + Ninja/NinjaManifest.v (manifest structure, scoping, lookup order of '
           'command_of) is TRUSTED: no ninja binary exists in this sandbox; written from the Ninja manual / manifest_parser.cc / '
           'lexer.in.cc / eval_env.cc / graph.cc / util.cc; documented deviations are listed at the top of NinjaManifest.v and guarded at run time',
           'harness/ninjaparse.py only decodes the extracted evaluator; its former Python structure splitter runs as a cross-check on every manifest '
           '(disagreement = broken obligation); the Ninja half is further cross-checked by agreement with real GNU Make on the same projects (C06 machinery)',
           'R model Shell/Sh.v validated against /bin/dash (see C01); the shell layer of the oracle is the real dash')
SYN = {'output': 0, 'input': 1, 'shell': 2, 'clean': 3}
_CWD = None      # scratch directory in which evaluated command lines are run (a broken tree may emit redirections)


def gen_nfrag(rng):
    from bfg9000.safe_str import literal, shell_literal
    k = rng.random()
    s = gen.arg_string(rng, None, maxlen=6, allow_empty=False)
    if k < 0.15:
        return [0, s], literal(s)
    if k < 0.3:
        return [1, s], shell_literal(s)
    return [2, s], s


def gen_njbos(rng):
    from bfg9000.safe_str import jbos
    n = rng.choice([1, 1, 1, 2, 3])
    enc_bits, py_bits, last = [], [], None
    for _ in range(n):
        e, o = gen_nfrag(rng)
        if last == e[0]:
            continue
        enc_bits.append(e); py_bits.append(o); last = e[0]
    obj = py_bits[0] if len(py_bits) == 1 else jbos(*py_bits)
    return enc_bits, obj


def npath_frag(rng, writer, shelly):
    from bfg9000.path import Path, Root, InstallRoot
    from bfg9000.safe_str import jbos, literal
    from bfg9000.backends.ninja.syntax import Variable
    comps = [gen.arg_string(rng, None, maxlen=5, allow_empty=False).replace('/', '_').replace('\\', '_') for _ in range(rng.randint(1, 3))]
    comps = [c for c in comps if c not in ('.', '..') and not c.startswith('~') and ':' not in c[:2]] or ['x']
    root = rng.choice([Root.srcdir, Root.builddir, InstallRoot.bindir])
    try:
        p = Path('/'.join(comps), root)
    except ValueError:
        p = Path('x', root)
    real = p.realize(writer.path_vars, shelly)
    bits = []
    for b in (real.bits if isinstance(real, jbos) else [real]):
        b = b.use() if isinstance(b, Variable) else b
        bits.append([isinstance(b, literal), b.string if isinstance(b, literal) else b])
    return [3, bits], p


def stage_w_ninja(rep, rng, n):
    from bfg9000.backends.ninja.syntax import Writer, Syntax, NinjaFile
    from bfg9000.shell import posix as pshell
    uw, _ = gen.uni_tables()
    calls, impl = [], []
    nf = NinjaFile('build.bfg')
    words = CORPUS_WORDS + ['a:b', 'a$b', 'a b', '$ ', '$:', '$$', 'a\nb', 'a|b'] + [gen.arg_string(rng, rep) for _ in range(n)]
    for s in words:
        for name, num in SYN.items():
            try:
                iv = Writer.escape_str(s, Syntax[name])
            except ValueError:
                iv = None
            calls.append(('ninja.escape_str', [s, num])); impl.append(iv)
            rep.case('e:%s:%s' % (name, s), nontrivial(s))
    for _ in range(n):
        syn = rng.choice(list(SYN))
        w = nf.writer(StringIO(), shell=pshell)
        if rng.random() < 0.3:
            e, o = npath_frag(rng, w, syn == 'shell')
            enc_j = [e]
        else:
            enc_j, o = gen_njbos(rng)
        try:
            esc = w.write(o, Syntax[syn])
            iv = (w.stream.getvalue(), bool(esc))
        except ValueError:
            iv = None
        calls.append(('ninja.write', [uw, enc_j, SYN[syn]])); impl.append(iv)
        rep.case('w:%s:%r' % (syn, enc_j), True)
        rep.count('frag:' + ('path' if enc_j[0][0] == 3 else 'jbos%d' % len(enc_j)))
    for _ in range(n // 2):
        items_enc, items_py = [], []
        for _ in range(rng.randint(1, 4)):
            if rng.random() < 0.7:
                s = gen.arg_string(rng, rep)
                items_enc.append([[2, s]]); items_py.append(s)
            else:
                e, o = gen_njbos(rng)
                items_enc.append(e); items_py.append(o)
        w = nf.writer(StringIO(), shell=pshell)
        try:
            w.write_shell(items_py)
            iv = w.stream.getvalue()
        except ValueError:
            iv = None
        calls.append(('ninja.write_each', [uw, items_enc, 2])); impl.append(iv)
        rep.case('v:%r' % (items_enc,), True)

    def dec2(name, r):
        if name in ('ninja.escape_str', 'ninja.write_each'):
            return d_opt(d_str, r)
        return d_opt(lambda x: (d_str(x[0]), d_bool(x[1])), r)
    rep.sample({'stage': 'W:ninja', 'call': calls[-1][0], 'arg': calls[-1][1]})
    return common.compare_model(rep, 'W:ninja', calls, impl, dec2)


def stage_r_inout(rep, rng, n):
    """$in/$out escaping of the Ninja model -> real dash -> the same paths (validates the shell half of the
    trusted model; the Ninja half cannot be validated here)."""
    bad = 0
    for _ in range(n):
        paths = [p for p in gen.arg_list(rng, None, maxn=3, maxlen=6, allow_empty=False) if not any(c in p for c in '\n\r\0')]
        if not paths:
            continue
        text = d_str(common.model_batch([('ninja.in_out', [paths])])[0])
        dv = shtools.dash_words(text)
        rep.case('io:%r' % (paths,), True)
        if dv != paths:
            bad += 1
            rep.fail('R:ninja_in_out - model $in/$out text %r is split by dash into %r, expected %r' % (text, dv, paths),
                     {'obligation': 'R:ninja_in_out', 'paths': paths, 'text': text, 'dash': dv}, found_input=False)
    rep.stage('R:ninja_in_out->dash', cases=n, disagreements=bad)


def stage_oracle_ninja(rep, rng, n):
    """Direct check on the implementation: a build.ninja written by the real NinjaFile (generic command rule, and a
    compile-like rule using file-level / edge-level flag variables, $in, $out) is evaluated by the reference
    evaluator and the resulting command is run by the real dash with the recorder; argv must be the arguments."""
    from bfg9000.backends.ninja.syntax import NinjaFile, Section, var
    from bfg9000 import shell
    bad = 0
    cases = [[w] for w in CORPUS_WORDS if w] + [gen.arg_list(rng, rep, maxn=4) for _ in range(n)]
    for args in cases:
        args = [a for a in args if not any(c in a for c in '\n\r\0')]
        if not args:
            continue
        for channel in ('cmd', 'flags', 'edgevars'):
            nf = NinjaFile('build.bfg')
            k = len(args) // 2
            if channel == 'edgevars':
                # every edge variable's words must reach the process, whatever the order of the variables in the dict and
                # wherever a description (the only variable written without shell quoting) stands among them
                names = ['input', 'output', 'extra', 'v4'][:rng.randint(1, 4)]
                cuts = sorted(rng.randint(0, len(args)) for _ in range(len(names) - 1))
                parts = [args[a:b] for a, b in zip([0] + cuts, cuts + [len(args)])]
                nf.rule('r', command=[shtools.ARGVREC] + [var(n_) for n_ in names])
                order = list(zip(names, parts))
                rng.shuffle(order)
                vs = dict(order)
                if rng.random() < 0.8:
                    items_ = list(vs.items())
                    items_.insert(rng.randint(0, len(items_)), ('description', gen.arg_string(rng, None, maxlen=6).replace('\n', ' ') or 'd $x'))
                    vs = dict(items_)
                    rep.count('edgevars:after_description=%d' % (len(vs) - 1 - list(vs).index('description')))
                nf.build(output='out', rule='r', variables=vs)
                expect = args
            elif channel == 'cmd':
                nf.rule('command', command=shell.shell_list([var('cmd')]))
                nf.build(output='out', rule='command', variables={'cmd': [shtools.ARGVREC] + args})
                expect = args
            else:
                g = nf.variable('global_cflags', args[:k], Section.flags, True)
                f = nf.variable('cflags', g, Section.other, True)
                nf.rule('cc', command=[shtools.ARGVREC, f, '-c', var('in'), '-o', var('out')])
                nf.build(output='o ut.o', rule='cc', inputs=['in put.c'], variables={f: [g] + args[k:]})
                expect = args + ['-c', 'in put.c', '-o', 'o ut.o']
            o = StringIO()
            nf.write(o)
            got = None
            err = ''
            try:
                m = ninjaparse.parse(o.getvalue())
                cmd = m.command('o ut.o' if channel == 'flags' else 'out')
                rc, recs, err = shtools.dash_run(cmd, cwd=_CWD)
                if rc == 0 and len(recs) == 1:
                    got = recs[0]['argv']
            except ninjaparse.NinjaDisagreement as e:
                rep.fail('R:structure parser - %s' % e, {'obligation': 'R:parse_manifest == Python splitter', 'build.ninja': o.getvalue(),
                                                        'detail': str(e)}, found_input=False)
                continue
            except ninjaparse.NinjaError as e:
                err = str(e)
            rep.case('on:%s:%r' % (channel, args), any(nontrivial(a) for a in args))
            rep.count('channel:' + channel)
            if got != expect:
                if rep.fail('Ninja backend, %s channel: arguments %r are delivered as %r (%s)' % (channel, expect, got, err[:100]),
                            {'channel': channel, 'args': expect, 'delivered': got, 'build.ninja': o.getvalue(), 'error': err},
                            classes=()):
                    bad += 1
    rep.stage('oracle:build.ninja->evaluator->sh', cases=len(cases) * 3, failures=bad)
    return bad


# ----------------------------------------------------------------------------- NinjaFile.write (text layout)
KEYWORDS = {'rule', 'build', 'default', 'pool', 'include', 'subninja', 'command', 'depfile', 'dyndep', 'description', 'deps',
            'generator', 'restat', 'rspfile', 'rspfile_content', 'msvc_deps_prefix', 'phony', 'in', 'out'}


def gen_name(rng, used):
    while True:
        n = rng.choice('abcxyz_') + ''.join(rng.choice('abcxyz019_') for _ in range(rng.randint(0, 6)))
        if n not in used and n not in KEYWORDS:
            used.add(n)
            return n


def gen_value_item(rng, rep, refs, bad_nl):
    """one item of a value: (frag encodings, python object); literals are variable references only (so that every
    generated file is inside the guard of C02_parse_total_on_written)"""
    from bfg9000.safe_str import jbos, shell_literal
    from bfg9000.backends.ninja.syntax import var
    k = rng.random()
    s = gen.arg_string(rng, rep, maxlen=6)
    if bad_nl and rng.random() < 0.5:
        s = s[:1] + '\n' + s[1:]
    if k < 0.6 or not refs:
        return [[2, s]], s
    n = rng.choice(refs)
    if k < 0.8:
        return [[0, '${%s}' % n]], var(n)
    if k < 0.9:
        return [[2, '-I' + s], [0, '${%s}' % n]], jbos('-I' + s, var(n).use())
    return [[1, s]], shell_literal(s)


def gen_value(rng, rep, refs, bad_nl=False, lo=0):
    enc, py = [], []
    for _ in range(rng.randint(lo, 3)):
        e, o = gen_value_item(rng, rep, refs, bad_nl)
        enc.append(e); py.append(o)
    return enc, py


def gen_pathname(rng, rep, tag):
    s = gen.arg_string(rng, rep, maxlen=5).replace('|', '!').replace('\n', '_')
    return tag + s


def stage_w_file(rep, rng, n):
    """W tie of the layout model NinjaFileWrite.v: random NinjaFile contents are stored through the real
    NinjaFile.variable/rule/build/default, written by the real NinjaFile.write, and compared with nf_write; on the well-formed
    ones the extracted parser must succeed on the REAL text and give back the declared structure (tie of
    C02_parse_total_on_written to the real writer)."""
    from bfg9000.backends.ninja.syntax import NinjaFile, Section, var
    from bfg9000.safe_str import jbos
    uw, _ = gen.uni_tables()
    calls, impl, declared = [], [], []
    for i in range(n):
        bad_nl = rng.random() < 0.06
        nf = NinjaFile('build' + gen.arg_string(rng, None, maxlen=4).replace('\n', '') + '.bfg')
        used, refs = set(), []
        enc_vars = {sec: [] for sec in Section}
        minver = None
        for sec in Section:
            for _ in range(rng.choice([0, 0, 1, 2, 3])):
                name = gen_name(rng, used)
                e, o = gen_value(rng, rep, refs, bad_nl)
                nf.variable(name, o, sec)
                enc_vars[sec].append([name, e]); refs.append(name)
        enc_rules, rnames = [], []
        for _ in range(rng.choice([0, 1, 1, 2, 3])):
            name = gen_name(rng, used)
            ce, co = gen_value(rng, rep, refs + ['in', 'out'], bad_nl, lo=1)
            kw, er = {}, [name, ce, None, None, None, False, None, False]
            if rng.random() < 0.4:
                kw['depfile'] = var('out') + '.d'; er[2] = [[[0, '${out}'], [2, '.d']]]
                kw['deps'] = 'gcc'; er[3] = [[[2, 'gcc']]]
            if rng.random() < 0.5:
                d = gen.arg_string(rng, rep, maxlen=6, allow_empty=False)
                kw['description'] = jbos(d + ' => ', var('out').use()); er[4] = [[[2, d + ' => '], [0, '${out}']]]
            if rng.random() < 0.3:
                kw['generator'] = True; er[5] = True
            if rng.random() < 0.3:
                kw['pool'] = 'console'; er[6] = [[[2, 'console']]]; minver = '1.5'
            if rng.random() < 0.2:
                kw['restat'] = True; er[7] = True
            nf.rule(name, co, **kw)
            enc_rules.append(er); rnames.append(name)
        enc_builds, outs_decl = [], []
        for b in range(rng.choice([0, 1, 2, 3])):
            rule = rng.choice(rnames + ['phony']) if rnames else 'phony'
            sect = []
            for j, (lo, hi) in enumerate(((1, 2), (0, 2), (0, 2), (0, 1))):
                sect.append([gen_pathname(rng, rep, 'p%d_%d_%d' % (b, j, k)) for k in range(rng.randint(lo, hi))])
            vs_enc, vs_py = [], {}
            for _ in range(rng.choice([0, 1, 2, 3, 4])):
                vn = rng.choice(['cmd', 'description', 'description', 'input', 'output', 'extra']) if rng.random() < 0.8 \
                    else gen_name(rng, set(used))
                if vn in vs_py:
                    continue
                e, o = gen_value(rng, rep, refs, bad_nl, lo=1)
                if vn == 'description' and rng.random() < 0.5:
                    e, o = [[[2, 'd$ x']]], 'd$ x'
                vs_enc.append([vn, e]); vs_py[vn] = o
            if 'description' in vs_py:
                rep.count('file_write:edge_vars_after_description=%d' % (len(vs_py) - 1 - list(vs_py).index('description')))
            nf.build(output=sect[0], rule=rule, inputs=sect[1], implicit=sect[2], order_only=sect[3], variables=vs_py)
            enc_builds.append([[[[2, p_]] for p_ in sect[0]], rule] + [[[[2, p_]] for p_ in x] for x in sect[1:]] + [vs_enc])
            outs_decl.append((sect, rule, [v_[0] for v_ in vs_enc]))
        dflt = [outs_decl[0][0][0][0]] if outs_decl and rng.random() < 0.5 else []
        if dflt:
            nf.default(dflt)
        o = StringIO()
        try:
            nf.write(o)
            iv = o.getvalue()
        except ValueError:
            iv = None
        wire_rules = [[r[0], r[1]] + [[x] if x is not None else None for x in r[2:5]] + [r[5], [r[6]] if r[6] is not None else None, r[7]]
                      for r in enc_rules]
        wf = [nf._bfgfile, [minver] if minver else None, enc_vars[Section.path], enc_vars[Section.command], enc_vars[Section.flags],
              enc_vars[Section.other], wire_rules, enc_builds, [[[2, d]] for d in dflt]]
        calls.append(('ninja.file_write', [uw, wf])); impl.append(iv)
        declared.append((iv, refs, rnames, outs_decl, dflt))
        rep.case('nf:%r' % (wf,), True)
        rep.count('file_write:' + ('raises' if iv is None else 'ok'))
    dis = common.compare_model(rep, 'W:NinjaFile.write', calls, impl, lambda n_, r: d_opt(d_str, r), vm_limit=25)
    # the extracted parser on the real text: total on the written files, and it reads back what was declared
    bad = 0
    texts = [d for d in declared if d[0] is not None]
    raw = common.model_batch([('ninja.parse_manifest', [d[0]]) for d in texts])
    for (text, refs, rnames, outs_decl, dflt), r in zip(texts, raw):
        why = None
        if not r:
            why = 'the parser rejects the written text'
        else:
            vars_, rules, edges, defaults = r[0]
            if [d_str(p_[0]) for p_ in vars_] != (['ninja_required_version'] if 'ninja_required_version = ' in text else []) + refs:
                why = 'file-level names %r' % ([d_str(p_[0]) for p_ in vars_],)
            elif [d_str(x[0]) for x in rules] != rnames:
                why = 'rule names'
            elif [([d_list(d_str, e[0])] + [d_list(d_str, x) for x in e[2:5]], d_str(e[1]), [d_str(p_[0]) for p_ in e[5]]) for e in edges] != \
                    [(sect, rule, vn) for sect, rule, vn in outs_decl]:
                why = 'edges'
            elif d_list(d_str, defaults) != dflt:
                why = 'defaults'
        if why:
            bad += 1
            rep.fail('R/W:parse_total_on_written - NinjaFile.write text is not read back by the structure parser (%s)' % why,
                     {'obligation': 'R/W:parse_manifest(NinjaFile.write)', 'build.ninja': text, 'why': why}, found_input=False)
    rep.stage('R/W:parse_manifest(NinjaFile.write)', cases=len(texts), failures=bad)
    return dis


class _FakeEnv:
    def __init__(self, console):
        from bfg9000.versioning import Version
        self.backend_version = Version('1.11.1') if console else None


def stage_manifest_theorems(rep, rng, n):
    """Ties C02_manifest_cmd / C02_scoping to the code and checks the property on the implementation at manifest level:
    the real ninja/writer.py command_build and flags_vars (+ a compile-like rule) on an empty NinjaFile, written by the
    real NinjaFile.write, must (W) equal the model texts w_command_build / w_compile_file and (oracle) be evaluated by
    command_of to a line that the REAL dash splits into exactly the declared words."""
    from bfg9000.backends.ninja.syntax import NinjaFile, Section, var
    from bfg9000.backends.ninja.writer import command_build, flags_vars
    uw, _ = gen.uni_tables()
    calls, impl, oracle = [], [], []
    words_pool = [[w] for w in CORPUS_WORDS if w] + [['a\nb']]
    for i in range(n):
        words = rng.choice(words_pool) if rng.random() < 0.2 else gen.arg_list(rng, rep, maxn=4)
        words = [w for w in words if '\0' not in w]
        if i % 2 == 0:
            console, phony = rng.random() < 0.4, rng.random() < 0.4
            desc = gen.arg_string(rng, rep, maxlen=5) if rng.random() < 0.3 else None
            outs = [gen_pathname(rng, rep, 'o%d' % k) for k in range(rng.randint(1, 2))]
            ins, imp, oo = ([gen_pathname(rng, rep, t + str(k)) for k in range(rng.randint(0, 2))] for t in 'ijk')
            nf = NinjaFile('build.bfg')
            o = StringIO()
            try:
                command_build(nf, _FakeEnv(console), output=outs, inputs=ins, implicit=imp, order_only=oo,
                              command=[shtools.ARGVREC] + words, console=console, phony=phony, description=desc or None)
                nf.write(o)
                iv = o.getvalue()
            except ValueError:
                iv = None
            calls.append(('ninja.command_build', [uw, 'build.bfg', outs, ins, imp, oo, [shtools.ARGVREC] + words, console, phony,
                                                  [desc] if desc else None]))
            impl.append(iv)
            oracle.append(('cmd', iv, outs[0], words))
            rep.count('manifest:command_build' + (':console' if console else '') + (':phony' if phony else ''))
        else:
            k = rng.randint(0, len(words))
            g, t = words[:k], words[k:]
            src, obj = gen_pathname(rng, rep, 's'), gen_pathname(rng, rep, 'o')
            nf = NinjaFile('build.bfg')
            o = StringIO()
            try:
                cc = nf.variable('cc', [shtools.ARGVREC], Section.command, True)
                gf, f = flags_vars('cflags', g, nf)
                nf.rule('cc', command=[cc, f, '-c', var('in'), '-o', var('out')])
                nf.build(output=obj, rule='cc', inputs=[src], variables={f: [gf] + t})
                nf.write(o)
                iv = o.getvalue()
            except ValueError:
                iv = None
            calls.append(('ninja.compile_file', [uw, 'build.bfg', [shtools.ARGVREC], g, t, src, obj]))
            impl.append(iv)
            oracle.append(('flags', iv, obj, g + t + ['-c', src, '-o', obj]))
            rep.count('manifest:compile_file')
        rep.case('mf:%r' % (calls[-1][1][2:],), True)
    dis = common.compare_model(rep, 'W:command_build/flags_vars->NinjaFile.write', calls, impl, lambda n_, r: d_opt(d_str, r),
                               vm_limit=25)
    bad = 0
    live = [x for x in oracle if x[1] is not None]
    cmds = common.model_batch([('ninja.command_of', [text, 0, out]) for _, text, out, _ in live])
    for (kind, text, out, expect), r in zip(live, cmds):
        got, err = None, ''
        cmd = d_opt(d_str, r)
        if cmd is None:
            err = 'command_of fails on the written manifest'
        else:
            rc, recs, err = shtools.dash_run(cmd, cwd=_CWD)
            if rc == 0 and len(recs) == 1:
                got = recs[0]['argv']
        if got != expect:
            if rep.fail('Ninja backend, manifest level (%s): arguments %r are delivered as %r (%s)' % (kind, expect, got, err[:100]),
                        {'channel': kind, 'args': expect, 'delivered': got, 'build.ninja': text, 'error': err}, classes=()):
                bad += 1
    rep.stage('oracle:writer.py->NinjaFile.write->command_of->dash', cases=len(live), failures=bad)
    return dis, bad


# ----------------------------------------------------------------------------- environment channel
def stage_w_env_ninja(rep, rng, n):
    """W tie of the environment channel (Ninja/NinjaEnv.v nwrite_items; C02_env_through_ninja / C02_env_local_through_ninja /
    C02_items_through_ninja): the text the real ninja Writer.write_shell makes of the real global_env / local_env item list
    (word-list lines, raw string-form lines, odd names, values with every character class; a newline makes the writer raise)
    against (a) the model of the whole pipeline global_env/local_env -> write and (b) the model writer on the real items."""
    from bfg9000.backends.ninja.syntax import NinjaFile
    from bfg9000.shell import posix as pshell
    from . import c01
    uw, _ = gen.uni_tables()
    calls, impl = [], []
    nf = NinjaFile('build.bfg')

    def gen_line():
        if rng.random() < 0.25:
            return gen.arg_string(rng, rep, maxlen=8)        # a raw string: passed through as one shell_literal
        return gen.arg_list(rng, rep, maxn=3, maxlen=6)

    def written(items):
        w = nf.writer(StringIO(), shell=pshell)
        try:
            w.write_shell(items)
            return w.stream.getvalue()
        except ValueError:
            return None
    for i in range(n):
        env = c01.gen_env(rng, rep, odd=0.25)
        if i % 7 == 0:
            env[rng.choice(c01.ENV_NAMES_OK)] = rng.choice(['$', '$$', 'a$b', '${cmd}', '$in', '$out $', ' $ ', "'$'", '$\n'])
        lines = [gen_line() for _ in range(rng.choice([0, 1, 1, 2, 3]))]
        pairs = [[k, v] for k, v in env.items()]
        got = pshell.global_env(env, lines if (lines or rng.random() < 0.5) else None)
        iv = written(got)
        calls.append(('ninja.global_env_text', [uw, pairs, [c01.enc_line(l) for l in lines]])); impl.append(iv)
        calls.append(('ninja.write_items', [uw, [c01.canon_item(x) for x in got]])); impl.append(iv)
        line = gen_line()
        got = pshell.local_env(env, line)
        iv2 = written(got)
        calls.append(('ninja.local_env_text', [uw, pairs, c01.enc_line(line)])); impl.append(iv2)
        calls.append(('ninja.write_items', [uw, [c01.canon_item(x) for x in got]])); impl.append(iv2)
        rep.case('wenvn:%r:%r:%r' % (pairs, lines, line), True)
        rep.count('wenv-ninja:nenv=%d' % len(env))
        rep.count('wenv-ninja:%s' % ('writer raises (newline)' if iv is None or iv2 is None else 'written'))
        if any(isinstance(l, str) for l in lines):
            rep.count('wenv-ninja:with a raw string-form line')
    rep.sample({'stage': 'W:ninja env', 'call': calls[0][0], 'arg': calls[0][1], 'impl': impl[0]})
    return common.compare_model(rep, 'W:global_env/local_env->ninja Writer.write_shell', calls, impl,
                                lambda name, r: d_opt(d_str, r))


RAW_WORD_ATOMS = ['a', 'b', 'c.o', ' ', '$', '$$', '~', ':', '=', '/', '-x', '${cmd}', '#', '*', ';', '&', '|']


def raw_word(rng):
    return ''.join(rng.choice(RAW_WORD_ATOMS) for _ in range(rng.randint(1, 3)))


def binding_of_text(text, name='cmd'):
    """The text of the edge binding `  name = ...` in a written build.ninja (None if absent)."""
    pre = '  %s = ' % name
    for l in text.split('\n'):
        if l.startswith(pre):
            return l[len(pre):]
    return None


def stage_t_env_ninja(rep, rng, n):
    """Theorem-level stage of C02_env_through_ninja / C02_env_local_through_ninja / C02_items_through_ninja on the REAL
    handler: real command() / build_step() edges with environment= (word-list command lines, string-form lines that start
    two processes, several lines) are created in process by the real builtins, the REAL ninja_command + command_build +
    NinjaFile.write produce build.ninja; tests: the real local_env through command_build.
    (W) the written binding cmd must equal the model text of global_env (steps) / local_env (tests);
    (T) the binding, lexed and evaluated by the Ninja model and run by the sh model (private HOME), must start exactly the
    declared processes, each with the declared words and the declared environment on top of the initial one.
    A mismatch of (T) is re-run for real: the whole manifest through the reference evaluator, the command through /bin/dash
    with the recorder; if dash misdelivers too it is a failing input, otherwise a broken obligation.
    Returns (W disagreements, failing inputs)."""
    import shlex
    import logging
    from . import c01, c14
    from bfg9000 import builtins as B
    B.init()
    from bfg9000.builtins import command as bcommand      # noqa: F401  (registers the handlers)
    from bfg9000.backends.ninja import writer as ninja
    from bfg9000.backends.ninja.syntax import NinjaFile
    from bfg9000.shell import posix as pshell
    uw, _ = gen.uni_tables()
    logging.disable(logging.WARNING)
    benv = c14.make_env((True, True))
    d = c01.DashEnv()
    cases = []
    for v in c01.ENV_VALUES + ['$', '$$', 'a$b', '${cmd}', '$in $out', ' $ ', "'$'", '$HOME:~']:
        cases.append(({'VAR': v}, rng.choice(['words', 'line', 'test'])))
    while len(cases) < n:
        env = {k: v for k, v in c01.gen_env(rng, rep, maxn=4).items() if c01.ident_ok(k)}
        cases.append((env, rng.choice(['words', 'words', 'line', 'line', 'mixed', 'test'])))
    calls, impl, recs_, lines_eq_bad = [], [], [], []
    found = broken = eq_checked = 0
    try:
        for idx, (env, form) in enumerate(cases):
            def words():
                return [rng.choice(['rec', 'rec2'])] + [c01.env_value(rng, rep) for _ in range(rng.randint(0, 3))]

            def rawline():
                procs = [[rng.choice(['rec', 'rec2'])] + [raw_word(rng) for _ in range(rng.randint(0, 2))] for _ in range(2)]
                return ' && '.join(' '.join(shlex.quote(w) if w not in ('rec', 'rec2') else w for w in p) for p in procs), procs
            if form == 'words':
                lines = [words() for _ in range(rng.randint(1, 3))]
                procs = lines
            elif form == 'line':
                l, procs = rawline()
                lines = [l]
            elif form == 'mixed':
                l, p2 = rawline()
                w1, w2 = words(), words()
                lines, procs = [w1, l, w2], [w1] + p2 + [w2]
            else:
                lines = [words()]
                procs = lines
            if any(c in w for p in procs for w in p for c in '\0\n\r') or any(c in v for v in env.values() for c in '\0'):
                continue
            out_name = 'st%d' % idx
            o = StringIO()
            try:
                if form == 'test':
                    nf = NinjaFile('build.bfg')
                    ninja.command_build(nf, _FakeEnv(True), output=out_name, command=pshell.local_env(env, lines[0]), console=True, phony=True)
                    model_call = ('ninja.local_env_text', [uw, [[k, v] for k, v in env.items()], c01.enc_line(lines[0])])
                else:
                    build, ctx = c14.make_context(benv)
                    kw = {'cmd': lines[0]} if len(lines) == 1 and rng.random() < 0.7 else {'cmds': lines}
                    if rng.random() < 0.5:
                        node = ctx['command'](out_name, environment=dict(env), **kw)
                    else:
                        node = ctx['build_step'](out_name, environment=dict(env), **kw)
                    nf = NinjaFile('build.bfg')
                    ninja.rule_handler.run([node.creator], build, nf, benv)
                    model_call = ('ninja.global_env_text', [uw, [[k, v] for k, v in env.items()], [c01.enc_line(l) for l in lines]])
                    rep.count('T:env-ninja:%s via %s' % (type(node.creator).__name__, 'cmd=' if 'cmd' in kw else 'cmds='))
                nf.write(o)
                text = o.getvalue()
                binding = binding_of_text(text)
            except ValueError:
                text = binding = None
            calls.append(model_call); impl.append(binding)
            rep.case('tenvn:%s:%r:%r' % (form, env, lines), True)
            rep.count('T:env-ninja:form=' + form)
            if binding is not None:
                recs_.append((form, env, lines, procs, out_name, text, binding))
        dis = common.compare_model(rep, 'W:real ninja_command/command_build cmd binding == model of global_env/local_env', calls, impl,
                                   lambda name, r: d_opt(d_str, r), vm_limit=60)
        raw = common.model_batch([('ninja.cmd_run', [uw, d.env0, [], 'IN', 'OUT', r[6]]) for r in recs_])
        # the equation of C02_env_lines_through_ninja on the real binding: Ninja + sh on the text == the lines alone in a shell
        # where env has been exported (right-hand side computed by the model from env and lines only)
        raw_rhs = common.model_batch([('ninja.lines_run', [uw, d.env0, [[k, v] for k, v in r[1].items()], [c01.enc_line(l) for l in r[2]]])
                                      for r in recs_])
        eq_checked = 0
        for (form, env, lines, procs, out_name, text, binding), r, r2 in zip(recs_, raw, raw_rhs):
            mv = c01.d_run(r)
            if form != 'test':
                eq_checked += 1
                if c01.d_run(r2) != mv:
                    rep.count('T:env-ninja:lines equation fails on the real binding')
                    lines_eq_bad.append((env, lines, binding, mv, c01.d_run(r2)))
            base = {'HOME': c01.PRIVATE_HOME, 'PRE': 'pre0'}
            base.update(env)
            names = tuple(base)
            want = ([(p[0], p[1:], dict(base)) for p in procs], True)
            got = None if mv is None else ([(p[1][0], p[1][1:], {k: v for k, v in p[0].items() if k in names}) for p in mv[0]], mv[1])
            if got == want:
                continue
            real, cmdline = None, None
            try:
                cmdline = ninjaparse.parse(text).command(out_name)
                real = d.run(cmdline, names)
            except (ninjaparse.NinjaError, ninjaparse.NinjaDisagreement) as e:
                real = 'evaluator: %s' % e
            if real != want:
                if found >= 5:            # enough failing inputs reported; the rest is only counted
                    rep.count('T:env-ninja:further failing inputs (not reported one by one)')
                    found += 1
                    continue
                if rep.fail('ninja backend: environment %r of a %s with command line(s) %r: written as cmd = %r, /bin/sh starts %r, declared %r' % (
                            env, 'test' if form == 'test' else 'step', lines, binding, real, want),
                            {'channel': 'env', 'form': form, 'env': env, 'lines': lines, 'binding': binding, 'command': cmdline,
                             'delivered': real, 'declared': want, 'model': got, 'build.ninja': text}, classes=()):
                    found += 1
            else:
                broken += 1
                rep.fail('T:env ninja - the binding %r written by the real handler is not delivered by the Ninja + sh models as declared: '
                         'model %r, declared %r (real dash: %r)' % (binding, got, want, real),
                         {'obligation': 'C02_env_through_ninja on the real text', 'binding': binding, 'model': got, 'declared': want,
                          'dash': real}, found_input=False)
        if lines_eq_bad and not found:
            env, lines, binding, lhs, rhs = lines_eq_bad[0]
            broken += 1
            rep.fail('T:env ninja - C02_env_lines_through_ninja does not hold on the binding %r the real handler writes for environment %r, '
                     'lines %r (%d cases): Ninja + sh model %r, the lines in the exporting shell %r' % (binding, env, lines, len(lines_eq_bad), lhs, rhs),
                     {'obligation': 'C02_env_lines_through_ninja on the real text', 'binding': binding, 'env': env, 'lines': lines,
                      'lhs': lhs, 'rhs': rhs}, found_input=False)
    finally:
        d.close()
        logging.disable(logging.NOTSET)
    rep.stage('T:environment theorems on the text of the real ninja_command', texts=len(recs_), failing_inputs=found, broken=broken,
              lines_equation_checked=eq_checked, lines_equation_fails=len(lines_eq_bad))
    return dis, found


# ----------------------------------------------------------------------------- system: steps with description=
ODD_BITS = [' ', '$x', '$HOME', "'", '"', ';', '&', '(', '#', '*', '=', ' -', '`']


def odd_file_name(rng, stem, ext='.txt'):
    bits = [stem] + [rng.choice(ODD_BITS) for _ in range(rng.randint(0, 2))]
    s = bits[0]
    for b in bits[1:]:
        k = rng.randint(1, len(s))
        s = s[:k] + b + s[k:]
    return s + ext


def described_steps(rep, rng, idx):
    """Generated project whose steps carry a user description= next to further per-edge variables: copy_file in every
    mode (the symlink/hardlink copiers pass the source through an extra edge variable), command(), build_step().
    The real bfg9000 configures it for Ninja; every edge is evaluated by the reference evaluator and run by the real dash
    with recorders named ln / cp first on PATH; the process must receive the declared arguments / file names."""
    import os
    from . import project
    steps, lines = [], ["project('p', '1.0')"]
    files = {}
    for i in range(rng.randint(2, 4)):
        src = odd_file_name(rng, 'da%d' % i)
        out = rng.choice(['', 'sub%d/' % i]) + odd_file_name(rng, 'li%d' % i)
        mode = rng.choice(['copy', 'symlink', 'symlink', 'hardlink'])
        desc = rng.choice([None, gen.arg_string(rng, None, maxlen=8).replace('\n', ' ') or 'de sc$x'])
        if i == 0:
            # every project has one described copier step that passes its source through a further edge variable, and
            # whose source name needs shell quoting
            mode, desc = 'symlink', desc or 'linking $x'
            src = src[:2] + rng.choice([' ', '$x', '$HOME', "'", ' $']) + src[2:]
        files[src] = 'x\n'
        lines.append('copy_file(%r, %r, mode=%r%s)' % (out, src, mode, ', description=%r' % desc if desc else ''))
        steps.append({'kind': 'copy', 'out': out, 'src': src, 'mode': mode, 'desc': desc})
    for i in range(rng.randint(1, 3)):
        args = [a for a in gen.arg_list(rng, rep, maxn=3) if not any(c in a for c in '\n\r\0')] or ['a b']
        desc = rng.choice([None, gen.arg_string(rng, None, maxlen=8).replace('\n', ' ') or 'de sc$x'])
        d = ', description=%r' % desc if desc else ''
        if rng.random() < 0.5:
            lines.append('command(%r, cmd=%r%s)' % ('cmd%d' % i, [shtools.ARGVREC] + args, d))
            steps.append({'kind': 'command', 'out': 'cmd%d' % i, 'args': args, 'desc': desc})
        else:
            lines.append('build_step(%r, cmd=%r%s)' % ('gen%d.out' % i, [shtools.ARGVREC] + args, d))
            steps.append({'kind': 'build_step', 'out': 'gen%d.out' % i, 'args': args, 'desc': desc})
    files['build.bfg'] = '\n'.join(lines) + '\n'
    bad = 0
    with project.Scratch('c02d') as sc:
        project.write_tree(sc.src, files)
        rc, out = project.configure(sc.src, sc.build, 'ninja')
        if rc != 0:
            rep.count('system:configure_failed')
            rep.sample({'configure_failed': out[-300:], 'script': files['build.bfg']})
            return 0
        stub = os.path.join(sc.build, '.stubs')
        os.makedirs(stub, exist_ok=True)
        for t in ('ln', 'cp'):
            os.symlink(shtools.ARGVREC, os.path.join(stub, t))
        text = project.read(sc.build, 'build.ninja')
        m = ninjaparse.parse(text)
        for st in steps:
            b = m.edge_for(st['out'])
            got, err, expect_ok = None, '', False
            if b is None:
                err = 'no edge produces %r' % st['out']
            else:
                rc_, recs, err = shtools.dash_run(m.command(st['out']), cwd=sc.build,
                                                  extra_env={'ARGVREC_TOUCH': '', 'PATH': stub + ':' + os.path.join(common.VERIF, 'harness', 'stubs') + ':/venv/bin:/usr/bin:/bin'})
                if rc_ == 0 and len(recs) == 1:
                    got = recs[0]['argv']
                    if st['kind'] == 'copy':
                        want_src = os.path.join(sc.src, st['src'])
                        denotes = len(got) >= 2 and os.path.normpath(os.path.join(sc.build, os.path.dirname(st['out']) if st['mode'] == 'symlink' else '', got[-2])) == want_src
                        expect_ok = len(got) == 3 and got[-1] == st['out'] and denotes and os.path.basename(recs[0]['argv0']) in ('ln', 'cp')
                    else:
                        expect_ok = got == st['args']
            rep.case('sysd:%s:%r' % (st['kind'], st), True)
            rep.count('described:%s:%s:%s' % (st['kind'], st.get('mode', '-'), 'desc' if st['desc'] else 'nodesc'))
            if not expect_ok:
                declared = st['args'] if st['kind'] != 'copy' else [st['src'], st['out']]
                bad += rep.fail('ninja backend: %s step %r%s: declared %r is delivered as %r (%s)' % (
                    st['kind'], st['out'], ' with description=%r' % st['desc'] if st['desc'] else '', declared, got, err[:120]),
                    {'script': files['build.bfg'], 'step': st, 'delivered': got, 'edge': b and {k_: b[k_] for k_ in ('outputs', 'rule', 'inputs', 'bound')},
                     'error': err[-300:]})
    rep.traces += 1
    return bad


# ----------------------------------------------------------------------------- system: install / uninstall under varied install dirs
ROOT_ORDER = ['prefix', 'exec_prefix', 'bindir', 'libdir', 'includedir', 'datadir', 'mandir']
ROOT_DEFAULTS = {'prefix': ('abs', '/usr/local'), 'exec_prefix': ('rel', '', 'prefix'), 'bindir': ('rel', 'bin', 'exec_prefix'),
                 'libdir': ('rel', 'lib', 'exec_prefix'), 'includedir': ('rel', 'include', 'prefix'),
                 'datadir': ('rel', 'share', 'prefix'), 'mandir': ('rel', 'man', 'datadir')}      # documented posix defaults
REL_DIRS = {'exec_prefix': ['ex', 'arch/x86_64'], 'bindir': ['bin64', 'tools/bin', 'my bin'], 'libdir': ['lib64', 'lib/x86_64-linux-gnu', 'lib+x'],
            'includedir': ['inc', 'include/p-1.0', 'in c'], 'datadir': ['share/x', 'data', 'sh are'], 'mandir': ['man', 'doc/man']}
ABS_DIRS = {'prefix': ['/usr', '/opt/p', '/opt/my app'], 'exec_prefix': ['/usr/x86', '/opt/ex'], 'bindir': ['/opt/p/bin', '/usr/b in'],
            'libdir': ['/usr/lib64', '/opt/p/lib/x86_64-linux-gnu'], 'includedir': ['/opt/inc', '/usr/include/p'],
            'datadir': ['/opt/share', '/usr/share/p x'], 'mandir': ['/usr/share/man', '/opt/man']}


def gen_install_config(rng, variant):
    """Where the install directories come from: the command line (--prefix, --libdir, ...: absolute), a toolchain file whose
    install_dirs() gives directories RELATIVE TO ANOTHER ROOT (Path('lib64', InstallRoot.exec_prefix)) or absolute ones, or both
    (the command line wins). A relative directory refers to a root that precedes it in the order of InstallRoot."""
    tc, cli = {}, {}
    if variant in ('toolchain', 'mixed'):
        roots = rng.sample(ROOT_ORDER[1:], rng.randint(2, 4))
        for k, r in enumerate(sorted(roots, key=ROOT_ORDER.index)):
            if k == 0 or rng.random() < 0.7:
                tc[r] = ('rel', rng.choice(REL_DIRS[r]), rng.choice(ROOT_ORDER[:ROOT_ORDER.index(r)][:3] + ROOT_ORDER[:ROOT_ORDER.index(r)][-1:]))
            else:
                tc[r] = ('abs', rng.choice(ABS_DIRS[r]))
        if rng.random() < 0.3:
            tc['prefix'] = ('abs', rng.choice(ABS_DIRS['prefix']))
    if variant in ('cli', 'mixed'):
        for r in rng.sample(ROOT_ORDER, rng.randint(1, 3) if variant == 'cli' else 1):
            cli[r] = ('abs', rng.choice(ABS_DIRS[r]))
        if variant == 'cli' and rng.random() < 0.5:
            cli['prefix'] = ('abs', rng.choice(ABS_DIRS['prefix']))
    return {'toolchain': tc, 'cli': cli, 'destdir': rng.choice(['', '', '/stage', '/st age/1'])}


def resolve_install_dirs(cfg):
    """The directories the configuration denotes, computed from the configuration alone."""
    eff = dict(ROOT_DEFAULTS)
    eff.update(cfg['toolchain'])
    eff.update(cfg['cli'])

    def res(r):
        v = eff[r]
        return v[1] if v[0] == 'abs' else (res(v[2]).rstrip('/') + '/' + v[1]).rstrip('/')
    return {r: res(r) for r in ROOT_ORDER}


def _slashes(p):
    import re
    return re.sub('/+', '/', p).rstrip('/') or '/'


def stage_w_install_dirs(rep, n):
    """Ninja/InstallDirs.v against the real code, in process: a real Environment receives install directories the way a
    toolchain file sets them (before finalize) and the way the command line does (finalize), the REAL _add_install_paths
    writes them into a real NinjaFile.
    (W) the variables written, in order, equal install_vars of the model (the order of InstallRoot);
    (R) the text of the real NinjaFile.write goes through the reference evaluator: the value of every root equals ninja_dirs
        of the model for the order that was written;
    (oracle) and equals the directory the configuration denotes, computed by resolve_install_dirs from the configuration alone.
    Returns (W/R disagreements, failing inputs)."""
    from bfg9000.environment import Environment
    from bfg9000.path import abspath, InstallRoot, Path, Root
    from bfg9000.builtins import install as binstall
    from bfg9000.backends.ninja.syntax import NinjaFile, Section
    rng = random.Random('installdirs:%s' % rep.seed)
    calls, impl, dis, found = [], [], [], 0
    for k in range(n):
        cfg = gen_install_config(rng, ['toolchain', 'cli', 'mixed', 'toolchain', 'default'][k % 5]) if k % 5 != 4 else \
            {'toolchain': {}, 'cli': {}, 'destdir': ''}
        env = Environment(abspath('/bfgdir'), 'ninja', None, abspath('/srcdir'), abspath('/builddir'))
        for r, v in cfg['toolchain'].items():          # builtins/toolchain.py install_dirs(): Path.ensure(v, Root.absolute)
            env.install_dirs[InstallRoot[r]] = Path(v[1], Root.absolute) if v[0] == 'abs' else Path(v[1], InstallRoot[v[2]])
        env.finalize({InstallRoot[r]: abspath(v[1]) for r, v in cfg['cli'].items()}, (True, True), False)
        nf = NinjaFile('build.bfg')
        binstall._add_install_paths(nf, env)
        eff = dict(ROOT_DEFAULTS)
        eff.update(cfg['toolchain'])
        eff.update(cfg['cli'])
        enc = [[0, _slashes(eff[r][1])] if eff[r][0] == 'abs' else [1, ROOT_ORDER.index(eff[r][2]), eff[r][1].strip('/')] for r in ROOT_ORDER]
        written = []
        for name, value in nf._variables[Section.path]:
            if name.name not in ROOT_ORDER:
                continue
            if isinstance(getattr(value, 'root', None), InstallRoot):
                written.append((ROOT_ORDER.index(name.name), (1, ROOT_ORDER.index(value.root.name), value.suffix.strip('/'))))
            else:
                written.append((ROOT_ORDER.index(name.name), (0, _slashes(value.string()))))
        calls.append(('ninja.install_vars', [enc]))
        impl.append(written)
        o = StringIO()
        nf.write(o)
        vals = ninjaparse.parse(o.getvalue()).vars
        got = [_slashes(vals.get(r, '')) for r in ROOT_ORDER]
        calls.append(('ninja.install_dirs', [[i for i, _ in written], enc]))
        impl.append(got)
        want = resolve_install_dirs(cfg)
        rep.case('instdirs:%r' % (sorted(cfg.items()),), bool(cfg['toolchain'] or cfg['cli']))
        rep.count('W:install-dirs:%d relative to another root, %d absolute, %d from the command line' % (
            sum(1 for v in cfg['toolchain'].values() if v[0] == 'rel'), sum(1 for v in cfg['toolchain'].values() if v[0] == 'abs'), len(cfg['cli'])))
        if got != [_slashes(want[r]) for r in ROOT_ORDER] and found < 5:
            found += bool(rep.fail('ninja backend: install directories %r are written as the file-level variables %r, which Ninja evaluates to %r; '
                                   'the configuration denotes %r' % ({k_: cfg[k_] for k_ in ('toolchain', 'cli')},
                                                                     [(ROOT_ORDER[i], v) for i, v in written], dict(zip(ROOT_ORDER, got)), want),
                                   {'channel': 'install-dirs', 'install_dirs_config': cfg, 'written': written, 'evaluated': got, 'denoted': want,
                                    'text': o.getvalue()}))

    def dec(name, r):
        if name == 'ninja.install_vars':
            return [(x[0], (0, d_str(x[1][1])) if x[1][0] == 0 else (1, x[1][1], d_str(x[1][2]))) for x in r]
        return [d_str(x) or '/' for x in r]
    for i, c, iv, mv in common.compare_model(rep, 'W:real _add_install_paths == install_vars; R: reference evaluator == ninja_dirs', calls, impl, dec, vm_limit=40):
        dis.append((i, c, iv, mv))
    rep.stage('W/R:install directories as file-level variables', configurations=n, disagreements=len(dis), failing_inputs=found)
    return dis, found


def install_records(recs, cwd):
    """Recorder records of doppel / patchelf / rm -> canonical observations:
    ('copy', absolute source, destination file), ('rpath', value, file), ('remove', file)"""
    import os
    out = []
    for r in recs:
        tool, a = os.path.basename(r['argv0'] or ''), list(r['argv'])
        if tool == 'doppel':
            pos, into, base, i = [], False, cwd, 0
            while i < len(a):
                if a[i] in ('-m', '-C') and i + 1 < len(a):
                    if a[i] == '-C':
                        base = os.path.join(cwd, a[i + 1])
                    i += 2
                    continue
                if a[i].startswith('-') and len(a[i]) > 1:
                    into = into or 'i' in a[i]
                else:
                    pos.append(a[i])
                i += 1
            for s in pos[:-1]:
                out.append(('copy', os.path.normpath(os.path.join(base, s)), _slashes(pos[-1] + '/' + s) if into else _slashes(pos[-1])))
            if len(pos) < 2:
                out.append(('copy?', tuple(a)))
        elif tool == 'patchelf':
            out.append(('rpath', ':'.join(_slashes(x) for x in a[1].split(':')), _slashes(a[2])) if len(a) == 3 and a[0] == '--set-rpath'
                       else ('patchelf?', tuple(a)))
        elif tool == 'rm':
            out += [('remove', _slashes(x)) for x in a if not x.startswith('-')]
    return out


def installed_steps(rep, seed, idx, variant):
    """Generated project that install()s a program (linked to an installed shared library), libraries, a header file, a header
    directory, data files (directory= below the data root, odd names) and a man page, configured by the real bfg9000 for Ninja
    under a generated install-directory configuration (see gen_install_config; DESTDIR from the environment). The install and
    uninstall edges are evaluated by the reference Ninja evaluator and run by the real dash with recorders named doppel /
    patchelf / rm first on PATH. Oracle (model-independent): every file is copied to / removed from exactly DESTDIR + the
    directory the CONFIGURATION denotes for its kind + its declared place, the run-time path given to patchelf is the library
    directory the configuration denotes; and the same project configured for Make and run by the real make delivers the same
    observations."""
    import os
    from . import project
    rng = random.Random('install:%s:%d' % (seed, idx))
    cfg = gen_install_config(rng, variant)
    dirs = resolve_install_dirs(cfg)
    dd = cfg['destdir']
    nlib = rng.randint(1, 2)
    files = {'main.c': 'int main(void) { return 0; }\n', 'inc/api.h': '#define A 1\n', 'inc/more.h': '#define B 1\n',
             'inc/sub/deep.h': '#define C 1\n', 'man/prog.1': '.TH PROG 1\n'}
    lines = ["project('p', '1.0')"]
    exp = []         # (kind, source relative to ('b' build / 's' source dir), destination)
    for i in range(nlib):
        files['l%d.c' % i] = 'int l%d(void) { return %d; }\n' % (i, i)
        lines.append("lib%d = shared_library('sh%d', files=['l%d.c'])" % (i, i, i))
        exp.append(('b', 'libsh%d.so' % i, dirs['libdir'] + '/libsh%d.so' % i))
    files['st.c'] = 'int st(void) { return 1; }\n'
    lines.append("stat = static_library('st', files=['st.c'])")
    exp.append(('b', 'libst.a', dirs['libdir'] + '/libst.a'))
    pname = rng.choice(['prog', 'tools/prog', 'pr+og'])
    lines.append("prog = executable(%r, files=['main.c'], libs=[%s, stat])" % (pname, ', '.join('lib%d' % i for i in range(nlib))))
    exp.append(('b', pname, dirs['bindir'] + '/' + pname))
    lines.append("hdr = header_file('inc/api.h')")
    exp.append(('s', 'inc/api.h', dirs['includedir'] + '/api.h'))
    lines.append("mp = man_page('man/prog.1', compress=False)")
    exp.append(('s', 'man/prog.1', dirs['mandir'] + '/man1/prog.1'))
    order = ['prog', 'stat', 'hdr', 'mp'] + ['lib%d' % i for i in range(nlib)]
    rng.shuffle(order)
    lines.append('install(%s)' % ', '.join(order))
    for i in range(rng.randint(1, 2)):
        nm = odd_file_name(rng, 'da%d' % i) if rng.random() < 0.6 else 'da%d.txt' % i
        sub = rng.choice(['pkg', 'p k/g', 'p$x'])
        root = rng.choice(['datadir', 'datadir', 'prefix', 'libdir'])
        files[nm] = 'x\n'
        lines.append("install(generic_file(%r), directory=Path(%r, InstallRoot.%s))" % (nm, sub, root))
        exp.append(('s', nm, dirs[root] + '/' + sub + '/' + nm))
    if rng.random() < 0.6:
        lines.append("install(header_directory('inc', include='*.h'))")
        exp += [('s', 'inc/' + h, dirs['includedir'] + '/' + h) for h in ('api.h', 'more.h')]
    files['build.bfg'] = '\n'.join(lines) + '\n'

    def tcval(v):
        return repr(v[1]) if v[0] == 'abs' else 'Path(%r, InstallRoot.%s)' % (v[1], v[2])
    args = ['--%s=%s' % (r.replace('_', '-'), v[1]) for r, v in cfg['cli'].items()]
    bad = 0
    with project.Scratch('c02i') as sc:
        project.write_tree(sc.src, files)
        if cfg['toolchain']:
            tcf = os.path.join(sc.root, 'toolchain.bfg')
            with open(tcf, 'w') as f:
                f.write('install_dirs(%s)\n' % ', '.join('%s=%s' % (r, tcval(v)) for r, v in cfg['toolchain'].items()))
            args += ['--toolchain', tcf]
        stub = os.path.join(sc.root, 'stubs')
        os.makedirs(stub)
        for t in ('doppel', 'patchelf', 'rm'):
            os.symlink(shtools.ARGVREC, os.path.join(stub, t))
        path = stub + ':' + os.path.join(common.VERIF, 'harness', 'stubs') + ':/venv/bin:/usr/bin:/bin'
        want = sorted(set(('copy', os.path.normpath(os.path.join(sc.build if w == 'b' else sc.src, s)), _slashes(dd + d)) for w, s, d in exp))
        want_rm = sorted(set(('remove', _slashes(dd + d)) for _, _, d in exp))
        want_rp = [('rpath', _slashes(dirs['libdir']), _slashes(dd + dirs['bindir'] + '/' + pname))]
        info = {'channel': 'install', 'script': files['build.bfg'], 'install_dirs_config': cfg, 'configure_args': args,
                'directories_denoted': dirs}
        obs = {}
        for backend in ('ninja', 'make'):
            bdir = sc.build if backend == 'ninja' else sc.build + '_mk'
            rc, out = project.configure(sc.src, bdir, backend, extra_args=args, extra_env={'DESTDIR': dd} if dd else None)
            if rc != 0:
                rep.count('install:configure_failed:' + backend)
                rep.sample({'configure_failed': out[-300:], 'script': files['build.bfg'], 'args': args})
                bad += rep.fail('%s backend: configure of a project with install() fails under the install-directory configuration %r: %s' % (
                    backend, cfg, out[-300:]), dict(info, error=out[-600:]))
                return bad
            for target in ('install', 'uninstall'):
                err = ''
                if backend == 'ninja':
                    m = ninjaparse.parse(project.read(bdir, 'build.ninja'))
                    if m.edge_for(target) is None:
                        recs, err = [], 'no edge produces %r' % target
                    else:
                        rc_, recs, err = shtools.dash_run(m.command(target), cwd=bdir, extra_env={'ARGVREC_TOUCH': '', 'PATH': path})
                else:
                    rc_, recs, err = project.make(bdir, [target], args=['-o', 'all'], extra_env={'ARGVREC_TOUCH': '', 'PATH': path})
                    if rc_ != 0 and len(sc.build + '_mk') != len(sc.build):
                        err = err.replace(sc.build + '_mk', sc.build)
                    # the two build directories differ in name only
                    recs = [dict(r, argv=[x.replace(sc.build + '_mk', sc.build) for x in r['argv']]) for r in recs]
                got = install_records(recs, sc.build)
                obs[backend, target] = (sorted(set(got)), err)
        for target in ('install', 'uninstall'):
            got, err = obs['ninja', target]
            expected = sorted(want + want_rp) if target == 'install' else want_rm
            rep.case('sysi:%s:%s:%r' % (variant, target, sorted(cfg.items())), True)
            rep.count('install:%s:%s' % (variant, target))
            if got != expected:
                miss, extra = [x for x in expected if x not in got], [x for x in got if x not in expected]
                bad += rep.fail('ninja backend: %s of a project configured with install dirs %r (denoting %r, DESTDIR %r): declared but not '
                                'delivered %r; delivered but not declared %r (%s)' % (
                                    target, {k: cfg[k] for k in ('toolchain', 'cli')}, dirs, dd, miss[:4], extra[:4], err[:120]),
                                dict(info, target=target, missing=miss, unexpected=extra, error=err[-300:]))
            elif obs['make', target][0] != got:
                mk = obs['make', target][0]
                bad += rep.fail('ninja and make backends deliver different %s commands for install dirs %r: only ninja %r, only make %r (%s)' % (
                    target, {k: cfg[k] for k in ('toolchain', 'cli')}, [x for x in got if x not in mk][:4], [x for x in mk if x not in got][:4],
                    obs['make', target][1][:120]), dict(info, target=target, ninja=got, make=mk))
        for r, v in list(cfg['toolchain'].items()) + list(cfg['cli'].items()):
            rep.count('install:dir %s given %s' % ('on the command line' if r in cfg['cli'] and cfg['cli'][r] is v else 'by the toolchain file',
                                                  'absolute' if v[0] == 'abs' else 'relative to another root'))
    rep.traces += 1
    return bad


def run(rep):
    global _CWD
    import shutil
    _CWD = common.scratch('c02sh')
    try:
        _run(rep)
    finally:
        shutil.rmtree(_CWD, ignore_errors=True)
        _CWD = None


def _run(rep):
    rng = random.Random(rep.seed)
    thorough = rep.tier == 'thorough'
    rep.proof_stage(coqchk=thorough)
    n = 3000 if thorough else 400
    dis = stage_w_ninja(rep, rng, n)
    stage_r_inout(rep, rng, 400 if thorough else 80)
    dis = dis + stage_w_file(rep, rng, 400 if thorough else 60)
    dis2, found = stage_manifest_theorems(rep, rng, (600 if thorough else 80) * (5 if dis else 1))
    dis = dis + dis2
    dis = dis + stage_w_env_ninja(rep, rng, 1500 if thorough else 250)
    dis3, found3 = stage_t_env_ninja(rep, rng, (1500 if thorough else 250) * (5 if dis else 1))
    dis = dis + dis3
    found += found3
    dis4, found4 = stage_w_install_dirs(rep, 400 if thorough else 80)
    dis = dis + dis4
    found += found4
    found += stage_oracle_ninja(rep, rng, (500 if thorough else 60) * (5 if dis else 1))
    from . import c06
    for i in range(12 if thorough else 2):
        found += c06.declared_vs_delivered(rep, rng, i, 'ninja', odd_names=(i % 2 == 1))
    for i in range(10 if thorough else 3):
        found += described_steps(rep, rng, i)
    for i in range(12 if thorough else 3):
        found += installed_steps(rep, rep.seed, i, ['toolchain', 'cli', 'mixed'][i % 3])
    rep.stage('system:configure->evaluator->dash->recorder', projects=rep.traces)
    rep.stage('R:parse_manifest == Python splitter (every manifest seen)', **ninjaparse.STATS)
    if ninjaparse.STATS['disagreements']:
        rep.fail('R:structure parser - the extracted manifest parser and the Python splitter disagreed on %d manifests' % ninjaparse.STATS['disagreements'],
                 {'obligation': 'R:parse_manifest == Python splitter', 'stats': dict(ninjaparse.STATS)}, found_input=False)
    if dis and not rep.n_with_input:
        i, call, iv, mv = dis[0]
        rep.fail('W:%s - model and implementation disagree (%d cases), e.g. %r: impl %r, model %r' % (
            call[0], len(dis), call[1], iv, mv),
            {'obligation': 'W:' + call[0], 'call': call, 'impl': iv, 'model': mv, 'n_disagreements': len(dis)},
            found_input=False)


def replay(rep, path):
    run(rep)
