"""C03 - Generated dependency graph equals the graph the build script describes."""
import io
import os
import random
import re
import shutil
import subprocess
from . import common, gen, shtools, project, projgen, ninjaparse
from .common import d_list

LEVEL = 'proof'
RULE = ('generated projects (static/shared/dual libraries, executables using them, multi-output build_step, copy_file, alias, '
        'default, test) built by the real GNU Make with logging stub tools; per project: full build, no-op second build, then for every '
        'source / intermediate / generated input one touch + rebuild, executed step set compared with the downstream set of the '
        "generator's own DAG; DefaultOutputs operation sequences vs the model. A case is non-trivial when the touched file has at "
        'least one downstream step; distinct by (project, touched file). Variant detection: the real multitarget_rule of the tree under '
        'test is probed once (a 2-output build_step through the real Make rule handler; does the rule "outs: first.stamp" carry a recipe?); '
        'the answer selects the Rule tuples the emitter model is compared with (fx) and whether finding C03-make-stamp-consumer-stale '
        'applies to this run (repaired tree: not suppressed, a stale consumer is a violation; unrepaired tree: suppressed only while the '
        'finding is recorded as open). W:emit: random scripts driven through the real builtins in an '
        'in-process build context (compile with header file objects / pch given as object or by name / extra_deps / a second output, '
        'static and shared libraries with libs=, executables sharing object files, nested output directories, command and build_step with '
        'file nodes in the command line, 1-3 outputs, always_outdated, copy_file in the modes copy / symlink / hardlink, alias, test, test_deps, default, install): per edge the '
        'Rule / Build tuples of the real Make and Ninja handlers vs Graph/Emit.v, per script the hooks, and - independent of the model - the '
        'prerequisites of every output vs what the SCRIPT declares (written down by the generator from the arguments it passes). '
        'R:stampsem: (a) stamp-shaped rule graphs (2-3 outputs, 1-3 consumers, chains, goal orders, touch / delete of inputs, outputs, '
        'stamp) with BOTH shapes of the outs rule - no recipe / the no-op recipe "@:", chosen per graph - and the stamp written 0 or 1 '
        'ticks after the outputs, first the witnesses of stamp_consumers_refuted and stamp_consumers_repaired; (b) random abstract '
        'scripts (half of them a 2-3-output build_step with 1-3 build_step / copy_file consumers and the session make, make, touch a source, '
        'make, make; the others compile / link / command / build_step with 1-3 outputs, copy_file) turned into walk-semantics rules by EmitStamp.xsem_steps '
        'for fx in {false, true}, lag in {0, 1}; in GNU Make vs StampSem.dmake: per make the real recipes run, the no-op recipes run '
        '(make --trace) and the exit status; (c) FAILING steps (Graph/StampFail.v fmake, recipes as lists of command lines): the witness '
        'rules of C03_failed_step_recovers / C03_touch_before_command_refuted, the graphs of (a) and the rule sets of (b), each with the '
        'recipes StampFail.cmds_of gives them - stamp recipe [command; touch $@] (as emitted) or [touch $@; command] (the refuted order), '
        'single-output rules [command] - written line by line into a real Makefile; session: make, then 1-2 times (touch a source, a make in '
        'which the own command of one randomly chosen step exits 1 writing nothing, 1-2 makes in which nothing fails); per make the steps '
        'whose command succeeded, the command-less recipes run, the exit status; the harness itself checks that GNU Make ran nothing after '
        'the failing recipe. W:emit also compares, per registered Make rule, the ORDER of the recipe lines (touch $@ / no-op / command lines, '
        'rendered by the real Writer.write_shell) with Emit.emit_make_recipes false. System scenario, always run: 2-output build_step from gen.in with one consumer step per '
        'output, real configure + make: build, no-op build, touch gen.in + build (step and both consumers re-created), no-op build. '
        'Dependency-shape projects (projgen.generate_graph): every output named, declared DAG next to '
        'the script; emitted edges of both backends vs the DAG, then touch of every source and of half the intermediates with real make; '
        'the shapes include copy_file of GENERATED files in the modes copy / symlink / hardlink (a symbolic link always, a link to a link, '
        'links in other directories) with steps consuming the link, and a versioned shared library (real file, soname link, development '
        'link) with an executable linking it; an output counts as re-created when its own time stamp (lstat) or that of the file it '
        'denotes (stat) changed; command() / build_step() with SEVERAL command lines (cmds=) whose file objects - source files and '
        'generated files - are named in one or two of the lines (first only, a middle one only, last only, first and last), in W:emit '
        '(vs Steps.command_lines_extra_deps and vs the declared consumption) and in the dependency-shape projects')
TRUSTED = ('mtime build semantics: the real GNU Make 4.3 (system level); Make/MakeSem.v model for the generic theorems',
           'Graph/StampSem.v dmake (depth-first walk with cached mtimes; recipe kinds none / real / no-op, lag of the stamp) validated '
           'against GNU Make 4.3 on this run (R:stampsem, both rule shapes); which no-op recipes Make ran is read from make --trace '
           '("update target ... due to" / "target ... does not exist"), cross-checked on the real recipes against their own log',
           'Graph/StampFail.v fmake (the same walk with recipes as command-line lists and an oracle of failing steps; GNU Make without -k '
           'stops at the first failing line, deletes nothing, builds nothing further) validated against GNU Make 4.3 on this run (R:stampsem '
           '(c)); assumption about the tools, explicit in the model: the own command of a step either writes all its outputs and succeeds or '
           'writes nothing and fails (the stub command of the validation and bin/argvrec of the system histories behave so)',
           'variant detection: the probe (harness/c03.py stamp_variant) runs the real build_step builtin and the real Make rule handler '
           'of the tree under test and reads Makefile._rules; a failing probe is reported, not assumed',
           'emitter model: an Edge is abstracted to its attribute dump (abstract_step); the spelling of .stamp / .dir names is '
           'taken from the real Path.addext / parent / append (C12); one producer per file is C05',
           'Ninja graph read through the reference evaluator (no ninja binary)')


# ----------------------------------------------------------------------------- which multitarget_rule is under test
STAMP_ID = 'C03-make-stamp-consumer-stale'
STAMP_CLASS = 'make-stamp-output-consumer-stale'
_VARIANT = {}


def stamp_variant(rep=None):
    """The variant of backends/make/writer.py multitarget_rule in the tree under test, found by running the REAL
    function: a 2-output build_step created by the real builtin is handed to the real Make rule handler with a real
    Makefile object; True iff the rule registered for 'a.txt b.txt: a.txt.stamp' carries a non-empty recipe (the
    repaired shape, recipe '@:'), False when it has none (as first written).  Probed once per process.  A probe that
    cannot run is reported (no-failing-input-found) and counts as 'not repaired'."""
    if 'v' in _VARIANT:
        return _VARIANT['v']
    import logging
    try:
        from . import c14
        from bfg9000 import builtins as B
        B.init()
        from bfg9000.backends.make import writer as make
        logging.disable(logging.WARNING)
        env = c14.make_env((True, True))
        build, ctx = c14.make_context(env)
        ctx['project']('variantprobe')
        outs = list(ctx['build_step'](['a.txt', 'b.txt'], cmd=['tool', 'x']))
        mk = make.Makefile('build.bfg', False, gnu=True)
        make.rule_handler.run([outs[0].creator], build, mk, env)
        rules = [r for r in mk._rules if len(r.targets) == 2 and all(t in outs for t in r.targets)]
        stamps = [r for r in mk._rules if len(r.targets) == 1 and r.recipe]
        if len(rules) != 1 or len(mk._rules) != 2 or len(stamps) != 1:
            raise RuntimeError('a 2-output build_step registered %d rules, %d of them with both outputs as targets' % (
                len(mk._rules), len(rules)))
        _VARIANT['v'] = bool(rules[0].recipe)
        _VARIANT['detail'] = 'rule %r: recipe %s' % (
            ' '.join(Names().key(t) for t in rules[0].targets) + ': ' + ' '.join(Names().key(d) for d in rules[0].deps),
            'absent' if not rules[0].recipe else 'present (%d line%s)' % (len(rules[0].recipe), '' if len(rules[0].recipe) == 1 else 's'))
    except Exception:
        import traceback
        _VARIANT['v'] = False
        _VARIANT['detail'] = 'probe failed'
        if rep is not None:
            rep.fail('the variant of multitarget_rule in the tree under test could not be determined (probe through the real '
                     'build_step / make rule handler failed)', {'obligation': 'variant probe', 'traceback': traceback.format_exc()},
                     found_input=False)
    finally:
        logging.disable(logging.NOTSET)
    return _VARIANT['v']


def own_findings():
    import json
    try:
        return json.load(open(os.path.join(common.VERIF, 'findings.d', 'C03.json')))
    except (OSError, ValueError):
        return []


def stamp_finding_status():
    """top-level status of the stamp finding in findings.d/C03.json ('open' until the repair has landed in /repo)"""
    for k in own_findings():
        if k.get('id') == STAMP_ID:
            return k.get('status')
    return None


def model_variant(rep=None):
    """The multitarget_rule the emitter MODEL is run with (fx of Graph/Emit.v): the repaired shape when the tree under test
    has it, and also - whatever the tree has - once the finding is recorded as fixed: a tree that lost the recipe again
    then disagrees with the model in W:emit as well."""
    return bool(stamp_variant(rep) or stamp_finding_status() == 'fixed')


def select_findings(rep):
    """Which known findings apply to THIS run.  findings.d/C03.json is authoritative for its ids (known_findings.json is
    merged from it by the coordinator).  The stamp finding depends on the variant of multitarget_rule under test:
      repaired tree              -> it counts as FIXED: not in rep.known, no KNOWN-FINDING line, a stale consumer is a VIOLATION;
      unrepaired, status 'open'  -> known finding (KNOWN-FINDING line);
      unrepaired, status 'fixed' -> a regression: nothing is suppressed, a stale consumer is a VIOLATION.
    Returns (repaired, top-level status)."""
    repaired = stamp_variant(rep)
    own = [k for k in own_findings() if k.get('property') == 'C03']
    ids = set(k['id'] for k in own)
    rep.known = [k for k in rep.known if k['id'] not in ids]
    for k in own:
        if k.get('status') != 'open':
            continue
        if k['id'] == STAMP_ID and repaired:
            continue
        rep.known.append(k)
    return repaired, stamp_finding_status()


# ----------------------------------------------------------------------------- DefaultOutputs vs model
class _Out:
    def __init__(self, ident, creator, others=()):
        self.ident, self.creator, self._others = ident, creator, list(others)

    @property
    def all(self):
        return [self] + self._others


def stage_w_defaults(rep, rng, n):
    from bfg9000.builtins.default import DefaultOutputs
    calls, impl = [], []
    for _ in range(n):
        d = DefaultOutputs()
        objs = {}
        ops = []
        next_id = 1
        for _ in range(rng.randint(0, 10)):
            if objs and rng.random() < 0.3:
                x = rng.choice(list(objs))
                e = rng.random() < 0.3
                d.remove(objs[x], explicit=e)
                ops.append([1, x, e])
            else:
                items = []
                main = None
                for k in range(rng.choice([1, 1, 1, 2])):
                    reuse = objs and rng.random() < 0.15      # the malformed stream: the same output registered twice
                    ident = rng.choice(list(objs)) if reuse else next_id
                    if not reuse:
                        next_id += 1
                    cre = rng.random() < 0.85
                    o = objs.get(ident) or _Out(ident, cre)
                    objs[ident] = o
                    items.append(o)
                main = _Out(0, None, items)          # a container whose .all lists the items (itself has no creator)
                main.ident = 0
                e = rng.random() < 0.4
                class Wrap:                            # output.all = items
                    all = items
                d.add(Wrap, explicit=e)
                ops.append([0, [[o.ident, bool(o.creator)] for o in items], e])
        impl.append(([o.ident for o in d.default_outputs], [o.ident for o in d.fallback_defaults], [o.ident for o in d.outputs]))
        calls.append(('defaults.run', [ops]))
        rep.case('d:%r' % (ops,), len(ops) > 1)
    return common.compare_model(rep, 'W:DefaultOutputs', calls, impl, lambda n_, r: tuple(list(x) for x in r))


# ----------------------------------------------------------------------------- W: the real rule handlers vs Graph/Emit.v
KIND_OF = {'CompileSource': 0, 'CompileHeader': 0, 'GenerateSource': 0, 'StaticLink': 1, 'DynamicLink': 1, 'SharedLink': 1,
           'Command': 2, 'BuildStep': 3, 'CopyFile': 4, 'CompressFile': 4, 'Alias': 5}


class Names:
    """Numbers the distinct files / phony names of one script (ids from 1) and their parent directories (0 = the build
    directory itself); renders the nodes of the model back to names."""

    def __init__(self):
        from bfg9000.path import Path
        self.ids, self.paths, self.dirs, self.dirpaths = {}, {}, {}, {}
        self.top = Path('.')

    @staticmethod
    def path_of(x):
        from bfg9000.path import BasePath
        if isinstance(x, str):
            return None
        p = x if isinstance(x, BasePath) else x.path
        return p if isinstance(p, BasePath) else None        # Phony(name).path is the bare name

    def key(self, x):
        p = self.path_of(x)
        if p is None:
            return 'builddir:' + (x if isinstance(x, str) else x.path)
        return '%s:%s' % (p.root.name, p.suffix)

    def id(self, x):
        k = self.key(x)
        if k not in self.ids:
            self.ids[k] = len(self.ids) + 1
            self.paths[self.ids[k]] = self.path_of(x)
        return self.ids[k]

    def dir_id(self, x):
        p = self.path_of(x)
        if p is None:
            return 0
        d = p.parent()
        if d == self.top:
            return 0
        k = self.key(d)
        if k not in self.dirs:
            self.dirs[k] = len(self.dirs) + 1
            self.dirpaths[self.dirs[k]] = d
        return self.dirs[k]

    def node(self, n):
        """[tag, id] of the model -> key; the spelling of stamp and sentinel names comes from the real path algebra"""
        tag, i = n
        if tag == 0:
            return [k for k, v in self.ids.items() if v == i][0]
        if tag == 1:
            return self.key(self.paths[i].addext('.stamp'))
        if tag == 2:
            return self.key(self.dirpaths[i].append('.dir'))
        return 'builddir:PHONY'


def abstract_step(e, nm):
    """The attribute dump of a real Edge in the wire format of Graph/GraphEmitTable.v un_step."""
    from bfg9000.iterutils import listify
    opt = lambda v: [] if v is None else [nm.id(v)]
    ids = lambda l: [nm.id(x) for x in l]
    comp = getattr(e, 'compiler', None)
    pk = [d for p in getattr(e, 'packages', []) for d in p.deps]
    return [KIND_OF[type(e).__name__], [[nm.id(o), nm.dir_id(o)] for o in e.output],
            opt(getattr(e, 'file', None)), opt(getattr(e, 'pch_source', None)), opt(getattr(e, 'pch', None)),
            ids(getattr(e, 'include_deps', [])), ids(getattr(e, 'libs', None) or []), ids(pk),
            ids(getattr(e, 'files', [])), ids(listify(getattr(e, 'module_defs', None))),
            ids(listify(getattr(e, 'manifest', None))), ids(e.extra_deps), bool(getattr(e, 'phony', False)),
            bool(comp is not None and comp.deps_flavor in ('gcc', 'msvc'))]


def declared_consumption(e, nm):
    """Model-independent reading of the property: everything the step consumes (keys)."""
    from bfg9000.iterutils import listify
    out = []
    for a in ('pch_source', 'file', 'pch'):
        v = getattr(e, a, None)
        if v is not None:
            out.append(v)
    for a in ('include_deps', 'libs', 'files'):
        out.extend(getattr(e, a, None) or [])
    for p in getattr(e, 'packages', []):
        out.extend(p.deps)
    out.extend(listify(getattr(e, 'module_defs', None)))
    out.extend(listify(getattr(e, 'manifest', None)))
    out.extend(e.extra_deps)
    return set(nm.key(x) for x in out)


def real_script(rng, rep, ctx, build):
    """A random script driven through the real builtins.  Returns (command-node records for the BaseCommand tie, test
    declarations, declarations): a declaration is (output object, set of consumed objects, text of the call) - what the
    SCRIPT says the step producing that output consumes, written down here from the arguments handed to the builtin
    (not read from the Edge)."""
    from bfg9000 import file_types
    cmdnodes = []          # (edge, [(node, has_creator)], declared extra_deps)
    decl = []
    ctx['project']('p')
    hdrs = [ctx['header_file']('inc/h%d.h' % i) for i in range(2)]
    produced = []          # file objects with a creator
    plain = [ctx['source_file']('data%d.txt' % i) for i in range(2)]

    keyer = Names()

    def some(pool, lo=0, hi=2):
        pool = list(pool)
        return rng.sample(pool, min(len(pool), rng.randint(lo, hi)))

    def name(x):
        if isinstance(x, list):
            return [name(y) for y in x]
        return x if isinstance(x, str) else '<%s>' % keyer.key(x)

    def call(fn, *a, **kw):
        return '%s(%s)' % (fn, ', '.join([repr(name(x)) if not isinstance(x, list) else repr([name(y) for y in x]) for x in a] +
                                         ['%s=%r' % (k, [name(y) for y in v] if isinstance(v, list) else name(v) if not isinstance(v, (bool, dict)) else v)
                                          for k, v in kw.items()]))

    def header_objs(incs):
        return [i for i in incs if not isinstance(i, str)]

    def command_like(kind, idx):
        nodes = some(produced, 0, 2) + some(plain, 0, 2)
        rng.shuffle(nodes)
        extra = some(produced + plain + [ctx['generic_file']('loose%d.txt' % idx)], 0, 2)
        files = some(produced + [ctx['generic_file']('in%d.dat' % idx)], 0, 2)
        cmd = ['tool'] + [x for n in nodes for x in (rng.choice(['-x', '--in']), n)][:2 * len(nodes)]
        # one command line (cmd=, or cmds= with one line) or several (cmds=[line, line, ...]): every file object is named
        # in one or two of the lines - the first only, a middle one only, the last only, the first and the last, ... -;
        # what a step consumes does not depend on WHICH of its command lines names the file
        nlines = rng.choice([1, 1, 2, 3, 3])
        if nlines == 1:
            lines = [cmd]
            cmdkw = {'cmd': cmd} if rng.random() < 0.7 else {'cmds': [cmd]}
        else:
            lines = [['tool%d' % j] for j in range(nlines)]
            for n in nodes:
                for j in sorted(rng.sample(range(nlines), rng.choice([1, 1, 2]))):
                    lines[j] += [rng.choice(['-x', '--in']), n]
            cmdkw = {'cmds': lines}
        line_nodes = [[n for n in line if not isinstance(n, str)] for line in lines]
        rep.count('w-emit:command lines=%d, file objects per line %r' % (nlines, [len(l) for l in line_nodes]))
        if kind == 'command':
            out = ctx['command']('cmd%d' % idx, files=files, extra_deps=extra, **cmdkw)
            e = out.creator
            outs = [out]
            text = call('command', 'cmd%d' % idx, files=files, extra_deps=extra, **cmdkw)
        else:
            k = rng.choice([1, 1, 2, 2, 3])
            dirs = rng.choice([[''] * 3, ['g/'] * 3, ['g/', 'h/', 'g/'], ['', 'g/k/', 'h/']])
            names = ['%sbs%d_%d.%s' % (dirs[j], idx, j, rng.choice(['c', 'h', 'txt'])) for j in range(k)]
            ao = rng.random() < 0.25
            out = ctx['build_step'](names if k > 1 else names[0], files=files, extra_deps=extra, always_outdated=ao, **cmdkw)
            outs = list(out) if k > 1 else [out]
            e = outs[0].creator
            produced.extend(outs)
            text = call('build_step', names, files=files, extra_deps=extra, always_outdated=ao, **cmdkw)
            rep.count('w-emit:build_step outputs=%d' % k)
        named = [n for n in nodes if getattr(n, 'creator', None) or not e.phony]
        for o in outs:
            decl.append((o, set(files) | set(extra) | set(named), text))
        cmdnodes.append((e, [[(n, bool(getattr(n, 'creator', None))) for n in l] for l in line_nodes], extra))

    def includes_for():
        incs = some(hdrs + [p for p in produced if isinstance(p, file_types.HeaderFile)], 0, 2)
        if rng.random() < 0.3:
            incs.append('incdir')            # a plain include DIRECTORY is not a file dependency
        return incs

    def implicit_pch(obj, pch_name, incs, text):
        """pch='name' (a string): the builtin creates the precompiled-header step itself, with the same includes"""
        p = obj.creator.pch
        src = p.creator.file
        decl.append((p, {src} | set(header_objs(incs)), text + '  [its implicit precompiled header]'))
        rep.count('w-emit:pch given by name with includes=%d header objects' % len(header_objs(incs)))
        return p

    for i in range(rng.randint(0, 2)):
        command_like('build_step', i)
    pch = None
    if rng.random() < 0.4:
        try:
            kw = {'source': 'pre.c'} if rng.random() < 0.5 else {}
            incs = includes_for()
            pch = ctx['precompiled_header'](file='pre.h', includes=incs, **kw)
            e = pch.creator
            decl.append((pch, {e.file} | set(header_objs(incs)) | ({e.pch_source} if getattr(e, 'pch_source', None) else set()),
                         call('precompiled_header', file='pre.h', includes=incs, **kw)))
            rep.count('w-emit:pch' + ('+source' if kw else ''))
        except (TypeError, ValueError):
            rep.count('w-emit:pch rejected by the toolchain')
            pch = None
    objs = []
    used_src = []
    for i in range(rng.randint(1, 4)):
        gen_src = [p for p in produced if isinstance(p, file_types.SourceFile) and p not in used_src]
        src = rng.choice(gen_src) if gen_src and rng.random() < 0.3 else ctx['source_file'](rng.choice(['src/', 'src/deep/', '']) + 's%d.c' % i)
        used_src.append(src)
        incs = includes_for()
        extra = some(produced + plain + [ctx['generic_file']('note%d.txt' % i)], 0, 2)
        kw = {'includes': incs, 'extra_deps': extra}
        by_name = False
        if pch is not None and rng.random() < 0.4:
            kw['pch'] = pch
        elif pch is None and rng.random() < 0.3 and not any(d[2].endswith('[its implicit precompiled header]') for d in decl):
            kw['pch'] = 'auto_pre.h'
            by_name = True
        text = call('object_file', file=src, **kw)
        o = ctx['object_file'](file=src, **kw)
        used_pch = implicit_pch(o, 'auto_pre.h', incs, text) if by_name else kw.get('pch')
        decl.append((o, {src} | set(header_objs(incs)) | set(extra) | ({used_pch} if used_pch is not None else set()), text))
        if rng.random() < 0.25:
            # a compile step with a second output (as yacc/bison or Qt generators have): exercised on the real
            # handlers by giving the real edge a second output
            extra_out = file_types.HeaderFile(o.path.stripext('.extra.h'), 'c')
            extra_out.creator = o.creator
            o.creator.output.append(extra_out)
            decl.append((extra_out, decl[-1][1], text + '  [second output]'))
            rep.count('w-emit:compile with 2 outputs')
        objs.append(o)
        produced.append(o)
    libs = []
    fwd = {}
    for i in range(rng.randint(0, 2)):
        fn = rng.choice(['static_library', 'shared_library'])
        files = some(objs, 1, 2)
        ll, extra = some(libs, 0, 1), some(plain, 0, 1)
        nm_ = rng.choice(['', 'lib/', 'lib/nested/']) + 'l%d' % i
        l = ctx[fn](nm_, files=files, libs=ll, extra_deps=extra)
        # archiving does not read the libraries a static library is declared to use: either reading is accepted
        # libraries a static library is declared to use are forwarded to whatever links against it (C14)
        via = set().union(*[fwd.get(x, set()) for x in ll]) if ll else set()
        if fn == 'static_library':
            fwd[l] = set(ll) | via
        decl.append((l, set(files) | set(extra) | (set(ll) if fn == 'shared_library' else set()),
                     call(fn, nm_, files=files, libs=ll, extra_deps=extra), (set(ll) | via) if fn == 'static_library' else via))
        rep.count('w-emit:%s libs=%d' % (fn, len(ll)))
        libs.append(l)
        produced.append(l)
    exes = []
    for i in range(rng.randint(1, 2)):
        files = some(objs, 1, 3)                 # object files are shared between executables
        ll, extra = some(libs, 0, 2), some(produced + [ctx['generic_file']('x%d.txt' % i)], 0, 2)
        nm_ = rng.choice(['', 'bin/', 'bin/deep/']) + 'prog%d' % i
        kw = {}
        implicit_src = None
        if rng.random() < 0.4:
            # sources given by name: the objects are created by the builtin, with the includes / pch of the executable
            implicit_src = ctx['source_file']('m%d.c' % i)
            kw['includes'] = includes_for()
            if pch is None and rng.random() < 0.5 and not any(d[2].endswith('[its implicit precompiled header]') for d in decl):
                kw['pch'] = 'auto_pre.h'
        text = call('executable', nm_, files=files + ([implicit_src] if implicit_src else []), libs=ll, extra_deps=extra, **kw)
        x = ctx['executable'](nm_, files=files + ([implicit_src] if implicit_src else []), libs=ll, extra_deps=extra, **kw)
        allobjs = list(x.creator.files)
        if implicit_src:
            io = [o for o in allobjs if o not in files][0]
            p = implicit_pch(io, 'auto_pre.h', kw['includes'], text) if 'pch' in kw else None
            decl.append((io, {implicit_src} | set(header_objs(kw['includes'])) | ({p} if p is not None else set()),
                         text + '  [its implicit object]'))
            produced.append(io)
        decl.append((x, set(allobjs) | set(ll) | set(extra), text, set().union(*[fwd.get(y, set()) for y in ll]) if ll else set()))
        exes.append(x)
        produced.append(x)
    shared = [o for o in objs if sum(1 for x in exes if o in x.creator.files) > 1]
    if shared:
        rep.count('w-emit:object shared by two executables')
    for i in range(rng.randint(0, 2)):
        command_like('command', i)
    copies = []
    for i in range(rng.randint(0, 2)):
        src, extra = rng.choice(plain + produced[:1]), some(plain + produced[-1:], 0, 1)
        nm_ = rng.choice(['', 'out/', 'out/a/b/']) + 'copy%d.txt' % i
        # every mode: a symbolic or hard link consumes the file it is made from exactly as a copy does
        mode = rng.choice(['copy', 'symlink', 'hardlink'])
        c = ctx['copy_file'](nm_, src, extra_deps=extra, mode=mode)
        rep.count('w-emit:copy_file mode=' + mode)
        decl.append((c, {src} | set(extra), call('copy_file', nm_, src, extra_deps=extra, mode=mode)))
        copies.append(c)
        produced.append(c)
    if rng.random() < 0.7:
        members = some(exes + copies + libs, 0, 3)
        a = ctx['alias']('both', members)
        decl.append((a, set(members), call('alias', 'both', members)))
    tests_decl = []
    if rng.random() < 0.6:
        for x in some(exes, 1, 2):
            args = some(copies + plain, 0, 2)
            t = ctx['test']([x] + args)
            tests_decl.append((t, [x] + args))
        if rng.random() < 0.5:
            ctx['test_deps'](*some(copies + libs + exes, 1, 2))
    if rng.random() < 0.4:
        ctx['default'](*some(exes + copies, 1, 2))
    if rng.random() < 0.5:
        ctx['install'](*some(exes, 1, 1))
    return cmdnodes, tests_decl, decl


def stage_w_emit(rep, rng, n, tag='W:emit'):
    """Run the REAL rule handlers (make_compile, make_link, make_command, make_copy_file, make_alias, their Ninja twins
    and the all / tests / install hooks) on real Edge objects created by the real builtins in an in-process build
    context, and compare the Rule / Build tuples they register with Graph/Emit.v on the attribute dump of each edge.
    Also, independent of the model: (C03) the prerequisites Make is given equal the consumption declared on the edge,
    (C06) Make and Ninja are given the same prerequisite sets and the same targets. Returns (disagreements, failures)."""
    from . import c14
    from bfg9000 import builtins as B
    B.init()
    from bfg9000.builtins import default as bdefault, tests as btests, install as binstall
    from bfg9000.backends.make import writer as make
    from bfg9000.backends.ninja import writer as ninja
    import logging
    # the variant of multitarget_rule: probed on the tree under test (this stage is also called by harness/c06.py)
    repaired = stamp_variant(rep)
    fx = model_variant(rep)
    rep.count('w-emit:multitarget_rule of the tree under test %s the no-op recipe; model run with fx=%s' % (
        'registers' if repaired else 'does not register', fx))
    logging.disable(logging.WARNING)
    env = c14.make_env((True, True))
    calls, impl, metas = [], [], []
    bad = 0
    rejected_scripts = 0

    def mrules(rs, nm):
        return [[[nm.key(t) for t in r.targets], [nm.key(d) for d in r.deps], [nm.key(o) for o in r.order_only],
                 bool(r.recipe), bool(r.phony)] for r in rs]

    def recipe_kinds(mk, r):
        """The recipe of a real Rule as the ordered list of its lines: 1 = touch $@, 2 = the no-op '@:', 0 = a command
        line of the step itself (consecutive command lines count once).  Rendered by the real Writer.write_shell."""
        from bfg9000.backends.make import syntax as msyn
        if r.recipe is None:
            return []
        lines = [r.recipe] if isinstance(r.recipe, msyn.Entity) else list(r.recipe)
        kinds = []
        for cmd in lines:
            out = mk.writer(io.StringIO())
            out.write_shell(cmd)
            text = out.stream.getvalue().strip()
            k = 1 if re.fullmatch(r'@?touch\s+(["\']?)\$[@]\1', text) else 2 if text == '@:' else 0
            if k == 0 and kinds and kinds[-1] == 0:
                continue
            kinds.append(k)
        return kinds

    def nbuilds(bs, nm):
        return [[[nm.key(o) for o in b.outputs], b.rule == 'phony', [nm.key(i) for i in b.inputs],
                 [nm.key(i) for i in b.implicit], [nm.key(o) for o in b.order_only]] for b in bs]

    for it in range(n):
        build, ctx = c14.make_context(env)
        try:
            cmdnodes, tests_decl, decl = real_script(rng, rep, ctx, build)
        except (ValueError, TypeError) as ex:          # a builtin refused a generated combination: not a comparison
            rep.count('w-emit:script rejected (%s)' % type(ex).__name__)
            rejected_scripts += 1
            continue
        nm = Names()
        mk = make.Makefile('build.bfg', False, gnu=True)
        nj = ninja.NinjaFile('build.bfg')
        bdefault.make_all_rule(build, mk, env)
        bdefault.ninja_all_rule(build, nj, env)
        steps = []
        rejected = False
        for e in build.edges():
            st = abstract_step(e, nm)
            steps.append(st)
            n0, m0 = len(mk._rules), len(nj._builds)
            has = nj.has_build('PHONY')
            try:
                make.rule_handler.run([e], build, mk, env)
                ninja.rule_handler.run([e], build, nj, env)
            except ValueError as ex:
                if 'already exists' not in str(ex):
                    raise
                rep.count('w-emit:script with a duplicate output (rejected by the emitter, C05)')
                rejected = True
                break
            real_m, real_n = mrules(mk._rules[n0:], nm), nbuilds(nj._builds[m0:], nm)
            calls.append(('emit.make_step', [fx, st])); impl.append(real_m); metas.append(nm)
            calls.append(('emit.ninja_step', [has, st])); impl.append([real_n, nj.has_build('PHONY')]); metas.append(nm)
            calls.append(('emit.step_info', [st])); impl.append([True, None]); metas.append(nm)
            # the ORDER of the recipe lines of every rule the step registered (touch $@ after the command lines):
            # Emit.emit_make_recipes with tb = false, the order C03_failed_step_recovers is proved for
            rk = [recipe_kinds(mk, r) for r in mk._rules[n0:]]
            calls.append(('emit.make_recipes', [False, fx, st])); impl.append(rk); metas.append(nm)
            if len(e.output) > 1:
                rep.count('w-emit:recipe order of a multi-output step = %r' % (rk,))
            kind = type(e).__name__
            rep.count('w-emit:' + kind)
            rep.case('emit:%s:%r' % (kind, st), len(e.output) > 1 or bool(e.extra_deps))
            # ---- direct oracles on the real handlers (no model involved)
            want = declared_consumption(e, nm)
            internal = lambda k: k.endswith('.stamp') or k.endswith('/.dir') or k == 'builddir:PHONY'
            for o in e.output:
                ko = nm.key(o)
                r = [x for x in real_m if ko in x[0]]
                got_m = set(r[0][1]) if r else None
                if got_m is not None and len(got_m) == 1 and next(iter(got_m)).endswith('.stamp'):
                    r2 = [x for x in real_m if next(iter(got_m)) in x[0]]
                    got_m = set(r2[0][1]) if r2 else None
                b = [x for x in real_n if ko in x[0]]
                got_n = set(b[0][2] + b[0][3]) if b else None
                if b and b[0][1] and kind != 'Alias' and len(b[0][2]) == 1:      # phony alias of a compile step
                    b2 = [x for x in real_n if b[0][2][0] in x[0] and not x[1]]
                    got_n = set(b2[0][2] + b2[0][3]) if b2 else got_n
                got_n = None if got_n is None else set(k for k in got_n if not internal(k))
                if got_m != want:
                    bad += rep.fail('Make rule of %s (%s): prerequisites %r, the step consumes %r' % (ko, kind, sorted(got_m or []), sorted(want)),
                                    {'kind': 'handler-deps-make', 'edge': kind, 'output': ko, 'make': sorted(got_m or []),
                                     'declared': sorted(want), 'step': st})
                if got_n != want:
                    bad += rep.fail('Ninja edge of %s (%s): inputs %r, the step consumes %r' % (ko, kind, sorted(got_n or []), sorted(want)),
                                    {'kind': 'handler-deps-ninja', 'edge': kind, 'output': ko, 'ninja': sorted(got_n or []),
                                     'declared': sorted(want), 'step': st})
        if rejected:
            continue
        # hooks
        btests.make_test_rule(build, mk, env)
        btests.ninja_test_rule(build, nj, env)
        inst_ok = True
        try:
            binstall.make_install_rule(build, mk, env)
            binstall.ninja_install_rule(build, nj, env)
        except Exception:
            inst_ok = False
            rep.count('w-emit:install hook not runnable')
        names = [nm.id(x) for x in ('all', 'tests', 'test', 'install', 'uninstall')]
        tinputs = []

        def walk(ts):
            for t in ts:
                tinputs.extend(t.inputs)
                walk(getattr(t, 'tests', []))
        tin = build['tests']
        walk(tin.tests)
        has_inst = any(r.targets == ['install'] for r in mk._rules)
        has_uninst = any(r.targets == ['uninstall'] for r in mk._rules)
        script = [steps, names, [nm.id(x) for x in build['defaults'].outputs],
                  [[[nm.id(x) for x in tinputs], [nm.id(x) for x in tin.extra_deps]]] if tin else [],
                  has_inst, has_uninst]
        calls.append(('emit.make', [fx, script])); impl.append(mrules(mk._rules, nm)); metas.append(nm)
        calls.append(('emit.ninja', [script])); impl.append(nbuilds(nj._builds, nm)); metas.append(nm)
        rep.case('emit-script:%r' % (script,), True)
        # ---- direct oracle on the implementation, script level: what the SCRIPT says each step consumes (written down
        # by the generator from the arguments it handed to the builtins) against the prerequisites in both backends
        all_m, all_n = mrules(mk._rules, nm), nbuilds(nj._builds, nm)
        internal = lambda k: k.endswith('.stamp') or k.endswith('/.dir') or k == 'builddir:PHONY'
        script_text = [d[2] for d in decl]
        for d in decl:
            o, want_objs, text = d[0], d[1], d[2]
            want = set(nm.key(x) for x in want_objs)
            optional = set(nm.key(x) for x in d[3]) if len(d) > 3 else set()
            ko = nm.key(o)
            r = [x for x in all_m if ko in x[0]]
            got_m = set(r[0][1]) if r else None
            if got_m is not None and len(got_m) == 1 and next(iter(got_m)).endswith('.stamp'):
                r2 = [x for x in all_m if next(iter(got_m)) in x[0]]
                got_m = set(r2[0][1]) if r2 else None
            b = [x for x in all_n if ko in x[0]]
            got_n = set(b[0][2] + b[0][3]) if b else None
            if b and b[0][1] and not text.startswith('alias(') and len(b[0][2]) == 1:
                b2 = [x for x in all_n if b[0][2][0] in x[0] and not x[1]]
                got_n = set(b2[0][2] + b2[0][3]) if b2 else got_n
            got_n = None if got_n is None else set(k for k in got_n if not internal(k))
            rep.case('script-deps:%s:%r' % (text, sorted(want)), bool(want))
            for backend, got in (('make', got_m), ('ninja', got_n)):
                if got is None or not (want <= got <= want | optional):
                    missing = sorted(want - (got or set()))
                    extra_ = sorted((got or set()) - want - optional)
                    bad += rep.fail('%s: the rule producing %s does not depend on exactly what the script says the step consumes: missing %r, '
                                    'unexpected %r; step: %s' % (backend, ko, missing, extra_, text),
                                    {'kind': 'script-deps', 'backend': backend, 'output': ko, 'step': text, 'missing': missing,
                                     'unexpected': extra_, 'declared': sorted(want), 'emitted': sorted(got or []), 'script': script_text})
        # model-independent: same buildable targets in both backends
        internal = lambda k: k.endswith('.stamp') or k.endswith('/.dir') or k == 'builddir:PHONY'
        tm = set(k for r in mrules(mk._rules, nm) for k in r[0] if not internal(k))
        tn = set(k for b in nbuilds(nj._builds, nm) for k in b[0] if not internal(k))
        if tm != tn:
            bad += rep.fail('buildable targets differ between the Make and Ninja handlers: only make %r, only ninja %r' % (
                sorted(tm - tn), sorted(tn - tm)), {'kind': 'handler-targets', 'only_make': sorted(tm - tn), 'only_ninja': sorted(tn - tm)})
        # BaseCommand.__init__ / Test.__init__: which command-line nodes become dependencies
        for e, lines_, extra in cmdnodes:
            if len(lines_) == 1:
                calls.append(('emit.command_extra_deps', [bool(e.phony), [[nm.id(x), c] for x, c in lines_[0]], [nm.id(x) for x in extra]]))
            else:
                calls.append(('emit.command_lines_extra_deps', [bool(e.phony), [[[nm.id(x), c] for x, c in l] for l in lines_],
                                                                [nm.id(x) for x in extra]]))
            impl.append([nm.key(x) for x in e.extra_deps]); metas.append(nm)
            rep.count('w-emit:cmd nodes phony=%s lines=%d' % (bool(e.phony), len(lines_)))
        for t, cmd in tests_decl:
            calls.append(('emit.test_inputs', [[[nm.id(x), bool(getattr(x, 'creator', None))] for x in cmd]]))
            impl.append([nm.key(x) for x in t.inputs]); metas.append(nm)
    logging.disable(logging.NOTSET)
    if rejected_scripts * 2 > n:
        rep.fail('W:emit - %d of %d generated scripts were refused by the builtins: the comparison did not run' % (rejected_scripts, n),
                 {'obligation': 'W:emit'}, found_input=False)

    raw = common.model_batch(calls)
    dis = []

    def dnodes(nm, l):
        return [nm.node(x) for x in l]
    for i, ((name, arg), r, iv) in enumerate(zip(calls, raw, impl)):
        nm = metas[i]
        if name in ('emit.make_step', 'emit.make'):
            mv = None if not r else [[dnodes(nm, x[0]), dnodes(nm, x[1]), dnodes(nm, x[2]), x[3] != 0, x[4] != 0] for x in r[0]]
        elif name == 'emit.ninja_step':
            mv = [[[dnodes(nm, x[0]), x[1] != 0, dnodes(nm, x[2]), dnodes(nm, x[3]), dnodes(nm, x[4])] for x in r[0]], r[1] != 0]
        elif name == 'emit.ninja':
            mv = [[dnodes(nm, x[0]), x[1] != 0, dnodes(nm, x[2]), dnodes(nm, x[3]), dnodes(nm, x[4])] for x in r]
        elif name == 'emit.step_info':
            mv = [r[0] != 0, None]            # the shape guard of the theorems holds for every real edge
        elif name == 'emit.make_recipes':
            mv = None if not r else [list(x) for x in r[0]]
        else:
            mv = [nm.node([0, x]) for x in r]
        if mv != iv:
            dis.append((i, (name, arg), iv, mv))
    nvm, ok, detail = common.vm_crosscheck(calls, raw, limit=40)
    rep.stage(tag + '(real rule handlers)', cases=len(calls), disagreements=len(dis), handler_oracle_failures=bad,
              vm_compute_rechecked=nvm, vm_agrees=ok)
    if not ok:
        rep.fail('extraction glue: ' + detail, {'obligation': 'vm_compute == extracted model', 'detail': detail}, found_input=False)
    if dis:
        i, call, iv, mv = dis[0]
        rep.sample({'stage': tag, 'call': call, 'impl': iv, 'model': mv})
    return dis, bad


# ----------------------------------------------------------------------------- R: StampSem.dmake vs real make
XSTAMP_SH = '''#!/bin/sh
# xstamp.sh lag phony target also... : log the target; the also-files get the clock value n, the target itself (unless
# phony) n+lag - touch $@ is the last line of a stamp recipe -; the clock becomes n+lag+1
n=$(cat ctr)
lag=$1
phony=$2
t=$3
shift 3
echo "$t" >> log
for f in "$@"; do touch -d "@$n" "$f"; done
if [ "$phony" = 0 ]; then touch -d "@$((n+lag))" "$t"; fi
echo $((n+lag+1)) > ctr
'''
XLINE_SH = '''#!/bin/sh
# xline.sh kind last lag phony target also... : ONE line of a recipe given as a list of command lines (Graph/StampFail.v)
#   kind 0 = the step's own command: fails (exit 1, writes nothing, noted in attempts) when the target is listed in $XFAIL;
#            otherwise writes its outputs (the also-files; the target itself when there are none) with the clock value n
#            and logs the target;  kind 1 = touch $@ (clock value n);  kind 2 = the no-op
#   the clock advances by lag between two lines, and by 1 after a last line that is not the no-op
kind=$1; last=$2; lag=$3; phony=$4; t=$5
shift 5
n=$(cat ctr)
case $kind in
  0) case " $XFAIL " in *" $t "*) echo "$t" >> attempts; exit 1;; esac
     if [ "$phony" = 0 ] && [ $# = 0 ]; then touch -d "@$n" "$t"; fi
     for f in "$@"; do touch -d "@$n" "$f"; done
     echo "$t" >> log ;;
  1) if [ "$phony" = 0 ]; then touch -d "@$n" "$t"; fi ;;
  2) : ;;
esac
if [ "$last" = 1 ]; then
  if [ "$kind" != 2 ]; then echo $((n+1)) > ctr; fi
else
  echo $((n+lag)) > ctr
fi
'''
R_NONE, R_REAL, R_NOOP = 0, 1, 2
C_STEP, C_TOUCH, C_NOOP = 0, 1, 2
TRACE_RE = re.compile(r"^Makefile:\d+: (?:update target 'f(\d+)' due to: .*|target 'f(\d+)' does not exist)$")


def gen_stamp_graph(rng, rep):
    """Stamp-shaped rule graphs as multitarget_rule writes them, with consumers:
    [target, prereqs, order, recipe (0 none / 1 real / 2 the no-op '@:'), phony, also, lag]; the outs rules of one graph have
    no recipe (as first written) or the no-op recipe (repaired), the stamp is written lag (0 / 1) ticks after the outputs."""
    ni = rng.randint(1, 2)
    inputs = list(range(1, ni + 1))
    k = rng.choice([2, 2, 3])
    outs = list(range(10, 10 + k))
    stamp = 19
    okind = rng.choice([R_NONE, R_NOOP])
    lag = rng.choice([0, 1])
    rep.count('stampsem:outs rule %s, stamp touched %d tick(s) after the outputs' % (
        'without recipe' if okind == R_NONE else 'with the no-op recipe', lag))
    rules = [[o, [stamp], [], okind, False, [], 0] for o in outs]
    rules.append([stamp, rng.sample(inputs, rng.randint(1, ni)), [], R_REAL, False, outs, lag])
    mids = []
    if rng.random() < 0.4:           # an ordinary single-output step next to it
        rules.append([30, rng.sample(inputs + outs, rng.randint(1, 2)), [], R_REAL, False, [], 0])
        mids.append(30)
    cons = []
    for c in range(20, 20 + rng.randint(1, 3)):
        pool = outs + mids + inputs
        prs = rng.sample(pool, rng.randint(1, min(3, len(pool))))
        if not set(prs) & set(outs) and rng.random() < 0.8:
            prs.append(rng.choice(outs))
        rules.append([c, prs, [], R_REAL, False, [], 0])
        cons.append(c)
    if rng.random() < 0.4:
        rules.append([40, rng.sample(cons, rng.randint(1, len(cons))), [], R_REAL, False, [], 0])
        cons.append(40)
    goals = rng.sample(cons + mids + outs, rng.randint(1, len(cons) + 1))
    if rng.random() < 0.5:
        goals = sorted(set(goals) | set(cons))
        if rng.random() < 0.5:
            goals.reverse()
    rng.shuffle(rules)
    ops = [[0, 0], [0, 0]]
    for _ in range(rng.randint(1, 3)):
        r = rng.random()
        if r < 0.6:
            ops.append([1, rng.choice(inputs)]); rep.count('stampsem:touch input')
        elif r < 0.75:
            ops.append([1, rng.choice(outs)]); rep.count('stampsem:touch output')
        elif r < 0.9:
            ops.append([2, rng.choice(outs)]); rep.count('stampsem:delete one output')
        else:
            ops.append([2, stamp]); rep.count('stampsem:delete stamp')
        ops.append([0, 0])
        if rng.random() < 0.7:
            ops.append([0, 0])
    return rules, goals, [[i, 100 + 2 * i] for i in inputs], ops


def gen_abstract_script(rng, rep):
    """A small well-formed abstract script (wire format of abstract_step): compile / link / command / build_step steps with
    1-3 outputs in 1-3 directories and copy_file, every consumed file a source or an output of an earlier step."""
    nsrc = rng.randint(1, 3)
    avail = list(range(1, nsrc + 1))
    nxt = 10
    steps = []
    if rng.random() < 0.5:
        # the shape of the finding: a 2-3-output build_step from sources, then 1-3 single-output consumers (build_step /
        # copy_file) of its outputs, of sources and of earlier consumers; at least one consumes an output of the first step
        k = rng.choice([2, 2, 3])
        multi_outs = list(range(nxt, nxt + k))
        steps.append([3, [[o, 0] for o in multi_outs], [], [], [], [], [], [], rng.sample(avail, rng.randint(1, nsrc)), [], [], [], False, False])
        nxt += k
        avail += multi_outs
        for c in range(rng.randint(1, 3)):
            ins = rng.sample(avail, rng.randint(1, min(2, len(avail))))
            if c == 0 and not set(ins) & set(multi_outs):
                ins[0] = rng.choice(multi_outs)
            if rng.random() < 0.5:
                steps.append([3, [[nxt, 0]], [], [], [], [], [], [], ins, [], [], [], False, False])
            else:
                steps.append([4, [[nxt, 0]], [ins[0]], [], [], [], [], [], [], [], [], ins[1:], False, False])
            avail.append(nxt)
            nxt += 1
        rep.count('stampsem-x:script = %d-output build_step + %d consumers' % (k, len(steps) - 1))
        return steps, True
    for _ in range(rng.randint(2, 5)):
        kind = rng.choice([0, 1, 2, 3, 3, 4])
        k = 1 if kind == 4 else rng.choice([1, 2, 2, 3])
        dirs = [0] * k if kind == 2 else [rng.choice([0, 0, 1, 2]) for _ in range(k)]
        outs = [[nxt + j, dirs[j]] for j in range(k)]
        nxt += k
        pick = lambda lo, hi: rng.sample(avail, min(len(avail), rng.randint(lo, hi)))
        st = [kind, outs, [], [], [], [], [], [], [], [], [], [], False, False]
        if kind == 0:
            st[2], st[5], st[11] = [rng.choice(avail)], pick(0, 2), pick(0, 1)
        elif kind == 1:
            st[8], st[6], st[11] = pick(1, 2), pick(0, 1), pick(0, 1)
        elif kind in (2, 3):
            st[8], st[11] = pick(1, 2), pick(0, 1)
        else:
            st[2], st[11] = [rng.choice(avail)], pick(0, 1)
        steps.append(st)
        avail += [o[0] for o in outs]
        rep.count('stampsem-x:step kind=%d outputs=%d' % (kind, k))
    return steps, False


def session_ops(rng, rep, sources, outs, stamps):
    ops = [[0, 0], [0, 0]]
    for _ in range(rng.randint(1, 3)):
        r = rng.random()
        if r < 0.6 or not outs:
            ops.append([1, rng.choice(sources)]); rep.count('stampsem-x:touch source')
        elif r < 0.75:
            ops.append([1, rng.choice(outs)]); rep.count('stampsem-x:touch output')
        elif r < 0.9 or not stamps:
            ops.append([2, rng.choice(outs)]); rep.count('stampsem-x:delete one output')
        else:
            ops.append([2, rng.choice(stamps)]); rep.count('stampsem-x:delete stamp')
        ops.append([0, 0])
        if rng.random() < 0.7:
            ops.append([0, 0])
    return ops


def real_make_session(d, rules, goals, fs0, clk, ops, recipes=None):
    """The session in the real GNU Make: per make [targets whose real recipe ran (written by the recipe itself), targets
    whose no-op recipe '@:' ran (make --trace announces every target it is about to run the recipe of), failed].
    With recipes = {target: [command line kinds]} every recipe is written as that list of lines (one xline.sh call per
    line, C_STEP / C_TOUCH / C_NOOP), and op [3, t] is a make in which the own command of rule t fails (exit status 1,
    nothing written): per make [targets whose own command ran and succeeded, targets whose recipe ran and has no own
    command, make exited with an error]."""
    sub = os.path.join(d, 'g')
    shutil.rmtree(sub, ignore_errors=True)
    os.makedirs(sub)
    with open(os.path.join(sub, 'xstamp.sh'), 'w') as f:
        f.write(XSTAMP_SH)
    with open(os.path.join(sub, 'xline.sh'), 'w') as f:
        f.write(XLINE_SH)
    mk = ['all:' + ''.join(' f%d' % g for g in goals)]
    noop, realr = set(), set()
    for t, prs, oo, recipe, phony, also, lag in rules:
        mk.append('f%d:%s%s' % (t, ''.join(' f%d' % p for p in prs), (' |' + ''.join(' f%d' % p for p in oo)) if oo else ''))
        if recipes is not None:
            cs = recipes.get(t, [])
            for i, k in enumerate(cs):
                if cs == [C_NOOP]:
                    mk.append('\t@:')          # the line multitarget_rule writes
                    continue
                mk.append('\t@sh xline.sh %d %d %d %d $@%s' % (k, 1 if i == len(cs) - 1 else 0, lag, 1 if phony else 0,
                                                              ''.join(' f%d' % a for a in also)))
            if C_STEP in cs:
                realr.add(t)
            elif cs:
                noop.add(t)
        elif recipe == R_REAL:
            mk.append('\t@sh xstamp.sh %d %d $@%s' % (lag, 1 if phony else 0, ''.join(' f%d' % a for a in also)))
            realr.add(t)
        elif recipe == R_NOOP:
            mk.append('\t@:')
            noop.add(t)
        if phony:
            mk.append('.PHONY: f%d' % t)
    with open(os.path.join(sub, 'Makefile'), 'w') as f:
        f.write('\n'.join(mk) + '\n')
    for x, t in fs0:
        p = os.path.join(sub, 'f%d' % x)
        open(p, 'w').close()
        os.utime(p, (t, t))
    with open(os.path.join(sub, 'ctr'), 'w') as f:
        f.write('%d\n' % clk)
    res = []
    for op, x in ops:
        if op in (0, 3):
            open(os.path.join(sub, 'log'), 'w').close()
            open(os.path.join(sub, 'attempts'), 'w').close()
            env = common.impl_env()
            env['XFAIL'] = ('f%d' % x) if op == 3 else ''
            p = subprocess.run(['make', '-rR', '--trace'], cwd=sub, capture_output=True, text=True, timeout=60, env=env)
            log = [int(w[1:]) for w in open(os.path.join(sub, 'log')).read().split()]
            attempts = [int(w[1:]) for w in open(os.path.join(sub, 'attempts')).read().split()]
            announced = [int(m.group(1) or m.group(2)) for m in map(TRACE_RE.match, p.stdout.split('\n')) if m]
            if (recipes is not None and len(attempts) > 1) or bool(attempts) != (p.returncode != 0 and 'Error 1' in p.stderr) \
                    and recipes is not None:
                # GNU Make without -k: exactly one recipe fails, and then make exits with an error
                raise RuntimeError('make ran on after a failed recipe, or failed for another reason: failed commands %r, status %d\n%s' % (
                    attempts, p.returncode, (p.stdout + p.stderr)[-1500:]))
            if recipes is not None and attempts and announced[-1:] != attempts:
                raise RuntimeError('make announced further recipes after the failing one: %r, failed %r' % (announced, attempts))
            if [t for t in announced if t in realr] != log + ([] if recipes is None else [a for a in attempts if a not in log]):
                # the two observation channels must tell the same story about the real recipes
                raise RuntimeError('make --trace announces the recipes of %r, the recipes themselves logged %r\n%s' % (
                    announced, log, p.stdout[-1500:]))
            res.append([log, [t for t in announced if t in noop], p.returncode != 0])
        elif op == 1:
            n = int(open(os.path.join(sub, 'ctr')).read())
            p = os.path.join(sub, 'f%d' % x)
            open(p, 'a').close()
            os.utime(p, (n, n))
            with open(os.path.join(sub, 'ctr'), 'w') as f:
                f.write('%d\n' % (n + 1))
        else:
            try:
                os.remove(os.path.join(sub, 'f%d' % x))
            except FileNotFoundError:
                pass
    return res


def ex_stamp_rules(kind, lag):
    """StampSem.ex_stamp_rules_v: a 2-output step (outputs 10 11, stamp 12, input 1) and one consumer of each output"""
    return [[10, [12], [], kind, False, [], 0], [11, [12], [], kind, False, [], 0], [12, [1], [], R_REAL, False, [10, 11], lag],
            [20, [10], [], R_REAL, False, [], 0], [21, [11], [], R_REAL, False, [], 0]]


def stage_r_stampsem(rep, rng, n):
    """The depth-first Make model with cached mtimes (Graph/StampSem.v dmake), in which C03_stamp_consumers_refuted and the
    theorems about the repaired shape are stated, against the real GNU Make: (a) generated stamp-shaped graphs of both
    shapes of the outs rule, (b) the walk-semantics rules (EmitStamp.xsem_steps) of random abstract scripts for both
    variants of multitarget_rule.  Per make run the executed real recipes, the executed no-op recipes and the exit
    status are compared."""
    d = common.scratch('c03ss')
    witness_ops = [[0, 0], [0, 0], [1, 1], [0, 0], [0, 0]]
    try:
        calls, real = [], []
        # the witnesses of stamp_consumers_refuted / stamp_consumers_repaired first
        fixed = [(ex_stamp_rules(R_NONE, 0), [20, 21], [[1, 5]], witness_ops),
                 (ex_stamp_rules(R_NOOP, 1), [20, 21], [[1, 5]], witness_ops)]
        for i in range(max(n, len(fixed))):
            rules, goals, fs0, ops = fixed[i] if i < len(fixed) else gen_stamp_graph(rng, rep)
            calls.append(('stamp.session', [rules, goals, fs0, 1000, ops]))
            real.append(real_make_session(d, rules, goals, fs0, 1000, ops))
            rep.case('stampsem:%r' % ([rules, goals, ops],), True)
        # the theorems, as GNU Make sees them
        want0 = [[[12, 20, 21], [], False], [[], [], False], [[12, 21], [], False], [[20], [], False]]
        want1 = [[12, 20, 21], [], [12, 20, 21], []]
        if real[0] != want0 or [r[0] for r in real[1]] != want1 or real[1][1][1] != [10, 11] or any(r[2] for r in real[1]):
            rep.fail('R:stampsem - GNU Make does not behave as stamp_consumers_refuted / stamp_consumers_repaired state: %r / %r' % (
                real[0], real[1]), {'obligation': 'R:stampsem witnesses', 'make': real[:2]}, found_input=False)
        # (b) abstract scripts -> emit.xsem -> the same session in model and make
        xcalls, focused = [], []
        for i in range(n // 2):
            fxv, lag = rng.random() < 0.5, rng.choice([0, 1])
            steps, foc = gen_abstract_script(rng, rep)
            xcalls.append(('emit.xsem', [fxv, lag, steps]))
            focused.append(foc)
            rep.count('stampsem-x:fx=%s lag=%d' % (fxv, lag))
        xraw = common.model_batch(xcalls)
        for (name, arg), r, foc in zip(xcalls, xraw, focused):
            xrules, goals = r
            if not xrules:
                rep.count('stampsem-x:no rules')
                continue
            targets = set(x[0] for x in xrules)
            sources = sorted(set(p for x in xrules for p in x[1] + x[2]) - targets)
            stamps = [x[0] for x in xrules if x[5]]
            outs_ = sorted(targets - set(stamps))
            fs0 = [[s, 100 + 2 * j] for j, s in enumerate(sources)]
            if foc and rng.random() < 0.6:
                # the session of the theorems: build, build, touch a source, build, build
                ops = [[0, 0], [0, 0], [1, rng.choice(sources)], [0, 0], [0, 0]]
                rep.count('stampsem-x:session make make touch-source make make')
            else:
                ops = session_ops(rng, rep, sources, outs_, stamps)
            calls.append(('stamp.session', [xrules, goals, fs0, 1000, ops]))
            real.append(real_make_session(d, xrules, goals, fs0, 1000, ops))
            rep.case('stampsem-x:%r' % ([arg, ops],), True)
        # (c) FAILING recipes (Graph/StampFail.v fmake): recipes as lists of command lines, a make in which one step's own
        # command fails (GNU Make without -k), then makes in which nothing fails - for single-output rules and for
        # both orders of the stamp recipe ([command; touch $@] as emitted, [touch $@; command] the refuted one)
        frules = [(ex_stamp_rules(R_NOOP, 1), [20, 21], [[1, 5]], [[0, 0], [1, 1], [3, 12], [0, 0], [0, 0]], False),
                  (ex_stamp_rules(R_NOOP, 1), [20, 21], [[1, 5]], [[0, 0], [1, 1], [3, 12], [0, 0], [0, 0]], True),
                  (ex_stamp_rules(R_NOOP, 1), [20, 21], [[1, 5]], [[0, 0], [1, 1], [3, 20], [0, 0], [0, 0]], False)]
        for i in range(n // 2):
            rules, goals, fs0, _ = gen_stamp_graph(rng, rep)
            frules.append((rules, goals, fs0, None, rng.random() < 0.4))
        for (name, arg), r, foc in zip(xcalls, xraw, focused):
            xrules, goals = r
            if xrules:
                targets = set(x[0] for x in xrules)
                sources = sorted(set(p for x in xrules for p in x[1] + x[2]) - targets)
                frules.append(([list(x) for x in xrules], list(goals), [[s, 100 + 2 * j] for j, s in enumerate(sources)], None,
                               rng.random() < 0.3))
        craw = common.model_batch([('stamp.cmds_of', [tb, rules]) for rules, _, _, _, tb in frules])
        nfail = 0
        for (rules, goals, fs0, ops, tb), cs in zip(frules, craw):
            recipes = {x[0]: list(c) for x, c in zip(rules, cs)}
            steps_ = [t for t, c in recipes.items() if C_STEP in c]
            targets = set(x[0] for x in rules)
            sources = sorted(set(p for x in rules for p in x[1] + x[2]) - targets)
            if ops is None:
                ops = [[0, 0]]
                for _ in range(rng.randint(1, 2)):
                    ops.append([1, rng.choice(sources)])
                    ops.append([3, rng.choice(steps_)])
                    ops.append([0, 0])
                    if rng.random() < 0.6:
                        ops.append([0, 0])
            shape = 'single-output rules only' if not any(x[5] for x in rules) else \
                'stamp recipe [touch; command]' if tb else 'stamp recipe [command; touch]'
            rep.count('stampsem-f:failing-step session, %s' % shape)
            also_of = {x[0]: x[5] for x in rules}
            for op_, t_ in ops:
                if op_ == 3:
                    rep.count('stampsem-f:the failing step is %s' % ('a stamp rule' if also_of.get(t_) else 'a single-output rule'))
            calls.append(('stamp.fsession', [rules, goals, fs0, 1000, ops, [[t, c] for t, c in sorted(recipes.items())]]))
            real.append(real_make_session(d, rules, goals, fs0, 1000, ops, recipes=recipes))
            nfail += sum(1 for r_ in real[-1] if r_[2])
            rep.case('stampsem-f:%r' % ([rules, goals, ops, tb],), True)
        rep.count('stampsem-f:makes that stopped at a failing step = %d' % nfail)
        nf0 = len(calls) - len(frules)
        # the theorems as GNU Make sees them: command first - the failed step and everything after it re-run in the next
        # make; touch first - the next make does nothing and reports success (C03_touch_before_command_refuted)
        wantf = [[[12, 20, 21], False], [[], True], [[12, 20, 21], False], [[], False]]
        wantt = [[[12, 20, 21], False], [[], True], [[], False], [[], False]]
        wantm = [[[12, 20, 21], False], [[12], True], [[20, 21], False], [[], False]]
        gotw = [[[r_[0], r_[2]] for r_ in real[nf0 + j]] for j in range(3)]
        if gotw != [wantf, wantt, wantm]:
            rep.fail('R:stampsem - GNU Make does not behave as C03_failed_step_recovers / C03_touch_before_command_refuted state on '
                     'the witness rules: %r' % (gotw,), {'obligation': 'R:stampsem failing-step witnesses', 'make': gotw}, found_input=False)
        rep.sample({'stage': 'R:stampsem', 'rules [target, prereqs, order, recipe 0 none/1 real/2 no-op, phony, also, lag]': calls[1][1][0],
                    'goals': calls[1][1][1], 'ops': calls[1][1][4], 'make [steps run, no-op recipes run, failed]': real[1]})
        raw = common.model_batch(calls)
        dis = []
        for i, ((name, arg), r, iv) in enumerate(zip(calls, raw, real)):
            mv = [[list(x[0]), list(x[1]), x[2] != 0] for x in r]
            if mv != iv:
                dis.append((i, (name, arg), iv, mv))
        nx = min(4, len(xcalls))
        nvm, ok, detail = common.vm_crosscheck(calls[:8] + xcalls[:nx] + calls[-4:], raw[:8] + xraw[:nx] + raw[-4:], limit=16)
        rep.stage('R:stampsem (dmake / fmake vs GNU Make)', cases=len(calls), from_abstract_scripts=len(calls) - len(frules) - max(n, len(fixed)),
                  failing_step_sessions=len(frules), makes_stopped_at_a_failing_step=nfail,
                  disagreements=len(dis), vm_compute_rechecked=nvm, vm_agrees=ok)
        if not ok:
            rep.fail('extraction glue: ' + detail, {'obligation': 'vm_compute == extracted model', 'detail': detail}, found_input=False)
    finally:
        shutil.rmtree(d, ignore_errors=True)
    if dis:
        i, call, iv, mv = dis[0]
        rep.fail('R:stampsem - StampSem.dmake disagrees with GNU Make (%d cases), e.g. rules %r goals %r fs %r ops %r: make %r, model %r' % (
            len(dis), call[1][0], call[1][1], call[1][2], call[1][4], iv, mv),
            {'obligation': 'R:stampsem', 'call': call, 'make': iv, 'model': mv,
             'all': [{'call': c, 'make': a, 'model': b} for _, c, a, b in dis[:10]]}, found_input=False)
    return dis


# ----------------------------------------------------------------------------- system level
def step_id(argv, srcroot):
    """Name the step a recorded tool invocation belongs to."""
    if not argv:
        return None
    for a in argv:
        if a.startswith(srcroot + '/') and a.endswith('.c'):
            return 'compile:' + a[len(srcroot) + 1:]
    for a in argv:
        if a.startswith(srcroot + '/') and a.endswith('.y'):
            return 'generate:' + a[len(srcroot) + 1:]          # a source translated to C first (the yacc stand-in)
    if '-c' in argv[:-1] and argv[argv.index('-c') + 1].endswith('.c'):
        g = argv[argv.index('-c') + 1]
        return 'compile-generated:' + (g[2:] if g.startswith('./') else g)
    if '-o' in argv:
        outs = [argv[i + 1] for i, a in enumerate(argv[:-1]) if a == '-o']
        if outs and outs[0].startswith('out1'):
            return 'build_step'
        return 'link:' + re.sub(r'^(\./)?(lib)?', '', os.path.basename(outs[-1])).replace('.so', '').replace('.a', '')
    if len(argv) > 1 and argv[1].endswith('.a'):
        return 'link:' + os.path.basename(argv[1])[3:-2]
    return 'other:' + ' '.join(argv[:2])


def expected_graph(p):
    """Downstream relation of the generated script: file -> set of step ids that must re-run when it changes."""
    down = {}
    libs_used_by = {}
    for st in p.steps:
        if st['kind'] == 'link' and st.get('libs'):
            for l in st['libs']:
                libs_used_by.setdefault(l, set()).add(st['name'])       # l is the variable name lib<i> == library name
    used = set(libs_used_by)
    # forwarding static libraries (link_options= handed on to whatever links them, possibly through another static library)
    # and their consumers, every one of which is a goal of its own
    fwd = getattr(p, 'fwd_libs', [])
    cons = [st for st in p.steps if st['kind'] == 'link' and 'fwd' in st]
    fvar = {f['var']: k for k, f in enumerate(fwd)}
    for st in p.steps:
        if st['kind'] == 'compile' and st['owner'] in fvar:
            k = fvar[st['owner']]
            users = {'link:' + c['name'] for c in cons if k in projgen.fwd_closure(fwd, c['fwd'])}
            # a static library that lists another one in libs= is archived again when that one changed
            archives = {'link:' + fwd[j]['var'] for j in range(len(fwd)) if k in projgen.fwd_closure(fwd, [j])}
            down[st['source']] = ({'compile:' + st['source']} | archives | users) if users else set()
        elif st['kind'] == 'compile' and st['lib'] and any(c['name'] == st['owner'] for c in cons):
            down[st['source']] = {'compile:' + st['source'], 'link:' + st['owner']}      # a shared-library consumer
    for st in p.steps:
        if st['kind'] == 'compile':
            if st['source'] in down:
                continue
            if st['lib'] and st['owner'] not in used:
                down[st['source']] = set()       # a library nothing links against is not part of the requested targets
                continue
            d = {'compile:' + st['source'], 'link:' + st['owner']}
            if st['lib']:
                for user in libs_used_by.get(st['owner'], ()):
                    d.add('link:' + user)
                if not libs_used_by.get(st['owner']):
                    d = set()        # a library no executable uses is not reachable from the goals make is given
            down[st['source']] = d
    for st in p.steps:
        if st['kind'] == 'generate':
            # the translated source: translator, compiler of what it wrote, link of the program that contains it
            down[st['source']] = {'generate:' + st['source'], 'compile-generated:' + st['outputs'][0], 'link:' + st['owner']}
    down['gen.in'] = {'build_step'}
    return down


def one_project(rep, rng, idx):
    p = projgen.generate(rng, rep, odd_names=(idx % 2 == 1), n_exe=2, n_lib=2)
    bad = 0
    with project.Scratch('c03') as s:
        project.write_tree(s.src, p.tree())
        rc, out = project.configure(s.src, s.build, 'make')
        if rc != 0:
            rep.count('configure_failed')
            rep.sample({'configure_failed': out[-300:]})
            return 0
        targets = ['all', 'everything']
        # every link output, so that steps outside the default set are covered as well
        ntxt = None
        names = []
        for st in p.steps:
            if st['kind'] == 'link' and 'libkind' not in st:
                names.append(st.get('out') or st['name'])      # the goal is the file (a shared library consumer: lib<name>.so)
        rcm, recs, mout = project.make(s.build, targets + names, stub_tools=True)
        if rcm != 0:
            rep.fail('make fails on the generated project: %s' % mout[-300:], {'script': p.script(), 'make_output': mout[-1500:]})
            return 1
        first = set(filter(None, (step_id(r['argv'], s.src) for r in recs)))
        # one producer: no step ran twice in one build
        ids = [step_id(r['argv'], s.src) for r in recs]
        dup = [i for i in set(ids) if i and ids.count(i) > 1 and not i.startswith('other')]
        if dup:
            bad += rep.fail('steps executed more than once in a single build: %r' % dup, {'script': p.script(), 'duplicates': dup})
        rcm, recs, mout = project.make(s.build, targets + names, stub_tools=True)
        again = [step_id(r['argv'], s.src) for r in recs]
        rep.case('noop:%d' % idx, True)
        if rcm != 0 or again:
            bad += rep.fail('a build right after a build is not a no-op: %r' % again, {'script': p.script(), 'executed': again, 'make_output': mout[-800:]})
        exp = expected_graph(p)
        import time
        for f in sorted(exp):
            time.sleep(0.02)          # coarse kernel timestamps: make sure 'now' is after the last product
            os.utime(os.path.join(s.src, f), None)
            rcm, recs, mout = project.make(s.build, targets + names, stub_tools=True)
            ran = set(filter(None, (step_id(r['argv'], s.src) for r in recs)))
            want = set(exp[f])
            # shared libraries: an executable linked against lib.so re-links when the .so was re-created
            rep.case('touch:%d:%s' % (idx, f), bool(want))
            if rcm != 0 or ran != want:
                bad += rep.fail('after touching %r make re-ran %r, the script implies %r' % (f, sorted(ran), sorted(want)),
                                {'script': p.script(), 'touched': f, 'executed': sorted(ran), 'expected': sorted(want), 'make_output': mout[-800:]})
        # default target membership: `make all` on a fresh build dir builds exactly the default set
        rep.sample({'project': idx, 'steps_first_build': sorted(first), 'touched': sorted(exp)})
    rep.traces += 1
    return bad


def default_membership(rep, rng, idx):
    """`make all` from scratch builds exactly what default()/fallback says; alias/test targets depend on members."""
    bad = 0
    with project.Scratch('c03d') as s:
        # every other project: the tested program is ALSO an explicit default (test() removes it from the implicit defaults only)
        explicit = [['b', 'c'], None, ['c'], None][idx % 4] or (['b'] if rng.random() < 0.5 else [])
        tested = True if idx % 2 == 0 else rng.random() < 0.7
        lines = ["project('d')", "a = executable('a', files=['a.c'])", "b = executable('b', files=['b.c'])",
                 "c = executable('c', files=['c.c'])"]
        if explicit:
            lines.append("default(%s)" % ', '.join(explicit))
        if tested:
            lines.append("test(c)")
        rep.count('default-membership:default(%s)%s' % (', '.join(explicit), ' test(c)' if tested else ''))
        lines.append("alias('both', [a, c])")
        files = {n + '.c': 'int main(void){return 0;}\n' for n in 'abc'}
        files['build.bfg'] = '\n'.join(lines) + '\n'
        project.write_tree(s.src, files)
        for backend in ('make', 'ninja'):
            bdir = s.build + backend
            rc, out = project.configure(s.src, bdir, backend)
            if rc != 0:
                rep.fail('configure failed for the default-membership project: %s' % out[-300:], {'script': files['build.bfg']})
                return 1
            want = set(explicit) if explicit else ({'a', 'b'} if tested else {'a', 'b', 'c'})
            if backend == 'make':
                rcm, recs, mout = project.make(bdir, ['all'], stub_tools=True)
                got = set(x[5:] for x in filter(None, (step_id(r['argv'], s.src) for r in recs)) if x.startswith('link:'))
                rcm, recs, mout = project.make(bdir, ['both'], stub_tools=True)
                got_alias = got | set(x[5:] for x in filter(None, (step_id(r['argv'], s.src) for r in recs)) if x.startswith('link:'))
                alias_ok = {'a', 'c'} <= got_alias
            else:
                m = ninjaparse.parse(project.read(bdir, 'build.ninja'))
                got = set(m.edge_for('all')['inputs'])
                alias_ok = set(m.edge_for('both')['inputs']) == {'a', 'c'}
                if tested:
                    te = m.edge_for('tests')
                    if te is None or 'c' not in te['inputs'] + te['implicit']:
                        bad += rep.fail('ninja: the tests target does not depend on the tested executable', {'script': files['build.bfg']})
            rep.case('default:%s:%s:%s' % (backend, explicit, tested), True)
            if got != want or not alias_ok:
                bad += rep.fail('%s: default target builds %r, the script implies %r (alias ok: %s)' % (backend, sorted(got), sorted(want), alias_ok),
                                {'script': files['build.bfg'], 'built': sorted(got), 'expected': sorted(want)})
    return bad


# ----------------------------------------------------------------------------- system level: dependency-shape projects
def _mtimes(build, outs):
    """What tells that an output was (re-)created: the time stamp of the directory entry itself (lstat: a symbolic link
    that was made again) paired with the time stamp of the file it denotes (stat, which is what Make looks at: a link
    whose file behind it was made again).  For anything but a symbolic link the two are the same number."""
    r = {}
    for o in outs:
        try:
            r[o] = (os.lstat(os.path.join(build, o)).st_mtime_ns, os.stat(os.path.join(build, o)).st_mtime_ns)
        except OSError:
            r[o] = None
    return r


def stamp_scenario_script():
    rec = shtools.ARGVREC
    return '\n'.join([
        "project('stamp')",
        "bs = build_step(['out1.txt', 'out2.txt'], cmd=[%r, '-o', 'out1.txt', '-o', 'out2.txt', 'gen'], files=['gen.in'])" % rec,
        "c1 = build_step('c1.txt', cmd=[%r, '-o', 'c1.txt', 'use'], files=[bs[0]])" % rec,      # consumes out1.txt through files=
        "c2 = build_step('c2.txt', cmd=[%r, '-o', 'c2.txt', 'use', bs[1]])" % rec,             # out2.txt named in the command line
        "default(c1, c2)"]) + '\n'


def stamp_scenario(rep):
    """The repro of finding C03-make-stamp-consumer-stale as a real project, always run: a 2-output build_step from gen.in
    and one consumer step per output; configured by the real bfg9000 of the tree under test (Make backend), real GNU Make:
      make             -> all four files exist
      make             -> nothing re-created
      touch gen.in; make -> the 2-output step AND both consumers re-created
      make             -> nothing re-created.
    A deviation is a failing input; it belongs to the class of the known finding only when it is exactly 'a consumer of
    an output of the 2-output step was left stale by the make that re-ran the step' / 'that consumer was rebuilt by the
    later make in which nothing was touched'."""
    import time
    script = stamp_scenario_script()
    files = ['out1.txt', 'out2.txt', 'c1.txt', 'c2.txt']
    consumers = {'c1.txt', 'c2.txt'}
    bad = 0
    rep.case('stamp-scenario', True)
    with project.Scratch('c03s') as s:
        project.write_tree(s.src, {'build.bfg': script, 'gen.in': 'data\n'})
        rc, out = project.configure(s.src, s.build, 'make')
        if rc != 0:
            return rep.fail('configure fails on the 2-output build_step scenario: %s' % out[-400:],
                            {'kind': 'stamp-scenario', 'script': script, 'output': out[-1500:]})
        makefile = project.read(s.build, 'Makefile') or ''
        mlines = makefile.split('\n')
        rule_text = [x for i, l in enumerate(mlines) if l.startswith('out1.txt ') and ':' in l
                     for x in [l] + [r for r in mlines[i + 1:i + 2] if r.startswith('\t')]]

        def step(label, touch=None):
            time.sleep(0.02)          # coarse kernel timestamps: 'now' is after the last product
            if touch:
                os.utime(os.path.join(s.src, touch), None)
            before = _mtimes(s.build, files)
            rcm, recs, mout = project.make(s.build, ['all'], stub_tools=True)
            after = _mtimes(s.build, files)
            return rcm, set(f for f in files if after[f] != before[f]), set(f for f in files if after[f] is None), mout

        def report(label, touched, got, want, mout, classes=()):
            return rep.fail('2-output build_step with one consumer per output, %s: make re-created %r, the script implies %r' % (
                label, sorted(got), sorted(want)),
                {'kind': 'stamp-scenario', 'script': script, 'step': label, 'touched': touched, 'recreated': sorted(got),
                 'expected': sorted(want), 'not_rebuilt': sorted(want - got), 'makefile_rules': rule_text,
                 'make_output': mout[-800:]}, classes=classes)

        rcm, got, missing, mout = step('first build')
        if rcm != 0 or missing or got != set(files):
            return report('first build (rc %d, missing %r)' % (rcm, sorted(missing)), None, got, set(files), mout)
        rcm, got, missing, mout = step('second build')
        if rcm != 0 or got:
            bad += report('a build right after the first build (rc %d)' % rcm, None, got, set(), mout)
        rcm, got, missing, mout = step('touch', 'gen.in')
        stale = set(files) - got
        if rcm != 0 or got != set(files):
            only_stale_consumers = rcm == 0 and 'out1.txt' in got and 'out2.txt' in got and stale <= consumers
            bad += report('after touching gen.in (rc %d)' % rcm, 'src:gen.in', got, set(files), mout,
                          classes=(STAMP_CLASS,) if only_stale_consumers else ())
            if only_stale_consumers:
                rep.count('stamp-scenario:consumer left stale by the make that re-ran the step')
        rcm, got, missing, mout = step('build after the rebuild')
        if rcm != 0 or got:
            repaired_late = bool(rcm == 0 and got and got == stale and stale <= consumers)
            bad += report('a build right after the rebuild, nothing touched (rc %d)' % rcm, None, got, set(), mout,
                          classes=(STAMP_CLASS,) if repaired_late else ())
            if repaired_late:
                rep.count('stamp-scenario:stale consumer rebuilt by the later make')
        rep.sample({'stamp scenario': 'ran', 'rules of the outputs in the Makefile': rule_text, 'deviations': bad})
    rep.traces += 1
    return bad


def graph_project(rep, rng, idx):
    """projgen.generate_graph: configure (Make), full build, no-op build, then touch every source / generated input and
    compare the set of steps whose primary output was re-created with the downstream set of the declared DAG; Ninja: the
    edge graph read by the reference evaluator, its downstream closure compared with the same expectation."""
    import time
    p = projgen.generate_graph(rng, rep)
    G = p.graph
    bad = 0
    prim = [st['out'] for st in G]
    sources = sorted(set(c[4:] for st in G for c in st['consumes'] if c.startswith('src:')))

    def expected(name, with_optional):
        g = [dict(st, consumes=st['consumes'] + (st.get('optional', []) if with_optional else [])) for st in G]
        return projgen.graph_downstream(g, name)

    multi_outs = set(o for st in G if st['multi'] for o in st['outs'])
    stale_prone = set()          # consumers (transitively) of outputs of a multi-output step
    for o in multi_outs:
        stale_prone |= projgen.graph_downstream(G, o)
    with project.Scratch('c03g') as s:
        project.write_tree(s.src, p.tree())
        rc, out = project.configure(s.src, s.build, 'make')
        if rc != 0:
            rep.fail('configure fails on the dependency-shape project: %s' % out[-400:], {'script': p.script(), 'output': out[-1500:]})
            return 1
        # ---- dependency edges as written, both backends, against the declared DAG (also covers the pch shapes)
        from . import c06
        mr = c06.make_rules(project.read(s.build, 'Makefile'))
        bn = s.build + '-ninja'
        rc, out = project.configure(s.src, bn, 'ninja')
        nin = ninjaparse.parse(project.read(bn, 'build.ninja')) if rc == 0 else None
        shutil.rmtree(bn, ignore_errors=True)

        def canon(x):
            for pre in ('$(srcdir)/', s.src + '/'):
                if x.startswith(pre):
                    return 'src:' + x[len(pre):]
            return x[2:] if x.startswith('./') else x
        for st in G:
            want = set(st['consumes'])
            opt = set(st.get('optional', []))
            for o in st['outs']:
                md = mr.get(o, (set(), set()))[0]
                if len(md) == 1 and next(iter(md)).endswith('.stamp'):
                    md = mr.get(next(iter(md)), (set(), set()))[0]
                md = set(canon(x) for x in md)
                views = [('make', md)]
                if nin is not None:
                    b = nin.edge_for(o)
                    views.append(('ninja', set(canon(x) for x in (b['inputs'] + b['implicit'] if b else []) if x != 'PHONY')))
                for backend, got in views:
                    rep.case('graph-deps:%d:%s:%s' % (idx, backend, o), True)
                    if not (want <= got <= want | opt):
                        bad += rep.fail('%s: the rule of %r lists prerequisites %r, the script declares %r' % (backend, o, sorted(got), sorted(want)),
                                        {'kind': 'graph-deps', 'backend': backend, 'script': p.script(), 'output': o,
                                         'emitted': sorted(got), 'declared': sorted(want), 'missing': sorted(want - got),
                                         'unexpected': sorted(got - want - opt)})
        if bad:
            return bad
        # ---- real make, stub tools
        rcm, recs, mout = project.make(s.build, ['all'], stub_tools=True)
        if rcm != 0:
            return rep.fail('make fails on the dependency-shape project: %s' % mout[-300:], {'script': p.script(), 'make_output': mout[-1500:]})
        before = _mtimes(s.build, prim)
        time.sleep(0.02)
        rcm, recs, mout = project.make(s.build, ['all'], stub_tools=True)
        after = _mtimes(s.build, prim)
        again = sorted(o for o in prim if after[o] != before[o])
        rep.case('graph-noop:%d' % idx, True)
        if rcm != 0 or again:
            bad += rep.fail('a build right after a build re-created %r' % again, {'script': p.script(), 'recreated': again, 'make_output': mout[-800:]})
        built = set(o for o in prim if after[o] is not None)
        # (touching a link would touch the file behind it, a file with several names is touched under all of them: such
        # outputs are changed only through their sources)
        def plain_file(o):
            st_ = os.lstat(os.path.join(s.build, o))
            return not os.path.islink(os.path.join(s.build, o)) and st_.st_nlink == 1
        touchables = [('src', f) for f in sources] + [('out', o) for st in G for o in st['outs']
                                                      if o in built and rng.random() < 0.5 and plain_file(o)]
        for st in G:
            if st.get('mode'):
                rep.count('graph:link step mode=%s%s' % (st['mode'], ' (with a consumer)' if any(st['out'] in x['consumes'] for x in G) else ''))
        for where, f in touchables:
            time.sleep(0.02)
            os.utime(os.path.join(s.src if where == 'src' else s.build, f), None)
            name = ('src:' + f) if where == 'src' else f
            before = _mtimes(s.build, prim)
            rcm, recs, mout = project.make(s.build, ['all'], stub_tools=True)
            after = _mtimes(s.build, prim)
            ran = set(o for o in prim if after[o] != before[o])
            wants = [expected(name, False) & built, expected(name, True) & built]
            rep.case('graph-touch:%d:%s' % (idx, name), bool(wants[0]))
            rep.count('graph:touch ' + where)
            # symbolic links that denote the touched file were 'changed' by the touch itself; Make has no reason to make
            # them again (what consumes them must still re-run)
            alias, grew = set(), True
            while grew:
                grew = False
                for st in G:
                    if st.get('mode') == 'symlink' and st['out'] not in alias and st['consumes'][0] in alias | {name}:
                        alias.add(st['out'])
                        grew = True
            if rcm == 0 and (ran - alias) in [w - alias for w in wants]:
                continue
            classes = ()
            lost = wants[0] - ran
            if rcm == 0 and lost and lost <= stale_prone and not (ran - wants[1]):
                # the touched file is upstream of a multi-output step and only consumers of its outputs were left stale
                classes = (STAMP_CLASS,)
                rep.count('graph:stale consumer of a stamp-encoded output')
            bad += rep.fail('after touching %r make re-created %r, the script implies %r' % (name, sorted(ran), sorted(wants[0])),
                            {'kind': 'graph-touch', 'script': p.script(), 'touched': name, 'recreated': sorted(ran),
                             'expected': sorted(wants[0]), 'not_rebuilt': sorted(lost), 'make_output': mout[-600:]}, classes=classes)
            if classes:
                # the next make (nothing touched) repairs it - which is itself not a no-op; bring the tree up to date
                time.sleep(0.02)
                project.make(s.build, ['all'], stub_tools=True)
        # ---- a step that FAILS: touch a source, let one step downstream of it fail (the recorder exits 1 and creates
        # nothing), then build again without the failure: over the two builds exactly the downstream set must have been
        # re-created - in particular the failed step and everything below it run in the second build - and a third
        # build does nothing
        stubbed = set(st['out'] for st in G if not st.get('real_tool'))   # cp / ln are not the recorder
        multis = [st['out'] for st in G if st['multi'] and st['out'] in stubbed and st['out'] in built]
        others = sorted(o for o in stubbed & built if o not in multis)
        failing = multis + rng.sample(others, min(len(others), 2 if rep.tier != 'thorough' else 6))
        for F in failing:
            ups = [f for f in sources if F in expected('src:' + f, False)]
            if not ups:
                continue
            f = rng.choice(ups)
            name = 'src:' + f
            E = expected(name, False) & built
            time.sleep(0.02)
            os.utime(os.path.join(s.src, f), None)
            before = _mtimes(s.build, prim)
            rc1, _, out1 = project.make(s.build, ['all'], stub_tools=True, extra_env={'ARGVREC_FAIL': F})
            rc2, _, out2 = project.make(s.build, ['all'], stub_tools=True)
            after = _mtimes(s.build, prim)
            ran = set(o for o in prim if after[o] != before[o])
            wants = [E, expected(name, True) & built]
            rep.case('graph-fail:%d:%s:%s' % (idx, name, F), True)
            rep.count('graph:failed step then rebuild')
            ok = rc1 != 0 and rc2 == 0 and ran in wants
            if ok:
                time.sleep(0.02)
                b3 = _mtimes(s.build, prim)
                rc3, _, out3 = project.make(s.build, ['all'], stub_tools=True)
                a3 = _mtimes(s.build, prim)
                ok = rc3 == 0 and a3 == b3
                out2 = out3 if not ok else out2
            if not ok:
                lost = wants[0] - ran
                classes = (STAMP_CLASS,) if (rc1 != 0 and rc2 == 0 and lost and lost <= stale_prone and not (ran - wants[1])) else ()
                bad += rep.fail('after touching %r with step %r failing once (make rc %d), the next make (rc %d) leaves %r not rebuilt; '
                                're-created over both builds: %r, the script implies %r' % (name, F, rc1, rc2, sorted(lost), sorted(ran), sorted(wants[0])),
                                {'kind': 'graph-fail', 'script': p.script(), 'touched': name, 'failing_step': F, 'rc_failing_make': rc1,
                                 'rc_next_make': rc2, 'recreated': sorted(ran), 'expected': sorted(wants[0]), 'not_rebuilt': sorted(lost),
                                 'make_output_failing': out1[-500:], 'make_output_next': out2[-500:]}, classes=classes)
                time.sleep(0.02)
                project.make(s.build, ['all'], stub_tools=True)
        # ---- Ninja: downstream closure of the edge graph
        if nin is not None:
            for f in sources:
                name = 'src:' + f
                dirty, ran, changed = {name}, set(), True
                while changed:
                    changed = False
                    for b in nin.builds:
                        ins = set(canon(x) for x in b['inputs'] + b['implicit'])
                        outs_ = [canon(o) for o in b['outputs']]
                        if dirty & ins and not set(outs_) <= dirty:
                            dirty |= set(outs_)
                            changed = True
                ran = set(o for o in prim if o in dirty)
                rep.case('graph-ninja:%d:%s' % (idx, name), True)
                if ran not in (expected(name, False), expected(name, True)):
                    bad += rep.fail('ninja: the edges downstream of %r are %r, the script implies %r' % (name, sorted(ran), sorted(expected(name, False))),
                                    {'kind': 'graph-ninja', 'script': p.script(), 'touched': name, 'downstream': sorted(ran),
                                     'expected': sorted(expected(name, False))})
        rep.sample({'graph project': idx, 'steps': len(G), 'touched': len(touchables), 'script': p.script()[:600]})
    rep.traces += 1
    return bad


def run(rep):
    rng = random.Random(rep.seed)
    thorough = rep.tier == 'thorough'
    rep.proof_stage(coqchk=thorough)
    repaired, status = select_findings(rep)
    rep.stage('variant', repaired=repaired, probe=_VARIANT.get('detail', ''), finding_status=status, model_fx=model_variant(rep),
              stamp_finding_suppressed=any(k['id'] == STAMP_ID for k in rep.known))
    rep.count('variant:multitarget_rule %s (finding %s recorded as %s)' % (
        'repaired - outs rule with the no-op recipe' if repaired else 'as first written - outs rule without recipe', STAMP_ID, status))
    dis = stage_w_defaults(rep, rng, 2000 if thorough else 300)
    found = 0
    dis_e, bad_e = stage_w_emit(rep, random.Random(rng.random()), 300 if thorough else 40)
    found += bad_e
    dis_r = stage_r_stampsem(rep, random.Random(rng.random()), 400 if thorough else 40)
    found += stamp_scenario(rep)
    for i in range((10 if thorough else 2) * (3 if (dis_e or dis_r) else 1)):
        found += graph_project(rep, rng, i)
    if dis_e and not rep.n_with_input:
        # widened search: ten times the scripts through the direct oracles of the same stage
        _, bad_e2 = stage_w_emit(rep, random.Random(rng.random()), 3000 if thorough else 400, tag='W:emit widened')
        found += bad_e2
    for i in range((12 if thorough else 2) * (3 if dis else 1)):
        found += one_project(rep, rng, i)
    for i in range((12 if thorough else 4) * (2 if dis else 1)):
        found += default_membership(rep, rng, i)
    rep.stage('projects', built=rep.traces, failures=found)
    if rep.traces == 0:
        rep.fail('no generated project could be configured: the system-level comparison did not run',
                 {'obligation': 'system-level correspondence'}, found_input=False)
    if dis_e and not rep.n_with_input:
        i, call, iv, mv = dis_e[0]
        rep.fail('W:%s - emitter model and real rule handler disagree (%d cases), e.g. %r: impl %r, model %r' % (call[0], len(dis_e), call[1], iv, mv),
                 {'obligation': 'W:' + call[0], 'call': call, 'impl': iv, 'model': mv}, found_input=False)
    if dis and not rep.n_with_input:
        i, call, iv, mv = dis[0]
        rep.fail('W:%s - model and implementation disagree (%d cases), e.g. %r: impl %r, model %r' % (call[0], len(dis), call[1], iv, mv),
                 {'obligation': 'W:' + call[0], 'call': call, 'impl': iv, 'model': mv}, found_input=False)


def replay(rep, path):
    run(rep)
