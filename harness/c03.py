"""C03 - Generated dependency graph equals the graph the build script describes."""
import os
import random
import re
from . import common, gen, shtools, project, projgen, ninjaparse
from .common import d_list

LEVEL = 'proof'
RULE = ('generated projects (static/shared/dual libraries, executables using them, multi-output build_step, copy_file, alias, '
        'default, test) built by the real GNU Make with logging stub tools; per project: full build, no-op second build, then for every '
        'source / intermediate / generated input one touch + rebuild, executed step set compared with the downstream set of the '
        "generator's own DAG; DefaultOutputs operation sequences vs the model. A case is non-trivial when the touched file has at "
        'least one downstream step; distinct by (project, touched file)')
TRUSTED = ('mtime build semantics: the real GNU Make 4.3 (system level); Make/MakeSem.v model for the generic theorems',
           'Ninja graph read through the reference evaluator (no ninja binary)')


# ----------------------------------------------------------------------------- DefaultOutputs vs model
class _Out:
    def __init__(self, ident, creator, others=()):
        self.ident, self.creator, self._others = ident, creator, list(others)

    @property
    def all(self):
        return [self] + self._others


def stage_w_defaults(rep, rng, n):
    from bfg9000.builtins.default import DefaultOutputs
    calls, impl = [], []
    for _ in range(n):
        d = DefaultOutputs()
        objs = {}
        ops = []
        next_id = 1
        for _ in range(rng.randint(0, 10)):
            if objs and rng.random() < 0.3:
                x = rng.choice(list(objs))
                e = rng.random() < 0.3
                d.remove(objs[x], explicit=e)
                ops.append([1, x, e])
            else:
                items = []
                main = None
                for k in range(rng.choice([1, 1, 1, 2])):
                    reuse = objs and rng.random() < 0.15      # the malformed stream: the same output registered twice
                    ident = rng.choice(list(objs)) if reuse else next_id
                    if not reuse:
                        next_id += 1
                    cre = rng.random() < 0.85
                    o = objs.get(ident) or _Out(ident, cre)
                    objs[ident] = o
                    items.append(o)
                main = _Out(0, None, items)          # a container whose .all lists the items (itself has no creator)
                main.ident = 0
                e = rng.random() < 0.4
                class Wrap:                            # output.all = items
                    all = items
                d.add(Wrap, explicit=e)
                ops.append([0, [[o.ident, bool(o.creator)] for o in items], e])
        impl.append(([o.ident for o in d.default_outputs], [o.ident for o in d.fallback_defaults], [o.ident for o in d.outputs]))
        calls.append(('defaults.run', [ops]))
        rep.case('d:%r' % (ops,), len(ops) > 1)
    return common.compare_model(rep, 'W:DefaultOutputs', calls, impl, lambda n_, r: tuple(list(x) for x in r))


# ----------------------------------------------------------------------------- system level
def step_id(argv, srcroot):
    """Name the step a recorded tool invocation belongs to."""
    if not argv:
        return None
    for a in argv:
        if a.startswith(srcroot + '/') and a.endswith('.c'):
            return 'compile:' + a[len(srcroot) + 1:]
    if '-o' in argv:
        outs = [argv[i + 1] for i, a in enumerate(argv[:-1]) if a == '-o']
        if outs and outs[0].startswith('out1'):
            return 'build_step'
        return 'link:' + re.sub(r'^(\./)?(lib)?', '', os.path.basename(outs[-1])).replace('.so', '').replace('.a', '')
    if len(argv) > 1 and argv[1].endswith('.a'):
        return 'link:' + os.path.basename(argv[1])[3:-2]
    return 'other:' + ' '.join(argv[:2])


def expected_graph(p):
    """Downstream relation of the generated script: file -> set of step ids that must re-run when it changes."""
    down = {}
    libs_used_by = {}
    for st in p.steps:
        if st['kind'] == 'link' and st.get('libs'):
            for l in st['libs']:
                libs_used_by.setdefault(l, set()).add(st['name'])       # l is the variable name lib<i> == library name
    used = set(libs_used_by)
    for st in p.steps:
        if st['kind'] == 'compile':
            if st['lib'] and st['owner'] not in used:
                down[st['source']] = set()       # a library nothing links against is not part of the requested targets
                continue
            d = {'compile:' + st['source'], 'link:' + st['owner']}
            if st['lib']:
                for user in libs_used_by.get(st['owner'], ()):
                    d.add('link:' + user)
            down[st['source']] = d
    down['gen.in'] = {'build_step'}
    return down


def one_project(rep, rng, idx):
    p = projgen.generate(rng, rep, odd_names=(idx % 2 == 1), n_exe=2, n_lib=2)
    bad = 0
    with project.Scratch('c03') as s:
        project.write_tree(s.src, p.tree())
        rc, out = project.configure(s.src, s.build, 'make')
        if rc != 0:
            rep.count('configure_failed')
            rep.sample({'configure_failed': out[-300:]})
            return 0
        targets = ['all', 'everything']
        # every link output, so that steps outside the default set are covered as well
        ntxt = None
        names = []
        for st in p.steps:
            if st['kind'] == 'link' and 'libkind' not in st:
                names.append(st['name'])
        rcm, recs, mout = project.make(s.build, targets + names, stub_tools=True)
        if rcm != 0:
            rep.fail('make fails on the generated project: %s' % mout[-300:], {'script': p.script(), 'make_output': mout[-1500:]})
            return 1
        first = set(filter(None, (step_id(r['argv'], s.src) for r in recs)))
        # one producer: no step ran twice in one build
        ids = [step_id(r['argv'], s.src) for r in recs]
        dup = [i for i in set(ids) if i and ids.count(i) > 1 and not i.startswith('other')]
        if dup:
            bad += rep.fail('steps executed more than once in a single build: %r' % dup, {'script': p.script(), 'duplicates': dup})
        rcm, recs, mout = project.make(s.build, targets + names, stub_tools=True)
        again = [step_id(r['argv'], s.src) for r in recs]
        rep.case('noop:%d' % idx, True)
        if rcm != 0 or again:
            bad += rep.fail('a build right after a build is not a no-op: %r' % again, {'script': p.script(), 'executed': again, 'make_output': mout[-800:]})
        exp = expected_graph(p)
        import time
        for f in sorted(exp):
            time.sleep(0.02)          # coarse kernel timestamps: make sure 'now' is after the last product
            os.utime(os.path.join(s.src, f), None)
            rcm, recs, mout = project.make(s.build, targets + names, stub_tools=True)
            ran = set(filter(None, (step_id(r['argv'], s.src) for r in recs)))
            want = set(exp[f])
            # shared libraries: an executable linked against lib.so re-links when the .so was re-created
            rep.case('touch:%d:%s' % (idx, f), bool(want))
            if rcm != 0 or ran != want:
                bad += rep.fail('after touching %r make re-ran %r, the script implies %r' % (f, sorted(ran), sorted(want)),
                                {'script': p.script(), 'touched': f, 'executed': sorted(ran), 'expected': sorted(want), 'make_output': mout[-800:]})
        # default target membership: `make all` on a fresh build dir builds exactly the default set
        rep.sample({'project': idx, 'steps_first_build': sorted(first), 'touched': sorted(exp)})
    rep.traces += 1
    return bad


def default_membership(rep, rng, idx):
    """`make all` from scratch builds exactly what default()/fallback says; alias/test targets depend on members."""
    bad = 0
    with project.Scratch('c03d') as s:
        explicit = rng.random() < 0.5
        tested = rng.random() < 0.7
        lines = ["project('d')", "a = executable('a', files=['a.c'])", "b = executable('b', files=['b.c'])",
                 "c = executable('c', files=['c.c'])"]
        if explicit:
            lines.append("default(b)")
        if tested:
            lines.append("test(c)")
        lines.append("alias('both', [a, c])")
        files = {n + '.c': 'int main(void){return 0;}\n' for n in 'abc'}
        files['build.bfg'] = '\n'.join(lines) + '\n'
        project.write_tree(s.src, files)
        for backend in ('make', 'ninja'):
            bdir = s.build + backend
            rc, out = project.configure(s.src, bdir, backend)
            if rc != 0:
                rep.fail('configure failed for the default-membership project: %s' % out[-300:], {'script': files['build.bfg']})
                return 1
            want = {'b'} if explicit else ({'a', 'b'} if tested else {'a', 'b', 'c'})
            if backend == 'make':
                rcm, recs, mout = project.make(bdir, ['all'], stub_tools=True)
                got = set(x[5:] for x in filter(None, (step_id(r['argv'], s.src) for r in recs)) if x.startswith('link:'))
                rcm, recs, mout = project.make(bdir, ['both'], stub_tools=True)
                got_alias = got | set(x[5:] for x in filter(None, (step_id(r['argv'], s.src) for r in recs)) if x.startswith('link:'))
                alias_ok = {'a', 'c'} <= got_alias
            else:
                m = ninjaparse.parse(project.read(bdir, 'build.ninja'))
                got = set(m.edge_for('all')['inputs'])
                alias_ok = set(m.edge_for('both')['inputs']) == {'a', 'c'}
                if tested:
                    te = m.edge_for('tests')
                    if te is None or 'c' not in te['inputs'] + te['implicit']:
                        bad += rep.fail('ninja: the tests target does not depend on the tested executable', {'script': files['build.bfg']})
            rep.case('default:%s:%s:%s' % (backend, explicit, tested), True)
            if got != want or not alias_ok:
                bad += rep.fail('%s: default target builds %r, the script implies %r (alias ok: %s)' % (backend, sorted(got), sorted(want), alias_ok),
                                {'script': files['build.bfg'], 'built': sorted(got), 'expected': sorted(want)})
    return bad


def run(rep):
    rng = random.Random(rep.seed)
    thorough = rep.tier == 'thorough'
    rep.proof_stage(coqchk=thorough)
    dis = stage_w_defaults(rep, rng, 2000 if thorough else 300)
    found = 0
    for i in range((12 if thorough else 2) * (3 if dis else 1)):
        found += one_project(rep, rng, i)
    for i in range(8 if thorough else 2):
        found += default_membership(rep, rng, i)
    rep.stage('projects', built=rep.traces, failures=found)
    if rep.traces == 0:
        rep.fail('no generated project could be configured: the system-level comparison did not run',
                 {'obligation': 'system-level correspondence'}, found_input=False)
    if dis and not found:
        i, call, iv, mv = dis[0]
        rep.fail('W:%s - model and implementation disagree (%d cases), e.g. %r: impl %r, model %r' % (call[0], len(dis), call[1], iv, mv),
                 {'obligation': 'W:' + call[0], 'call': call, 'impl': iv, 'model': mv}, found_input=False)


def replay(rep, path):
    run(rep)
