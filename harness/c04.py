"""C04 - File names with special characters denote the same file in the build tool."""
import os
import random
import shutil
import string
import subprocess
from io import StringIO
from . import common, gen, shtools, ninjaparse
from .common import d_str, d_bool, d_opt, d_list

LEVEL = 'proof'
RULE = ('file names over printable ASCII without backslash and slash: every single special character in first/middle/last '
        'position, all pairs of special characters (thorough) or a seeded sample of pairs (quick), plus random names; a name is '
        'non-trivial when it contains a character outside [A-Za-z0-9_.]; distinct by exact text. System depfile-entry stage: real gcc / '
        'clang projects whose object paths (source directory at depth 1 and 2, file stem, every second time the program name) carry '
        'blank, $, # (always) and sampled other characters, with a header known only through the compiler-written depfile: build, '
        'no-op build, change the header, build (both objects compiled, new value printed), no-op build. Step-directory stages: output '
        'lists of ONE step drawn from families of related directory names (name, name + " #2", name + "2", name + ".d", name/sub, shorter '
        'prefixes, the build directory itself, repeats) through the real directory_deps vs MakeHeader.directory_deps and vs the statement '
        'itself (every distinct non-root output directory has exactly one sentinel); real configure + GNU Make on multi-output build_steps '
        'with such output directories (every output at its path, every directory created, no stray entries, second build a no-op)')
TRUSTED = ('R model Make/MakeNames.v (rule-header word reading) validated against /usr/bin/make on this run',
           'R model Make/MakeHeader.v (splitting of a whole rule header, patsubst %/.dir,%) validated against /usr/bin/make on this run',
           'the representable set is established at run time with a hand-written reference escaping (reference_escape) run by the real make',
           'Ninja reader model is trusted (no ninja binary)',
           'depfile-entry stage: real gcc 12 / clang 14 write the depfiles, real GNU Make reads them; which sources were compiled is read '
           'from the log of a compiler wrapper (harness/c07.py SysRun)')

SPECIALS = [c for c in string.printable if c.isprintable() and not c.isalnum() and c not in '\\/_.'] + ['\t']
# known implementation defects (findings.d/C04.json). A class is a predicate on the name AND on the failure: it applies only
# when the observed failure is the one the recorded finding describes, so that any other failure on a name of the same
# shape is still a violation. Each stage has its own classifier (the findings are about particular positions of a name).
def esc_brackets(s):
    return s.replace('[', '\\[').replace(']', '\\]')


def classify_names(name, ttext, dtext, res):
    """stage_make (the name as target and as prerequisite of a reference rule), bfg9000's texts ttext / dtext, make's run res.
      make-percent-in-prerequisite: make stops with 'No rule to make target', and the same two texts with the backslash in
        front of every % REMOVED ON THE PREREQUISITE SIDE (the spelling the finding names as accepted) work;
      make-bracket-escaped: make runs, but target, prerequisite and the created file are the name with a backslash in front
        of each bracket; the texts without those backslashes work.
    Both repairs are applied together when the name has both; the repaired texts must make the name work completely (good),
    otherwise something else is wrong with this name as well."""
    pct, brk = '%' in name, ('[' in name or ']' in name)
    if not (pct or brk):
        return ()
    if pct:
        if not (res['rc'] != 0 and 'No rule to make target' in res['out'] and res['created'] == []):
            return ()
    else:
        at = esc_brackets(name)
        if not (res['rc'] == 0 and res['T'] == at and res['D'] == at and res['created'] == [at]):
            return ()
    t2, d2 = ttext, dtext
    cls = []
    if pct and '\\%' in dtext:
        d2 = d2.replace('\\%', '%')
        cls.append('make-percent-in-prerequisite')
    if brk and ('\\[' in ttext + dtext or '\\]' in ttext + dtext):
        t2 = t2.replace('\\[', '[').replace('\\]', ']')
        d2 = d2.replace('\\[', '[').replace('\\]', ']')
        cls.append('make-bracket-escaped')
    if (t2, d2) == (ttext, dtext) or not good(run_make_names(name, name, t2, d2), name):
        return ()
    return tuple(cls)


def sh_words_in_scratch(line):
    """argv the real dash delivers to the recorder for `recorder <line>`, run in a scratch directory with the record written
    to a log file (the line may contain redirections); None when sh fails or does not start exactly one recorder."""
    d = common.scratch('c04sh')
    try:
        log = os.path.join(d, '.log')
        e = {'PATH': '/usr/bin:/bin', 'ARGVREC_ENV': '', 'ARGVREC_OUT': log, 'LC_ALL': 'C.UTF-8'}
        p = subprocess.run(['dash', '-c', shtools.ARGVREC + ' ' + line], capture_output=True, env=e, timeout=10, cwd=d)
        recs = shtools.parse_rec(open(log, encoding='utf-8', errors='surrogateescape').read()) if os.path.exists(log) else []
        return recs[0]['argv'] if p.returncode == 0 and len(recs) == 1 else None
    finally:
        shutil.rmtree(d, ignore_errors=True)


def classify_recipe(name, got, out):
    """stage_make_recipe_names (recipe `recorder '$@' path`): the findings predict the delivered words exactly.
      make-bracket-escaped: $@ is the name with a backslash in front of each bracket, the path argument is right;
      make-single-quote-in-automatic-variable: sh reads the line  '<value of $@>' <quoted path>  - the words that line gives
        (computed here by the real dash with a reference quoting of the path), or sh's syntax error."""
    brk, sq = ('[' in name or ']' in name), "'" in name
    if not (brk or sq):
        return ()
    at = esc_brackets(name)
    if not sq:
        ok = got in ([at, name], [at, './' + name])
    else:
        ok = False
        for spelling in ('./' + name, name):
            line = "'%s' '%s'" % (at, spelling.replace("'", "'\\''"))
            pred = sh_words_in_scratch(line)
            if pred is None:
                ok = ok or (got is None and '/bin/sh:' in out)        # sh rejects the line (syntax error, a redirection)
            else:
                ok = ok or got == pred
    if not ok:
        return ()
    return (('make-bracket-escaped',) if brk else ()) + (('make-single-quote-in-automatic-variable',) if sq else ())


def classify_call(name, want, got, text, out):
    """stage_call_names (the name as argument of $(call RULE,...)).
      make-call-comma: a comma outside parentheses; the failure disappears when the writer's `$,` is spelled `$(,)` (the
        spelling the finding names as working; the variable is defined by the writer) and nothing else is changed;
      make-call-paren: unbalanced parentheses; nothing is delivered: Make stops with 'unterminated call to function' (an
        open parenthesis is left) or the command line cut at the stray ')' is rejected by sh."""
    from . import c01
    depth, top_comma, stray = 0, False, False
    for c in name:
        if c == ',' and depth == 0:
            top_comma = True
        depth += (c == '(') - (c == ')')
        if depth < 0:
            stray = True
            break
    unbalanced = stray or depth != 0
    if not (top_comma or unbalanced):
        return ()
    if unbalanced:
        if got is not None:
            return ()
        if stray:
            ok = 'Syntax error' in out and '/bin/sh:' in out
        else:
            ok = "unterminated call to function 'call': missing ')'" in out
        return (('make-call-comma',) if top_comma else ()) + ('make-call-paren',) if ok else ()
    lines = text.split('\n')
    idx = [i for i, ln in enumerate(lines) if '$(call RULE_X,' in ln]
    if len(idx) != 1 or '$,' not in lines[idx[0]]:
        return ()
    lines[idx[0]] = lines[idx[0]].replace('$,', '$(,)')
    rc, recs, out2 = shtools.make_run('\n'.join(lines), 'all')
    got2 = [r['argv'] for r in recs] if rc == 0 else None
    if got2 is not None and len(got2) == 2 and len(got2[0]) == 4 and got2[0][1] == './' + name:
        got2[0][1] = name
    return ('make-call-comma',) if got2 == want else ()


def location_signature(c, src, why, mout, recs):
    """make-srcdir-location-special: the failure the finding describes for a source directory whose path contains c."""
    cut = src[:src.index(c)] if c in src else src
    if c in ' \t|':
        return why == 'the project does not build' and "No rule to make target '%s', needed by 'Makefile'" % cut in mout
    if c == ':':
        return why == 'the project does not build' and "target pattern contains no '%'" in mout
    if c == ';':
        return why == 'the project does not build' and 'missing separator' in mout
    if c == '%':
        return why == 'the project does not build' and "No rule to make target '%s" % src.replace('%', '\\%') in mout
    if c == "'":
        # every recipe word '$(srcdir)/...' ends its quoting at the quote in the path: the compiler is started, and the path
        # without the quote is (part of) one of its arguments
        return why == 'touching a source does not recompile it' and \
            any(os.path.join(src.replace("'", ''), 'sub/f.c') in a for r in recs for a in (r['argv'] or []))
    return False


def reference_escape(name, side):
    """Hand-written reference: the escaping GNU Make documents/accepts. $ doubled; backslash before blank, ':' and '#';
    '%' escaped on the target side only; '|' on the prerequisite side only; nothing else is escaped."""
    out = []
    for c in name:
        if c == '$':
            out.append('$$')
        elif c in ' :#' or (c == '%' and side == 'target') or (c == '|' and side == 'dep'):
            out.append('\\' + c)
        else:
            out.append(c)
    return ''.join(out)


def run_make_names(tname, dname, ttext, dtext, decoys=()):
    """Reference Makefile: rule for ttext, 'all' depends on dtext. Make itself logs $@ / $< (no shell quoting
    involved) and the file is created by sh from an exported variable holding $@. `decoys`: files that exist
    before make runs. Returns dict(rc, T, D, created, second_rebuilt_target, rc2)."""
    d = common.scratch('c04')
    try:
        log = os.path.join(d, 'LOG')
        for x in decoys:
            open(os.path.join(d, x), 'w').close()
            os.utime(os.path.join(d, x), (1, 1))
        mk = ('export TNAME = $@\nall: %s\n\t@$(file >>%s,D $<)\n%s:\n\t@$(file >>%s,T $@)\n\t@: > "$$TNAME"\n'
              % (dtext, log, ttext, log))
        with open(os.path.join(d, 'Makefile'), 'w') as f:
            f.write(mk)
        e = {'PATH': '/usr/bin:/bin', 'LC_ALL': 'C.UTF-8'}
        p = subprocess.run(['make', '--no-print-directory'], cwd=d, env=e, capture_output=True, timeout=20)
        res = {'rc': p.returncode, 'T': None, 'D': None, 'out': (p.stdout + p.stderr).decode('utf-8', 'replace')[-200:]}
        if os.path.exists(log):
            for line in open(log, encoding='utf-8', errors='replace').read().split('\n'):
                if line.startswith('T '):
                    res['T'] = line[2:]
                if line.startswith('D '):
                    res['D'] = line[2:]
        res['created'] = sorted(x for x in os.listdir(d) if x not in ('Makefile', 'LOG') and x not in decoys)
        if os.path.exists(log):
            os.remove(log)
        p2 = subprocess.run(['make', '--no-print-directory'], cwd=d, env=e, capture_output=True, timeout=20)
        again = open(log).read() if os.path.exists(log) else ''
        res['second_rebuilt_target'] = 'T ' in again
        res['rc2'] = p2.returncode
        return res
    finally:
        shutil.rmtree(d, ignore_errors=True)


def decoys_for(name):
    """Files whose presence changes the meaning of an unescaped wildcard name."""
    out = set()
    if any(c in name for c in '*?['):
        import re
        out.add(name.replace('*', 'Z').replace('?', 'Z').replace('[', 'Z'))
        m = re.sub(r'\[(.)[^\]]*\]', r'\1', name)
        out.add(m.replace('*', 'Z').replace('?', 'Z'))
    return [x for x in out if x and x != name and '/' not in x]


def reference_ok(name):
    """Does an escaping accepted by GNU Make exist for this name? (hand-written reference escaping; must work both
    in an empty directory and next to files that an unescaped wildcard in the name would match)"""
    if name.startswith('~'):
        return False, {'note': 'leading ~ is subject to tilde expansion (depends on the user database); no escaping exists'}
    r1 = run_make_names(name, name, reference_escape(name, 'target'), reference_escape(name, 'dep'))
    if not good(r1, name):
        return False, r1
    dec = decoys_for(name)
    if dec:
        r2 = run_make_names(name, name, reference_escape(name, 'target'), reference_escape(name, 'dep'), decoys=dec)
        if not good(r2, name):
            return False, r2
    return True, r1


def good(res, name):
    return (res['rc'] == 0 and res['T'] == name and res['D'] == name and res['created'] == [name]
            and res['rc2'] == 0 and not res['second_rebuilt_target'])


def names_for(rng, thorough):
    names = []
    for c in SPECIALS:
        names += ['a' + c + 'b', c + 'b', 'a' + c]
    pairs = [(a, b) for a in SPECIALS for b in SPECIALS]
    if not thorough:
        pairs = rng.sample(pairs, 60)
    for a, b in pairs:
        names.append('x' + a + b + 'y')
    for _ in range(300 if thorough else 40):
        s = gen.arg_string(rng, None, maxlen=7, allow_empty=False)
        names.append(s)
    out = []
    for n in names:
        n = n.replace('/', '_').replace('\\', '_').replace('\n', '_').replace('\r', '_').replace('\0', '_')
        if n in ('.', '..') or not n.isascii() or any((ord(c) < 32 and c != '\t') or ord(c) == 127 for c in n):
            continue
        if len(n) >= 2 and n[1] == ':' and n[0].isalpha():
            continue     # drive prefix, excluded by the property
        out.append(n)
    return list(dict.fromkeys(out))


def stage_w(rep, rng, names):
    from bfg9000.backends.make.syntax import Writer as MW, Syntax as MS
    from bfg9000.backends.ninja.syntax import Writer as NW, Syntax as NS
    _, us = gen.uni_tables()
    calls, impl = [], []
    extra = ['a\\ b', '\\#', '\\\\#', '~', '\\~x', 'a\\', 'a\\\\:'] + [gen.arg_string(rng, rep) for _ in range(300)]
    for s in names + extra:
        for nm, num in (('target', 0), ('dependency', 1)):
            try:
                iv = MW.escape_str(s, MS[nm])
            except ValueError:
                iv = None
            calls.append(('make.escape_str', [us, s, num])); impl.append(iv)
        for nm, num in (('output', 0), ('input', 1)):
            try:
                iv = NW.escape_str(s, NS[nm])
            except ValueError:
                iv = None
            calls.append(('ninja.escape_str', [s, num])); impl.append(iv)
    return common.compare_model(rep, 'W:escape_str(target,dependency,output,input)', calls, impl,
                                lambda n, r: d_opt(d_str, r))


def stage_make(rep, rng, names):
    """(R) model predicate vs real make; (oracle) bfg9000's escaping vs the reference escaping on the real make."""
    from bfg9000.backends.make.syntax import Writer as MW, Syntax as MS
    _, us = gen.uni_tables()
    mres = common.model_batch([('make.name_ok', [us, n]) for n in names])
    bad = 0
    representable = 0
    for n, mr in zip(names, mres):
        model_t, model_d = d_bool(mr[0]), d_bool(mr[1])
        rep.case('n:' + n, any(not (c.isalnum() or c in '_.') for c in n))
        rep.count('make:model_ok' if (model_t and model_d) else 'make:model_excluded')
        impl_res = run_make_names(n, n, MW.escape_str(n, MS.target), MW.escape_str(n, MS.dependency))
        impl_good = good(impl_res, n)
        if model_t and model_d and not impl_good:
            # the theorem's reader no longer describes the real make
            rep.fail('R:make_representable - the model says %r is read back by Make, the real make disagrees: %r' % (n, impl_res),
                     {'obligation': 'R:make_representable', 'name': n, 'make': impl_res}, found_input=False)
            bad += 1
            continue
        if impl_good:
            representable += 1
            continue
        ref_good, ref_res = reference_ok(n)
        if ref_good:
            representable += 1
            # an accepted escaping exists, but the one bfg9000 writes does not denote the file
            if rep.fail('Make: name %r is representable (reference escaping works) but bfg9000 writes target %r / prerequisite %r: %r'
                        % (n, MW.escape_str(n, MS.target), MW.escape_str(n, MS.dependency), impl_res),
                        {'name': n, 'bfg_target': MW.escape_str(n, MS.target), 'bfg_dep': MW.escape_str(n, MS.dependency),
                         'make_with_bfg_escaping': impl_res, 'make_with_reference_escaping': ref_res},
                        classes=classify_names(n, MW.escape_str(n, MS.target), MW.escape_str(n, MS.dependency), impl_res)):
                bad += 1
        else:
            rep.count('make:unrepresentable_at_runtime')
    rep.stage('make names', names=len(names), representable=representable, failures=bad)
    return bad


def stage_make_recipe_names(rep, rng, names):
    """The name as command argument / automatic variable: the real Makefile writer with qvar('@') as bfg9000's rules use."""
    from bfg9000.backends.make.syntax import Makefile, qvar
    from bfg9000.path import Path
    bad = 0
    for n in names:
        mk = Makefile('build.bfg')
        try:
            if Path(n).suffix != n:
                continue        # the path algebra re-interprets this name (drive prefix, ~user): not a plain component
            mk.rule(Path(n), recipe=[[shtools.ARGVREC, qvar('@'), Path(n)]])
        except ValueError:
            continue
        o = StringIO(); mk.write(o)
        goal = None
        if '%' in n or n.startswith('.'):
            # GNU Make never takes a target containing % or starting with a dot as the default goal ('No targets'), however
            # it is written: such a name is requested as a goal on the command line (possible unless the word would be read
            # as an option or as a variable assignment there)
            if n.startswith('-') or '=' in n:
                rep.count('recipe:name that can neither be the default goal nor be requested as a goal')
                continue
            goal = n
        rc, recs, out = shtools.make_run(o.getvalue(), goal)
        if goal is not None and rc != 0 and 'No rule to make target' in out and esc_brackets(n) != n:
            # make-bracket-escaped: the rule is for the name WITH the backslashes; ask for that one (what the recipe then
            # receives is judged below as for every other name)
            rc, recs, out = shtools.make_run(o.getvalue(), esc_brackets(n))
        got = recs[0]['argv'] if rc == 0 and len(recs) == 1 else None
        # only names Make can represent as a target at all are in scope
        if not reference_ok(n)[0]:
            continue
        rep.case('r:' + n, True)
        raw = got
        if got is not None and len(got) == 2 and got[1] == './' + n:
            got = [got[0], n]          # a bare file name in a command is written as ./name: the same file
        if got != [n, n]:
            if rep.fail("Make: output %r passed as '$@' and as path argument is delivered as %r" % (n, got),
                        {'name': n, 'delivered': got, 'makefile': o.getvalue(), 'out': out[-300:]},
                        classes=classify_recipe(n, raw, out)):
                bad += 1
    rep.stage('make recipe names', names=len(names), failures=bad)
    return bad


def stage_ninja(rep, rng, names):
    from bfg9000.backends.ninja.syntax import NinjaFile, var
    from bfg9000.path import Path
    bad = 0
    for n in names:
        if '|' in n:
            rep.count('ninja:excluded_pipe')
            continue
        nf = NinjaFile('build.bfg')
        try:
            if Path(n).suffix != n:
                continue
            nf.rule('r', command=[shtools.ARGVREC, var('out'), var('in'), Path(n)])
            nf.build(output=Path(n), rule='r', inputs=[Path(n + '.in')], implicit=[Path('in_' + n)], order_only=[Path('oo_' + n)])
        except ValueError:
            continue
        o = StringIO(); nf.write(o)
        try:
            m = ninjaparse.parse(o.getvalue())
            b = m.builds[0]
            ok = (b['outputs'] == [n] and b['inputs'] == [n + '.in'] and b['implicit'] == ['in_' + n] and b['order_only'] == ['oo_' + n])
            cmd = m.command(n)
            rc, recs, err = shtools.dash_run(cmd)
            got = recs[0]['argv'] if rc == 0 and len(recs) == 1 else None
        except (ninjaparse.NinjaError, IndexError) as e:
            ok, got = False, str(e)
        rep.case('nj:' + n, True)
        if got is not None and len(got) == 3 and got[2] == './' + n:
            got = [got[0], got[1], n]
        if not ok or got != [n, n + '.in', n]:
            if rep.fail('Ninja: name %r is not read back / delivered: edge %r argv %r' % (n, m.builds[:1] if ok is False else '', got),
                        {'name': n, 'build.ninja': o.getvalue(), 'argv': got}, classes=()):
                bad += 1
    rep.stage('ninja names', names=len(names), failures=bad)
    return bad


def stage_system_names(rep, rng, thorough):
    """Real configure + make on projects whose source / directory / output names carry special characters, with the
    special character in the file name and in a directory component at depth 1 AND at depth 2 (d?r/ma?in.c and
    d?r/e?f/ma?in.c in one target): every object is created at exactly that path, nothing else appears in the build
    directory (no stray directories from a name split into words), a second build is a no-op. The blank (the most common
    special character), # and $ are part of every run; the other characters are sampled in the quick tier."""
    from . import project
    bad = 0
    always = [' ', '#', '$', ',']
    others = ['&', '(', ')', '@', '!', '+', '~', '{', '}', '=', '"', '^', ':', ';']
    picks = always + (others if thorough else rng.sample(others, 3))
    for c in picks:
        stem = 'ma' + c + 'in'
        d1, d2 = 'd' + c + 'r', 'e' + c + 'f'
        srcs = [d1 + '/' + stem + '.c', d1 + '/' + d2 + '/' + stem + '.c']
        with project.Scratch('c04s') as s:
            tree = {'build.bfg': "project('p')\nexecutable('prog', files=%r)\n" % (srcs,)}
            tree[srcs[0]] = 'int main(void){return 0;}\n'
            tree[srcs[1]] = 'int f(void){return 0;}\n'
            project.write_tree(s.src, tree)
            rc, out = project.configure(s.src, s.build, 'make')
            if rc != 0:
                rep.count('system:configure_rejects')
                continue
            before = set(project.snapshot(s.build))
            rcm, recs, mout = project.make(s.build, ['all'], stub_tools=True)
            objs = ['prog.int/' + x[:-2] + '.o' for x in srcs]
            dirs = ['prog.int', 'prog.int/' + d1, 'prog.int/' + d1 + '/' + d2]
            allowed = set(['prog'] + dirs + [d + '/.dir' for d in dirs] + objs + [o + '.d' for o in objs])
            after = set(project.snapshot(s.build))
            stray = sorted(x for x in after - before if x not in allowed and not x.startswith('.'))
            missing = [o for o in objs if not os.path.exists(os.path.join(s.build, o))]
            linked = any(r['argv'] and all(o in r['argv'] for o in objs) and '-o' in r['argv'] and r['argv'][-1] == 'prog' for r in recs)
            ok = rcm == 0 and not missing and not stray and linked
            rcm2, recs2, _ = project.make(s.build, ['all'], stub_tools=True) if ok else (1, [], '')
            ok = ok and rcm2 == 0 and not recs2
            rep.case('sys:' + c, True)
            rep.count('system:char %r' % c)
            # in scope only when an accepted escaping exists for the directory and the file name
            if not ok and reference_ok(d1)[0] and reference_ok(stem + '.o')[0]:
                # the two findings about $(call RULE_LINK,objects): every object is compiled at its place, only the link step
                # goes wrong, in the way the finding describes
                cls = []
                compiled_only = not missing and not stray and not linked
                if c == ',' and compiled_only and rcm == 0 and \
                        any(r['argv'] == [' '.join(objs).split(',')[0] + '$', '-o', 'prog'] for r in recs):
                    cls.append('make-call-comma')       # the object list is cut at its first comma
                if c == '(' and compiled_only and rcm != 0 and "unterminated call to function 'call': missing ')'" in mout:
                    cls.append('make-call-paren')
                if c == ')' and compiled_only and rcm != 0 and '/bin/sh:' in mout and 'Syntax error' in mout and \
                        not any(r['argv'] and '-o' in r['argv'] and r['argv'][-1] == 'prog' for r in recs):
                    cls.append('make-call-paren')       # the call ends at the first ')' of the object list; sh rejects the rest
                if rep.fail('Make: project with sources %r does not build exactly its outputs (missing %r, stray %r, linked %r): %s'
                            % (srcs, missing, stray, linked, mout[-200:]),
                            {'char': c, 'sources': srcs, 'make_output': mout[-800:], 'missing_objects': missing, 'stray_entries': stray,
                             'link_step_has_all_objects': linked}, classes=tuple(cls)):
                    bad += 1
    rep.stage('system names', chars=len(picks), failures=bad)
    return bad


def stage_system_step_dirs(rep, rng, thorough):
    """Real configure + make on projects whose steps have SEVERAL outputs lying in different directories with related names:
    sibling directories one of whose names is a character-wise prefix of the other (gen / gen #2 / gen2 / gen.d), nested
    directories (gen/sub), the build directory itself, a directory used twice. Every output is created at exactly its path,
    every output directory exists, nothing else appears in the build directory, a second build is a no-op."""
    from . import project
    bad = 0
    bases = ['gen', 'o ut', 'g#n', 'a$b', 'x+y', 'obj', 'a']
    for idx in range(8 if thorough else 3):
        lines, steps = ["project('p')"], []
        for k in range(2):
            base = bases[(idx * 2 + k) % len(bases)] if rng.random() < 0.7 else rng.choice(bases)
            fam = [base, base + ' #2', base + '2', base + '.d', base + ' (x86)', base + '/sub', base + '/' + base + '2', '']
            # always a pair (name, name + more characters) of siblings, in either order, plus further members
            dirs = [base, rng.choice(fam[1:5])]
            if rng.random() < 0.5:
                dirs.reverse()
            for _ in range(rng.randint(0, 2)):
                dirs.insert(rng.randint(0, len(dirs)), rng.choice(fam))
            dirs = ['s%d/' % k + d if d else ('s%d' % k if rng.random() < 0.5 else '') for d in dirs] if k == 1 else dirs
            outs = [(d + '/' if d else '') + 'o%d_%d.txt' % (k, j) for j, d in enumerate(dirs)]
            lines.append('bs%d = build_step(%r, cmd=%r)' % (k, outs, [shtools.ARGVREC] + [x for o in outs for x in ('-o', o)] + ['step%d' % k]))
            steps.append(outs)
        lines.append('default(*(list(bs0) + list(bs1)))')
        script = '\n'.join(lines) + '\n'
        with project.Scratch('c04d') as s:
            project.write_tree(s.src, {'build.bfg': script})
            rc, out = project.configure(s.src, s.build, 'make')
            if rc != 0:
                rep.count('system:step-dirs configure_rejects')
                rep.sample({'configure_failed': out[-300:], 'script': script})
                continue
            before = set(project.snapshot(s.build))
            rcm, recs, mout = project.make(s.build, ['all'], stub_tools=True)
            allowed = set()
            for outs in steps:
                allowed.add(outs[0] + '.stamp')
                for o in outs:
                    allowed.add(o)
                    d = os.path.dirname(o)
                    while d:
                        allowed.update([d, d + '/.dir'])
                        d = os.path.dirname(d)
            after = set(project.snapshot(s.build))
            stray = sorted(x for x in after - before if x not in allowed and not x.startswith('.'))
            missing = sorted(o for outs in steps for o in outs if not os.path.isfile(os.path.join(s.build, o)))
            nodirs = sorted(set(os.path.dirname(o) for outs in steps for o in outs if os.path.dirname(o) and
                                not os.path.isdir(os.path.join(s.build, os.path.dirname(o)))))
            ok = rcm == 0 and not missing and not stray
            rcm2, recs2, mout2 = project.make(s.build, ['all'], stub_tools=True) if ok else (1, [], '')
            ok = ok and rcm2 == 0 and not recs2
            for outs in steps:
                rep.case('sys-step-dirs:%r' % (outs,), True)
            rep.count('system:step-dirs projects')
            if not ok:
                if rep.fail('Make: steps with outputs %r do not create exactly their outputs (make rc %d; directories never created %r, '
                            'missing outputs %r, stray entries %r, second build rc %d ran %d step(s)): %s'
                            % (steps, rcm, nodirs, missing, stray, rcm2, len(recs2), (mout if rcm or missing or stray else mout2)[-300:]),
                            {'kind': 'step-dirs-system', 'script': script, 'steps': steps, 'directories_not_created': nodirs,
                             'missing_outputs': missing, 'stray_entries': stray, 'make_output': mout[-1000:],
                             'makefile_rules': [l for l in (project.read(s.build, 'Makefile') or '').split('\n') if '.dir' in l and ':' in l][:12]}):
                    bad += 1
        rep.traces += 1
    rep.stage('system step directories', projects=8 if thorough else 3, failures=bad)
    return bad


class _Tree:
    """the minimal project interface of c07.SysRun.sync"""

    def __init__(self, files):
        self.files = files

    def render(self):
        return dict(self.files)


def stage_system_depfile_entry(rep, rng, thorough):
    """The object path as the compiler writes it into the depfile and as Make reads it back (`-include <object>.d`): with the
    real gcc / clang, sources whose directory (depth 1 and 2) and file name carry the special character - the object of
    d?r/ma?in.c is prog.int/d?r/ma?in.o - and, in every second project, a program name carrying it as well; each source
    includes a header that build.bfg never names.  History: build (the program prints the header's value), build again
    (nothing compiled), change the header, build (BOTH objects compiled, new value printed), build again (nothing compiled).
    The header prerequisites must have reached exactly the object files the Makefile describes."""
    from . import c07
    bad = 0
    always = [' ', '$', '#']
    others = ['&', '@', '!', '+', '~', '{', '}', '=', '^', ';']
    picks = always + (others if thorough else rng.sample(others, 1))
    ccs = [c for c in ('gcc', 'clang') if shutil.which(c)]
    for k, c in enumerate(picks):
        stem = 'ma' + c + 'in'
        d1, d2 = 'd' + c + 'r', 'e' + c + 'f'
        srcs = [d1 + '/' + stem + '.c', d1 + '/' + d2 + '/' + stem + '.c']
        prog = ('pr' + c + 'og') if (k + rep.seed) % 2 == 1 and c not in '~' else 'prog'
        cc = ccs[(k + rep.seed) % len(ccs)]
        root = common.scratch('c04dep')
        info = {'kind': 'depfile-entry', 'char': c, 'sources': srcs, 'program': prog, 'cc': cc}
        try:
            run_ = c07.SysRun(root, cc)

            def files(v):
                return {'build.bfg': "project('p')\nexecutable(%r, files=%r)\n" % (prog, srcs),
                        'inc/val.h': '#define VAL %d\n' % v,
                        srcs[0]: '#include "../inc/val.h"\n#include <stdio.h>\nint f(void);\n'
                                 'int main(void){ printf("%d %d\\n", VAL, f()); return 0; }\n',
                        srcs[1]: '#include "../../inc/val.h"\nint f(void){ return VAL; }\n'}
            run_.sync(_Tree(files(1)))
            p = run_.configure()
            rep.case('depfile-entry:%s:%s:%s' % (c, prog, cc), True)
            rep.count('system:depfile entry char %r' % c)
            if p.returncode != 0:
                rep.count('system:depfile entry configure_rejects')
                continue

            def out():
                q = subprocess.run([os.path.join(run_.bld, prog)], capture_output=True, text=True, timeout=60)
                return q.stdout.strip() if q.returncode == 0 else 'exit %d' % q.returncode
            why, detail = None, ''
            for step, v, want_compiled in (('first build', 1, set(srcs)), ('second build', 1, set()),
                                           ('build after changing the header', 2, set(srcs)), ('build after that', 2, set())):
                run_.sync(_Tree(files(v)))
                q, compiled, other = run_.make()
                detail = (q.stdout + q.stderr)[-500:]
                if q.returncode != 0:
                    why = '%s: make fails' % step
                elif compiled != want_compiled:
                    why = '%s: make compiled %r, expected %r' % (step, sorted(compiled), sorted(want_compiled))
                elif out() != '%d %d' % (v, v):
                    why = '%s: the program prints %r, the header says %d' % (step, out(), v)
                if why:
                    break
            if why and reference_ok(d1)[0] and reference_ok(stem + '.o')[0]:
                if rep.fail('Make + %s: sources %r, program %r: %s: %s' % (cc, srcs, prog, why, detail[-250:]),
                            dict(info, why=why, make_output=detail)):
                    bad += 1
        finally:
            shutil.rmtree(root, ignore_errors=True)
    rep.stage('system depfile entry', chars=len(picks), failures=bad)
    return bad


def stage_system_location(rep, rng, thorough):
    """The LOCATION of the source and build directories carries the special character (the value of srcdir, which the
    Make backend writes once as `srcdir := ...` and then uses as $(srcdir) in rule headers and inside quotes in recipes):
    plain file names below a directory such as `/.../lo c/src`. Make: everything builds, a second build is a no-op,
    touching a source rebuilds, install + uninstall work; Ninja (text level): every input of the compile edges evaluates
    to the real path of the source."""
    from . import project
    bad = 0
    chars = [' ', '#'] + (['$', ':', "'", '&', '(', ',', '%', '=', ';', '|', '*', '?', '[', '"', '\t', '@', '+', '{'] if thorough else rng.sample(['$', ':', "'", '&', ','], 1))
    for c in chars:
        root = common.scratch('c04loc')
        try:
            base = os.path.join(root, 'lo' + c + 'c')
            src, bld = os.path.join(base, 'src'), os.path.join(base, 'bld')
            os.makedirs(src)
            tree = {'build.bfg': "project('p')\ninc = header_directory('inc', include='*.h')\n"
                                 "prog = executable('prog', files=['main.c', 'sub/f.c'], includes=[inc])\ninstall(prog, inc)\n",
                    'main.c': '#include "h.h"\nint f(void);\nint main(void){return f();}\n', 'sub/f.c': 'int f(void){return 0;}\n',
                    'inc/h.h': '/* h */\n'}
            project.write_tree(src, tree)
            rep.case('loc:' + c, True)
            rep.count('system:location char %r' % c)
            # ---- Ninja, text level
            bn = bld + '_n'
            rc, out = project.configure(src, bn, 'ninja')
            if rc == 0:
                try:
                    nin = ninjaparse.parse(project.read(bn, 'build.ninja'))
                    for o, f in (('prog.int/main.o', 'main.c'), ('prog.int/sub/f.o', 'sub/f.c')):
                        e = nin.edge_for(o)
                        if e is None or e['inputs'] != [os.path.join(src, f)]:
                            bad += rep.fail('Ninja: with the source directory at %r the compile edge of %s has inputs %r' % (src, o, e and e['inputs']),
                                            {'kind': 'location', 'backend': 'ninja', 'srcdir': src, 'edge': o, 'inputs': e and e['inputs']})
                except ninjaparse.NinjaError as ex:
                    bad += rep.fail('Ninja: build.ninja for a source directory at %r cannot be read: %s' % (src, ex),
                                    {'kind': 'location', 'backend': 'ninja', 'srcdir': src}, found_input=False)
            # ---- Make, for real
            rc, out = project.configure(src, bld, 'make', ['--prefix=' + os.path.join(base, 'pfx')])
            if rc != 0:
                rep.count('system:location configure_rejects')
                continue
            why, mout = None, ''
            rcm, recs, mout = project.make(bld, ['all'], stub_tools=True)
            objs = ['prog.int/main.o', 'prog.int/sub/f.o']
            if rcm != 0 or any(not os.path.exists(os.path.join(bld, o)) for o in objs):
                why = 'the project does not build'
            if why is None:
                rcm, recs2, mout = project.make(bld, ['all'], stub_tools=True)
                if rcm != 0 or recs2:
                    why = 'a second build is not a no-op'
            if why is None:
                import time
                time.sleep(0.02)
                os.utime(os.path.join(src, 'sub/f.c'), None)
                rcm, recs3, mout = project.make(bld, ['all'], stub_tools=True)
                if rcm != 0 or not any(r['argv'] and os.path.join(src, 'sub/f.c') in r['argv'] for r in recs3):
                    why = 'touching a source does not recompile it'
            if why is None:
                rcm, _, mout = project.make(bld, ['install'], stub_tools=True)
                if rcm != 0 or not os.path.exists(os.path.join(base, 'pfx', 'include', 'h.h')):
                    why = 'install does not place the header below the prefix'
            if why:
                # the characters of the recorded finding, each with the failure the finding describes for it
                special = c in " \t:'%;|" and location_signature(c, src, why, mout, recs3 if why.startswith('touching') else [])
                bad += rep.fail('Make: with the source directory at %r %s: %s' % (src, why, mout[-250:]),
                                {'kind': 'location', 'backend': 'make', 'srcdir': src, 'why': why, 'make_output': mout[-800:]},
                                classes=('make-srcdir-location-special',) if special else ())
        finally:
            shutil.rmtree(root, ignore_errors=True)
    rep.stage('system location', chars=len(chars), failures=bad)
    return bad


def stage_call_names(rep, rng, names):
    """The name as an argument of $(call RULE,...) (link inputs, multi-output parameters): the real Makefile writer
    (define + Call), the real make, the recorder. The guard of C01_call_arg (no comma outside parentheses, balanced
    parentheses) separates the proved domain from the two open findings; the witnesses of C01_call_arg_comma_refuted /
    C01_call_arg_paren_refuted are replayed first."""
    from . import c01
    from bfg9000.path import Path
    bad = 0
    for n in ['ma,in.o', 'o(ne.o', 'o)ne.o', 'f(a,b).o'] + list(names):
        try:
            if Path(n).suffix != n:
                continue
            p = Path(n)
        except ValueError:
            continue
        got, text, out = c01.run_call_channel([p], ['out'])
        if got is not None and len(got) == 2 and len(got[0]) == 4 and got[0][1] == './' + n:
            got[0][1] = n              # a bare file name in a command is written as ./name: the same file
        rep.case('call:' + n, True)
        rep.count('call:guard_ok' if c01.call_word_ok(n) else 'call:outside_guard')
        want = [['L1', n, '--', 'out'], ['L2', 'all', 'out']]
        if got != want:
            cls = classify_call(n, want, got, text, out) if not c01.call_word_ok(n) else ()
            if rep.fail('Make: name %r passed through $(call RULE,...) is delivered as %r' % (n, got),
                        {'name': n, 'delivered': got, 'makefile': text, 'out': out[-300:]}, classes=tuple(cls)):
                bad += 1
    rep.stage('make call names', names=len(names) + 4, failures=bad)
    return bad


def stage_w_rule(rep, rng, names, n):
    """W tie of whole rules: Makefile._write_rule against MakeHeader.write_rule (target-specific variables, .PHONY,
    header, the three recipe forms) and, for plain names, against the pure header_text the theorem C04_make_rule_rt is
    about; directory sentinels (directory_deps) and the patsubst call of directory_rule."""
    from bfg9000.backends.make.syntax import Makefile, Rule, Variable, Function, Pattern, Silent, Syntax, var
    from bfg9000.backends.make.writer import directory_deps, dir_sentinel
    from bfg9000.path import Path
    from . import c01
    uw, us = gen.uni_tables()
    calls, impl = [], []
    mk = Makefile('build.bfg')
    pool = [x for x in names if '\n' not in x] + ['a$b', '$', 'x y', '~t', 'p|q', 'a:b']

    def pick(k):
        return [rng.choice(pool) for _ in range(k)]
    for i in range(n):
        ts, ds, os_ = pick(rng.randint(1, 3)), pick(rng.choice([0, 1, 2, 3])), pick(rng.choice([0, 0, 1, 2]))
        w = mk.writer(StringIO())
        mk._write_rule(w, Rule(ts, ds, os_, None, {}, False))
        text = w.stream.getvalue()
        assert text.endswith('\n\n')
        calls.append(('make.header_text', [us, ts, ds, os_])); impl.append(text[:-2])
        rep.case('hdr:%r' % ((ts, ds, os_),), True)
        # the general rule
        tv_enc, tv_py = [], {}
        for _ in range(rng.choice([0, 0, 1, 2])):
            nm = rng.choice(['CFLAGS', 'LD FLAGS', 'x'])
            if var(nm) in tv_py:
                continue
            ws = [gen.arg_string(rng, None, maxlen=6) for _ in range(rng.randint(1, 3))]
            tv_enc.append([nm, [[[2, x]] for x in ws]]); tv_py[var(nm)] = ws
        phony = rng.random() < 0.4
        k = rng.random()
        if k < 0.3:
            r_enc, r_py = [], None
        elif k < 0.5:
            v = var(rng.choice(['X', 'RULE', '@']))
            r_enc, r_py = [0, [[[0, v.use().string]]]], v
        else:
            ls_enc, ls_py = [], []
            for _ in range(rng.randint(0, 3)):
                ws = [gen.arg_string(rng, None, maxlen=6) for _ in range(rng.randint(1, 3))]
                sil = rng.random() < 0.4
                ls_enc.append([sil, [[[2, x]] for x in ws]]); ls_py.append(Silent(ws) if sil else ws)
            r_enc, r_py = [1, ls_enc], ls_py
        w = mk.writer(StringIO())
        try:
            mk._write_rule(w, Rule(ts, ds, os_, r_py, tv_py, phony))
            iv = w.stream.getvalue()
        except ValueError:
            iv = None
        enc_names = lambda l: [[[2, x]] for x in l]
        calls.append(('make.write_rule', [uw, us, tv_enc, phony, enc_names(ts), enc_names(ds), enc_names(os_), r_enc])); impl.append(iv)
    # directory sentinels
    for nme in pool:
        for depth in (1, 2):
            try:
                comps = [nme] * depth + ['out.o']
                pth = Path('/'.join(comps))
                if pth.suffix != '/'.join(comps):
                    continue
                sent = directory_deps([pth])
            except ValueError:
                continue
            if len(sent) != 1:
                continue
            calls.append(('make.sentinel_of', [pth.parent().suffix])); impl.append(sent[0].suffix)
    # the sentinels of a WHOLE step (directory_deps on all its outputs): outputs in several directories, among them sibling
    # directories whose names are character-wise prefixes of one another (gen, gen #2, gen2, gen.d), nested ones (gen/sub),
    # the build directory itself and repeated directories. Tie: the model on the list of parent directories; and, with no
    # model involved: every distinct directory other than the build directory has exactly one sentinel, dir/.dir
    bad_dirs = 0
    drng = random.Random('step-dirs:%d' % rep.seed)          # a stream of its own: the later stages keep their draws
    for i in range(max(60, n // 2)):
        base = drng.choice(['gen', 'out', 'a', 'obj'] + [x for x in pool if x and '/' not in x and x not in ('.', '..')])
        fam = [base, base + ' #2', base + '2', base + '.d', base + '/sub', base + '/' + base, base[:-1], base[:1], '', '',
               drng.choice(pool), 'lib']
        dirs = [drng.choice(fam) for _ in range(drng.randint(2, 5))]
        try:
            outs = [Path((d + '/' if d else '') + 'o%d.txt' % j) for j, d in enumerate(dirs)]
            parents = [o.parent().suffix for o in outs]
            if parents != dirs:              # a spelling the path algebra normalises (C12): not a directory NAME
                continue
            sent = [s.suffix for s in directory_deps(outs)]
        except ValueError:
            continue
        calls.append(('make.directory_deps', [parents])); impl.append(sent)
        rep.case('stepdirs:%r' % (parents,), len(set(parents)) > 1)
        rep.count('step-dirs:%d distinct directories%s' % (len(set(parents)), ', one a character-wise prefix of another' if any(
            a != b and a and b.startswith(a) and not b.startswith(a + '/') for a in parents for b in parents) else ''))
        want = sorted(set(d + '/.dir' for d in parents if d))
        if sorted(sent) != want:
            bad_dirs += 1
            if bad_dirs <= 3:
                rep.fail('make.directory_deps: a step with outputs %r has the directory sentinels %r; its output directories need %r '
                         '(missing %r, unexpected or repeated %r)' % ([o.suffix for o in outs], sent, want, sorted(set(want) - set(sent)),
                                                                    sorted(x for x in sent if x not in want or sent.count(x) > 1)),
                         {'kind': 'step-dirs', 'outputs': [o.suffix for o in outs], 'sentinels': sent, 'needed': want})
    rep.stage('directory sentinels of whole steps (model-independent)', failures=bad_dirs)
    w = mk.writer(StringIO())
    import os as _os
    esc = w.write(Function('patsubst', Pattern(_os.path.join('%', dir_sentinel)), Pattern('%'), var('@'), quoted=True), Syntax.shell)
    calls.append(('make.function', [uw, us, 'patsubst', [[[[0, '%'], [2, '/.dir']]], [[[0, '%']]], [[[0, '$@']]]], True, c01.SYN['shell']]))
    impl.append((w.stream.getvalue(), bool(esc)))

    def dec(name, r):
        if name in ('make.header_text', 'make.sentinel_of'):
            return d_str(r)
        if name == 'make.directory_deps':
            return [d_str(x) for x in r]
        if name == 'make.function':
            return d_opt(lambda x: (d_str(x[0]), d_bool(x[1])), r)
        return d_opt(d_str, r)
    return common.compare_model(rep, 'W:_write_rule/header_text/directory sentinel', calls, impl, dec)


def stage_r_header(rep, rng, names, n):
    """R validation of MakeHeader.parse_rule_header and patsubst_dir_text against /usr/bin/make: headers of names inside the
    guard of C04_make_rule_rt are written with header_text, every target logs its own name and the number of words of its
    prerequisite / order-only lists, every prerequisite logs its own name."""
    _, us = gen.uni_tables()
    ok = [x for x, r in zip(names, common.model_batch([('make.name_ok', [us, x]) for x in names])) if d_bool(r[0]) and d_bool(r[1])]
    ok = [x for x in ok if '$' not in x]
    bad = done = 0
    for _ in range(n):
        pickn = rng.sample(ok, min(len(ok), 6))
        ts, rest = pickn[:rng.randint(1, 2)], pickn[2:]
        ds = rest[:rng.randint(0, 2)]
        os_ = [x for x in rest[2:2 + rng.choice([0, 1, 2])] if '|' not in x]      # a bar in an order-only name: C04_make_rule_oo_bar_refuted
        raw = common.model_batch([('make.header_text', [us, ts, ds, os_]), ('make.header_text', [us, ['all'], ts, []])] +
                                 [('make.header_text', [us, [x], [], []]) for x in ds + os_])
        hdr, all_hdr, pre = d_str(raw[0]), d_str(raw[1]), [d_str(x) for x in raw[2:]]
        mp, a1, a2, a3 = common.model_batch([('make.parse_rule_header', [hdr]), ('make.ar_free', [ts]), ('make.ar_free', [ds]),
                                             ('make.ar_free', [os_])])
        mv = d_opt(lambda x: (d_list(d_str, x[0]), d_list(d_str, x[1]), d_list(d_str, x[2])), mp)
        if not (d_bool(a1) and d_bool(a2) and d_bool(a3)):
            # lib(member) / lib(m1 m2): GNU Make reads an archive member whatever is written - outside the format (the guard
            # ar_free of C04_make_rule_rt); the reference reading must reject the header, Make is not consulted
            rep.count('r_header_archive_lists_outside_format')
            if mv is not None:
                rep.fail('R:make_rule_header - header %r: archive-member list %r accepted by the reference reading' % (hdr, (ts, ds, os_)),
                         {'obligation': 'R:make_rule_header', 'header': hdr, 'declared': [ts, ds, os_], 'model': mv}, found_input=False)
            continue
        d = common.scratch('c04h')
        try:
            log = os.path.join(d, 'LOG')
            mk = all_hdr + '\n' + hdr + '\n\t@$(file >>%s,T <$@> $(words $^) $(words $|))\n' % log
            mk += ''.join(h + '\n\t@$(file >>%s,P <$@>)\n' % log for h in pre)
            with open(os.path.join(d, 'Makefile'), 'w') as f:
                f.write(mk)
            p = subprocess.run(['make', '--no-print-directory'], cwd=d, env={'PATH': '/usr/bin:/bin', 'LC_ALL': 'C.UTF-8'},
                               capture_output=True, timeout=20)
            lines = open(log, encoding='utf-8', errors='replace').read().split('\n') if os.path.exists(log) else []
        finally:
            shutil.rmtree(d, ignore_errors=True)
        nw = lambda l: sum(len(x.split()) for x in l)
        want = sorted(['T <%s> %d %d' % (t, nw(ds), nw(os_)) for t in ts] + ['P <%s>' % x for x in ds + os_])
        got = sorted(x for x in lines if x)
        done += 1
        rep.case('rh:' + hdr, True)
        if mv != (ts, ds, os_) or p.returncode != 0 or got != want:
            bad += 1
            rep.fail('R:make_rule_header - header %r: declared %r, model parse %r, make rc %d log %r' % (hdr, (ts, ds, os_), mv, p.returncode, got),
                     {'obligation': 'R:make_rule_header', 'header': hdr, 'declared': [ts, ds, os_], 'model': mv, 'make_log': got,
                      'out': (p.stdout + p.stderr).decode('utf-8', 'replace')[-300:]}, found_input=False)
    # hand-written headers, in particular the bar after the order-only separator: the expected log is computed from the
    # model's parse, the prerequisites get rules written with the reference escaping
    for hdr in ['t: | x\\|y', 't: a\\|b | c', 't: a\\|b c\\ d | e\\|f g', 't u: d', 't:', 't: |', 't: a\\:b | c\\#d',
                '(x) y) foo(1).o: p(q | r)', 'a() b(: (c)']:       # parentheses that do NOT form an archive member / group
        mv = d_opt(lambda x: (d_list(d_str, x[0]), d_list(d_str, x[1]), d_list(d_str, x[2])),
                   common.model_batch([('make.parse_rule_header', [hdr])])[0])
        if mv is None:
            continue
        ts, ds, os_ = mv
        d = common.scratch('c04h')
        try:
            log = os.path.join(d, 'LOG')
            mk = 'all: ' + ' '.join(reference_escape(t, 'dep') for t in ts) + '\n' + hdr + '\n\t@$(file >>%s,T <$@> $(words $^) $(words $|))\n' % log
            mk += ''.join(reference_escape(x, 'target') + ':\n\t@$(file >>%s,P <$@>)\n' % log for x in ds + os_)
            with open(os.path.join(d, 'Makefile'), 'w') as f:
                f.write(mk)
            p = subprocess.run(['make', '--no-print-directory'], cwd=d, env={'PATH': '/usr/bin:/bin', 'LC_ALL': 'C.UTF-8'},
                               capture_output=True, timeout=20)
            lines = open(log, encoding='utf-8', errors='replace').read().split('\n') if os.path.exists(log) else []
        finally:
            shutil.rmtree(d, ignore_errors=True)
        nw = lambda l: sum(len(x.split()) for x in l)
        want = sorted(['T <%s> %d %d' % (t, nw(ds), nw(os_)) for t in ts] + ['P <%s>' % x for x in ds + os_])
        got = sorted(x for x in lines if x)
        done += 1
        rep.case('rh:' + hdr, True)
        if p.returncode != 0 or got != want:
            bad += 1
            rep.fail('R:make_rule_header - header %r: model parse %r, make rc %d log %r' % (hdr, mv, p.returncode, got),
                     {'obligation': 'R:make_rule_header', 'header': hdr, 'model': mv, 'make_log': got,
                      'out': (p.stdout + p.stderr).decode('utf-8', 'replace')[-300:]}, found_input=False)
    # patsubst on sentinels
    cases = [x + '/.dir' for x in ['a', 'a b', 'a  b', 'prog.int/d r/e f', 'x/.dir y', '.dir', 'a/.dirx', 'a/.dir/.dir']] + \
            [x + '/.dir' for x in rng.sample(ok, min(len(ok), 12))]
    cases = [x for x in cases if not any(ch in x for ch in '$#\t') and not x.startswith(('-', ' ')) and not x.endswith(' ')]
    raw = common.model_batch([('make.patsubst_dir', [x]) for x in cases])
    for x, r in zip(cases, raw):
        mv = d_str(r)
        rc, _, out = shtools.make_run('X := $(patsubst %%/.dir,%%,%s)\n$(info [$(X)])\nall:;@:\n' % x.replace('%', '%%') if False else
                                      'override W := %s\n$(info [$(patsubst %%/.dir,%%,$(W))])\nall:;@:\n' % x)
        rv = out[1:out.rindex(']')] if rc == 0 and out.startswith('[') else None
        rep.case('ps:' + x, True)
        if rv != mv:
            bad += 1
            rep.fail('R:make_patsubst - patsubst %%/.dir,%% on %r: model %r, make %r' % (x, mv, rv),
                     {'obligation': 'R:make_patsubst', 'word': x, 'model': mv, 'make': rv}, found_input=False)
    rep.stage('R:rule header / patsubst', headers=done, patsubst=len(cases), disagreements=bad)


def stage_depfile(rep, rng, names, n):
    """builtins/find.py write_depfile (the Makefile fragment .bfg_find_deps): W tie of the text against
    MakeDepfile.depfile_text, and the property on the real code: the fragment written by the real write_depfile for real
    directories with special names is included by a reference Makefile and run by the real make - the output is up to
    date after a build, touching ANY of the walked directories re-runs the step, and a directory that is removed
    afterwards neither stops Make nor goes unnoticed (that is what the second, target-side spelling of every directory is
    for).  Directories inside the guard dir_ok of C04_depfile_rt (representable as target and as prerequisite)."""
    import types, time
    from bfg9000.builtins.find import write_depfile
    from bfg9000.path import Path, Root
    _, us = gen.uni_tables()
    d = common.scratch('c04dep')
    calls, impl = [], []
    bad = 0
    try:
        src, bld = os.path.join(d, 's r'), os.path.join(d, 'bld')
        os.makedirs(src); os.makedirs(bld)
        env = types.SimpleNamespace(base_dirs={Root.srcdir: Path(src, Root.absolute), Root.builddir: Path(bld, Root.absolute)})
        roots = dict(env.base_dirs); roots[Root.builddir] = None
        pool = [x for x in names if not x.startswith('~') and x not in ('.', '..')]
        for k in range(n):
            picked = rng.sample(pool, rng.randint(1, 4))
            if k < 6:
                picked = [['opt|x', 'plain'], ['a b', 'c#d'], ['x:y'], ['p|q', 'r|s', 't'], ['d,e', 'f@g'], ["q'r", 'u"v']][k]
            try:
                dirs = [Path(x, Root.srcdir, directory=True) for x in picked] + \
                       ([Path('gen/' + picked[0], Root.builddir, directory=True)] if rng.random() < 0.4 else [])
            except ValueError:
                continue
            makeify = rng.random() < 0.8 or k < 6
            out = Path('out', Root.builddir)
            write_depfile(env, Path('.bfg_find_deps', Root.builddir), out, dirs, makeify=makeify)
            text = open(os.path.join(bld, '.bfg_find_deps'), encoding='utf-8', errors='surrogateescape').read()
            dstrs = [x.string(roots) for x in dirs]
            calls.append(('make.depfile_text', [us, out.string(roots), dstrs, makeify])); impl.append(text)
            rep.case('depfile:%r:%r' % (picked, makeify), True)
            if not makeify:
                continue
            ok = common.model_batch([('make.name_ok', [us, x]) for x in dstrs] + [('make.ar_free', [dstrs])] +
                                    [('make.ar_free', [[x]]) for x in dstrs])
            nd = len(dstrs)
            if not (all(d_bool(r[0]) and d_bool(r[1]) for r in ok[:nd]) and all(d_bool(r) for r in ok[nd:])) or any('$' in x for x in dstrs):
                rep.count('depfile:directory outside dir_ok (oracle not run)')
                continue
            # ---- the real make on the real fragment
            for x in dirs:
                os.makedirs(x.string(env.base_dirs), exist_ok=True)
            for f in ('out', 'LOG'):
                if os.path.exists(os.path.join(bld, f)):
                    os.remove(os.path.join(bld, f))
            with open(os.path.join(bld, 'Makefile'), 'w') as f:
                f.write('all: out\nout:\n\t@echo RAN >> LOG\n\t@touch out\ninclude .bfg_find_deps\n')

            def mk():
                p = subprocess.run(['make', '--no-print-directory'], cwd=bld, env={'PATH': '/usr/bin:/bin', 'LC_ALL': 'C.UTF-8'},
                                   capture_output=True, timeout=20)
                log = os.path.join(bld, 'LOG')
                ran = open(log).read().count('RAN') if os.path.exists(log) else 0
                if os.path.exists(log):
                    os.remove(log)
                return p.returncode, ran, (p.stdout + p.stderr).decode('utf-8', 'replace')[-300:]
            now = time.time()
            hist = []
            why = None
            for x in dirs:
                os.utime(x.string(env.base_dirs), (now - 1000, now - 1000))
            hist.append(('build',) + mk())
            if hist[-1][:3] != ('build', 0, 1):
                why = 'the first build does not run the step exactly once'
            if why is None:
                os.utime(os.path.join(bld, 'out'), (now - 500, now - 500))
                hist.append(('again',) + mk())
                if hist[-1][:3] != ('again', 0, 0):
                    why = 'the step is not up to date after the build'
            for x in (dirs if why is None else []):
                os.utime(os.path.join(bld, 'out'), (now - 500, now - 500))
                os.utime(x.string(env.base_dirs), (now - 100, now - 100))
                hist.append(('touch %s' % x.string(roots),) + mk())
                os.utime(x.string(env.base_dirs), (now - 1000, now - 1000))
                if hist[-1][1:3] != (0, 1):
                    why = 'a change of the walked directory %r is not noticed' % x.string(roots)
                    break
            if why is None:
                victim = rng.choice(dirs)
                shutil.rmtree(victim.string(env.base_dirs))
                os.utime(os.path.join(bld, 'out'), (now - 500, now - 500))
                hist.append(('remove %s' % victim.string(roots),) + mk())
                if hist[-1][1:3] != (0, 1):
                    why = 'after the walked directory %r was removed make %s' % (
                        victim.string(roots), 'stops' if hist[-1][1] != 0 else 'does not re-run the step')
            rep.count('depfile:make histories')
            if why:
                bad += rep.fail('find_files depfile for directories %r: %s (history %r); fragment %r' % (dstrs, why, [h[:3] for h in hist], text),
                                {'kind': 'depfile', 'directories': dstrs, 'fragment': text, 'history': hist, 'why': why})
            for x in dirs:
                shutil.rmtree(x.string(env.base_dirs), ignore_errors=True)
            shutil.rmtree(os.path.join(bld, 'gen'), ignore_errors=True)
    finally:
        shutil.rmtree(d, ignore_errors=True)
    dis = common.compare_model(rep, 'W:write_depfile', calls, impl, lambda name, r: d_str(r))
    rep.stage('depfile', fragments=len(calls), oracle_failures=bad)
    return dis, bad


def run(rep):
    rng = random.Random(rep.seed)
    thorough = rep.tier == 'thorough'
    rep.proof_stage(coqchk=thorough)
    names = names_for(rng, thorough)
    for n in names[:5]:
        rep.sample({'name': n})
    dis = stage_w(rep, rng, names)
    dis += stage_w_rule(rep, rng, names, 400 if thorough else 120)
    stage_r_header(rep, rng, names, 150 if thorough else 30)
    dis_d, found = stage_depfile(rep, rng, names, 200 if thorough else 40)
    dis += dis_d
    found += stage_make(rep, rng, names)
    found += stage_make_recipe_names(rep, rng, names if thorough else names[::3])
    found += stage_call_names(rep, rng, names if thorough else names[1::3])
    found += stage_ninja(rep, rng, names)
    found += stage_system_names(rep, rng, thorough)
    found += stage_system_step_dirs(rep, random.Random(rep.seed * 131 + 7), thorough)
    found += stage_system_location(rep, rng, thorough)
    found += stage_system_depfile_entry(rep, random.Random(rep.seed * 31 + 5), thorough)
    if dis and not rep.n_with_input:
        i, call, iv, mv = dis[0]
        rep.fail('W:%s - model and implementation disagree (%d cases), e.g. %r: impl %r, model %r' % (
            call[0], len(dis), call[1], iv, mv),
            {'obligation': 'W:' + call[0], 'call': call, 'impl': iv, 'model': mv}, found_input=False)


def replay(rep, path):
    run(rep)
