"""C05 - Distinct inputs never collide on one output path; outputs stay in builddir."""
import ast
import itertools
import json
import os
import posixpath
import random
import re
import shutil
import subprocess

from . import common
from .common import d_str

LEVEL = 'proof'
RULE = ('paths are lists of components drawn from weighted classes (1, 2, 3 characters over [ab1.~: LF -], long names, '
        'dotted names, names with spaces, PAR / PAR+LF / ..+LF, tilde and drive-like names), 1-4 components, roots '
        'builddir/srcdir/absolute, against directories at depth 1-3; pairs are made near-colliding by replacing one '
        'component with another of the same class, by PAR, or by re-rooting under the parent of the directory; raw '
        'names for relname/buildpath additionally contain . .. and empty pieces. A case is non-trivial when some '
        'component has at most 2 characters, a dot, a blank, a tilde, a colon, or equals PAR, or the path leaves the '
        'parent of the directory; distinct by its exact text. The direct oracle enumerates every path with 1-3 '
        '(thorough: 1-4) components over a 9-name alphabet (all 1- and 2-character classes included) per directory. '
        'Scripts failing part-way: a caller script (depth 0-2) wraps submodule() of 1-2 scripts that declare 0-2 targets '
        '(half of them named and sourced like the caller\'s) and then fail in one of six ways, and declares 1-2 targets '
        'afterwards; the reference is the same script without the call. Half of the system-level projects carry such a '
        'component and are configured twice (with / without the call). Object families per language: near-collision families '
        '(equal file names in different directories, dotted stems, a stem extended by a character, sometimes the same stem with '
        'another extension) in C, C++, lex, yacc (stand-in tools harness/stubs) or mixed, given BY NAME to the real executable()/'
        'library builtins, object_files(), generated_sources() (with/without directory=) and generated_source() with explicit '
        'names; every output of every step created (generated sources, headers, objects, linked file) must be inside the build '
        'directory and pairwise distinct under the real Makefile duplicate check whenever the sources differ in directory or stem.')
TRUSTED = ('scripts failing part-way: the reference is a run of the same caller script (same real builtins / same real configure) in '
           'which submodule() is never called; Makefile rules are read with a line-based reader (makefile_rules in harness/c05.py)',
           'Path objects are built from component lists by the real constructor and read back with .suffix/.root; the '
           'path algebra itself (normpath, expanduser, splitdrive) is the subject of C12, here only its use',
           'the pre-fix regular expression (^|/)..(?=/|$) is validated against the model variant fixed=false by '
           'running Python re.sub on it inside the harness (it no longer exists in /repo since 7c2d988)',
           'the keys of the duplicate check are the C04 writers escape_str(target) / escape_str(output) on plain strings '
           '(tied here as W:keys and under C04 as W:escape_str); their injectivity is proved (C05_make_target_key_injective '
           'for names not beginning with a backslash, C05_ninja_output_key_injective for every string) and no longer a '
           'hypothesis: C05_distinct_outputs_accepted_make / _ninja; keys of Path objects with variable bits are covered '
           'by the W:emit tie and the duplicates oracle only')
EXPLANATION = ''

OLD_RE = r'(^|/)..(?=/|$)'
NEW_RE = r'(^|/)\.\.(?=/|$)'

# ----------------------------------------------------------------------------- implementation access
_impl = {}


def impl():
    if _impl:
        return _impl
    from bfg9000.path import Path, Root, InstallRoot, abspath
    from bfg9000.builtins import path as bpath
    _impl.update(Path=Path, Root=Root, InstallRoot=InstallRoot, abspath=abspath, bpath=bpath,
                 code={Root.srcdir: 0, Root.builddir: 1, Root.absolute: 2},
                 root={0: Root.srcdir, 1: Root.builddir, 2: Root.absolute})
    return _impl


def mk_path(rootcode, comps, directory=None):
    I = impl()
    s = '/'.join(comps)
    if rootcode == 2:
        return I['Path']('/' + s, I['Root'].absolute, directory=directory)
    return I['Path'](s, I['root'][rootcode], directory=directory)


def comps_of(q):
    s = q.suffix
    if q.root == impl()['Root'].absolute:
        if not s.startswith('/') or s.startswith('//'):
            return None
        s = s[1:]
    return s.split('/') if s else []


def canon(q):
    c = comps_of(q)
    if c is None:
        return ('other', q.suffix)
    return ('ok', impl()['code'].get(q.root, 9), c)


def build_path(rootcode, comps):
    """Real Path with exactly these components, or None when the constructor re-interprets the text."""
    try:
        p = mk_path(rootcode, comps)
    except ValueError:
        return None
    if impl()['code'].get(p.root) != rootcode or comps_of(p) != list(comps):
        return None
    return p


def dec_res(r):
    if r[0] == 0:
        return ('ok', r[1], [d_str(c) for c in r[2]])
    return 'ValueError' if r[0] == 1 else 'reparsed'


def detect_fixed(rep):
    """Which variant of the within_directory regex does /repo contain?  Probe with one 2-character component."""
    I = impl()
    out = I['bpath'].within_directory(I['Path']('ab/x'), I['Path']('prog.int/')).suffix
    if out == 'prog.int/ab/x':
        return True
    if out == 'prog.int/PAR/x':
        return False
    rep.fail('within_directory(Path("ab/x"), Path("prog.int/")) gives %r: neither regex variant' % out,
             {'path': 'ab/x', 'directory': 'prog.int/', 'got': out}, classes=())
    return True


# ----------------------------------------------------------------------------- generators
POOL = 'ab1.~: \n-'
LONG = ['src', 'main', 'abc', 'lib', 'sub', 'prog.int', 'deep']
DOTTED = ['x.c', 'a.b.c', '.hid', '.a.b', 'a.', 'a..', '..a', '...', 'x..c', 'x.cpp', 'x.c.in', '.c', '..c']
SPACED = ['a b', ' a', 'a ', 'a  b.c']
PARISH = ['PAR', 'PAR\n', '..\n', 'PAR.c', 'PARx', 'par', 'PA']
REPARSE = ['~', '~root', '~x', 'C:', 'C:x', 'a:', '~:']
CLASSES = [('c1', 14), ('c2', 22), ('c3', 12), ('long', 18), ('dotted', 14), ('spaced', 5), ('parish', 8), ('reparse', 7)]


def valid_comp(c):
    return c not in ('', '.', '..') and '/' not in c and '\\' not in c and '\0' not in c


def gen_comp(rng, rep=None, cls=None):
    while True:
        k = cls or rng.choices([c for c, _ in CLASSES], [w for _, w in CLASSES])[0]
        if k in ('c1', 'c2', 'c3'):
            c = ''.join(rng.choice(POOL) for _ in range(int(k[1])))
        else:
            c = rng.choice({'long': LONG, 'dotted': DOTTED, 'spaced': SPACED, 'parish': PARISH, 'reparse': REPARSE}[k])
        if valid_comp(c):
            if rep:
                rep.count('comp:' + k)
            return c


def comp_class(c):
    if len(c) <= 3 and all(ch in POOL for ch in c):
        return 'c%d' % len(c)
    for k, l in (('long', LONG), ('dotted', DOTTED), ('spaced', SPACED), ('parish', PARISH), ('reparse', REPARSE)):
        if c in l:
            return k
    return 'long'


DIRS = [['prog.int'], ['sub', 'prog.int'], ['sub', 'deep', 'libfoo.int'], ['ab', 'x.int'], ['a b.int'], ['sub', 'PAR'],
        ['~x', 'y.int'], ['sub', 'ab']]


def gen_dir(rng):
    r = rng.random()
    if r < 0.8:
        return list(rng.choice(DIRS))
    if r < 0.85:
        return []
    return [gen_comp(rng) for _ in range(rng.randint(1, 3))]


def gen_comps(rng, rep, d):
    n = rng.choice([1, 1, 2, 2, 2, 3, 3, 4])
    comps = [gen_comp(rng, rep) for _ in range(n)]
    r = rng.random()
    if r < 0.45 and len(d) > 1:      # below the parent of the directory (no parent references needed)
        k = rng.randint(1, len(d) - 1)
        comps = d[:k] + comps
    elif r < 0.55:                   # inside the directory itself
        comps = d + comps
    return comps


def mutate(rng, comps, d):
    """A near-colliding sibling of comps."""
    comps = list(comps)
    r = rng.random()
    i = rng.randrange(len(comps))
    if r < 0.45:
        comps[i] = gen_comp(rng, None, comp_class(comps[i]))
    elif r < 0.6:
        comps[i] = 'PAR'
    elif r < 0.7:
        comps = ['PAR'] + comps
    elif r < 0.8 and len(d) > 1:
        comps = d[:-1] + comps
    elif r < 0.9 and len(comps) > 1:
        del comps[i]
    else:
        comps[i] = comps[i] + rng.choice(['\n', '.', 'x', ' '])
    return comps


def nontrivial_comps(comps, d=()):
    if any(len(c) <= 2 or any(ch in c for ch in '. ~:\n') or c == 'PAR' for c in comps):
        return True
    return list(comps[:max(len(d) - 1, 0)]) != list(d[:-1])


# ----------------------------------------------------------------------------- W: within_directory
def impl_within(p, d):
    try:
        return canon(impl()['bpath'].within_directory(p, d))
    except ValueError:
        return 'ValueError'


def stage_w_within(rep, rng, n, fixed, corpus):
    calls, res, skipped = [], [], 0
    cases = [(c['droot'], c['d'], c['proot'], c['p']) for c in corpus if c.get('kind') == 'within']
    for _ in range(n):
        d = gen_dir(rng)
        p1 = gen_comps(rng, rep, d)
        pr = rng.choices([1, 0, 2], [80, 8, 12])[0]
        dr = rng.choices([1, 0], [92, 8])[0]
        cases.append((dr, d, pr, p1))
        cases.append((dr, d, pr, mutate(rng, p1, d)))
    for dr, d, pr, pc in cases:
        dp = build_path(dr, d) if d else mk_path(dr, [])
        pp = build_path(pr, pc)
        if dp is None or pp is None:
            skipped += 1
            continue
        rep.case('w:%d:%s|%d:%s' % (dr, '/'.join(d), pr, '/'.join(pc)), nontrivial_comps(pc, d))
        rep.count('within:root%d' % pr)
        calls.append(('within.within', [fixed, [dr, d], [pr, pc]]))
        res.append(impl_within(pp, dp.as_directory()))
    raw = common.model_batch(calls)
    dis, rp = [], 0
    for c, r, iv in zip(calls, raw, res):
        mv = dec_res(r)
        if mv == 'reparsed':
            rp += 1
            continue
        rep.count('within:' + (mv if isinstance(mv, str) else 'ok'))
        if mv != iv:
            dis.append((c, iv, mv))
    n_vm, ok, detail = common.vm_crosscheck(calls, raw, limit=150)
    rep.stage('W:within_directory', cases=len(calls), disagreements=len(dis), model_says_reparsed=rp,
              unconstructible_skipped=skipped, vm_compute_rechecked=n_vm, vm_agrees=ok, regex_variant_fixed=fixed)
    if not ok:
        rep.fail('extraction glue: ' + detail, {'obligation': 'vm_compute == extracted model', 'detail': detail}, found_input=False)
    for c in calls[:3]:
        rep.sample({'stage': 'W:within', 'call': c[1]})
    return dis


def stage_w_regex(rep, rng, n):
    """Both regular expressions as written (Python re) against rwl fixed=false / fixed=true on joined components."""
    calls, res = [], []
    lists = [['a', '\n'], ['ab', '\n'], ['a', 'b', '\n'], ['ab\n'], ['..\n'], ['..', '..\n'], ['a\n'], ['\n'], ['\n', 'ab'],
             ['a', 'bc'], ['abc', 'de'], ['..', 'ab', '..'], ['a', 'b'], ['x', '\n', 'y'], ['.\n'], ['\n\n'], ['a\nb']]
    for _ in range(n):
        lists.append([gen_comp(rng) if rng.random() < 0.8 else '..' for _ in range(rng.randint(1, 4))])
    for l in lists:
        s = '/'.join(l)
        for fx, rx in ((False, OLD_RE), (True, NEW_RE)):
            calls.append(('within.rwl', [fx, l]))
            res.append(re.sub(rx, r'\1PAR', s).split('/'))
            rep.case('rx:%d:%s' % (fx, s), True)
    dis = common.compare_model(rep, 'W:regex-as-written', calls, res, lambda n_, r: [d_str(c) for c in r], vm_limit=60)
    return dis


# ----------------------------------------------------------------------------- W: names (splitext, default_name, relname, buildpath)
class _Obj:
    def __init__(self, **kw):
        self.__dict__.update(kw)


def gen_raw(rng, rep):
    """Raw name as a script would write it: pieces incl. '.', '..' and empty ones."""
    n = rng.randint(1, 5)
    out = []
    for _ in range(n):
        r = rng.random()
        if r < 0.25:
            out.append('..')
        elif r < 0.33:
            out.append('.')
        elif r < 0.38:
            out.append('')
        else:
            out.append(gen_comp(rng, rep, rng.choice(['c1', 'c2', 'c3', 'long', 'dotted', 'spaced', 'parish'])))
    return out


def plain_head(raw):
    """The harness keeps to raw strings whose text the parser does not re-interpret (expanduser, splitdrive, UNC)."""
    s = '/'.join(raw)
    return not s.startswith('~') and s[1:2] != ':' and '\\' not in s and not s.startswith('//')


def lex_transpiler(ctx):
    """the real LexCompiler of the context's environment (lex / flex, else the stand-in harness/stubs/lex); None if there is none"""
    if not (shutil.which('lex') or shutil.which('flex')):
        ctx.env.variables['LEX'] = os.path.join(common.VERIF, 'harness', 'stubs', 'lex')
    try:
        return ctx.env.builder('lex').transpiler
    except Exception:
        return None


def stage_w_names(rep, rng, n, rctx):
    from bfg9000.tools.cc.compiler import CcCompiler
    I = impl()
    lexc = lex_transpiler(rctx)
    calls, res = [], []
    for b in DOTTED + PARISH + SPACED + ['a', 'ab', 'a.b', '.', '..', '', 'a.b.', '.a.', '..a.b', '....c', 'x.\n', 'x.c\n']:
        calls.append(('within.splitext', [b])); res.append(tuple(posixpath.splitext(b)))
    for _ in range(n):
        b = ''.join(rng.choice('ab..x c') for _ in range(rng.randint(0, 6)))
        calls.append(('within.splitext', [b])); res.append(tuple(posixpath.splitext(b)))
        rep.case('se:' + b, '.' in b)
    # CcCompiler.default_name: a string; compared as the path Path(string) denotes
    for _ in range(n):
        comps = [gen_comp(rng, rep) for _ in range(rng.randint(1, 3))]
        rc = rng.choices([0, 1, 2], [60, 25, 15])[0]
        p = build_path(rc, comps)
        if p is None:
            continue
        name = CcCompiler.default_name(None, _Obj(path=p), None)
        exp_root = 2 if name.startswith('/') else 1
        exp = name[1:].split('/') if exp_root == 2 else (name.split('/') if name else [])
        calls.append(('within.default_name', [[rc, comps]])); res.append(('ok', exp_root, exp))
        rep.case('dn:%d:%s' % (rc, '/'.join(comps)), nontrivial_comps(comps))
        if lexc is not None:
            # LexCompiler.default_name: the name of the translated source, likewise
            name = lexc.default_name(_Obj(path=p), None)
            exp_root = 2 if name.startswith('/') else 1
            exp = name[1:].split('/') if exp_root == 2 else (name.split('/') if name else [])
            calls.append(('within.lex_default_name', [[rc, comps]])); res.append(('ok', exp_root, exp))
            rep.case('ldn:%d:%s' % (rc, '/'.join(comps)), nontrivial_comps(comps))
    # relname / buildpath at submodule depth 0-3
    for _ in range(n):
        depth = rng.choice([0, 1, 1, 2, 3])
        base = [rng.choice(['sub', 'a', 'ab', 'deep', 'a b', 'x.y']) for _ in range(depth)]
        raw = gen_raw(rng, rep)
        ab = rng.random() < 0.1
        if not plain_head(raw) or raw[0] == '':
            continue
        text = ('/' if ab else '') + '/'.join(raw)
        _, ctx = rctx.context(base)
        def inside_builddir(pobj, what):
            # model-independent: an accepted output path rooted at the build directory must denote a location inside
            # it (C05_buildpath_inside / C05_relname_inside say so for the model)
            if pobj.root != I['Root'].builddir:
                return
            real = os.path.normpath(pobj.string(rctx.env.base_dirs))
            if not (real == rctx.builddir or real.startswith(rctx.builddir + os.sep)):
                rep.fail('%s(%r) in a script of %r is accepted and denotes %r, outside the build directory %r' % (
                    what, text, '/'.join(base) or '.', real, rctx.builddir),
                    {'kind': 'output-outside-builddir', 'call': what, 'argument': text, 'submodule': base, 'denotes': real})
        for strict in (True, False):
            try:
                pobj = I['bpath'].buildpath(ctx, text, strict)
                iv = canon(pobj)
                inside_builddir(pobj, 'buildpath[strict=%s]' % strict)
            except ValueError:
                iv = 'ValueError'
            calls.append(('within.buildpath', [strict, base, ab, raw])); res.append(iv)
        try:
            nm = I['bpath'].relname(ctx, text)
            pobj = I['Path'](nm)
            iv = canon(pobj)
            inside_builddir(pobj, 'relname')
        except ValueError:
            iv = 'ValueError'
        calls.append(('within.relname', [base, ab, raw])); res.append(iv)
        rep.case('bp:%s|%s' % ('/'.join(base), text), '..' in raw or '.' in raw or '' in raw)
        rep.count('buildpath:depth%d' % depth)

    def dec(name, r):
        if name == 'within.splitext':
            return (d_str(r[0]), d_str(r[1]))
        return dec_res(r)
    allv = common.compare_model(rep, 'W:names', calls, res, dec, vm_limit=100)
    dis = [(c, iv, mv) for _, c, iv, mv in allv if mv != 'reparsed']
    rep.stage('W:names', disagreements=len(dis), model_says_reparsed_not_compared=len(allv) - len(dis))
    return dis


# ----------------------------------------------------------------------------- real build context (in process)
class Ctx:
    """A real BuildContext on a real Environment whose builddir is a scratch directory."""

    def __init__(self, scratch):
        from bfg9000.environment import Environment
        from bfg9000 import builtins as B
        from bfg9000.builtins import builtin
        from bfg9000.build_inputs import BuildInputs
        I = impl()
        B.init()
        self.builtin, self.BuildInputs = builtin, BuildInputs
        ab = I['abspath']
        self.srcdir = os.path.join(scratch, 'src')
        self.builddir = os.path.join(scratch, 'build')
        os.makedirs(self.srcdir, exist_ok=True)
        os.makedirs(self.builddir, exist_ok=True)
        self.env = Environment(ab(os.path.join(scratch, 'bfgdir')), 'make', None, ab(self.srcdir), ab(self.builddir))
        self.env.finalize({I['InstallRoot'].prefix: ab('/usr/local')}, (False, False), False)

    def context(self, base):
        I = impl()
        build = self.BuildInputs(self.env, I['Path']('/'.join(list(base) + ['build.bfg']), I['Root'].srcdir))
        c = self.builtin.BuildContext(self.env, build, None)
        c.path_stack.append(self.builtin.BuildContext.PathEntry(build.bfgpath))
        return build, c


KINDS = [('executable', ''), ('static_library', 'lib'), ('shared_library', 'lib')]


def stage_w_objects(rep, rng, n, fixed, ctx):
    """The real executable()/static_library()/shared_library()/copy_file() builtins against link_object/copy_output."""
    from bfg9000 import file_types
    calls, res = [], []
    lexc = lex_transpiler(ctx)
    for _ in range(n):
        depth = rng.choice([0, 0, 1, 2, 3])
        base = [rng.choice(['sub', 'ab', 'deep', 'a b']) for _ in range(depth)]
        inter = rng.random() < 0.7
        kind, prefix = rng.choice(KINDS)
        name_raw = rng.choice([['prog'], ['ab'], ['dir', 'prog'], ['..', 'up'], ['a b'], ['b1'], ['x', '..', 'y'], ['.', 'p']])
        build, c = ctx.context(base)
        c['project']('p', intermediate_dirs=inter)
        srcs = []
        for _ in range(rng.randint(1, 4)):
            comps = base[:rng.randint(0, depth)] + [gen_comp(rng, rep) for _ in range(rng.randint(0, 2))] + \
                [gen_comp(rng, rep, rng.choice(['c1', 'c2', 'c3', 'long', 'dotted'])) + rng.choice(['.c', '.c', '.cpp', ''])]
            rc = rng.choices([0, 1, 2], [70, 18, 12])[0]
            p = build_path(rc, comps)
            if p is not None and valid_comp(comps[-1]):
                srcs.append((rc, comps, p))
        if not srcs:
            continue
        try:
            out = c[kind]('/'.join(name_raw), files=[file_types.SourceFile(p, 'c') for _, _, p in srcs])
            objs = [canon(o.path) for o in out.creator.files]
        except ValueError:
            objs = ['ValueError'] * len(srcs)
        for (rc, comps, _), o in zip(srcs, objs):
            calls.append(('within.link_object', [fixed, inter, base, prefix, False, name_raw, [rc, comps]]))
            res.append(o)
            rep.case('obj:%s|%s|%s|%d|%d:%s' % ('/'.join(base), kind, '/'.join(name_raw), inter, rc, '/'.join(comps)),
                     nontrivial_comps(comps))
        rep.count('objects:' + ('intdir' if inter else 'flat'))
        # copy_file without a name, with and without directory
        rc, comps, p = srcs[0]
        dirraw = rng.choice([None, ['out'], ['..', 'o'], ['ab']])
        try:
            kw = {} if dirraw is None else {'directory': '/'.join(dirraw)}
            o = canon(c['copy_file'](file=file_types.File(p), **kw).path)
        except ValueError:
            o = 'ValueError'
        calls.append(('within.copy_via', [fixed, base, dirraw is not None, dirraw or [], [rc, comps]]))
        res.append(o)
        if lexc is not None:
            # generated_source() of a lex source without a name, with and without directory
            try:
                o = canon(c['generated_source'](file=file_types.SourceFile(p, 'lex'), **kw).path)
            except ValueError:
                o = 'ValueError'
            calls.append(('within.lex_via', [fixed, base, dirraw is not None, dirraw or [], [rc, comps]]))
            res.append(o)
            rep.case('lexsrc:%s|%r:%d:%s' % ('/'.join(base), dirraw, rc, '/'.join(comps)), nontrivial_comps(comps))
    raw = common.model_batch(calls)
    dis, rp, errs = [], 0, 0
    # a ValueError anywhere in one target makes the whole builtin call fail: compare per source only when the
    # implementation call as a whole succeeded, otherwise require that the model predicts an error for some source
    for c, r, iv in zip(calls, raw, res):
        mv = dec_res(r)
        if mv == 'reparsed':
            rp += 1
        elif iv == 'ValueError':
            errs += 1
        elif mv != iv:
            dis.append((c, iv, mv))
    n_vm, ok, detail = common.vm_crosscheck(calls, raw, limit=100)
    rep.stage('W:objects(real builtins)', cases=len(calls), disagreements=len(dis), model_says_reparsed=rp,
              impl_value_errors_not_compared=errs, vm_compute_rechecked=n_vm, vm_agrees=ok)
    if not ok:
        rep.fail('extraction glue: ' + detail, {'obligation': 'vm_compute == extracted model', 'detail': detail}, found_input=False)
    return dis


def stage_oracle_objects(rep, rng, n, ctx):
    """Direct check on the real executable()/library builtins (independent of the model): sources of one target that
    differ in a directory component or in the file stem get different object files, all inside the build directory -
    or configuration fails with an error. Source sets are near-collision families: equal stems in different
    directories, a stem and the same stem extended by a dotted part (codec.c / codec.tables.c / codec.tables.v2.c),
    stems differing in one character, equal stems with different extensions (must be rejected or distinct)."""
    from bfg9000 import file_types
    from bfg9000.path import Path, Root
    bad = 0
    stems0 = ['codec', 'a', 'b1', 'x.pb', 'foo.test', 'main']
    for it in range(n):
        inter = rng.random() < 0.6
        kind, prefix = rng.choice(KINDS)
        build, c = ctx.context([])
        c['project']('p', intermediate_dirs=inter)
        st = rng.choice(stems0)
        fam = [('', st + '.c'), ('', st + '.tables.c'), ('', st + '.tables.v2.c'), ('d1', st + '.c'), ('d2', st + '.c'),
               ('d1/d2', st + '.c'), ('', st + 'x.c'), ('d1', st + '.tables.c')]
        k = rng.randint(2, 5)
        chosen = rng.sample(fam, k)
        if rng.random() < 0.3:
            chosen.append(('', st + '.cpp'))          # same stem, other extension: a collision the property wants rejected
        srcs = [Path((d + '/' if d else '') + f, Root.srcdir) for d, f in chosen]
        rep.case('objfam:%s:%d:%r' % (kind, inter, chosen), True)
        try:
            out = c[kind]('prog', files=[file_types.SourceFile(p, 'c') for p in srcs])
            objs = [o.path for o in out.creator.files]
        except ValueError as e:
            keys = [(d, f.rsplit('.', 1)[0]) for d, f in chosen]
            if len(set(keys)) == len(keys):
                bad += 1
                rep.fail('%s(files=%r) is rejected although all sources differ in directory or stem: %s' % (kind, chosen, e),
                         {'kind': 'objects-family', 'target_kind': kind, 'intermediate_dirs': inter, 'sources': chosen, 'error': str(e)})
            continue
        # the emitters' duplicate check runs at rule emission; emulate it with the real Makefile
        from bfg9000.backends.make.syntax import Makefile
        mk = Makefile('build.bfg')
        dup = None
        try:
            for o in objs:
                mk.rule(o, recipe=[['true']])
        except ValueError as e:
            dup = str(e)
        keys = [(d, f.rsplit('.', 1)[0]) for d, f in chosen]
        distinct_inputs = len(set(keys)) == len(keys)
        strs = [(o.root.name, o.suffix) for o in objs]
        outside = [s_ for s_ in strs if s_[0] != 'builddir' or s_[1].startswith('..')]
        if outside:
            bad += 1
            rep.fail('object files outside the build directory: %r for sources %r' % (outside, chosen),
                     {'kind': 'objects-family', 'sources': chosen, 'objects': strs})
        elif distinct_inputs and (len(set(strs)) != len(strs) or dup):
            bad += 1
            rep.fail('%s: sources %r differ in directory or stem but map to objects %r (%s)' % (kind, chosen, strs, dup),
                     {'kind': 'objects-family', 'target_kind': kind, 'intermediate_dirs': inter, 'sources': chosen, 'objects': strs})
        elif not distinct_inputs and len(set(strs)) != len(strs) and not dup:
            bad += 1
            rep.fail('two sources with one stem map to one object and the emitter does not reject it: %r' % (strs,),
                     {'kind': 'objects-family', 'sources': chosen, 'objects': strs})
    rep.stage('oracle:object families', cases=n, failures=bad)
    return bad


# ----------------------------------------------------------------------------- object families in every source language
LANG_EXTS = {'c': ['.c'], 'c++': ['.cpp', '.cc'], 'lex': ['.l'], 'yacc': ['.y']}
TRANSLATED = ('lex', 'yacc')          # languages that are translated to C first (generated_source), then compiled
YACC_DIR_ERROR = 'expected str, bytes or os.PathLike object, not list'
YACC_FWD_ERROR = "'list' object has no attribute 'lang'"


def lang_family_case(rng, langs):
    """One near-collision family of sources (see stage_oracle_objects) in ONE language or MIXED, and the way it reaches the
    builtins: as files= of a target, through object_files(), through generated_sources() (translated languages; with and
    without directory=), or one generated_source() per file with explicit, distinct names."""
    st = rng.choice(['codec', 'a', 'b1', 'x.pb', 'foo.test', 'main', 'scan'])
    fam = [('', st), ('', st + '.tables'), ('', st + '.tables.v2'), ('d1', st), ('d2', st), ('d1/d2', st), ('', st + 'x'),
           ('d1', st + '.tables'), ('d2/d1', st)]
    mode = rng.choice(langs + ['mixed', 'mixed'])
    chosen = []
    for d, stem in rng.sample(fam, rng.randint(2, 5)):
        lang = rng.choice(langs) if mode == 'mixed' else mode
        chosen.append([d, stem + rng.choice(LANG_EXTS[lang]), lang])
    if rng.random() < 0.25:
        d, f, lang = rng.choice(chosen)          # same directory and stem, another extension: a collision (to be rejected)
        others = [e for l in langs for e in LANG_EXTS[l] if not f.endswith(e) and (l in TRANSLATED) == (lang in TRANSLATED)]
        if others:
            e = rng.choice(others)
            chosen.append([d, f.rsplit('.', 1)[0] + e, [l for l in langs if e in LANG_EXTS[l]][0]])
    only_translated = all(l in TRANSLATED for _, _, l in chosen)
    how = rng.choice(['target', 'target', 'target', 'object_files'] + (['generated_sources', 'generated_named'] if only_translated else []))
    kind = rng.choice(KINDS)[0]
    return {'kind': 'lang-family', 'how': how, 'target_kind': kind, 'intermediate_dirs': rng.random() < 0.6,
            'directory': rng.choice([None, None, 'gen', 'out/gen']) if how in ('object_files', 'generated_sources') else None,
            # a yacc source given to a target is mostly translated by an explicit generated_source() call first
            'yacc_direct': rng.random() < 0.15, 'base': rng.choice([[], [], ['sub']]), 'sources': chosen}


def run_lang_family(ctx, case):
    """-> (error or None, [(root, suffix) per output of every step created], duplicate message of the real Makefile or None)"""
    from bfg9000.backends.make.syntax import Makefile
    from bfg9000.iterutils import listify
    build, c = ctx.context(case['base'])
    c['project']('p', intermediate_dirs=case['intermediate_dirs'])
    names = [(d + '/' if d else '') + f for d, f, _ in case['sources']]
    kw = {'directory': case['directory']} if case.get('directory') else {}
    try:
        if case['how'] == 'generated_sources':
            c['generated_sources'](names, **kw)
        elif case['how'] == 'generated_named':
            for i, (nm, (_, _, lang)) in enumerate(zip(names, case['sources'])):
                c['generated_source']('gen/g%d.c' % i, nm)
        else:
            files = []
            for nm, (_, _, lang) in zip(names, case['sources']):
                if lang == 'yacc' and not case['yacc_direct']:
                    files.append(c['generated_source'](file=nm)[0])
                else:
                    files.append(nm)
            if case['how'] == 'object_files':
                c['object_files'](files, **kw)
            else:
                c[case['target_kind']]('prog', files=files)
    except Exception as e:
        return '%s: %s' % (type(e).__name__, e), [], None
    outs = [[o.path for o in listify(e.output)] for e in build.edges()]
    mk, dup = Makefile('build.bfg'), None
    try:
        for o in outs:
            mk.rule(o, recipe=[['true']])
    except ValueError as e:
        dup = str(e)
    return None, [(p.root.name, p.suffix) for o in outs for p in o], dup


def lang_family_classes(case, err):
    """Finding yacc-default-names: a yacc source whose outputs are named by default (translation unit AND header) cannot be
    combined with a directory (directory= or the intermediate directory of a target: Path() of the list of two names) nor be
    forwarded by object_file()/a target (the list of two outputs has no .lang). Exactly these two messages."""
    yacc_default = any(l == 'yacc' for _, _, l in case['sources']) and case['how'] != 'generated_named'
    forwarded = case['how'] in ('target', 'object_files') and case['yacc_direct']
    if not err or not yacc_default:
        return ()
    with_dir = bool(case.get('directory')) or (case['how'] == 'target' and case['intermediate_dirs'] and forwarded)
    if err == 'TypeError: ' + YACC_DIR_ERROR and with_dir and (forwarded or case['how'] == 'generated_sources'):
        return ('yacc-default-names-with-directory',)
    if err == 'AttributeError: ' + YACC_FWD_ERROR and forwarded and not with_dir:
        return ('yacc-default-names-forwarded',)
    return ()


def check_lang_family(rep, ctx, case, what='oracle'):
    err, outs, dup = run_lang_family(ctx, case)
    keys = [(d, f.rsplit('.', 1)[0]) for d, f, _ in case['sources']]
    distinct_inputs = len(set(keys)) == len(keys)
    srcs = [(d + '/' if d else '') + f for d, f, _ in case['sources']]
    desc = '%s%s, intermediate_dirs=%r%s' % (case['how'], ' ' + case['target_kind'] if case['how'] == 'target' else '',
                                             case['intermediate_dirs'], ', directory=%r' % case['directory'] if case.get('directory') else '')
    if err is not None:
        if distinct_inputs:
            return rep.fail('%s: %s of sources %r is rejected although all of them differ in directory or stem: %s' % (what, desc, srcs, err),
                            dict(case, error=err), classes=lang_family_classes(case, err))
        return False
    outside = [o for o in outs if o[0] != 'builddir' or o[1].startswith('..') or o[1].startswith('/')]
    if outside:
        return rep.fail('%s: %s of sources %r: outputs outside the build directory: %r' % (what, desc, srcs, outside),
                        dict(case, outputs=outs))
    if distinct_inputs and (len(set(outs)) != len(outs) or dup):
        return rep.fail('%s: %s: sources %r differ in directory or stem but two steps write one path (%s): %r' % (
            what, desc, srcs, dup, sorted(o[1] for o in outs if outs.count(o) > 1)), dict(case, outputs=outs))
    if not distinct_inputs and len(set(outs)) != len(outs) and not dup:
        return rep.fail('%s: %s: two steps write one path and the emitter does not reject it: %r' % (what, desc, outs),
                        dict(case, outputs=outs))
    return False


def stage_oracle_lang_families(rep, n, ctx, recorded=()):
    """The object-family oracle for EVERY source language the builtins accept and whose tool exists here or can be stood in
    (C, C++, lex and yacc through harness/stubs; one language or mixed in one step), handed to the real builtins as file NAMES
    (so the builtins choose language, translator and compiler), and for the generated-source steps themselves. Observed are
    the outputs of every step the call created (generated sources, headers, objects, the linked file)."""
    rng = random.Random('langfam:%s' % rep.seed)
    stub = os.path.join(common.VERIF, 'harness', 'stubs')
    for var, tool in (('LEX', 'lex'), ('YACC', 'yacc')):
        if not shutil.which(tool) and not shutil.which({'lex': 'flex', 'yacc': 'bison'}[tool]):
            ctx.env.variables[var] = os.path.join(stub, tool)
    langs = []
    for lang in LANG_EXTS:
        try:
            ctx.env.builder(lang)
            langs.append(lang)
        except Exception as e:
            rep.count('langfam:language %s not available: %s' % (lang, type(e).__name__))
    bad = 0
    for case in list(recorded):
        bad += bool(check_lang_family(rep, ctx, case, 'replay'))
    for _ in range(n):
        case = lang_family_case(rng, langs)
        ls = sorted({l for _, _, l in case['sources']})
        rep.case('langfam:%r' % (sorted(case.items()),), True)
        rep.count('langfam:how:' + case['how'])
        rep.count('langfam:languages:' + '+'.join(ls))
        dirs = {}
        for d, f, l in case['sources']:
            dirs.setdefault((f, l), set()).add(d)
        for (f, l), ds in dirs.items():
            if len(ds) > 1:
                rep.count('langfam:equal file names in different directories:' + l)
        bad += bool(check_lang_family(rep, ctx, case))
    rep.stage('oracle:object families per language', cases=n, languages=langs, failures=bad)
    return bad


# ----------------------------------------------------------------------------- scripts that fail part-way
FAIL_HOW =[('raise', "raise RuntimeError('sdk not found')"), ('name', 'undefined_function_of_the_sdk()'), ('zero', 'x = 1 // 0'),
            ('missing-sub', "submodule('does-not-exist')"), ('bad-arg', "executable()"), ('exit', 'exit(3)')]
CATCH_HOW = ['except Exception:\n    pass', 'except Exception as e:\n    info("disabled: " + str(e))',
             'except (RuntimeError, NameError, ZeroDivisionError, TypeError, OSError, ValueError, Exception):\n    pass']


def failing_script(rng, declared, never):
    """A build script that declares some targets and then fails; -> (text, how)"""
    how, stmt = rng.choice(FAIL_HOW)
    lines = ['%s(%r, files=%r)' % (k, n, f) for k, n, f in declared]
    lines.append(stmt)
    lines += ['%s(%r, files=%r)' % (k, n, f) for k, n, f in never]
    return '\n'.join(lines) + '\n', how


def stage_oracle_failed_scripts(rep, rng, n, ctx, recorded=()):
    """Direct check on the real builtins: a script (top level or itself a submodule, depth 0-2) calls submodule() on
    scripts that fail part-way - after declaring 0-2 targets, possibly of the same name and from equally named sources as
    the caller's own - catches the error and goes on. Every target the caller declares afterwards must have exactly the
    output, object and source paths it has in a run of the same script in which submodule() was never called
    (model-independent: the second run is the reference), the script is back in its own directory (context path, relpath,
    buildpath, working directory), and no two steps of the whole build share an output path (the emitter's duplicate check
    is run on all edges) - the sources of different scripts are distinct files."""
    from bfg9000.backends.make.syntax import Makefile
    from bfg9000.builtins import path as bp
    bad = 0
    names = ['app', 'util', 'ab', 'b1', 'x.y']
    subnames = ['plugin', 'opt', 'ab', 'app', 'a b', 'sub']

    def tgt():
        kind = rng.choice(['executable', 'executable', 'static_library', 'shared_library'])
        stem = rng.choice(names)
        files = list(dict.fromkeys([stem + '.c'] + [rng.choice(['', 'd/', 'ab/']) + rng.choice(names) + '.c'
                                                    for _ in range(rng.randint(0, 2))]))
        return (kind, stem, files)

    def declare(c, t):
        out = c[t[0]](t[1], files=list(t[2]))
        if isinstance(out, (list, tuple)):
            out = out[0]
        return {'output': canon(out.path), 'objects': [canon(o.path) for o in out.creator.files],
                'sources': [canon(o.creator.file.path) for o in out.creator.files]}

    def where(c):
        return {'script': canon(c.path), 'relpath': canon(c['relpath']('x/y.c')), 'buildpath': canon(bp.buildpath(c, 'x/y.o')),
                'stack_depth': len(c.path_stack)}

    for case in recorded:
        case = dict(case, before=[tuple(t) for t in case['before']], after=[tuple(t) for t in case['after']],
                    subs=[dict(sb, declared=[tuple(t) for t in sb['declared']]) for sb in case['subs']])
        rep.case('failsub:' + json.dumps(case, sort_keys=True), True)
        bad += run_failed_script_case(rep, ctx, case, declare, where, Makefile)
    for it in range(n):
        if bad >= 12:
            break                         # enough failing inputs reported
        depth = rng.choice([0, 0, 1, 2])
        base = [rng.choice(['sub', 'ab', 'deep', 'a b']) for _ in range(depth)]
        inter = rng.random() < 0.7
        before = [tgt() for _ in range(rng.choice([0, 0, 1]))]
        after = [tgt() for _ in range(rng.choice([1, 1, 2]))]
        used = set(t[1] for t in before)
        after = [t for t in after if not (t[1] in used or used.add(t[1]))] or [('executable', 'late', ['late.c', 'd/app.c'])]
        subs = []
        for sub in rng.sample(subnames, rng.choice([1, 1, 2])):
            declared = []
            for _ in range(rng.choice([0, 1, 1, 2])):
                declared.append(rng.choice(after) if rng.random() < 0.5 else tgt())     # often the caller's own name and sources
            seen = set()
            declared = [t for t in declared if not (t[1] in seen or seen.add(t[1]))]
            text, how = failing_script(rng, declared, [tgt()])
            fails = rng.random() < 0.8
            if not fails:
                text, how = '\n'.join('%s(%r, files=%r)' % t for t in declared) + '\n', 'succeeds'
            # a failing script may itself have called a script that succeeded or failed before
            subs.append({'dir': sub, 'text': text, 'how': how, 'declared': declared})
        case = {'kind': 'failed-script', 'base': base, 'intermediate_dirs': inter, 'before': before, 'after': after, 'subs': subs}
        rep.case('failsub:' + json.dumps(case, sort_keys=True), True)
        rep.count('failed-script:depth%d' % depth)
        for sb in subs:
            rep.count('failed-script:' + sb['how'])
        bad += run_failed_script_case(rep, ctx, case, declare, where, Makefile)
    rep.stage('oracle:scripts failing part-way', cases=n, failures=bad)
    return bad


def run_failed_script_case(rep, ctx, case, declare=None, where=None, Makefile=None):
    base = case['base']
    cwd0 = os.getcwd()
    sdir = os.path.join(ctx.srcdir, *base)
    made = []
    problems = []
    try:
        for sb in case['subs']:
            d = os.path.join(sdir, sb['dir'])
            os.makedirs(d, exist_ok=True)
            made.append(d)
            open(os.path.join(d, 'build.bfg'), 'w').write(sb['text'])
        runs = {}
        for variant in ('with', 'without'):
            build, c = ctx.context(base)
            c['project']('p', intermediate_dirs=case['intermediate_dirs'])
            res = {'before': [declare(c, t) for t in case['before']], 'caught': []}
            res['where0'] = where(c)
            if variant == 'with':
                for sb in case['subs']:
                    try:
                        c['submodule'](sb['dir'])
                        res['caught'].append(None)
                    except Exception as e:
                        res['caught'].append(type(e).__name__)
                    if os.getcwd() != cwd0:
                        problems.append('after submodule(%r) the working directory is %r' % (sb['dir'], os.getcwd()))
                        os.chdir(cwd0)
            res['where1'] = where(c)
            try:
                res['after'] = [declare(c, t) for t in case['after']]
                res['error'] = None
            except ValueError as e:
                res['after'], res['error'] = None, str(e)
            # the emitters' duplicate check runs at rule emission; emulate it with the real Makefile on every edge
            mk = Makefile('build.bfg')
            res['dup'] = None
            try:
                for e in build.edges():
                    outs = [o.path for o in e.output]
                    if outs:
                        mk.rule(outs, recipe=[['true']])
            except ValueError as e:
                res['dup'] = str(e)
            runs[variant] = res
        a, b = runs['with'], runs['without']
        if b['error'] or b['dup']:
            return 0              # the reference run itself is not a valid project (two targets of one script collide)
        if a['where1'] != a['where0']:
            problems.append('after the caught failure the script is not back in its own directory: %r, before the call %r' % (
                a['where1'], a['where0']))
        if a['error']:
            problems.append('declaring the targets after the caught failure raises %s' % a['error'])
        elif a['after'] != b['after']:
            k = next(i for i in range(len(b['after'])) if a['after'][i] != b['after'][i])
            problems.append('%s(%r, files=%r) declared after the caught failure of submodule(%s) has %r; without the call it has %r' % (
                case['after'][k][0], case['after'][k][1], case['after'][k][2],
                ', '.join(repr(sb['dir']) for sb in case['subs']), a['after'][k], b['after'][k]))
        # distinct inputs: the sub scripts compile their own files (below their own directories), the caller its own
        if a['dup'] and not sub_scripts_collide(case):
            problems.append('two steps write one output although every script compiles its own sources: %s' % a['dup'])
    finally:
        os.chdir(cwd0)
        for d in made:
            shutil.rmtree(d, ignore_errors=True)
    for pr in problems:
        rep.fail('scripts failing part-way: ' + pr, dict(case, problem=pr), classes=())
    return len(problems)


def sub_scripts_collide(case):
    """two sub scripts of one case with one directory never happen (sampled without replacement); a sub script named like
    a directory of the caller's sources (ab/) may legitimately declare the caller's object: (scope, path without extension)
    as in predicted_clash"""
    seen = set()
    inter = case['intermediate_dirs']

    def add(scope, name, files, pre):
        hit = False
        for f in files:
            full = posixpath.normpath('/'.join(pre + [f]))
            key = (posixpath.splitext(full)[0],) + ((tuple(pre), name) if inter else ())
            hit = hit or key in seen
            seen.add(key)
        return hit
    hit = False
    for t in case['before'] + case['after']:
        hit = add(None, t[1], t[2], []) or hit
    for sb in case['subs']:
        for t in sb['declared']:
            hit = add(None, t[1], t[2], [sb['dir']]) or hit
    return hit


# ----------------------------------------------------------------------------- W: duplicate detection of the emitters
def stage_w_emit(rep, rng, n):
    from bfg9000.backends.make import syntax as msyn
    from bfg9000.backends.ninja import syntax as nsyn
    I = impl()
    calls, res = [], []
    names = ['a.o', 'b.o', 'a b.o', 'p.int/a.o', 'p.int/PAR.o', 'x$y', 'ab:c', 'a#b', 'a%b', 'lib.a', 'a\\ b.o']
    for i in range(n):
        steps = [[rng.choice(names) for _ in range(rng.choice([1, 1, 1, 2, 0 if rng.random() < 0.1 else 1]))]
                 for _ in range(rng.randint(1, 6))]
        for mk in (True, False):
            if mk:
                f = msyn.Makefile('build.bfg', False, gnu=True)
                key = f._target_str
            else:
                f = nsyn.NinjaFile('build.bfg')
                key = f._output_str
            keys = [[key(I['Path'](t)) for t in s] for s in steps]
            try:
                for s in steps:
                    ts = [I['Path'](t) for t in s]
                    if mk:
                        f.rule(target=ts)
                    else:
                        f.build(output=ts, rule='phony')
                rules = f._rules if mk else f._builds
                iv = ('ok', [[key(t) for t in (r.targets if mk else r.outputs)] for r in rules])
            except ValueError as e:
                m = re.search(r"^(?:rule|build) for (.*) already exists$", str(e), re.S)
                iv = ('dup', ast.literal_eval(m.group(1))) if m else ('empty',)
            calls.append(('within.emit', [mk, keys])); res.append(iv)
            flat = [t for s in steps for t in s]
            rep.case('emit:%d:%r' % (mk, steps), len(set(flat)) != len(flat))
            rep.count('emit:' + iv[0])

    def dec(name, r):
        if r[0] == 0:
            return ('ok', [[d_str(k) for k in s] for s in r[1]])
        return ('dup', d_str(r[1])) if r[0] == 1 else ('empty',)
    return [(c, iv, mv) for _, c, iv, mv in common.compare_model(rep, 'W:emit(duplicate check)', calls, res, dec, vm_limit=60)]


# ----------------------------------------------------------------------------- direct oracle: within_directory
ALPHABET = ['a', 'b', 'ab', 'cd', 'b1', 'sub', 'abc', 'a.b', 'a b']
ORACLE_DIRS = [['prog.int'], ['sub', 'prog.int'], ['sub', 'ab', 'libx.int']]
CORNERS = [  # (rootcode, comps) families outside the exhaustive alphabet
    (1, ['..\n']), (1, ['PAR\n']), (1, ['ab\n']), (1, ['x', '..\n']), (1, ['x', 'PAR\n']),
    (1, ['sub', '~', 'a']), (1, ['sub', '~root', 'a']), (1, ['sub', 'C:', 'a']), (1, ['sub', 'a:', 'b']),
    (2, ['abs', 'foo']), (2, ['a', 'foo']), (2, ['ab']), (1, ['~x', 'a']),
    (1, ['.a', 'x']), (1, ['a.', 'x']), (1, ['x', '.a']), (1, ['--', 'x']), (1, ['  ', 'x']), (1, ['x', '  ']),
    (1, ['...', 'x']), (1, ['P', 'x']), (1, ['PA', 'x']), (1, ['PARR', 'x']), (1, ['par', 'x']),
]


def predicted_known(d, rc, comps):
    """What the open findings of findings.d/C05.json say within_directory(path, directory d) does for this path:
    (class, ('value', root name, suffix)) or (class, ('raise', message)), or None when no finding is about this input.
      absolute-source-path     an absolute path is returned unchanged;
      reparsed-head-component  the path lies below the directory's parent and the FIRST component of its relative suffix
                               starts with ~ (os.path.expanduser knows the user: the expanded absolute path is the result)
                               or has ':' as second character (exactly 'X:' with more components behind it: the absolute
                               path X:/rest; otherwise ValueError 'relative paths with drives not supported')."""
    import posixpath
    if rc == 2:
        return 'absolute-source-path', ('value', 'absolute', '/' + '/'.join(comps))
    if rc != 1:
        return None
    par = list(d[:-1])
    rel = list(comps[len(par):])
    if list(comps[:len(par)]) != par or not rel:
        return None                       # the relative suffix starts with '..' (or is empty): nothing is re-parsed
    text = '/'.join(rel)
    if text.startswith('~'):
        e = os.path.expanduser(text)
        if e != text and e.startswith('/'):
            return 'reparsed-head-component', ('value', 'absolute', posixpath.normpath(e))
    if text[1:2] == ':':
        if text[2:3] == '/':
            return 'reparsed-head-component', ('value', 'absolute', text[:2] + posixpath.normpath(text[2:]))
        return 'reparsed-head-component', ('raise', 'relative paths with drives not supported')
    return None


def classify_within(d, paths, observed):
    """Finding classes of a failing input. A class is a predicate on the input AND on the failure: it applies only when
    the observed outcome is the one the recorded finding predicts for this input (see predicted_known); any other failure
    on the same input is a different violation.
      d        components of the directory
      paths    [(root code, comps)]: the failing path, or the two paths of a collision
      observed ('raise', message) | ('value', root name, suffix): what within_directory did (for a collision: the common
               result)"""
    cl = set()
    if len(paths) == 1:
        pk = predicted_known(d, *paths[0])
        if pk is not None and pk[1] == observed:
            cl.add(pk[0])
    elif len(paths) == 2 and observed[0] == 'value':
        (r1, c1), (r2, c2) = paths
        # dotdot-newline-stem: X/'..\n' is rewritten to X/'PAR\n' and meets the source X/'PAR\n'
        if (r1 == r2 == 1 and list(c1[:-1]) == list(c2[:-1]) and {c1[-1], c2[-1]} == {'..\n', 'PAR\n'} and
                observed[1] == 'builddir' and observed[2].split('/')[-1] == 'PAR\n'):
            cl.add('dotdot-newline-stem')
        # two paths that the findings above send to one place outside the directory (sub/~/a and sub/~root/a)
        pks = [predicted_known(d, rc, comps) for rc, comps in paths]
        if all(pk is not None and pk[1] == observed for pk in pks):
            cl.update(pk[0] for pk in pks)
    return tuple(sorted(cl))


def check_within_set(rep, d, paths, what):
    """Injectivity + containment of the real within_directory on a set of (root, comps)."""
    I = impl()
    dp = mk_path(1, d).as_directory()
    seen = {}
    fails = 0
    for rc, comps in paths:
        if len(rep.violations) >= 25:
            break                         # enough failing inputs reported
        if 'PAR' in comps:
            continue                      # the reserved name is excluded by the property
        p = build_path(rc, comps)
        if p is None:
            continue
        rep.case('o:%s|%d:%s' % ('/'.join(d), rc, '/'.join(comps)), nontrivial_comps(comps, d))
        try:
            q = I['bpath'].within_directory(p, dp)
        except ValueError as e:
            fails += rep.fail('%s: within_directory(%r, %r) raises %s' % (what, p, dp, e),
                     {'kind': 'within', 'd': d, 'droot': 1, 'p': comps, 'proot': rc, 'error': str(e)},
                     classes=classify_within(d, [(rc, comps)], ('raise', str(e))))
            continue
        qc = comps_of(q)
        inside = (q.root == I['Root'].builddir and qc is not None and qc[:len(d)] == d and
                  all(c not in ('..', '.', '') for c in qc))
        if not inside:
            fails += rep.fail('%s: within_directory(%r, %r) = %r is not inside the directory' % (what, p, dp, q),
                     {'kind': 'within', 'd': d, 'droot': 1, 'p': comps, 'proot': rc, 'got': [q.root.name, q.suffix]},
                     classes=classify_within(d, [(rc, comps)], ('value', q.root.name, q.suffix)))
        key = (q.root.name, q.suffix)
        if key in seen and seen[key] != (rc, comps):
            o = seen[key]
            fails += rep.fail('%s: within_directory maps %r and %r (directory %r) both to %r' % (
                what, '/'.join(o[1]), '/'.join(comps), '/'.join(d), q.suffix),
                {'kind': 'within-pair', 'd': d, 'p1': o[1], 'proot1': o[0], 'p2': comps, 'proot2': rc, 'got': q.suffix},
                classes=classify_within(d, [o, (rc, comps)], ('value', q.root.name, q.suffix)))
        else:
            seen[key] = (rc, comps)
    return fails


def stage_oracle_within(rep, rng, maxlen, nrandom):
    fails = 0
    total = 0
    for d in ORACLE_DIRS:
        paths = [(1, list(t)) for k in range(1, maxlen + 1) for t in itertools.product(ALPHABET, repeat=k)]
        total += len(paths)
        fails += check_within_set(rep, d, paths, 'exhaustive')
        fails += check_within_set(rep, d, [(rc, list(c)) for rc, c in CORNERS], 'corner')
    # random near-colliding families with the full component generator (LF excluded: outside the domain)
    for _ in range(nrandom):
        d = [c for c in gen_dir(rng) if valid_comp(c)] or ['prog.int']
        if build_path(1, d) is None:
            continue
        fam = []
        p = [c for c in gen_comps(rng, rep, d)]
        fam.append(p)
        for _ in range(6):
            fam.append(mutate(rng, rng.choice(fam), d))
        fam = [(1, f) for f in fam if all(valid_comp(c) and '\n' not in c for c in f) and f]
        total += len(fam)
        fails += check_within_set(rep, d, fam, 'random family')
    rep.stage('oracle:within_directory injective+inside', paths=total, alphabet=ALPHABET,
              directories=['/'.join(d) for d in ORACLE_DIRS], max_components=maxlen, failures=fails)
    return fails


# ----------------------------------------------------------------------------- system level: real configure
SYS_NAMES = ['a', 'b', 'ab', 'cd', 'b1', 'b2', 'abc', 'a.b', 'x', 'PAr']
SYS_EXTS = ['.c', '.c', '.c', '.cpp']


def snapshot(root):
    out = {}
    for dp, dns, fns in os.walk(root):
        for fn in fns + dns:
            p = os.path.join(dp, fn)
            st = os.lstat(p)
            out[os.path.relpath(p, root)] = (st.st_size if not os.path.isdir(p) else -1, st.st_mtime_ns, st.st_mode)
    return out


def gen_project(rng):
    """A project description: targets with near-colliding source sets, optional submodule."""
    inter = rng.random() < 0.6
    want_clash = rng.random() < 0.35
    targets = []
    counter = [0]

    def sources(base, k):
        out = []
        stem0 = rng.choice(SYS_NAMES)
        for _ in range(k):
            r = rng.random()
            dirs = [rng.choice(SYS_NAMES) for _ in range(rng.choice([0, 0, 1, 1, 2]))]
            stem = stem0 if r < 0.5 else rng.choice(SYS_NAMES)
            ext = rng.choice(SYS_EXTS)
            up = base and rng.random() < 0.25
            rel = (['..', 'other'] if up else []) + dirs + [stem + ext]
            out.append(rel)
        if want_clash and out and rng.random() < 0.7:
            c = list(out[0])
            c[-1] = posixpath.splitext(c[-1])[0] + ('.cpp' if c[-1].endswith('.c') else '.c')
            out.append(c)
        uniq = []
        for o in out:
            if o not in uniq:
                uniq.append(o)
        return uniq
    depth = rng.choice([0, 1, 1, 2])
    base = ['sub', 'deep'][:depth]
    targets.append(([], 'executable', 'prog', sources([], rng.randint(2, 4))))
    if rng.random() < 0.6:
        targets.append(([], 'static_library', 'b', sources([], rng.randint(1, 3))))
    if depth:
        targets.append((base, rng.choice(['static_library', 'shared_library']), 's', sources(base, rng.randint(2, 4))))
    proj = {'intermediate_dirs': inter, 'targets': [list(t) for t in targets], 'depth': depth}
    if rng.random() < 0.5:
        proj['failing'] = gen_failing(rng, proj)
    return proj


def gen_failing(rng, proj):
    """An optional component: a directory whose build.bfg declares 0-2 targets (half of the time one named like a target of
    the calling script, from equally named sources of its own) and then fails; the caller - the top-level script or the
    innermost sub script - wraps submodule() in try/except at position pos among its own target declarations (so that at
    least one of them follows) and goes on."""
    caller = [] if (not proj['depth'] or rng.random() < 0.7) else ['sub', 'deep'][:proj['depth']]
    own = [t for t in proj['targets'] if t[0] == caller]
    declared = []
    for _ in range(rng.choice([0, 1, 1, 2])):
        if rng.random() < 0.5:
            t = rng.choice(own)
            srcs = [x for x in t[3] if x[0] != '..'] or [['x.c']]
            declared.append([t[1], t[2], srcs])
        else:
            declared.append([rng.choice(['executable', 'static_library']), rng.choice(['plug', 'b', 'prog']),
                             [[rng.choice(SYS_NAMES) + '.c'] for _ in range(rng.randint(1, 2))]])
    uniq = []
    for t in declared:
        if t[1] not in [u[1] for u in uniq]:
            uniq.append(t)
    how, stmt = rng.choice(FAIL_HOW)
    return {'caller': caller, 'dir': rng.choice(['plugin', 'opt', 'ab', 'b1']), 'declared': uniq, 'how': how, 'stmt': stmt,
            'catch': rng.choice(CATCH_HOW), 'pos': rng.randrange(len(own))}


def write_project(proj, src, call_failing=True):
    n = 0
    scripts = {}
    fl = proj.get('failing')
    alltargets = list(proj['targets'])
    if fl:
        # the component's files exist whether or not it is called
        alltargets += [[fl['caller'] + [fl['dir']], k, nm, srcs] for k, nm, srcs in fl['declared']]
        fscript = ['%s(%r, files=%r)' % (k, nm, ['/'.join(x) for x in srcs]) for k, nm, srcs in fl['declared']]
        fscript += [fl['stmt'], "executable('never', files=['never.c'])"]
    for base, kind, name, srcs in alltargets:
        lines = scripts.setdefault(tuple(base), [])
        if fl and base == fl['caller'] + [fl['dir']]:
            pass
        else:
            if fl and call_failing and base == fl['caller'] and len(lines) == fl['pos'] and not any(
                    x.startswith('try:') for x in lines):
                lines.append('try:\n    submodule(%r)\n%s' % (fl['dir'], fl['catch']))
            lines.append('%s(%r, files=%r)' % (kind, name, ['/'.join(s) for s in srcs]))
        for s in srcs:
            f = os.path.normpath(os.path.join(src, *base, *s))
            os.makedirs(os.path.dirname(f), exist_ok=True)
            if not os.path.exists(f):
                n += 1
                body = 'int f_%d(void) { return %d; }\n' % (n, n)
                if kind == 'executable' and s == srcs[0]:
                    body += 'int main(void) { return 0; }\n'
                open(f, 'w').write(body)
    depth = proj['depth']
    chain = [['sub', 'deep'][:i] for i in range(depth + 1)]
    for i, b in enumerate(chain):
        lines = scripts.get(tuple(b), [])
        if i == 0:
            lines = ["project('p', intermediate_dirs=%r)" % proj['intermediate_dirs']] + lines
        if i < depth:
            lines.append('submodule(%r)' % chain[i + 1][-1])
        os.makedirs(os.path.join(src, *b), exist_ok=True)
        open(os.path.join(src, *b, 'build.bfg'), 'w').write('\n'.join(lines) + '\n')
    if fl:
        fd = os.path.join(src, *fl['caller'], fl['dir'])
        os.makedirs(fd, exist_ok=True)
        open(os.path.join(fd, 'build.bfg'), 'w').write('\n'.join(fscript) + '\n')


def effective_targets(proj, call_failing=True):
    fl = proj.get('failing')
    out = [list(t) for t in proj['targets']]
    if fl and call_failing:
        out += [[fl['caller'] + [fl['dir']], k, nm, srcs] for k, nm, srcs in fl['declared']]
    return out


MK_RULE = re.compile(r'^((?:[^\s:#=\\]|\\.)+):(?!=)[ \t]*(.*)$')
MK_AGGREGATE = {'all', 'clean', 'install', 'uninstall', 'test', 'tests', 'dist', 'Makefile', '.PHONY', 'regenerate', 'distclean',
                'install-strip'}


def makefile_rules(text):
    """{target: [(rest of the header line, recipe lines)]} of the file-producing rules of a generated Makefile"""
    rules = {}
    cur = None
    phony = set(MK_AGGREGATE)
    for line in text.split('\n'):
        if line.startswith('.PHONY:'):
            phony.update(line[7:].split())
    for line in text.split('\n'):
        if line.startswith('\t'):
            if cur is not None:
                cur[1].append(line)
            continue
        cur = None
        m = MK_RULE.match(line)
        if m and '%' not in m.group(1) and m.group(1) not in phony and not line.startswith(('define ', 'ifeq', 'ifneq', 'else', 'endif')):
            cur = (m.group(2), [])
            rules.setdefault(m.group(1), []).append(cur)
    return rules


def predicted_clash(proj, call_failing=True):
    """Independent of the model: two compile steps whose (scope, path without extension) coincide."""
    seen = set()
    for base, kind, name, srcs in effective_targets(proj, call_failing):
        for s in srcs:
            full = posixpath.normpath('/'.join(list(base) + s))
            key = (posixpath.splitext(full)[0], ) + ((tuple(base), name) if proj['intermediate_dirs'] else ())
            if key in seen:
                return True
            seen.add(key)
    return False


def classify_project(proj):
    return ()


def run_project(rep, proj, do_build):
    d = common.scratch('c05s')
    try:
        src, bld = os.path.join(d, 'src'), os.path.join(d, 'build')
        os.makedirs(src)
        write_project(proj, src)
        before = snapshot(src)
        env = common.impl_env()
        env['HOME'] = d
        p = subprocess.run(['bfg9000', 'configure', bld, '--backend=make', '--no-resolve-packages'], cwd=src, env=env,
                           capture_output=True, text=True, timeout=120)
        out = p.stdout + p.stderr
        clash = predicted_clash(proj)
        nsrc = sum(len(t[3]) for t in effective_targets(proj))
        rep.case('sys:' + json.dumps(proj, sort_keys=True), True)
        rep.count('system:' + ('rejected' if p.returncode else 'configured'))
        problems = []
        if p.returncode != 0:
            if 'already exists' not in out:
                problems.append('configure failed without the duplicate-rule error: ' + out[-300:])
            elif not clash:
                problems.append('configure rejected a project whose sources all differ in a directory component or stem: ' + out[-200:])
        else:
            mk = open(os.path.join(bld, 'Makefile')).read()
            objs = re.findall(r'^(\S+\.o): .*\$\(call RULE_C', mk, re.M)
            if len(objs) != nsrc or len(set(objs)) != len(objs):
                problems.append('%d sources but object rules %r' % (nsrc, objs))
            if clash:
                problems.append('two steps write one object but configure succeeded: %r' % objs)
            for o in objs:
                if o.startswith('/') or o.startswith('..') or o.startswith('$') or '/../' in o:
                    problems.append('object outside the build directory: ' + o)
            fl = proj.get('failing')
            if fl and not clash:
                # reference: the same files, the component never called (model-independent); every file-producing rule of
                # the reference must be in this Makefile unchanged, and whatever is new lies below the component's directory
                rep.count('system:failing-component:' + fl['how'])
                src2, bld2 = os.path.join(d, 'src2'), os.path.join(d, 'build2')
                os.makedirs(src2)
                write_project(proj, src2, call_failing=False)
                p2 = subprocess.run(['bfg9000', 'configure', bld2, '--backend=make', '--no-resolve-packages'], cwd=src2, env=env,
                                    capture_output=True, text=True, timeout=120)
                if p2.returncode != 0:
                    problems.append('the reference project (component not called) does not configure: ' + (p2.stdout + p2.stderr)[-300:])
                else:
                    ra, rb = makefile_rules(mk), makefile_rules(open(os.path.join(bld2, 'Makefile')).read())
                    below = '/'.join(fl['caller'] + [fl['dir']]) + '/'
                    for t in sorted(rb):
                        if t not in ra:
                            problems.append('the rule for %r exists when the failing component %r is not called, but not after its '
                                            'caught failure (rules only then: %r)' % (t, below, sorted(set(ra) - set(rb))[:6]))
                            break
                        if ra[t] != rb[t]:
                            problems.append('the rule for %r differs after the caught failure of %r: %r, without the call %r' % (
                                t, below, ra[t], rb[t]))
                            break
                    extra = [t for t in sorted(set(ra) - set(rb)) if not t.startswith(below)]
                    if extra and not problems:
                        problems.append('after the caught failure of %r there are rules outside its directory that the reference '
                                        'lacks: %r' % (below, extra[:6]))
                shutil.rmtree(src2, ignore_errors=True)
                shutil.rmtree(bld2, ignore_errors=True)
            if do_build and do_build[0] > 0 and not problems:
                do_build[0] -= 1
                b = subprocess.run(['make', '-j4'], cwd=bld, env=env, capture_output=True, text=True, timeout=300)
                if b.returncode != 0:
                    problems.append('make failed: ' + (b.stdout + b.stderr)[-300:])
                missing = [o for o in objs if not os.path.exists(os.path.join(bld, o))]
                if missing:
                    problems.append('objects not created below the build directory: %r' % missing)
                if snapshot(src) != before:
                    problems.append('the source directory changed during make')
                subprocess.run(['make', 'clean'], cwd=bld, env=env, capture_output=True, text=True, timeout=120)
                rep.count('system:built')
        if snapshot(src) != before:
            problems.append('the source directory changed: %r' % sorted(set(snapshot(src).items()) ^ set(before.items()))[:4])
        extra = [x for x in os.listdir(d) if x not in ('src', 'build', 'src2', 'build2')]
        if extra:
            problems.append('files created outside source and build directory: %r' % extra)
        for pr in problems:
            rep.fail('system: ' + pr, {'kind': 'project', 'project': proj}, classes=classify_project(proj))
        return len(problems)
    finally:
        shutil.rmtree(d, ignore_errors=True)


# the DESIGN 7.1 input and its relatives: 2-character stems and directories, equal basenames in different
# directories, a parent reference out of a submodule
CORNER_PROJECT = {'intermediate_dirs': True, 'depth': 1, 'targets': [
    [[], 'executable', 'prog', [['b1.c'], ['b2.c'], ['ab', 'x.c'], ['cd', 'x.c'], ['x.c']]],
    [[], 'static_library', 'b', [['b1.c'], ['cd', 'b2.c'], ['ab', 'cd', 'y.c']]],
    [['sub'], 'shared_library', 's', [['x.c'], ['..', 'other', 'x.c'], ['ab', 'y.c'], ['..', 'ab', 'y.c']]]]}


def stage_system(rep, rng, nproj, nbuild):
    bad = 0
    left = [nbuild]
    for inter in ((True, False) if nproj > 6 else (True, )):
        bad += run_project(rep, dict(CORNER_PROJECT, intermediate_dirs=inter), left)
    for i in range(nproj):
        bad += run_project(rep, gen_project(rng), left)
    rep.stage('system:configure(make backend)', projects=nproj, built_with_make=nbuild, failures=bad)
    return bad


# ----------------------------------------------------------------------------- run
def load_corpus():
    out = []
    d = os.path.join(common.VERIF, 'corpus', 'C05')
    if os.path.isdir(d):
        for fn in sorted(os.listdir(d)):
            if fn.endswith('.json'):
                v = json.load(open(os.path.join(d, fn)))
                out.extend(v if isinstance(v, list) else [v])
    return out


def stage_oracle_duplicates(rep, rng, n):
    """Direct check of the never-silently-overwrite clause on the real emitters: feeding a sequence of rules (single- and
    multi-output) to Makefile.rule / NinjaFile.build raises ValueError exactly when some output path was named before
    (or twice within one rule)."""
    from bfg9000.backends.make.syntax import Makefile
    from bfg9000.backends.ninja.syntax import NinjaFile
    from bfg9000.path import Path
    bad = 0
    names = ['a.o', 'b.o', 'gen/t.h', 'gen/p.c', 'x y', 'out']
    for _ in range(n):
        seq = []
        for _ in range(rng.randint(2, 5)):
            k = rng.choice([1, 1, 2, 3])
            seq.append([rng.choice(names) for _ in range(k)])
        for backend in ('make', 'ninja'):
            bf = Makefile('build.bfg') if backend == 'make' else NinjaFile('build.bfg')
            if backend == 'ninja':
                bf.rule('r', command=['true'])
            seen = set()
            expect_err_at = None
            for i, outs in enumerate(seq):
                for o in outs:
                    if o in seen and expect_err_at is None:
                        expect_err_at = i
                    seen.add(o)
                if expect_err_at is not None:
                    break
            got_err_at = None
            for i, outs in enumerate(seq):
                try:
                    if backend == 'make':
                        bf.rule([Path(o) for o in outs], recipe=[['true']])
                    else:
                        bf.build(output=[Path(o) for o in outs], rule='r')
                except ValueError:
                    got_err_at = i
                    break
            rep.case('dup:%s:%r' % (backend, seq), expect_err_at is not None)
            if got_err_at != expect_err_at:
                bad += 1
                rep.fail('%s emitter: outputs %r - a duplicate output must be rejected at rule %r, the emitter %s' % (
                    backend, seq, expect_err_at, 'raised at rule %r' % got_err_at if got_err_at is not None else 'accepted every rule'),
                    {'kind': 'duplicates', 'backend': backend, 'rules': seq, 'expected_error_at': expect_err_at, 'error_at': got_err_at})
    rep.stage('oracle:duplicate outputs', cases=n * 2, failures=bad)
    return bad


def stage_keys(rep, rng, n, sweep_len):
    """Glue C05 <- C04 (C05_make_target_key, C05_ninja_output_key, C05_*_key_injective): the keys of the duplicate check,
    Makefile._target_str / NinjaFile._output_str, are on plain strings the C04 writers escape_str(target) /
    escape_str(output) of the model; and, directly on the implementation, distinct names get distinct keys (Make: among
    names that do not begin with a backslash)."""
    from . import gen
    from bfg9000.backends.make import syntax as msyn
    from bfg9000.backends.ninja import syntax as nsyn
    _, us = gen.uni_tables()
    mf = msyn.Makefile('build.bfg', False, gnu=True)
    nf = nsyn.NinjaFile('build.bfg')
    alpha = ['a', 'b', '\\', '~', '$', ':', ' ', '#', '%', '|', '*', '?', '[', ']', ';', '=', ',', '\t', '.', '/', '\n']
    names = ['a.o', 'a b.o', 'x$y', 'x$$y', 'ab:c', 'a#b', 'a\\#b', 'a\\\\#b', 'a%b', '~x', '\\~x', 'a~', 'a\\', 'a\\ b', 'p.int/a.o',
             'a$ b', 'a$:b', '$', '$$', ':', ' ', 'a\nb', '']
    for _ in range(n):
        names.append(''.join(rng.choice(alpha) for _ in range(rng.randint(1, 6))))
    names = list(dict.fromkeys(names))

    def key(f, s):
        try:
            return f(s)
        except ValueError:
            return None
    calls, res = [], []
    for s in names:
        calls.append(('make.escape_str', [us, s, 0])); res.append(key(mf._target_str, s))
        calls.append(('ninja.escape_str', [s, 0])); res.append(key(nf._output_str, s))
        rep.case('key:%r' % (s,), any(c in s for c in '\\~$: #%'))
    dis = [(c, iv, mv) for _, c, iv, mv in
           common.compare_model(rep, 'W:keys(_target_str,_output_str)', calls, res, lambda nm, r: common.d_opt(d_str, r))]
    # direct oracle: injectivity of the real keys, exhaustively over short strings of the characters the writers treat
    small = ['a', '\\', '~', '$', ':', ' ', '#']
    bad = 0
    cases = 0
    mseen, nseen = {}, {}
    for ln in range(0, sweep_len + 1):
        for t in itertools.product(small, repeat=ln):
            s = ''.join(t)
            cases += 1
            nk = nf._output_str(s)
            if nseen.setdefault(nk, s) != s:
                bad += 1
                rep.fail('NinjaFile._output_str gives the distinct outputs %r and %r one key %r: the second would be rejected as a '
                         'duplicate' % (nseen[nk], s, nk), {'kind': 'keys', 'backend': 'ninja', 'names': [nseen[nk], s], 'key': nk})
            if s.startswith('\\'):
                continue
            mk = mf._target_str(s)
            if mseen.setdefault(mk, s) != s:
                bad += 1
                rep.fail('Makefile._target_str gives the distinct targets %r and %r (neither begins with a backslash) one key %r: the '
                         'second would be rejected as a duplicate' % (mseen[mk], s, mk),
                         {'kind': 'keys', 'backend': 'make', 'names': [mseen[mk], s], 'key': mk})
    rep.stage('oracle:key injectivity', cases=cases, failures=bad,
              note='all strings of length <= %d over %r; Make only for names not beginning with a backslash '
                   '(C05_distinct_outputs_make_backslash_refuted: ~x and \\~x share the key \\~x)' % (sweep_len, ''.join(small)))
    return dis, bad


def run(rep):
    rng = random.Random(rep.seed)
    thorough = rep.tier == 'thorough'
    rep.proof_stage(coqchk=thorough)
    fixed = detect_fixed(rep)
    rep.stage('regex-variant', fixed=fixed,
              note='fixed=True: (^|/)\\.\\.(?=/|$) (since /repo 7c2d988); False: unescaped dots, every 2-character component becomes PAR')
    corpus = load_corpus()
    n = 6000 if thorough else 900
    dis = []
    dis += [('W:within', ) + x for x in stage_w_within(rep, rng, n, fixed, corpus)]
    dis += [('W:regex', ) + x[1:] for x in stage_w_regex(rep, rng, n // 3)]
    dis += [('W:emit', ) + x for x in stage_w_emit(rep, rng, n // 6)]
    kdis, kbad = stage_keys(rep, rng, n // 3, 6 if thorough else 5)
    dis += [('W:keys', ) + x for x in kdis]
    scratch = common.scratch('c05')
    try:
        ctx = Ctx(scratch)
        dis += [('W:names', ) + x for x in stage_w_names(rep, rng, n // 2, ctx)]
        dis += [('W:objects', ) + x for x in stage_w_objects(rep, rng, n // 3, fixed, ctx)]
        found = stage_oracle_within(rep, rng, 4 if (thorough or dis) else 3, (n // 3) * (10 if dis else 1))
        found += stage_oracle_objects(rep, rng, (600 if thorough else 120) * (5 if dis else 1), ctx)
        found += stage_oracle_failed_scripts(rep, rng, 400 if thorough else 80, ctx)
        found += stage_oracle_lang_families(rep, (1500 if thorough else 250) * (4 if dis else 1), ctx)
    finally:
        shutil.rmtree(scratch, ignore_errors=True)
    found += kbad
    found += stage_oracle_duplicates(rep, rng, 2000 if thorough else 300)
    found += stage_system(rep, rng, 40 if thorough else 6, 6 if thorough else 1)
    if dis and not rep.n_with_input:
        st, call, iv, mv = dis[0]
        rep.fail('%s - model and implementation disagree (%d cases), e.g. %r: impl %r, model %r' % (st, len(dis), call, iv, mv),
                 {'obligation': st, 'call': call, 'impl': iv, 'model': mv, 'n_disagreements': len(dis)}, found_input=False)


def replay(rep, path):
    r = json.load(open(path))
    print(json.dumps(r, indent=1)[:2000])
    if r.get('kind') in ('within', 'within-pair'):
        d = r['d']
        if r['kind'] == 'within':
            paths = [(r['proot'], r['p'])]
        else:
            paths = [(r['proot1'], r['p1']), (r['proot2'], r['p2'])]
        if check_within_set(rep, d, paths, 'replay'):
            return
        print('replayed input no longer fails')
        return
    if r.get('kind') == 'failed-script':
        scratch = common.scratch('c05')
        try:
            ctx = Ctx(scratch)
            case = {k: v for k, v in r.items() if k in ('kind', 'base', 'intermediate_dirs', 'before', 'after', 'subs')}
            if not stage_oracle_failed_scripts(rep, random.Random(0), 0, ctx, [case]):
                print('replayed case no longer fails')
        finally:
            shutil.rmtree(scratch, ignore_errors=True)
        return
    if r.get('kind') == 'lang-family':
        scratch = common.scratch('c05')
        try:
            case = {k: r[k] for k in ('kind', 'how', 'target_kind', 'intermediate_dirs', 'directory', 'yacc_direct', 'base', 'sources')}
            if not stage_oracle_lang_families(rep, 0, Ctx(scratch), [case]):
                print('replayed case no longer fails')
        finally:
            shutil.rmtree(scratch, ignore_errors=True)
        return
    if r.get('kind') == 'project':
        if not run_project(rep, r['project'], [1]):
            print('replayed project no longer fails')
        return
    run(rep)
