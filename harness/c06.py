"""C06 - Make, Ninja and compile_commands.json describe the same build."""
import collections
import json
import os
import random
import re
from . import common, gen, shtools, project, projgen, ninjaparse, c06cdb

LEVEL = 'proof'
RULE = ('generated projects (libraries of all kinds, executables using them, per-target and global options with adversarial '
        'argument strings, yacc sources translated by steps of MIXED shapes - default two outputs, two named outputs, one named output, in '
        'drawn order - with options of their own (stand-in tool harness/stubs/yacc), header files produced by steps and passed through '
        'includes=, one of them at the TOP of the build directory (include directory = the build directory itself), static libraries with forwarded link_options= and several consumers each, include / library directories and string+path words whose names contain # $ blank @ + { ^ (global and per target; source directory named with # and $; such words also in the W tie of the flag lines), copies and links between directories in near-prefix families (data / data2), '
        'command() with environment, multi-output build_step, copy_file, alias, default) under generated configure '
        'options (library mode, prefix, CFLAGS/LDFLAGS/CPPFLAGS/LDLIBS from the environment), plain and odd file names; a case = one '
        'step of one project compared across backends; non-trivial when its argv contains a character outside [A-Za-z0-9_./=-]. '
        'W:emit: random scripts driven through the real builtins in an in-process build context (compile with header objects / pch / '
        'extra_deps / second output, static+shared libraries, executables sharing objects, command, single- and multi-output build_step, '
        'copy_file, alias, test, default, install); the Rule / Build tuples registered by the real Make and Ninja handlers compared with '
        'Graph/Emit.v per edge and per script, and with each other (prerequisite sets, target sets). W:compdb: typed argument lists '
        '(adversarial strings, Paths of 0-3 adversarial components in srcdir / builddir / absolute, jbos mixes of 2-4 bits, literal and '
        'shell_literal objects, empty strs) under five source/build directory pairs through the real CompDB (arguments and command form); '
        'in-process projects (global and per-target compile / link options, include directories in both roots, static + shared libraries, '
        'executables, CFLAGS / LDFLAGS / LDLIBS / CPPFLAGS of the configure environment, Make and Ninja environments) whose compile and '
        'link edges go through the real compdb, Make and Ninja handlers: entries and written command lines compared with Graph/CompDB.v, '
        'registered arguments compared with the entry')
TRUSTED = ('compilation-database model: a rule is abstracted to (tool command, always flags, global / per-target flag and library lists, '
           'input and output paths) read from the same accessors the handlers call (harness/c06cdb.py compile_step / link_step)',
           'Ninja reader model (no ninja binary): harness/ninjaparse.py + Ninja/NinjaRead.v',
           'emitter model: an Edge is abstracted to its attribute dump (harness/c03.py abstract_step); the spelling of .stamp / .dir '
           'names is taken from the real Path.addext / parent / append (C12)',
           'real GNU Make 4.3 and dash execute the Makefile with the compiler/linker/archiver replaced by the argv recorder',
           'documented backend-specific additions removed before comparing: -fdiagnostics-color (Ninja), depfile post-processing (Make)',
           'GNU Make variable-lookup model Make/MakeTVars.v (validated against /usr/bin/make by ./check C01, stage R:make tvars) '
           'and the parser of the variable lines of a written Makefile (harness/c01tv.py)')
NINJA_ONLY_FLAGS = {'-fdiagnostics-color'}
FLAG_WITH_PATH = re.compile(r'(-I|-L|-isystem|--[a-z-]+=)\./')
INTERNAL = re.compile(r'(\.stamp$|/\.dir$|^\.dir$|^PHONY$|\.d$|^Makefile$|^build\.ninja$|^\.bfg_find_deps$)')


def canon(s, subs):
    for a, b in subs:
        s = s.replace(a, b)
    if s.startswith('./'):
        s = s[2:]          # builddir-relative vs ./-prefixed spelling of the same file
    m = FLAG_WITH_PATH.match(s)
    if m and len(s) > m.end():
        s = m.group(1) + s[m.end():]          # the same inside a flag: -I./gen is the directory -Igen (but -I. stays -I.)
    return s


def ninja_records(builddir, text, subs, envnames, include_test=True):
    """Evaluate every non-phony, non-maintenance edge of build.ninja with the reference evaluator, replace the tool
    variables by the recorder and run the command lines with the real dash in builddir."""
    m = ninjaparse.parse(text)
    for tool in ('cc', 'cxx', 'ar', 'ld'):
        if tool in m.vars:
            m.vars[tool] = shtools.ARGVREC
    recs = []
    skipped = []
    for b in m.builds:
        if b['rule'] == 'phony':
            continue
        out0 = b['outputs'][0]
        if b['rule'] in ('regenerate',) or out0 in ('clean', 'install', 'uninstall', 'tests') or out0.startswith('dist') \
                or (out0 == 'test' and not include_test):
            skipped.append(out0)
            continue
        cmd = m.command(out0)
        rc, rr, err = shtools.dash_run(cmd, envnames=envnames, cwd=builddir,
                                       extra_env={'ARGVREC_TOUCH': '', 'PATH': os.path.join(common.VERIF, 'harness', 'stubs') + ':/venv/bin:/usr/bin:/bin'})
        for r in rr:
            recs.append({'argv': [a for a in r['argv'] if a not in NINJA_ONLY_FLAGS], 'cwd': r['cwd'], 'env': r['env'],
                         'edge': out0, 'rc': rc})
        if rc != 0 and not rr:
            recs.append({'argv': None, 'cwd': None, 'env': {}, 'edge': out0, 'rc': rc, 'err': err[-200:]})
    return m, recs


def key_of(rec, subs):
    if rec['argv'] is None:
        return ('FAILED', rec.get('edge'))
    return (tuple(canon(a, subs) for a in rec['argv']), canon(rec['cwd'] or '', subs),
            tuple(sorted((k, canon(v, subs)) for k, v in rec['env'].items())))


def make_rules(text):
    """(plain-name projects only) targets -> (deps, order_only) from the Makefile text."""
    rules = {}
    for line in text.split('\n'):
        if not line or line[0] in '\t#' or ':=' in line or line.startswith(('define', 'endef', 'include', '-include', '.PHONY', '.SUFFIXES', 'MAKEFLAGS')):
            continue
        if ':' not in line:
            continue
        head, _, tail = line.partition(':')
        tail = tail.split(' ; ')[0]
        deps, _, oo = tail.partition('|')
        for t in head.split():
            rules.setdefault(t, (set(), set()))
            rules[t][0].update(deps.split())
            rules[t][1].update(oo.split())
    return rules


COPY_TOOLS = {'CP': shtools.ARGVREC + ' cp -f', 'SYMLINK': shtools.ARGVREC + ' ln -sf', 'HARDLINK': shtools.ARGVREC + ' ln -f'}
# names of the source directory itself: '#' and '$' are written into `srcdir := ...` / `srcdir = ...` (a blank there is the open
# finding C04-make-srcdir-location-special)
SRCDIR_NAMES = ['src', 's#rc', 'sr$c', 's#r$c#']


def special_srcdir(s, idx):
    """move the (still empty) source directory of a Scratch to a name drawn from SRCDIR_NAMES"""
    name = SRCDIR_NAMES[idx % len(SRCDIR_NAMES)]
    if name != 'src':
        new = os.path.join(s.root, name)
        os.rename(s.src, new)
        s.src = new


def one_project(rep, rng, idx, odd_names):
    p = projgen.generate(rng, rep, odd_names=odd_names)
    conf_env = {}
    if rng.random() < 0.6:
        conf_env['CFLAGS'] = '-DENVC="e c" -O1'
    if rng.random() < 0.4:
        conf_env['LDFLAGS'] = '-Wl,--as-needed'
    if rng.random() < 0.3:
        conf_env['CPPFLAGS'] = '-DCPP=1'
    if idx % 2 == 0 or rng.random() < 0.3:
        conf_env['LDLIBS'] = '-lm'
    conf_args = rng.choice([[], ['--disable-shared', '--enable-static'], ['--enable-shared', '--disable-static'], ['--prefix=/opt/my app']])
    # the file-copying tools are configured as `recorder cp -f` etc., so that their steps are recorded like the compiler's
    # by all three emitters (compile_commands.json then lists the recorder as the tool of the entry)
    conf_env.update(COPY_TOOLS)
    bad = 0
    with project.Scratch('c06') as s:
        special_srcdir(s, idx)
        project.write_tree(s.src, p.tree())
        bm, bn = s.build + '_make', s.build + '_ninja'
        rc1, out1 = project.configure(s.src, bm, 'make', conf_args, conf_env)
        rc2, out2 = project.configure(s.src, bn, 'ninja', conf_args, conf_env)
        rep.count('configure_rc_%d_%d' % (rc1, rc2))
        if rc1 != rc2:
            rep.fail('configure succeeds for one backend only (make rc=%d, ninja rc=%d)' % (rc1, rc2),
                     {'script': p.script(), 'conf_args': conf_args, 'conf_env': conf_env, 'make_out': out1[-500:], 'ninja_out': out2[-500:]})
            return 1
        if rc1 != 0:
            rep.count('configure_failed_both')
            rep.sample({'configure_failed': out1[-300:], 'script': p.script()})
            return 0
        subs_m = [(bm, '$B'), (s.src, '$S')]
        subs_n = [(bn, '$B'), (s.src, '$S')]
        sym_explains = lambda make_argv, declared_argv: symlink_explains(make_argv, declared_argv, subs_m)
        envnames = tuple('V%d' % i for i in range(4)) + ('TV',)
        ntext = project.read(bn, 'build.ninja')
        m, nrecs = ninja_records(bn, ntext, subs_n, envnames)
        # make: build every ninja output that is not internal (so both sides run the same steps)
        targets = []
        for b in m.builds:
            if b['rule'] == 'phony' and b['outputs'][0] not in ('all',):
                continue
            o = b['outputs'][0]
            if o in ('clean', 'install', 'uninstall', 'tests', 'build.ninja', 'all') or o.startswith('dist') or INTERNAL.search(o):
                continue
            targets.append(o)
        rcm, mrecs, mout = project.make(bm, targets, stub_tools=True, envnames=envnames)
        if rcm != 0:
            rep.fail('make fails on targets that the Ninja file also defines: %s' % mout[-300:],
                     {'script': p.script(), 'targets': targets, 'make_output': mout[-1500:], 'conf_args': conf_args, 'conf_env': conf_env})
            return 1
        mk = collections.Counter(key_of(r, subs_m) for r in mrecs)
        nk = collections.Counter(key_of(r, subs_n) for r in nrecs)
        for k in mk:
            rep.case('step:%d:%r' % (idx, k[0]), any(re.search(r'[^A-Za-z0-9_./=$-]', a) for a in k[0]))
            if k[0] != 'FAILED' and any(a.endswith('.y') for a in k[0]):
                rep.count('steps:generate (yacc) %s' % ('two outputs, through a stamp' if any(a.startswith('--defines=') for a in k[0]) else 'one output'))
        if mk != nk:
            only_m = list((mk - nk).elements())[:3]
            only_n = list((nk - mk).elements())[:3]
            diff_recs = list((mk - nk).elements()) + list((nk - mk).elements())
            # explained by the finding: every process only Make starts is a process only Ninja starts (same directory and
            # environment) whose per-target option words arrive the way the finding predicts, one to one
            left = [k for k in (nk - mk).elements()]
            semi, used = True, []
            for k in (mk - nk).elements():
                hit = [(x, c) for x in left if k[0] != 'FAILED' and x[0] != 'FAILED' and x[1:] == k[1:]
                       for c, f in (('target-flag-semicolon', semicolon_explains), ('make-symlink-input-double-quoted', sym_explains)) if f(k[0], x[0])]
                if hit:
                    left.remove(hit[0][0])
                    used.append(hit[0][1])
                else:
                    semi = False
            semi = semi and not left
            bad += rep.fail('Make and Ninja start different processes: only make %r ; only ninja %r' % (only_m, only_n),
                            {'script': p.script(), 'conf_args': conf_args, 'conf_env': conf_env, 'only_make': only_m, 'only_ninja': only_n,
                             'files': sorted(p.files)}, classes=tuple(sorted(set(used))) if semi and diff_recs else ())
        # compile_commands.json (written by both configures; compare with what make really ran)
        for bdir, subs in ((bm, subs_m), (bn, subs_n)):
            db = project.compdb(bdir)
            if db is None:
                continue
            have = set(k[0] for k in mk)
            for e in db:
                if os.path.basename(e['arguments'][0]) not in ('cc', 'c++', 'gcc', 'g++', 'ar', 'argvrec', 'yacc', 'bison'):
                    rep.count('compdb:entry_of_unrecorded_tool')
                    continue
                args = tuple(canon(a, subs) for a in e['arguments'][1:] if a not in NINJA_ONLY_FLAGS)
                rep.case('compdb:%d:%r' % (idx, args), True)
                if args not in have:
                    near = [h for h in have if h and h[-1] == args[-1]][:1]
                    bad += rep.fail('compile_commands.json entry differs from the command Make runs: %r vs %r' % (args, near),
                                    {'script': p.script(), 'entry': e, 'make_argv_same_output': near, 'conf_env': conf_env},
                                    classes=('target-flag-semicolon',) if any(semicolon_explains(h, args) for h in have) else
                                    ('make-symlink-input-double-quoted',) if any(sym_explains(h, args) for h in have) else ())
                if canon(e['directory'], subs) != '$B':
                    bad += rep.fail('compile_commands.json directory %r is not the build directory' % e['directory'], {'entry': e})
        # same buildable targets and (plain names) same dependency relation
        if not odd_names:
            mr = make_rules(project.read(bm, 'Makefile'))
            mt = set(t for t in mr if not INTERNAL.search(t) and '%' not in t)
            nt = set(o for b in m.builds for o in b['outputs'] if not INTERNAL.search(o))
            mt_c, nt_c = set(canon(t, [('$(srcdir)', '$S')]) for t in mt), set(canon(t, subs_n) for t in nt)
            if mt_c != nt_c:
                bad += rep.fail('buildable targets differ: only make %r, only ninja %r' % (sorted(mt_c - nt_c)[:5], sorted(nt_c - mt_c)[:5]),
                                {'script': p.script(), 'only_make': sorted(mt_c - nt_c), 'only_ninja': sorted(nt_c - mt_c)})
            for b in m.builds:
                for o in b['outputs']:
                    if INTERNAL.search(o) or o not in mr:
                        continue
                    nd = set(canon(x, subs_n) for x in b['inputs'] + b['implicit'] if not INTERNAL.search(x))
                    md_raw = mr[o][0]
                    # a multi-output make rule goes through a stamp: follow it
                    md = set()
                    for x in md_raw:
                        if x.endswith('.stamp') and x in mr:
                            md.update(mr[x][0])
                        else:
                            md.add(x)
                    md = set(canon(x, [('$(srcdir)', '$S')]) for x in md if not INTERNAL.search(x))
                    rep.case('deps:%d:%s' % (idx, o), False)
                    if md != nd:
                        bad += rep.fail('dependencies of %r differ: make %r ninja %r' % (o, sorted(md), sorted(nd)),
                                        {'script': p.script(), 'output': o, 'make': sorted(md), 'ninja': sorted(nd)})
        rep.sample({'project': idx, 'odd_names': odd_names, 'steps': len(mk), 'conf_args': conf_args, 'conf_env': conf_env,
                    'example_argv': list(next(iter(mk))[0]) if mk else None})
    rep.traces += 1
    return bad


def stage_flags_model(rep, rng, n):
    """W tie of the Coq flag-assembly theorems: the text of GLOBAL_X / target X (Make) and global_x / edge x (Ninja)
    written by the real writers equals the model's write_value / nwrite_each on the same words."""
    from io import StringIO
    from bfg9000.backends.make import syntax as ms
    from bfg9000.backends.ninja import syntax as ns
    from bfg9000.shell import posix as pshell
    uw, us = gen.uni_tables()
    calls, impl = [], []
    for _ in range(n):
        g = [projgen.adversarial_arg(rng, rep) for _ in range(rng.randint(0, 3))]
        t = [projgen.adversarial_arg(rng, rep) for _ in range(rng.randint(0, 3))]
        mk = ms.Makefile('build.bfg')
        gv = mk.variable('GLOBAL_CFLAGS', g, ms.Section.flags, True)
        w = mk.writer(StringIO()); mk._write_variable(w, ms.var('CFLAGS'), [gv] + t)
        impl.append(w.stream.getvalue()[len('CFLAGS := '):-1])
        calls.append(('make.write_value', [uw, us, [[[0, '$(GLOBAL_CFLAGS)']]] + [[[2, x]] for x in t], 3]))
        nf = ns.NinjaFile('build.bfg')
        ngv = nf.variable('global_cflags', g, ns.Section.flags, True)
        w = nf.writer(StringIO(), shell=pshell); nf._write_variable(w, ns.var('cflags'), [ngv] + t, indent=1)
        impl.append(w.stream.getvalue()[len('  cflags = '):-1])
        calls.append(('ninja.write_each', [uw, [[[0, '${global_cflags}']]] + [[[2, x]] for x in t], 2]))
        rep.case('flags:%r:%r' % (g, t), True)
        # the same Make line with words that are NOT plain strings: a path (include / library directory) and a word joined from a
        # string and a path, their components rich in '#', '$' and blanks
        from bfg9000.path import Path, Root
        from bfg9000.safe_str import jbos, literal
        w = mk.writer(StringIO())
        t_enc, t_py = [[[2, x]] for x in t], list(t)
        for _ in range(rng.randint(1, 2)):
            comps = [projgen.flag_dir(rng, rng.choice(['inc', 'lib', 'dd'])) for _ in range(rng.randint(1, 2))]
            pth = Path('/'.join(comps), rng.choice([Root.srcdir, Root.builddir]))
            real = pth.realize(w.path_vars, True)
            bits = []
            for b in (real.bits if isinstance(real, jbos) else [real]):
                b = b.use() if isinstance(b, ms.Variable) else b
                bits.append([isinstance(b, literal), b.string if isinstance(b, literal) else b])
            k = rng.randint(0, len(t_py))
            if rng.random() < 0.5:
                t_enc.insert(k, [[3, bits]]); t_py.insert(k, pth)
            else:
                flag = rng.choice(['-I', '-L', '-DP=', '-DQ#='])
                t_enc.insert(k, [[2, flag], [3, bits]]); t_py.insert(k, jbos(flag, pth))
        mk._write_variable(w, ms.var('CFLAGS'), [gv] + t_py)
        impl.append(w.stream.getvalue()[len('CFLAGS := '):-1])
        calls.append(('make.write_value', [uw, us, [[[0, '$(GLOBAL_CFLAGS)']]] + t_enc, 3]))
        rep.case('flags-typed:%r:%r' % (g, t_enc), True)
    return common.compare_model(rep, 'W:flag variables (make+ninja)', calls, impl, lambda n_, r: common.d_opt(common.d_str, r))


def run(rep):
    rng = random.Random(rep.seed)
    thorough = rep.tier == 'thorough'
    rep.proof_stage(coqchk=thorough)
    dis = stage_flags_model(rep, rng, 400 if thorough else 100)
    found = 0
    # the third emitter: Graph/CompDB.v against the real CompDB / compdb_compile / compdb_link and against the command lines
    # the real Make and Ninja handlers write for the same step; model-independent oracle on the registered arguments
    dis_c, bad_c = c06cdb.run_stages(rep, random.Random(rng.random()), thorough)
    found += bad_c
    # the emitter model of C06_deps / C06_targets against the real Make and Ninja rule handlers (shared with C03), with
    # its model-independent comparison of the prerequisite sets and target sets the two handlers register
    from . import c03
    dis_e, bad_e = c03.stage_w_emit(rep, random.Random(rng.random()), 200 if thorough else 30)
    found += bad_e
    if dis_e and not rep.n_with_input:
        _, bad_e2 = c03.stage_w_emit(rep, random.Random(rng.random()), 2000 if thorough else 300, tag='W:emit widened')
        found += bad_e2
    # the Make side of the flag agreement for a target built on behalf of any dependent (C06_make_flags_any_goal): the lines
    # flags_vars and the rule handlers write against the W model, the theorem's conclusion on the real text, real make
    from . import c01tv
    dis_t, bad_t = c01tv.run_stages(rep, random.Random(rep.seed * 7919 + 18), thorough, r_stage=False)
    found += bad_t
    n = 24 if thorough else 4
    for i in range(n * (3 if dis else 1)):
        found += one_project(rep, rng, i, odd_names=(i % 2 == 1))
    for i in range(8 if thorough else 2):
        found += goal_independence(rep, rng, i)
    rep.stage('projects', configured=rep.traces, failures=found)
    if rep.traces == 0:
        rep.fail('no generated project could be configured: the system-level comparison did not run',
                 {'obligation': 'system-level correspondence', 'samples': rep.samples[:2]}, found_input=False)
    if dis_e and not rep.n_with_input:
        i, call, iv, mv = dis_e[0]
        rep.fail('W:%s - emitter model and real rule handler disagree (%d cases), e.g. %r: impl %r, model %r' % (call[0], len(dis_e), call[1], iv, mv),
                 {'obligation': 'W:' + call[0], 'call': call, 'impl': iv, 'model': mv}, found_input=False)
    if dis_c and not rep.n_with_input:
        i, call, iv, mv = dis_c[0]
        rep.fail('W:%s - compilation-database model and implementation disagree (%d cases), e.g. %r: impl %r, model %r' % (call[0], len(dis_c), call[1], iv, mv),
                 {'obligation': 'W:' + call[0], 'call': call, 'impl': iv, 'model': mv}, found_input=False)
    if dis and not rep.n_with_input:
        i, call, iv, mv = dis[0]
        rep.fail('W:%s - model and implementation disagree (%d cases), e.g. %r: impl %r, model %r' % (call[0], len(dis), call[1], iv, mv),
                 {'obligation': 'W:' + call[0], 'call': call, 'impl': iv, 'model': mv}, found_input=False)
    if dis_t and not rep.n_with_input:
        i, call, iv, mv = dis_t[0]
        rep.fail('W:%s - flag-line model and implementation disagree (%d cases), e.g. %r: impl %r, model %r' % (call[0], len(dis_t), call[1], iv, mv),
                 {'obligation': 'W:' + call[0], 'call': call, 'impl': iv, 'model': mv}, found_input=False)


def replay(rep, path):
    run(rep)


# ----------------------------------------------------------------------------- shared with C01 / C02
def goal_independence(rep, rng, idx):
    """C01/C06 system level, Make only: the process a step starts must not depend on the GOAL Make was asked for.
    GNU Make hands target-specific variables down to the prerequisites that are built on behalf of a target, so a
    library linked as a prerequisite of a program would inherit the program's LDLIBS/LDFLAGS/CFLAGS unless its own
    (pattern-specific) value shields it.  Two fresh build directories of one generated project: in one the binaries are
    requested leaves first (every library is its own goal), in the other dependents first (libraries are built on behalf
    of the programs); the multisets of (argv, cwd, environment) must be equal.  Half of the projects are configured with
    no flag variable in the environment (empty GLOBAL_x), half with all of them."""
    p = projgen.generate(rng, rep, odd_names=False, n_exe=2, n_lib=2, with_commands=False, with_tests=False)
    conf_env = {} if idx % 2 == 0 else {'CFLAGS': '-O1', 'LDFLAGS': '-Wl,--as-needed', 'LDLIBS': '-lm', 'CPPFLAGS': '-DCPP=1'}
    with project.Scratch('goal') as s:
        project.write_tree(s.src, p.tree())
        ba, bb = s.build + '_a', s.build + '_b'
        for b in (ba, bb):
            rc, out = project.configure(s.src, b, 'make', [], conf_env)
            if rc != 0:
                rep.count('goal:configure_failed')
                rep.sample({'configure_failed': out[-300:], 'script': p.script()})
                return 0
        rules = make_rules(project.read(ba, 'Makefile'))
        bins = [t for t in rules if '/' not in t and re.match(r'(lib|prog)', t) and not INTERNAL.search(t)]
        libs = sorted(t for t in bins if t.startswith('lib'))
        exes = sorted(t for t in bins if not t.startswith('lib'))
        if not libs or not exes:
            rep.count('goal:no_library_or_program')
            return 0
        res = []
        for b, goals in ((ba, libs + exes), (bb, exes + libs)):
            rc, recs, out = project.make(b, goals, stub_tools=True)
            if rc != 0:
                rep.fail('make fails on the generated project (goals %r): %s' % (goals, out[-300:]),
                         {'script': p.script(), 'goals': goals, 'make_output': out[-1500:], 'conf_env': conf_env})
                return 1
            res.append(collections.Counter(key_of(r, [(b, '$B'), (s.src, '$S')]) for r in recs))
        for k in res[0]:
            rep.case('goal:%d:%r' % (idx, k[0]), True)
        rep.count('goal:projects')
        if res[0] != res[1]:
            only_a = list((res[0] - res[1]).elements())[:3]
            only_b = list((res[1] - res[0]).elements())[:3]
            return rep.fail('the processes Make starts depend on the goal it was asked for: with goals %r only %r ; with goals %r only %r' % (
                libs + exes, [k[0] for k in only_a], exes + libs, [k[0] for k in only_b]),
                {'script': p.script(), 'files': sorted(p.files), 'conf_env': conf_env, 'goals_a': libs + exes, 'goals_b': exes + libs,
                 'only_with_goals_a': only_a, 'only_with_goals_b': only_b})
    rep.traces += 1
    return 0


def semicolon_predict(own_options):
    """The words the open finding target-flag-semicolon predicts for the per-target option words `own_options` written on one
    target-specific variable line  `tgt: X := w1 w2 ...`  of a Makefile. Makefile._write_variable writes a '#' preceded by k
    backslashes as 2k+1 backslashes and '#' (Make undoes that when it reads a variable value). GNU Make scans the line as a
    rule line first and looks for the first ';' that is preceded by an even number of backslashes: in front of every ';' it
    meets on the way a run of r backslashes becomes r // 2 (one backslash in front of a ; is lost), and everything behind that first
    unquoted ';' stays as written, i.e. keeps the backslashes put in front of '#'. (Observed with GNU Make 4.3; the words are
    inside single quotes for sh, which changes none of these characters.)"""
    def written(s):
        out, k = '', 0
        for c in s:
            if c == '#':
                out += '\\' * (k + 1)
            k = k + 1 if c == '\\' else 0
            out += c
        return out
    res, cut = [], False
    for w in own_options:
        if cut:
            res.append(written(w))
            continue
        cur = ''
        for i, c in enumerate(w):
            if c == ';':
                k = len(cur) - len(cur.rstrip('\\'))
                cur = cur[:len(cur) - k] + '\\' * (k // 2) + ';'
                if k % 2 == 0:
                    cut = True
                    cur += written(w[i + 1:])
                    break
            else:
                cur += c
        res.append(cur)
    return res


def semicolon_explains(make_argv, declared_argv):
    """make_argv is declared_argv except that one contiguous run of words (the per-target options of the step) arrives the
    way semicolon_predict says - and that changes something"""
    m, n = list(make_argv), list(declared_argv)
    if len(m) != len(n) or m == n:
        return False
    diff = [i for i in range(len(m)) if m[i] != n[i]]
    a, b = diff[0], diff[-1]
    return any(n[:i] + semicolon_predict(n[i:b + 1]) + n[b + 1:] == m for i in range(a + 1))


def semicolon_class(backend, own_options, delivered=None, before=()):
    """open finding target-flag-semicolon (see semicolon_predict): the input has a ';' among the per-target words AND the
    delivered argv contains, in order, the words `before` (global options) followed by exactly the words the finding predicts
    for the per-target ones - anything else delivered for such a step is a different violation"""
    if backend != 'make' or delivered is None:
        return ()
    pred = semicolon_predict(list(own_options))
    if pred == list(own_options):
        return ()
    return ('target-flag-semicolon',) if contains_sublist(list(delivered), list(before) + pred) else ()


def contains_sublist(hay, needle):
    """needle occurs in hay as an order-preserving subsequence (semantic flags such as -fPIC may sit in between)"""
    it = iter(hay)
    return all(any(x == y for y in it) for x in needle)


def declared_vs_delivered(rep, rng, idx, backend, odd_names=False):
    """C01/C02 system level: every argument string the generated script declares (global options, per-target
    compile/link options, command words and environment values, build_step words) must be delivered unchanged to the
    started process by the given backend. Returns number of failures reported."""
    p = projgen.generate(rng, rep, odd_names=odd_names)
    bad = 0
    with project.Scratch('sys' + backend) as s:
        special_srcdir(s, idx)
        project.write_tree(s.src, p.tree())
        # the file-copying tools are the recorder (`recorder ln -sf` ...): what each of them is handed is recorded too
        rc, out = project.configure(s.src, s.build, backend, extra_env=COPY_TOOLS)
        if rc != 0:
            rep.count('system:configure_failed')
            rep.sample({'configure_failed': out[-300:], 'script': p.script()})
            return 0
        envnames = tuple('V%d' % i for i in range(4)) + ('TV',)
        if backend == 'make':
            ntext = None
            targets = []
            for st in p.steps:
                if st['kind'] in ('command', 'shell_command'):
                    targets.append(st['name'])
                elif st['kind'] == 'build_step':
                    targets.append(st['outputs'][0])
            if any(st['kind'] in ('test', 'test_driver') for st in p.steps):
                targets.append('test')
            # every program / shared library that links forwarding libraries, in the order of the script, and every copy / link
            targets += [st['out'] for st in p.steps if st['kind'] == 'link' and 'fwd' in st]
            targets += [st['out'] for st in p.steps if st['kind'] == 'copy']
            rcm, recs, mout = project.make(s.build, ['all'] + targets, stub_tools=True, envnames=envnames)
            if rcm != 0:
                rep.fail('%s: make fails on the generated project: %s' % (backend, mout[-300:]),
                         {'script': p.script(), 'make_output': mout[-1500:]})
                return 1
        else:
            m, recs = ninja_records(s.build, project.read(s.build, 'build.ninja'), [], envnames)
        argvs = [r['argv'] for r in recs if r['argv'] is not None]
        for st in p.steps:
            if st['kind'] == 'command':
                want = st['args']
                hit = [r for r in recs if r['argv'] == want]
                rep.case('sys:%s:cmd:%r' % (backend, want), True)
                if not hit:
                    bad += rep.fail('%s backend: command() arguments %r are not delivered unchanged' % (backend, want),
                                    {'script': p.script(), 'declared': want, 'delivered_candidates': [a for a in argvs if a and a[:1] == want[:1]][:3]})
                elif any(r['env'].get(k) != v for r in hit[:1] for k, v in st['env'].items()):
                    bad += rep.fail('%s backend: command() environment %r is delivered as %r' % (backend, st['env'], hit[0]['env']),
                                    {'script': p.script(), 'declared_env': st['env'], 'delivered_env': hit[0]['env']})
            elif st['kind'] == 'shell_command':
                for want in st['procs']:
                    hit = [r for r in recs if r['argv'] == want]
                    rep.case('sys:%s:shcmd:%s:%r:%r' % (backend, st['name'], want, st['env']), True)
                    if not hit:
                        bad += rep.fail('%s backend: process %r of command %s is not started' % (backend, want, st['name']),
                                        {'script': p.script(), 'declared': want, 'delivered': argvs[:20]})
                    elif any(r['env'].get(k) != v for r in hit for k, v in st['env'].items()):
                        bad += rep.fail('%s backend: environment %r of command %s reaches process %r as %r' % (
                            backend, st['env'], st['name'], want, hit[0]['env']),
                            {'script': p.script(), 'declared_env': st['env'], 'process': want, 'delivered_env': [r['env'] for r in hit]})
            elif st['kind'] == 'test':
                hit = [r for r in recs if r['argv'] == st['args']]
                rep.case('sys:%s:test:%r' % (backend, st['args']), True)
                if not hit:
                    bad += rep.fail('%s backend: test() arguments %r are not delivered unchanged' % (backend, st['args']),
                                    {'script': p.script(), 'declared': st['args'], 'candidates': [a for a in argvs if a and a[:1] == ['plaintest']]})
                elif any(hit[0]['env'].get(k) != v for k, v in st['env'].items()):
                    bad += rep.fail('%s backend: test() environment %r is delivered as %r' % (backend, st['env'], hit[0]['env']),
                                    {'script': p.script(), 'declared_env': st['env'], 'delivered_env': hit[0]['env']})
            elif st['kind'] == 'test_driver':
                hit = [a for a in argvs if a and a[:len(st['args'])] == st['args']]
                rep.case('sys:%s:driver:%r' % (backend, st['children']), True)
                ok = bool(hit) and len(hit[0]) == len(st['args']) + len(st['children'])
                got = []
                if ok:
                    for child_line, child in zip(hit[0][len(st['args']):], st['children']):
                        # the driver receives each child's command line as ONE argument, to be run by sh
                        rc_, rr_, _ = shtools.dash_run(child_line)
                        delivered = [rr_[0]['argv0']] + rr_[0]['argv'] if rc_ == 0 and len(rr_) == 1 else None
                        got.append(delivered)
                        if delivered != child:
                            ok = False
                if not ok:
                    bad += rep.fail('%s backend: test_driver children %r reach the driver as %r' % (backend, st['children'], hit[:1]),
                                    {'script': p.script(), 'declared_children': st['children'], 'driver_argv': hit[:1], 'children_after_sh': got})
            elif st['kind'] == 'build_step':
                rep.case('sys:%s:bs:%r' % (backend, st['args']), True)
                if st['args'] not in argvs:
                    bad += rep.fail('%s backend: build_step() arguments %r are not delivered unchanged' % (backend, st['args']),
                                    {'script': p.script(), 'declared': st['args']})
            elif st['kind'] == 'compile':
                src = os.path.join(s.src, st['source'])
                hit = [a for a in argvs if src in a]
                want = p.global_compile + st['options']
                rep.case('sys:%s:cc:%s:%r' % (backend, st['source'], want), bool(want))
                if backend == 'make' and st['owner'] not in ' '.join(str(x) for x in ['prog0']) and not hit:
                    continue        # not part of the default target set that make built
                if hit and not contains_sublist(hit[0], want):
                    bad += rep.fail('%s backend: compile options %r of %s are delivered as %r' % (backend, want, st['source'], hit[0]),
                                    {'script': p.script(), 'declared': want, 'delivered': hit[0]},
                                    classes=semicolon_class(backend, st['options'], hit[0], p.global_compile))
            elif st['kind'] == 'generate':
                # a source translated to C first (yacc): the step's own options reach the translator, whichever target's
                # recipe the backend runs it from
                src = os.path.join(s.src, st['source'])
                hit = [a for a in argvs if src in a]
                rep.case('sys:%s:gen:%s:%r' % (backend, st['source'], st['options']), bool(st['options']))
                rep.count('system:generate step, %d output(s)' % len(st['outputs']))
                rep.count('system:generate step shape=%s, position %d of %d' % (
                    st.get('shape'), [x for x in p.steps if x['kind'] == 'generate'].index(st) + 1, sum(1 for x in p.steps if x['kind'] == 'generate')))
                if not hit or not contains_sublist(hit[0], st['options']):
                    bad += rep.fail('%s backend: options %r of the generated source %s are delivered as %r' % (backend, st['options'], st['source'], hit[:1]),
                                    {'script': p.script(), 'declared': st['options'], 'delivered': hit[:1]}, classes=semicolon_class(backend, st['options'], hit[0] if hit else [], []))
                else:
                    # the whole argument vector of the translator: its options, the header it is told to write (a step with
                    # two outputs), the source, and -o followed by exactly the first declared output - nothing more, nothing
                    # less, whatever other steps of the same tool the project contains and in whichever order
                    spell = lambda a: a[:10] + spell(a[10:]) if a.startswith('--defines=') else a[2:] if a.startswith('./') else a
                    got = [spell(a) for a in hit[0]]
                    tail = [src, '-o', st['outputs'][0]]
                    want = list(st['options']) + (['--defines=' + st['outputs'][1]] if len(st['outputs']) > 1 else []) + tail
                    if len(hit) != 1 or collections.Counter(got) != collections.Counter(want) or got[-3:] != tail:
                        bad += rep.fail('%s backend: the translator of %s (declared outputs %r) is started %d time(s) with %r, the script declares %r' % (
                            backend, st['source'], st['outputs'], len(hit), hit[0], want),
                            {'script': p.script(), 'step': st, 'declared_argv (options in order, then source, -o, first output)': want,
                             'delivered': hit, 'generate_steps_in_script_order': [(x['shape'], x['outputs']) for x in p.steps if x['kind'] == 'generate']})
            elif st['kind'] == 'link' and st.get('options'):
                hit = [a for a in argvs if a and '-o' in a and a[-1].endswith(st['name'])]
                rep.case('sys:%s:ld:%s' % (backend, st['name']), True)
                if hit and not contains_sublist(hit[0], p.global_link + st['options']):
                    bad += rep.fail('%s backend: link options %r of %s are delivered as %r' % (backend, p.global_link + st['options'], st['name'], hit[0]),
                                    {'script': p.script(), 'delivered': hit[0]},
                                    classes=semicolon_class(backend, st['options'], hit[0], p.global_link))
            if st['kind'] == 'link' and 'fwd' in st:
                bad += check_forwarded(rep, backend, p, st, argvs)
            if st['kind'] == 'compile' or (st['kind'] == 'link' and 'fwd' in st):
                bad += check_path_words(rep, backend, p, st, argvs, s.src)
            if st['kind'] == 'copy':
                bad += check_copy(rep, backend, p, st, recs, s)
    rep.traces += 1
    return bad


def check_forwarded(rep, backend, p, st, argvs):
    """The linker process of ONE target against what the script declares for exactly that target: the link options of the
    static libraries in the closure of its libs= (forwarded through libs= of static libraries) - every word of every such
    library, no word of any other library, none more often than there are declared paths to its library - and the archive of
    every library of the closure exactly once, no other."""
    outs = (st['out'], './' + st['out'])
    hit = [a for a in argvs if a and '-o' in a and a[-1] in outs]
    paths = projgen.fwd_closure(p.fwd_libs, st['fwd'])
    rep.case('sys:%s:fwd:%s:%r' % (backend, st['out'], st['fwd']), True)
    rep.count('system:forwarded link options: consumer lists %d, closure %d' % (len(st['fwd']), len(paths)))
    if len(hit) != 1:
        return rep.fail('%s backend: the link step of %s is started %d times' % (backend, st['out'], len(hit)),
                        {'script': p.script(), 'step': st, 'delivered': hit})
    got = collections.Counter(w for w in hit[0] if w.startswith('-Wl,--defsym=fw'))
    lo = collections.Counter(w for k in paths for w in p.fwd_libs[k]['words'])
    hi = collections.Counter({w: paths[k] for k in paths for w in p.fwd_libs[k]['words']})
    archives = sorted(w[2:] if w.startswith('./') else w for w in hit[0] if re.match(r'(\./)?libfw\d+\.a$', w))
    want_archives = sorted(p.fwd_libs[k]['file'] for k in paths)
    problems = []
    if set(got) - set(lo):
        problems.append('words of libraries the target does not link: %r' % sorted(set(got) - set(lo)))
    if set(lo) - set(got):
        problems.append('declared words missing: %r' % sorted(set(lo) - set(got)))
    if any(got[w] > hi[w] for w in got if w in hi):
        problems.append('words repeated: %r' % {w: got[w] for w in got if w in hi and got[w] > hi[w]})
    if archives != want_archives:
        problems.append('archives %r, declared closure %r' % (archives, want_archives))
    if problems:
        return rep.fail('%s backend: the linker of %s (libs= %r, declared closure %r) receives %r: %s' % (
            backend, st['out'], [p.fwd_libs[k]['var'] for k in st['fwd']], sorted(p.fwd_libs[k]['var'] for k in paths), hit[0], '; '.join(problems)),
            {'script': p.script(), 'step': st, 'forwarding_libraries': p.fwd_libs, 'delivered': hit[0], 'problems': problems},
            classes=semicolon_class(backend, st['options'], hit[0], p.global_link))
    return 0


def check_path_words(rep, backend, p, st, argvs, srcdir):
    """Flag words made of a flag and a PATH (include directory, library directory, string joined with a file): the process
    receives the flag followed by the absolute name of that source-tree entry, whatever characters the name has."""
    if st['kind'] == 'compile':
        src = os.path.join(srcdir, st['source'])
        hit = [a for a in argvs if src in a]
        pairs = list(p.global_path_compile) + list(st.get('path_words') or [])
    else:
        outs = (st['out'], './' + st['out'])
        hit = [a for a in argvs if a and '-o' in a and a[-1] in outs]
        pairs = list(p.global_path_link) + list(st.get('path_words') or [])
    if not pairs:
        return 0
    want = [flag + os.path.join(srcdir, rel) for flag, rel in pairs]
    rep.case('sys:%s:pathflags:%s:%r' % (backend, st.get('source') or st['out'], pairs), True)
    for c in set(''.join(rel for _, rel in pairs)) | set(os.path.basename(srcdir)):
        if not c.isalnum() and c not in '/._':
            rep.count('system:path-valued flag words with %r' % c)
    if not hit:
        if backend == 'make' and st['kind'] == 'compile':
            return 0          # not among the goals Make was asked for
        return rep.fail('%s backend: no process for %s' % (backend, st.get('source') or st['out']), {'script': p.script(), 'step': st})
    missing = [w for w in want if w not in hit[0]]
    if missing:
        return rep.fail('%s backend: path-valued flag words %r of %s are delivered as %r' % (backend, missing, st.get('source') or st['out'], hit[0]),
                        {'script': p.script(), 'srcdir': srcdir, 'declared_words': want, 'missing': missing, 'delivered': hit[0]},
                        # (the words written behind the step's own options on its target-specific line belong to the line the open
                        # finding target-flag-semicolon is about)
                        # (the source directory arrives through $(srcdir), expanded after the line was cut: it is not text of the line)
                        classes=semicolon_class(backend, list(st['options']) + [flag + '/SRCDIR/' + rel for flag, rel in st.get('path_words_after_options', [])],
                                                [w.replace(srcdir, '/SRCDIR') for w in hit[0]], p.global_compile if st['kind'] == 'compile' else p.global_link))
    return 0


def check_copy(rep, backend, p, st, recs, s):
    """copy_file in every mode: the copying tool (recorded) is handed the input and the output. For a symbolic link the
    target is whatever the tool is handed, read FROM THE DIRECTORY OF THE LINK: it must name the input file - checked on the
    words (path arithmetic) and with the real ln and readlink -f in a mirror of the two directories."""
    import subprocess
    import shutil
    tool = {'copy': ['cp', '-f'], 'symlink': ['ln', '-sf'], 'hardlink': ['ln', '-f']}[st['mode']]
    outs = (st['out'], './' + st['out'])
    hit = [r for r in recs if r['argv'] and r['argv'][:len(tool)] == tool and r['argv'][-1] in outs]
    inp = os.path.join(s.src, st['src'][4:]) if st['src'].startswith('src:') else os.path.join(s.build, st['src'])
    rep.case('sys:%s:copy:%r' % (backend, st), st['mode'] == 'symlink')
    rep.count('system:copy_file mode=%s input %s' % (st['mode'], 'source tree' if st['src'].startswith('src:') else 'generated'))
    # finding make-symlink-input-double-quoted (repaired by c50ae92; the class no longer suppresses anything): the class applies when the tool receives exactly the words sh makes of
    # the intended word between two empty pairs of quotes
    known = ()
    if backend == 'make' and st['mode'] == 'symlink' and len(hit) == 1:
        intended = inp if st['src'].startswith('src:') else os.path.relpath(inp, os.path.dirname(os.path.join(s.build, st['out'])))
        pred = symlink_double_quote_predict(intended)
        if pred is not None and pred != [intended] and hit[0]['argv'] == tool + pred + [hit[0]['argv'][-1]]:
            known = ('make-symlink-input-double-quoted',)
    if len(hit) != 1 or len(hit[0]['argv']) != len(tool) + 2:
        return rep.fail('%s backend: copy_file(%r, %r, mode=%r) starts %r' % (backend, st['out'], st['src'], st['mode'], [r['argv'] for r in hit]),
                        {'script': p.script(), 'step': st, 'delivered': [r['argv'] for r in hit]}, classes=known)
    handed = hit[0]['argv'][-2]
    cwd = hit[0]['cwd'] or s.build
    linkdir = os.path.dirname(os.path.join(cwd, st['out']))
    base = linkdir if st['mode'] == 'symlink' else cwd
    denotes = os.path.normpath(os.path.join(base, handed))
    why = None
    if denotes != os.path.normpath(inp):
        why = 'read from %s it names %r' % ('the directory of the link' if st['mode'] == 'symlink' else 'the working directory', denotes)
    elif st['mode'] == 'symlink':
        # the real tools on a mirror below a scratch root: same relative layout of input, working directory and link
        root = common.scratch('lnk')
        try:
            m = lambda x: os.path.join(root, os.path.normpath(x).lstrip('/'))
            os.makedirs(os.path.dirname(m(inp)), exist_ok=True)
            os.makedirs(m(linkdir), exist_ok=True)
            open(m(inp), 'w').close()
            handed_m = m(handed) if os.path.isabs(handed) else handed
            pr = subprocess.run(['ln', '-sf', handed_m, hit[0]['argv'][-1]], cwd=m(cwd), capture_output=True, text=True)
            rl = subprocess.run(['readlink', '-f', os.path.join(m(cwd), st['out'])], capture_output=True, text=True)
            if pr.returncode != 0 or rl.stdout.rstrip('\n') != os.path.realpath(m(inp)):
                why = 'the real ln + readlink -f resolve the link to %r (%s)' % (rl.stdout.rstrip('\n').replace(root, ''), pr.stderr.strip()[:100])
        finally:
            shutil.rmtree(root, ignore_errors=True)
    if why:
        return rep.fail('%s backend: copy_file(%r, %r, mode=%r): the tool is handed %r for the input %r; %s' % (
            backend, st['out'], st['src'], st['mode'], handed, inp.replace(s.root, ''), why),
            {'script': p.script(), 'step': st, 'delivered': hit[0]['argv'], 'cwd': cwd.replace(s.root, ''), 'why': why}, classes=known)
    return 0


def symlink_explains(make_argv, declared_argv, subs):
    """make_argv is the symbolic-link copy declared_argv (ln -sf <target> <link>, both in the canonical spelling of `subs`) with
    the target the way the finding make-symlink-input-double-quoted (repaired by c50ae92; the class no longer suppresses anything) predicts - and that changes something"""
    a, b = tuple(make_argv), tuple(declared_argv)
    if a == b or a[:2] != ('ln', '-sf') or b[:2] != ('ln', '-sf') or len(b) != 4 or a[-1] != b[-1]:
        return False
    raw = b[2]
    for real, short in subs:
        raw = raw.replace(short, real)
    pred = symlink_double_quote_predict(raw)
    return pred is not None and tuple(canon(w, subs) for w in pred) == a[2:-1]


def symlink_double_quote_predict(word):
    """Finding make-symlink-input-double-quoted (repaired by c50ae92; a fixed entry suppresses nothing): the Make recipe of a symbolic-link copy is `$(SYMLINK) '$1' '$@'` and the
    call hands over $1 ALREADY shell-quoted whenever the word needs quoting (always for $(srcdir)/...), so sh reads
    ''word'' - the word unquoted between two empty strings. Returns the words the real sh makes of that (None when it
    cannot be predicted: a quote inside the word, sh fails)."""
    if "'" in word:
        return None
    return shtools.dash_words("''%s''" % word)
