"""C06, third emitter: the compilation database.  W-correspondence of Graph/CompDB.v with the real
backends/compdb/writer.py CompDB and the real handlers compdb_compile / compdb_link, the Make / Ninja command lines of
the same step (make_compile / make_link, ninja_compile / ninja_link), and a model-independent oracle: the arguments
the Make and the Ninja handler REGISTER for a step (tool, always flags, global + per-target flag variables, input,
depfile, output), stringified by the real CompDB, are the compile_commands.json entry of that step."""
import json
import logging
import random
from io import StringIO
from . import common, gen, projgen

COLOR = ('-fdiagnostics-color', '-fcolor-diagnostics')
DIRS = [('/s r/c$', '/b d'), ('/src', '/bu ild/x#y'), ("/s'q", '/b/c/d'), ('/a', '/b'), ('/~s/=x', '/b,d/e;f')]


# ----------------------------------------------------------------------------------------- encodings
def enc_path(p):
    from bfg9000.path import Root
    r = {Root.srcdir: 0, Root.builddir: 1, Root.absolute: 2}[p.root]
    return [3, r, p.suffix]


def enc_arg(a):
    """a typed argument -> list of bits [0 s] literal, [1 s] shell_literal, [2 s] str, [3 root sfx] path"""
    from bfg9000 import safe_str, path
    a = safe_str.safe_str(a)
    bits = a.bits if isinstance(a, safe_str.jbos) else [a]
    out = []
    for b in bits:
        if isinstance(b, safe_str.literal):
            out.append([0, b.string])
        elif isinstance(b, safe_str.shell_literal):
            out.append([1, b.string])
        elif isinstance(b, str):
            out.append([2, b])
        elif isinstance(b, path.BasePath):
            out.append(enc_path(b))
        else:
            raise TypeError(type(b))
    return out


def enc_result(x):
    """what _stringify returned -> list of result bits (the empty str is the empty list)"""
    from bfg9000 import safe_str
    bits = x.bits if isinstance(x, safe_str.jbos) else [x]
    out = []
    for b in bits:
        if isinstance(b, safe_str.literal):
            out.append([0, b.string])
        elif isinstance(b, safe_str.shell_literal):
            out.append([1, b.string])
        elif isinstance(b, str):
            if b != '' or len(bits) > 1:
                out.append([2, b])
        else:
            out.append(['?', repr(b)])
    return out


def d_bits(raw):
    return [[b[0], common.d_str(b[1])] for b in raw]


def d_entry(raw):
    return [d_bits(raw[0]), [d_bits(a) for a in raw[1]], d_bits(raw[2]), d_bits(raw[3])]


def d_texts(raw):
    return [common.d_opt(common.d_str, t) for t in raw]


def real_entry(e):
    return [enc_result(e['directory']), [enc_result(a) for a in e['arguments']], enc_result(e['file']),
            enc_result(e['output'])]


# ----------------------------------------------------------------------------------------- environments
_ENVS = {}


def make_env(src, bld, backend):
    key = (src, bld, backend)
    if key not in _ENVS:
        from bfg9000.environment import Environment
        from bfg9000.path import abspath, InstallRoot
        env = Environment(abspath('/bfgdir'), backend, None, abspath(src, directory=True), abspath(bld, directory=True))
        env.finalize({InstallRoot.prefix: abspath('/prefix')}, (True, True), True)
        # flag variables of the configure environment (read when the builders are created): global flags and global libraries
        if len(_ENVS) % 3 != 2:
            env.variables.update({'CFLAGS': '-DENVC="e c" -O1', 'LDFLAGS': "-Wl,--as-needed '-L/e n v'", 'LDLIBS': '-lm -l:x\\ y.a',
                                  'CPPFLAGS': '-DCPP=a#b'})
        _ENVS[key] = env
    return _ENVS[key]


# ----------------------------------------------------------------------------------------- generators
def comp(rng, rep):
    """one path component: adversarial, but a component (no separator, not . or .., no leading ~, no drive)"""
    s = projgen.adversarial_arg(rng, rep).replace('/', '_').replace('\\', '_')
    if s in ('.', '..') or s.startswith('~') or (len(s) > 1 and s[1] == ':'):
        s = 'c' + s
    return s


def gen_path(rng, rep):
    from bfg9000.path import Path, Root
    root = rng.choice([Root.srcdir, Root.srcdir, Root.builddir, Root.builddir, Root.absolute])
    n = rng.choice([0, 1, 1, 2, 3]) if root != Root.absolute else rng.choice([1, 2, 3])
    sfx = '/'.join(comp(rng, rep) for _ in range(n))
    if root == Root.absolute:
        sfx = '/' + sfx
    rep.count('compdb:path root=%s depth=%d' % (root.name, n))
    try:
        return Path(sfx, root)
    except ValueError:          # a drive-like or otherwise rejected spelling (C12): not a path, not a case
        rep.count('compdb:path spelling rejected by Path()')
        return Path('/plain' if root == Root.absolute else 'plain', root)


def gen_arg(rng, rep):
    from bfg9000 import safe_str
    k = rng.random()
    if k < 0.30:
        return projgen.adversarial_arg(rng, rep)
    if k < 0.45:
        return gen_path(rng, rep)
    if k < 0.50:
        return ''
    if k < 0.56:
        return safe_str.literal(projgen.adversarial_arg(rng, rep))
    if k < 0.62:
        return safe_str.shell_literal(rng.choice(['>', '<', '&&', '|', projgen.adversarial_arg(rng, rep)]))
    # a jbos mix
    bits = []
    for _ in range(rng.randint(2, 4)):
        j = rng.random()
        bits.append(projgen.adversarial_arg(rng, rep) if j < 0.4 else gen_path(rng, rep) if j < 0.7 else '' if j < 0.75 else
                    safe_str.literal(rng.choice(['', '$(x)', projgen.adversarial_arg(rng, rep)])) if j < 0.87 else
                    safe_str.shell_literal(rng.choice(['', '=', projgen.adversarial_arg(rng, rep)])))
    rep.count('compdb:jbos of %d bits' % len(bits))
    return safe_str.jbos(*bits)


# ----------------------------------------------------------------------------------------- stage A: stringification
def stage_stringify(rep, rng, n):
    from bfg9000.backends.compdb.writer import CompDB
    from bfg9000.shell.list import shell_list
    import os
    from bfg9000 import safe_str
    from bfg9000.path import Path, Root, BasePath
    uw, us = gen.uni_tables()
    calls, impl = [], []
    # the root directories themselves (the paths with the empty suffix: an include directory that IS the source or the build
    # directory, as for a header generated at the top of the build directory) under every directory pair, alone and inside
    # a flag, next to ordinary members of the same root
    corner = []
    for src, bld in DIRS:
        for root in (Root.srcdir, Root.builddir):
            top = Path('', root)
            corner.append((src, bld, [top]))
            corner.append((src, bld, [safe_str.jbos('-I', top), '-c', Path('x.c', root), safe_str.jbos('-I', Path('sub', root)), top]))
        corner.append((src, bld, [Path('/', Root.absolute), safe_str.jbos('-I', Path('/', Root.absolute))]))
    bad_law = 0
    for i in range(n + len(corner)):
        if i < len(corner):
            src, bld, args = corner[i]
            only_plain = True
            rep.count('compdb:root directory itself as an argument')
        else:
            src, bld = rng.choice(DIRS)
            only_plain = rng.random() < 0.4
            args = [gen_arg(rng, rep) for _ in range(rng.randint(0, 5))]
        env = make_env(src, bld, 'make')
        db = CompDB(env)
        # ---- no model involved: what compile_commands.json calls a path is a non-empty name that, read in the entry's
        # directory (the build directory), denotes the file the path object denotes; for a member of the build directory
        # it is the relative name the Make and Ninja writers use (a single dot for the build directory itself)
        for pth in [b for a in args for b in (a.bits if isinstance(a, safe_str.jbos) else [a]) if isinstance(b, BasePath)]:
            got = db._stringify(pth, env.builddir)
            absolute = pth.string(env.base_dirs)
            want_rel = pth.realize({Root.srcdir: None, Root.builddir: None}) if pth.root == Root.builddir else None
            ok = isinstance(got, str) and got != '' and \
                os.path.normpath(os.path.join(bld, got)) == os.path.normpath(absolute) and (want_rel is None or got == want_rel)
            if not ok:
                bad_law += 1
                if bad_law <= 3:
                    rep.fail('compile_commands.json names the path %s:%r as %r (source directory %r, build directory %r = the directory of the '
                             'entry): the file is %r%s' % (pth.root.name, pth.suffix, got, src, bld, absolute,
                                                         '' if want_rel is None else ', Make and Ninja name it %r' % want_rel),
                             {'kind': 'compdb-path-name', 'root': pth.root.name, 'suffix': pth.suffix, 'compdb_string': got,
                              'srcdir': src, 'builddir': bld, 'denotes': absolute, 'make_ninja_name': want_rel})
        if only_plain:
            from bfg9000 import safe_str
            args = [a for a in args if not isinstance(a, (safe_str.literal_types, safe_str.jbos)) or
                    (isinstance(a, safe_str.jbos) and not any(isinstance(b, safe_str.literal_types) for b in a.bits))]
        enc = [enc_arg(a) for a in args]
        res = db._stringify_arguments(list(args), env.builddir)
        calls.append(('compdb.stringify_args', [src, bld, enc])); impl.append([enc_result(x) for x in res])
        try:
            js = json.loads(json.dumps(res))
        except TypeError:
            js = None
        calls.append(('compdb.arguments', [src, bld, enc])); impl.append(js)
        try:
            cmd = db._stringify_arguments(shell_list(args), env.builddir)
        except TypeError:
            cmd = None
        calls.append(('compdb.command', [uw, src, bld, enc])); impl.append(cmd)
        rep.count('compdb:arguments %s' % ('json-ok' if js is not None else 'not-json (literal object)'))
        rep.case('compdb-args:%r' % (enc,), any(len(a) > 1 or (a and a[0][0] == 3) for a in enc))
        if i < 2:
            rep.sample({'compdb_args': enc, 'dirs': [src, bld], 'arguments': js, 'command': cmd})

    def dec(name, raw):
        if name == 'compdb.stringify_args':
            return [d_bits(a) for a in raw]
        if name == 'compdb.arguments':
            return common.d_opt(lambda r: [common.d_str(x) for x in r], raw)
        return common.d_opt(common.d_str, raw)
    return common.compare_model(rep, 'W:compdb stringify (arguments and command form)', calls, impl, dec)


# ----------------------------------------------------------------------------------------- stage B: real handlers
def gen_project(rng, rep, ctx):
    """a small project through the real builtins: global options, include directories in both roots, per-target compile /
    link options with adversarial strings, a static and a shared library, executables using them"""
    ctx['project']('p')
    opt = lambda lo=0, hi=3: [('-D' if rng.random() < 0.7 else '-W') + projgen.adversarial_arg(rng, rep) for _ in range(rng.randint(lo, hi))]
    ctx['global_options'](opt(0, 2), lang='c')
    if rng.random() < 0.5:
        ctx['global_link_options'](['-Wl,' + projgen.adversarial_arg(rng, rep)])
    incs = []
    if rng.random() < 0.6:
        incs.append(ctx['header_directory'](comp(rng, rep)))
    if rng.random() < 0.3:
        from bfg9000.path import Path, Root
        incs.append(ctx['header_directory'](Path('gen ' + comp(rng, rep), Root.builddir)))
    sub = rng.choice(['', '', comp(rng, rep) + '/'])
    libs = []
    if rng.random() < 0.7:
        libs.append(ctx['static_library'](sub + 'st' + comp(rng, rep), files=['s1.c', sub + comp(rng, rep) + '.c'],
                                          compile_options=opt(), includes=incs[:1]))
    if rng.random() < 0.7:
        libs.append(ctx['shared_library']('sh' + comp(rng, rep), files=[comp(rng, rep) + '.c'], compile_options=opt(),
                                          link_options=['-Wl,' + projgen.adversarial_arg(rng, rep)] if rng.random() < 0.5 else []))
    for k in range(rng.randint(1, 2)):
        ctx['executable'](sub + 'prog%d' % k, files=['main%d.c' % k] + ([comp(rng, rep) + '.c'] if rng.random() < 0.5 else []),
                          libs=rng.sample(libs, rng.randint(0, len(libs))), includes=incs, compile_options=opt(),
                          link_options=[('-L' if rng.random() < 0.5 else '-Wl,') + projgen.adversarial_arg(rng, rep) for _ in range(rng.randint(0, 2))])


def split_always(flags):
    always = [f for f in flags if f not in COLOR]
    color = [f for f in flags if f in COLOR]
    assert always + color == list(flags), flags
    return always, color


def compile_step(rule, build):
    c = rule.compiler
    gopts = build['compile_options'][c.lang]
    always, color = split_always(c._always_flags)
    return [list(c.command), always, color,
            [enc_arg(x) for x in c.global_flags + c.flags(gopts, mode='global')], [enc_arg(x) for x in rule.flags(gopts)],
            enc_path(rule.file.path)[1:], rule.output[0].path.suffix, c.deps_flavor == 'gcc']


def link_step(rule, build):
    ln = rule.linker
    static = not hasattr(ln, 'libs_var')
    gopts = build['link_options'][rule.base_mode][ln.family]
    g = ln.global_flags + ln.flags(gopts, mode='global')
    t = rule.flags(gopts)
    gl = [] if static else ln.global_libs + ln.lib_flags(gopts, mode='global')
    tl = [] if static else rule.lib_flags(gopts)
    always = [] if static else list(ln._always_flags)
    ul = rule.user_libs[0].path if (not rule.files and getattr(rule, 'user_libs', None)) else rule.output[0].path
    return [static, list(ln.command), always, [enc_arg(x) for x in g], [enc_arg(x) for x in t], [enc_arg(x) for x in gl],
            [enc_arg(x) for x in tl], [enc_path(f.path)[1:] for f in rule.files], enc_path(ul)[1:], rule.output[0].path.suffix]


def expand_registered(value, global_values):
    """a registered variable value with references to the GLOBAL_ variable replaced by that variable's value"""
    out = []
    for x in value:
        hit = [k for k in global_values if type(x) is type(k) and x == k]
        if hit:
            out.extend(global_values[hit[0]])
        else:
            out.append(x)
    return out


def make_registration(mk, ms, tool_names, flag_names):
    """what the Make handler registered: tool value, {flag variable: effective typed list}, define body lines"""
    w = lambda: mk.writer(StringIO())
    cmdvars = dict(mk._global_variables[ms.Section.command])
    gl = dict(mk._global_variables[ms.Section.flags])
    tv = dict(mk._target_variables)
    rv = {}
    for r in mk._rules:
        if getattr(r, 'variables', None):
            rv.update(r.variables)
    eff, texts = {}, {}
    for fname in flag_names:
        v = ms.var(fname)
        gv = ms.var('GLOBAL_' + fname)
        val = rv.get(v, tv.get(v))
        val = val if isinstance(val, list) else [val]
        eff[fname] = expand_registered(val, {gv: gl[gv]})
        o = w(); mk._write_variable(o, gv, gl[gv]); tg = o.stream.getvalue()[len(gv.name) + 4:-1]
        o = w(); mk._write_variable(o, v, val); tt = o.stream.getvalue()[len(v.name) + 4:-1]
        texts[fname] = (tg, tt)
    tools = {}
    for tn in tool_names:
        o = w(); mk._write_variable(o, ms.var(tn), cmdvars[ms.var(tn)]); tools[tn] = o.stream.getvalue()[len(tn) + 4:-1]
    name, lines = mk._defines[-1]
    o = w(); o.write_shell(lines[0])
    return tools, eff, texts, o.stream.getvalue(), cmdvars


def ninja_registration(nf, ns, pshell, tool_names, flag_names, rule_name):
    w = lambda: nf.writer(StringIO(), shell=pshell)
    cmdvars = dict(nf._variables[ns.Section.command])
    gl = dict(nf._variables[ns.Section.flags])
    ot = dict(nf._variables[ns.Section.other])
    b = [x for x in nf._builds if x.rule == rule_name][-1]
    eff, texts = {}, {}
    for fname in flag_names:
        v, gv = ns.var(fname), ns.var('global_' + fname)
        val = b.variables.get(v, ot.get(v))
        val = val if isinstance(val, list) else [val]
        eff[fname] = expand_registered(val, {gv: gl[gv]})
        o = w(); nf._write_variable(o, gv, gl[gv]); tg = o.stream.getvalue()[len(gv.name) + 3:-1]
        o = w(); nf._write_variable(o, v, val, indent=1); tt = o.stream.getvalue()[len(v.name) + 5:-1]
        texts[fname] = (tg, tt)
    tools = {}
    for tn in tool_names:
        o = w(); nf._write_variable(o, ns.var(tn), cmdvars[ns.var(tn)]); tools[tn] = o.stream.getvalue()[len(tn) + 3:-1]
    o = w(); o.write_shell(nf._rules[rule_name].command)
    return tools, eff, texts, o.stream.getvalue(), cmdvars


def stage_handlers(rep, rng, n, tag='W:compdb handlers'):
    """Returns (disagreements, failures)."""
    from . import c14
    from bfg9000 import builtins as B
    B.init()
    from bfg9000.builtins import compile as bcompile, link as blink
    from bfg9000.backends.compdb.writer import CompDB
    from bfg9000.backends.make import syntax as ms, writer as make
    from bfg9000.backends.ninja import syntax as ns, writer as ninja
    from bfg9000.shell import posix as pshell
    logging.disable(logging.WARNING)
    uw, us = gen.uni_tables()
    calls, impl = [], []
    bad = 0
    for it in range(n):
        src, bld = rng.choice(DIRS)
        backend = rng.choice(['make', 'ninja'])
        env = make_env(src, bld, backend)
        build, ctx = c14.make_context(env)
        try:
            gen_project(rng, rep, ctx)
        except (ValueError, TypeError) as ex:
            rep.count('compdb:project rejected (%s)' % type(ex).__name__)
            continue
        db = CompDB(env)
        for e in build.edges():
            kind = type(e).__name__
            is_compile = isinstance(e, bcompile.CompileSource)
            is_link = isinstance(e, (blink.DynamicLink, blink.StaticLink))
            if not (is_compile or is_link):
                continue
            n0 = len(db._commands)
            (bcompile.compdb_compile if is_compile else blink.compdb_link)(e, build, db, env)
            entry = db._commands[n0]
            rep.count('compdb:%s backend=%s' % (kind, backend))
            tool = e.compiler if is_compile else e.linker
            cname = tool.command_var
            if is_compile:
                st = compile_step(e, build)
                fl = [tool.flags_var]
                calls.append(('compdb.entry_compile', [src, bld, backend == 'ninja', st])); impl.append(real_entry(entry))
            else:
                st = link_step(e, build)
                fl = [tool.flags_var] + ([] if st[0] else [tool.libs_var])
                calls.append(('compdb.entry_link', [src, bld, st])); impl.append(real_entry(entry))
            rep.case('compdb-entry:%s:%r' % (kind, st), True)
            # ---- the Make and the Ninja handler on the same edge (fresh files: the define / rule is written once per file)
            mk = ms.Makefile('build.bfg', False, gnu=True)
            nf = ns.NinjaFile('build.bfg')
            try:
                make.rule_handler.run([e], build, mk, env)
                ninja.rule_handler.run([e], build, nf, env)
            except ValueError as ex:
                if 'already exists' not in str(ex):
                    raise
                continue
            mtools, meff, mtexts, mbody, _ = make_registration(mk, ms, [cname.upper()], [f.upper() for f in fl])
            ntools, neff, ntexts, nbody, _ = ninja_registration(nf, ns, pshell, [cname], fl, tool.rule_name)
            F, Lb = fl[0], (fl[1] if len(fl) > 1 else None)
            if is_compile:
                # the harness runs both handlers in one environment: the Make handler then sees the always flags of that
                # environment (with the colour flag when it is a Ninja one)
                stm = list(st)
                stm[1], stm[2] = st[1] + st[2], []
                calls.append(('compdb.make_compile_texts', [uw, us, cname.upper(), 'GLOBAL_' + F.upper(), F.upper(), stm]))
                impl.append([mtools[cname.upper()], mtexts[F.upper()][0], mtexts[F.upper()][1], mbody])
                stn = list(st)
                if backend != 'ninja':
                    stn[2] = []
                calls.append(('compdb.ninja_compile_texts', [uw, cname, 'global_' + F, F, stn]))
                impl.append([ntools[cname], ntexts[F][0], ntexts[F][1], nbody])
            else:
                mt = [mtools[cname.upper()], mtexts[F.upper()][0], mtexts[F.upper()][1]]
                nt = [ntools[cname], ntexts[F][0], ntexts[F][1]]
                if Lb:
                    mt += [mtexts[Lb.upper()][0], mtexts[Lb.upper()][1]]
                    nt += [ntexts[Lb][0], ntexts[Lb][1]]
                LB = Lb or 'ldlibs'
                calls.append(('compdb.make_link_texts', [uw, us, cname.upper(), 'GLOBAL_' + F.upper(), F.upper(),
                                                         'GLOBAL_' + LB.upper(), LB.upper(), st]))
                impl.append(mt + [mbody])
                calls.append(('compdb.ninja_link_texts', [uw, cname, 'global_' + F, F, 'global_' + LB, LB, st]))
                impl.append(nt + [nbody])
            # ---- direct oracle, no model: the typed arguments the Make / Ninja handler registered, stringified by the
            # real CompDB, are the entry (the colour flag is Ninja's documented addition)
            got = [a for a in entry['arguments']]
            for bname, eff, up in (('make', meff, True), ('ninja', neff, False)):
                key = (lambda s: s.upper()) if up else (lambda s: s)
                if is_compile:
                    want = list(tool.command) + list(tool._always_flags) + eff[key(F)] + ['-c', e.file]
                    if tool.deps_flavor == 'gcc':
                        want += ['-MMD', '-MF', e.output[0].path.addext('.d')]
                    want += ['-o', e.output[0]]
                elif st[0]:
                    want = list(tool.command) + eff[key(F)] + [e.output[0]] + list(e.files)
                else:
                    want = list(tool.command) + list(tool._always_flags) + eff[key(F)] + list(e.files) + eff[key(Lb)] + \
                        ['-o', e.output[0]]
                want_s = [db._stringify(x, env.builddir) for x in want]
                if want_s != got and bad < 4:
                    bad += rep.fail('%s: compile_commands.json arguments %r differ from the arguments the %s handler registers %r' %
                                    (kind, got, bname, want_s),
                                    {'kind': 'compdb-vs-' + bname, 'edge': kind, 'output': e.output[0].path.suffix,
                                     'compdb_arguments': [str(x) if isinstance(x, str) else repr(x) for x in got],
                                     'registered_arguments': [str(x) if isinstance(x, str) else repr(x) for x in want_s],
                                     'step': st, 'dirs': [src, bld], 'backend': backend})
            if entry['directory'] != bld:
                bad += rep.fail('compile_commands.json directory %r is not the build directory %r' % (entry['directory'], bld),
                                {'kind': 'compdb-directory', 'entry_directory': entry['directory'], 'builddir': bld})
        if it < 2 and db._commands:
            rep.sample({'compdb_entry': {k: (v if isinstance(v, str) else [str(x) for x in v]) for k, v in db._commands[0].items()}})

    def dec(name, raw):
        if name.startswith('compdb.entry_'):
            return d_entry(raw)
        return d_texts(raw)
    dis = common.compare_model(rep, tag, calls, impl, dec)
    return dis, bad


def run_stages(rep, rng, thorough):
    """Returns (disagreements, failures)."""
    dis = stage_stringify(rep, random.Random(rng.random()), 1500 if thorough else 250)
    dis_h, bad = stage_handlers(rep, random.Random(rng.random()), 150 if thorough else 25)
    if (dis or dis_h) and not bad:
        _, bad = stage_handlers(rep, random.Random(rng.random()), 1000 if thorough else 250, tag='W:compdb handlers widened')
    return dis + dis_h, bad
